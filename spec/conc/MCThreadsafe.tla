---------------------------- MODULE MCThreadsafe ----------------------------
(* Model-checking instances of Threadsafe: work alphabets, fault choices.   *)
EXTENDS Threadsafe

CONSTANTS Works, FaultChoices(_)

T(out, gt, xt) == [kind |-> "test", out |-> out, gt |-> gt, xt |-> xt, st |-> 0, en |-> 0]
R(kind) == [kind |-> kind, out |-> None, gt |-> NoTags, xt |-> NoTags, st |-> 0, en |-> 0]
\* a test with explicit times from a tiny alphabet
Tm(s, e) == [kind |-> "test", out |-> "addSuccess", gt |-> NoTags, xt |-> NoTags, st |-> s, en |-> e]
Add(x) == [n |-> {x}, g |-> {}]
Del(x) == [n |-> {}, g |-> {x}]

SeqsUpTo(S, n) == UNION {[1..k -> S] : k \in 1..n}
SeqsOf(S, n) == [1..n -> S]

Plain  == T("addSuccess", NoTags, NoTags)
Tagged == T("addError", Add("g"), Add("x"))
Ungl   == T("addSuccess", Del("g"), NoTags)
TestTg == T("addError", NoTags, Add("x"))

\* quick: 2 threads x 1..2 items, one optional fault (in thread 1 - thread 2 is symmetric) at every call position
WorksQ == [1..2 -> SeqsUpTo({Tagged, R("stop")}, 2)]
\* tag scoping across the items of one thread, a run-level call; no faults
WorksR == [1..2 -> SeqsUpTo({Tagged, Ungl, TestTg, R("startTestRun")}, 2)]

\* the deviation of the code as it is (Variant = asCoded must violate BlockShape here): a tagged test whose block
\* faults, followed by another tagged test of the same thread
WorksC == { << <<TestTg, T("addSuccess", NoTags, Add("y"))>>, <<Plain>> >> }

\* shouldStop polled by one thread while stop() is forwarded by another
WorksS2 == [1..2 -> SeqsUpTo({R("stop"), R("shouldStop"), Plain}, 2)]

\* explicit times: back-to-back tests of a thread whose start time equals the previous end time (and equal start /
\* end), interleaved with another thread's blocks
WorksT == [1..2 -> SeqsUpTo({Tm(5, 7), Tm(7, 7), Tm(7, 5)}, 2)]

\* thorough: 3 threads x 3 items, 4 threads x 1 item, 2 threads x 3 items, every run-level kind
W33a == << <<Tagged, Plain, R("stop")>>, <<Plain, Ungl, TestTg>>, <<R("startTestRun"), Tagged, Plain>> >>
W33b == << <<Plain, Plain, Plain>>, <<Tagged, Tagged, Tagged>>, <<TestTg, R("done"), Ungl>> >>
Works33 == {W33a, W33b}
Works41 == [1..4 -> SeqsOf({Tagged, R("stop")}, 1)]
Works23 == [1..2 -> SeqsOf({Tagged, R("stop")}, 3)]
WorksK == [1..2 -> SeqsUpTo({Tagged} \cup {R(k) : k \in RunLevel}, 2)]

\* export instances (small: every behaviour is a separate path)
W21 == << <<Tagged>>, <<Plain>> >>
W21r == << <<R("stop")>>, <<Tagged>> >>
W22 == << <<Tagged, Plain>>, <<R("startTestRun"), TestTg>> >>
WorksX1 == {W21, W21r}
WorksX2 == {W22}
W22q == << <<Plain, R("stop")>>, <<R("startTestRun"), TestTg>> >>
WorksX2q == {W22q}
\* deep random behaviours
WorksS == [1..3 -> SeqsUpTo({Tagged, Ungl, R("stop")}, 2)]

RECURSIVE MaxCalls(_)
MaxCalls(s) == IF s = <<>> THEN 0 ELSE (IF Head(s).kind = "test" THEN 7 ELSE 1) + MaxCalls(Tail(s))
Positions(w) == {<<t, k>> : t \in DOMAIN w, k \in 1..7 * 3} \cap {p \in (DOMAIN w) \X (1..21) : p[2] <= MaxCalls(w[p[1]])}

FaultsNone(w) == {{}}
FaultsOne(w) == {{}} \cup {{p} : p \in Positions(w)}
FaultsOneT1(w) == {{}} \cup {{p} : p \in {x \in Positions(w) : x[1] = 1}}
FaultsFew(w) == {{}} \cup {{<<1, k>>} : k \in {2, 6, 7, 13}}
FaultsTwo(w) == FaultsOne(w) \cup {{p, q} : p, q \in Positions(w)}
\* export: a fault at the outcome, at startTest, at stopTest of thread 1's first test, or at a run-level call
FaultsX(w) == {{}, {<<1, 1>>}, {<<1, 2>>}, {<<2, 1>>}} \cup {{<<1, k>>} : k \in 5..7}
FaultsX2(w) == {{}, {<<1, 4>>}}

MCInit == \E w \in Works : \E fs \in FaultChoices(w) : InitWith(w, fs)
Spec == MCInit /\ [][Next]_vars
NextNoDone == \E t \in Threads : Step(t)
SimSpec == MCInit /\ [][NextNoDone]_vars
FairSpec == MCInit /\ [][Next]_vars /\ Fairness
=============================================================================
