------------------------ MODULE ConcStreamSuiteTrace ------------------------
(***************************************************************************)
(* Trace validation for ConcStreamSuite: executions of the REAL            *)
(* ConcurrentStreamTestSuite.run under harness/sched.py, one event per     *)
(* scheduler step:                                                         *)
(*   [thr, act, m (the queue message put / got), fwd, e (the event the     *)
(*    caller's result received), alive, started, qlen, told, main, prop,   *)
(*    ran, abort]                                                          *)
(***************************************************************************)
EXTENDS ConcStreamSuite

CONSTANT Strict
VARIABLES tid, l
tvars == <<script, makeFault, intrAt, cfault, mpc, cause, propagated, wpc, wk, queue, threads, clog, emitted,
           runBy, told, abortAlive, ngets, nstatus, hist, tid, l>>

Traces == JsonDeserialize(IOEnv.TRACE_FILE)
SetOf(s) == {s[i] : i \in DOMAIN s}
ScriptOf(tr) == [w \in DOMAIN tr.script |-> [tests |-> tr.script[w].tests, raises |-> tr.script[w].raises,
                                              route |-> tr.script[w].route]]

TraceInit ==
    \E n \in DOMAIN Traces :
        /\ tid = n /\ l = 0
        /\ InitWith(ScriptOf(Traces[n]), Traces[n].makeFault, Traces[n].intrAt, Traces[n].cfault)

Ev == Traces[tid].ev[l + 1]
MsgOf(x) == Msg(x.kind, x.w, x.id, x.st, x.sub, x.code)
CEntryOf(x) == [w |-> x.w, id |-> x.id, st |-> x.st, code |-> x.code, sub |-> x.sub, ts |-> x.ts]
Status(p) == IF p \in {"returned", "raised"} THEN p ELSE "run"

StrictStep ==
    LET e == Ev IN
    /\ IF e.thr = Main
       THEN CASE e.act = "begin" -> MBegin
              [] e.act = "start" -> MSpawn
              [] e.act = "get"   -> /\ MGet
                                    /\ (e.m.kind # None) => (queue # <<>> /\ Head(queue) = MsgOf(e.m))
                                    /\ e.fwd => (Len(clog') = Len(clog) + 1 /\ clog'[Len(clog')] = CEntryOf(e.e))
                                    /\ (~e.fwd) => clog' = clog
              [] e.act = "join"  -> MJoin
              [] OTHER -> FALSE
       ELSE /\ e.thr \in Workers
            /\ CASE e.act = "begin" -> WStart(e.thr)
                 [] e.act = "put"   -> WPut(e.thr) /\ queue'[Len(queue')] = MsgOf(e.m)
                 [] e.act = "exit" -> WExit(e.thr)
                 [] OTHER -> FALSE
    /\ Alive(wpc') = SetOf(e.alive)
    /\ told' = SetOf(e.told)
    /\ Len(queue') = e.qlen
    /\ Status(mpc'.pc) = e.main
    /\ propagated' = e.prop

LooseStep ==
    LET e == Ev IN
    /\ e.thr \in Workers \cup {Main}
    /\ clog' = IF e.fwd THEN Append(clog, CEntryOf(e.e)) ELSE clog
    /\ emitted' = IF e.act = "put" /\ e.m.kind = "status" /\ e.thr \in Workers
                  THEN [emitted EXCEPT ![e.thr] = Append(@, MsgOf(e.m))] ELSE emitted
    /\ wpc' = [w \in Workers |-> IF w \in SetOf(e.alive) THEN "put" ELSE IF w \in SetOf(e.started) THEN "done" ELSE "new"]
    /\ mpc' = PC(Status(e.main), 0)
    /\ runBy' = IF e.ran \in Workers THEN [runBy EXCEPT ![e.ran] = Append(@, e.thr)] ELSE runBy
    /\ told' = SetOf(e.told)
    /\ propagated' = e.prop
    /\ cause' = IF e.abort # None /\ cause = None THEN e.abort ELSE cause
    /\ abortAlive' = IF e.abort # None /\ cause = None THEN SetOf(e.alive) ELSE abortAlive
    /\ UNCHANGED <<script, makeFault, intrAt, cfault, wk, queue, threads, ngets, nstatus, hist>>

TraceNext ==
    /\ l < Len(Traces[tid].ev)
    /\ IF Strict THEN StrictStep ELSE LooseStep
    /\ l' = l + 1 /\ UNCHANGED tid

TraceSpec == TraceInit /\ [][TraceNext]_tvars

AtEnd == l = Len(Traces[tid].ev)
AcceptC ==
    /\ IOEnv.TRACE_PROGRESS = "1" => PrintT(<<"AT", tid, l>>)
    /\ AtEnd => PrintT(<<"ACCEPT", tid>>)

EndState == (AtEnd /\ Traces[tid].complete) => /\ mpc.pc \in {"returned", "raised"}
                                               /\ Alive(wpc) = {}
=============================================================================
