SPECIFICATION TraceSpec
CONSTANTS
  Record = FALSE
  Strict = TRUE
CONSTRAINT AcceptC
INVARIANT EachOnce
INVARIANT ReturnsAfterAll
INVARIANT OwnBlock
INVARIANT EventsOnceInOrder
INVARIANT OneAtATime
INVARIANT BrokenReported
INVARIANT AbortTellsAll
INVARIANT EndState
CHECK_DEADLOCK FALSE
