SPECIFICATION FairSpec
CONSTANTS
  Record = FALSE
  Scripts <- ScriptsB
  FaultChoices <- OneFault
  RouteChoices <- DistinctRoutes
PROPERTY Termination
INVARIANT EachOnce
INVARIANT ReturnsAfterAll
INVARIANT EventsOnceInOrder
INVARIANT StreamFields
INVARIANT BrokenReported
INVARIANT AbortTellsAll
CHECK_DEADLOCK TRUE
