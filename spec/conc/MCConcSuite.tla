----------------------------- MODULE MCConcSuite -----------------------------
(* Model-checking instances of ConcSuite: worker scripts and fault choices. *)
EXTENDS ConcSuite

CONSTANTS Scripts, FaultChoices(_)

S(tests, raises) == [tests |-> tests, raises |-> raises]
ok == "addSuccess"
er == "addError"

\* quick: 2 workers x <= 2 tests, run() may raise; one fault (make_tests raising after k, or an interrupt)
ScriptQ == {S(<<>>, FALSE), S(<<ok>>, FALSE), S(<<ok, er>>, FALSE), S(<<>>, TRUE), S(<<er>>, TRUE)}
ScriptsQ == [1..2 -> ScriptQ]
\* thorough: 3 workers, 1 worker with 3 tests, 4 small workers
ScriptT == {S(<<>>, FALSE), S(<<ok>>, FALSE), S(<<>>, TRUE)}
Scripts3 == [1..3 -> ScriptT \cup {S(<<ok, er>>, FALSE)}]
Scripts4 == [1..4 -> {S(<<>>, FALSE), S(<<ok>>, FALSE)}] \cup {<<S(<<ok>>, TRUE), S(<<>>, TRUE), S(<<>>, FALSE), S(<<er>>, FALSE)>>}
Scripts13 == [1..1 -> {S(<<ok, er, ok>>, FALSE), S(<<ok, er, ok>>, TRUE)}] \cup [1..2 -> {S(<<ok, er, ok>>, FALSE), S(<<ok>>, TRUE)}]
\* export instances
ScriptsX == { <<S(<<ok>>, FALSE)>>, <<S(<<>>, TRUE)>>, <<S(<<>>, FALSE), S(<<>>, FALSE)>> }
\* deep random behaviours
ScriptsS == [1..3 -> ScriptQ] \cup [1..4 -> ScriptT]

NoFaults(s) == {<<NoFault, NoFault>>}
OneFault(s) == {<<NoFault, NoFault>>} \cup {<<k, NoFault>> : k \in 0..Len(s)} \cup {<<NoFault, j>> : j \in 0..Len(s)}
AnyFaults(s) == {<<k, j>> : k \in {NoFault} \cup (0..Len(s)), j \in {NoFault} \cup (0..Len(s))}

MCInit == \E s \in Scripts : \E f \in FaultChoices(s) : InitWith(s, f[1], f[2])
Spec == MCInit /\ [][Next]_vars
NextNoDone == MainStep \/ \E w \in Workers : WorkerStep(w)
SimSpec == MCInit /\ [][NextNoDone]_vars
FairSpec == MCInit /\ [][Next]_vars /\ Fairness
=============================================================================
