----------------------------- MODULE MCConcSuite -----------------------------
(* Model-checking instances of ConcSuite: worker scripts and fault choices. *)
EXTENDS ConcSuite

CONSTANTS Scripts, FaultChoices(_)

S(tests, raises) == [tests |-> tests, raises |-> raises, tfault |-> 0]
SF(tests, raises, tf) == [tests |-> tests, raises |-> raises, tfault |-> tf]
tm == "timed"
ok == "addSuccess"
er == "addError"

\* quick: 2 workers x <= 2 tests, run() may raise; one fault (make_tests raising after k, or an interrupt)
ScriptQ == {S(<<ok>>, "base"), S(<<>>, "no"), S(<<ok, er>>, "no"), S(<<>>, "exc")}
ScriptsQ == [1..2 -> ScriptQ]
\* overlapping timed tests (each worker's block must carry its own times and tag), the caller's result raising at
\* startTest of a test
ScriptsTm == [1..2 -> {S(<<tm>>, "no"), S(<<tm, ok>>, "exc"), SF(<<tm, ok>>, "no", 1), SF(<<ok, tm>>, "no", 1)}]
FaultsTm(s) == {<<NoFault, NoFault>>, <<NoFault, 1>>}
\* thorough: 3 workers, 1 worker with 3 tests, 4 small workers
ScriptT == {S(<<>>, "no"), S(<<ok>>, "no"), S(<<>>, "exc")}
Scripts3 == [1..3 -> ScriptT]
Special3 == { <<S(<<ok>>, "no"), S(<<>>, "exc"), S(<<>>, "no")>>, <<S(<<>>, "no"), S(<<ok>>, "no"), S(<<ok>>, "no")>> }
Scripts4 == { <<S(<<>>, "no"), S(<<>>, "no"), S(<<>>, "no"), S(<<>>, "no")>>, <<S(<<>>, "no"), S(<<>>, "no"), S(<<>>, "no"), S(<<ok>>, "no")>>,
              <<S(<<ok>>, "no"), S(<<>>, "exc"), S(<<>>, "no"), S(<<ok>>, "no")>> }
Scripts13 == [1..1 -> {S(<<ok, er, ok>>, "no"), S(<<ok, er, ok>>, "exc")}] \cup { <<S(<<ok, er, ok>>, "no"), S(<<>>, "exc")>> }
\* export instances
ScriptsXq == { <<S(<<ok>>, "exc")>>, <<S(<<>>, "no"), S(<<>>, "no")>> }
ScriptsX == { <<S(<<ok>>, "no")>>, <<S(<<>>, "no"), S(<<>>, "no")>> }
\* deep random behaviours
ScriptsS == [1..3 -> ScriptQ \cup {S(<<tm>>, "no"), SF(<<ok>>, "no", 1)}] \cup [1..4 -> ScriptT]

NoFaults(s) == {<<NoFault, NoFault>>}
OneFault(s) == {<<NoFault, NoFault>>} \cup {<<k, NoFault>> : k \in 0..Len(s)} \cup {<<NoFault, j>> : j \in 0..Len(s)}
ExpFaults(s) == {<<NoFault, NoFault>>, <<Len(s), NoFault>>, <<NoFault, 1>>}
ExpFaultsQ(s) == IF Len(s) = 1 THEN ExpFaults(s) ELSE {<<NoFault, NoFault>>}
Faults3(s) == IF s \in Special3 THEN OneFault(s) ELSE NoFaults(s)
Faults4(s) == IF s[4].tests = <<>> THEN OneFault(s) ELSE NoFaults(s)
AnyFaults(s) == {<<k, j>> : k \in {NoFault} \cup (0..Len(s)), j \in {NoFault} \cup (0..Len(s))}

MCInit == \E s \in Scripts : \E f \in FaultChoices(s) : InitWith(s, f[1], f[2])
Spec == MCInit /\ [][Next]_vars
NextNoDone == MainStep \/ \E w \in Workers : WorkerStep(w)
SimSpec == MCInit /\ [][NextNoDone]_vars
FairSpec == MCInit /\ [][Next]_vars /\ Fairness
=============================================================================
