SPECIFICATION TraceSpec
CONSTANTS
  Record = FALSE
  Strict = TRUE
CONSTRAINT AcceptC
INVARIANT HolderOnly
INVARIANT Contiguous
INVARIANT OnceInOrder
INVARIANT Released
INVARIANT ReleasedCount
INVARIANT FaultsSurface
INVARIANT ShouldStopReads
INVARIANT EndState
CHECK_DEADLOCK FALSE
