SPECIFICATION SimSpec
CONSTANTS
  Record = TRUE
  Works <- WorksS
  FaultChoices <- FaultsOne
CONSTRAINT ExportC
INVARIANT TypeOK
INVARIANT HolderOnly
INVARIANT Contiguous
INVARIANT OnceInOrder
INVARIANT Released
INVARIANT FaultsSurface
INVARIANT ShouldStopReads
CHECK_DEADLOCK FALSE
