SPECIFICATION Spec
CONSTANTS
  Record = TRUE
  Works <- WorksS
  FaultChoices <- FaultsTwo
CONSTRAINT ExportC
INVARIANT TypeOK
INVARIANT HolderOnly
INVARIANT Contiguous
INVARIANT BlockShape
INVARIANT OnceInOrder
INVARIANT Released
INVARIANT FaultsSurface
CHECK_DEADLOCK TRUE
