------------------------------ MODULE ConcSuite ------------------------------
(***************************************************************************)
(* ConcurrentTestSuite.run (testtools/testsuite.py:65-110).                *)
(*                                                                         *)
(* Main thread (thread 0):                                                 *)
(*   MBegin     make_tests(), Queue(), Semaphore(1), first next(tests)     *)
(*   MSpawn     Thread.start() of worker w, then next(tests): another      *)
(*              sub-suite, exhaustion, or the iterator raises (makeFault)  *)
(*   MGet       blocking queue.get() - or KeyboardInterrupt delivered      *)
(*              there (intrAt)                                             *)
(*   MJoin      Thread.join(); del threads[w]; return when none is left    *)
(*   abort path `except: for ... process_result.stop(); raise`:            *)
(*   MStopAcq, MStopCall, MStopRel  per worker still in the dict (stop()   *)
(*              on a ThreadsafeForwardingResult = acquire, target.stop(),  *)
(*              release), then the original exception propagates           *)
(* Worker w (runs sub-suite w with its own ThreadsafeForwardingResult):    *)
(*   WStart     thread begins: test.run(process_result)                    *)
(*   WAcquire, WCall (one call on the caller's result), WRelease           *)
(*              per reported test - the block of C12, call by call;        *)
(*              run() raising => the block of ErrorHolder('broken-runner') *)
(*   WPut       queue.put(test) in the `finally`                           *)
(*   WExit      the thread ends (only now join() can return)               *)
(* raises = exc: run() raises an Exception after its tests (broken runner); *)
(* raises = base: it raises a BaseException - not reported, put still made  *)
(*                                                                         *)
(* The meaning of C13 is written over what the caller's result saw         *)
(* (`clog`), which threads are alive, who ran what, who was told to stop.  *)
(***************************************************************************)
EXTENDS Naturals, Sequences, FiniteSets, TLC, Json, SequencesExt

CONSTANTS Record

Main == 0
Free == 99
None == "none"
NoFault == 99
Calls == <<"time", "startTest", "time", "outcome", "stopTest">>
Broken == 9                       \* index of the 'broken-runner' pseudo test of a worker
Id(w, i) == 100 * w + 10 * i

VARIABLES
    script,      \* frozen: sequence (per sub-suite/worker) of [tests: Seq(outcome name | "timed"), raises: no | exc | base,
                 \*   tfault: 0 or i: the caller's result raises at startTest of this worker's i-th test];
                 \*   "timed" = a test reported with explicit times id+1 / id+2 and the worker's own tag, with a pause
                 \*   between its startTest and its outcome (so that tests of different workers OVERLAP)
    makeFault,   \* frozen: NoFault or k: the make_tests iterator raises after yielding k sub-suites
    intrAt,      \* frozen: NoFault or j: the j-th (0-based) queue.get() call raises KeyboardInterrupt
    mpc,         \* main: [pc, w]  pc \in begin spawn get join sacq scall srel returned raised
    cause,       \* why run() is aborting: none | make | ki
    propagated,  \* the exception that left run(): none | make | ki
    wpc,         \* per worker: new ready mid acq call rel put exit done
    wi,          \* per worker: index of the test being reported (Broken = the broken-runner holder)
    wk,          \* per worker: next call of the block
    sem,         \* Free or the holder (Main or worker)
    queue,       \* completion queue: sequence of workers
    threads,     \* main's dict `threads` as a sequence of workers in insertion order
    clog,        \* the caller's result: sequence of [thr, call, v, h]
    runBy,       \* per sub-suite: sequence of the threads that entered its run()
    told,        \* workers on whose result stop() has been invoked
    abortAlive,  \* workers alive when the exception that aborts run() was raised
    ngets,       \* queue.get() calls made
    hist

vars == <<script, makeFault, intrAt, mpc, cause, propagated, wpc, wi, wk, sem, queue, threads, clog, runBy,
          told, abortAlive, ngets, hist>>

Workers == DOMAIN script
N == Len(script)
Alive(p) == {w \in DOMAIN p : p[w] \notin {"new", "done"}}
PC(p, w) == [pc |-> p, w |-> w]
Entry(t, c, v, h) == [thr |-> t, call |-> c, v |-> v, h |-> h]
NoEntry == Entry(0, None, 0, 0)

Log(t, act, e) ==
    hist' = IF Record
            THEN Append(hist, [thr |-> t, act |-> act, e |-> e, holder |-> sem', alive |-> Alive(wpc'),
                               queue |-> queue', told |-> told', main |-> mpc'.pc, prop |-> propagated'])
            ELSE hist

InitWith(s, mf, ia) ==
    /\ script = s /\ makeFault = mf /\ intrAt = ia
    /\ mpc = PC("begin", 0) /\ cause = None /\ propagated = None
    /\ wpc = [w \in DOMAIN s |-> "new"]
    /\ wi = [w \in DOMAIN s |-> 0] /\ wk = [w \in DOMAIN s |-> 0]
    /\ sem = Free /\ queue = <<>> /\ threads = <<>> /\ clog = <<>>
    /\ runBy = [w \in DOMAIN s |-> <<>>]
    /\ told = {} /\ abortAlive = {} /\ ngets = 0 /\ hist = <<>>

-----------------------------------------------------------------------------
(* main                                                                     *)

\* the `except:` clause is entered with exception c; thr = the dict at that moment
Abort(c, thr) ==
    /\ cause' = c
    /\ abortAlive' = Alive(wpc')
    /\ IF thr = <<>>
       THEN mpc' = PC("raised", 0) /\ propagated' = c /\ UNCHANGED told
       ELSE mpc' = PC("sacq", thr[1]) /\ told' = told \cup {thr[1]} /\ UNCHANGED propagated

\* next(tests) after k sub-suites have been started; thr = the dict now
AfterMake(k, thr) ==
    IF makeFault = k THEN Abort("make", thr)
    ELSE /\ UNCHANGED <<cause, propagated, told, abortAlive>>
         /\ mpc' = IF k < N THEN PC("spawn", k + 1) ELSE IF thr = <<>> THEN PC("returned", 0) ELSE PC("get", 0)

MBegin ==
    /\ mpc.pc = "begin"
    /\ UNCHANGED <<script, makeFault, intrAt, wpc, wi, wk, sem, queue, threads, clog, runBy, ngets>>
    /\ AfterMake(0, <<>>)
    /\ Log(Main, "begin", NoEntry)

MSpawn ==
    /\ mpc.pc = "spawn"
    /\ LET w == mpc.w IN
       /\ wpc' = [wpc EXCEPT ![w] = "ready"]
       /\ threads' = Append(threads, w)
       /\ UNCHANGED <<script, makeFault, intrAt, wi, wk, sem, queue, clog, runBy, ngets>>
       /\ AfterMake(w, threads')
    /\ Log(Main, "start", NoEntry)

MGet ==
    /\ mpc.pc = "get"
    /\ ngets' = ngets + 1
    /\ IF intrAt = ngets
       THEN /\ UNCHANGED <<queue, wpc>>
            /\ Abort("ki", threads)
       ELSE /\ queue # <<>>
            /\ queue' = Tail(queue)
            /\ mpc' = PC("join", Head(queue))
            /\ UNCHANGED <<cause, propagated, told, abortAlive, wpc>>
    /\ UNCHANGED <<script, makeFault, intrAt, wi, wk, sem, threads, clog, runBy>>
    /\ Log(Main, "get", NoEntry)

MJoin ==
    /\ mpc.pc = "join" /\ wpc[mpc.w] = "done"
    /\ threads' = SelectSeq(threads, LAMBDA x : x # mpc.w)
    /\ mpc' = IF threads' = <<>> THEN PC("returned", 0) ELSE PC("get", 0)
    /\ UNCHANGED <<script, makeFault, intrAt, cause, propagated, wpc, wi, wk, sem, queue, clog, runBy, told,
                   abortAlive, ngets>>
    /\ Log(Main, "join", NoEntry)

MStopAcq ==
    /\ mpc.pc = "sacq" /\ sem = Free
    /\ sem' = Main
    /\ mpc' = PC("scall", mpc.w)
    /\ UNCHANGED <<script, makeFault, intrAt, cause, propagated, wpc, wi, wk, queue, threads, clog, runBy, told,
                   abortAlive, ngets>>
    /\ Log(Main, "acquire", NoEntry)

MStopCall ==
    /\ mpc.pc = "scall"
    /\ clog' = Append(clog, Entry(Main, "stop", 0, sem))
    /\ mpc' = PC("srel", mpc.w)
    /\ UNCHANGED <<script, makeFault, intrAt, cause, propagated, wpc, wi, wk, sem, queue, threads, runBy, told,
                   abortAlive, ngets>>
    /\ Log(Main, "call", clog'[Len(clog')])

PosIn(s, x) == CHOOSE j \in DOMAIN s : s[j] = x

MStopRel ==
    /\ mpc.pc = "srel"
    /\ sem' = Free
    /\ LET j == PosIn(threads, mpc.w) IN
       IF j < Len(threads)
       THEN /\ mpc' = PC("sacq", threads[j + 1]) /\ told' = told \cup {threads[j + 1]}
            /\ UNCHANGED propagated
       ELSE /\ mpc' = PC("raised", 0) /\ propagated' = cause
            /\ UNCHANGED told
    /\ UNCHANGED <<script, makeFault, intrAt, cause, wpc, wi, wk, queue, threads, clog, runBy, abortAlive, ngets>>
    /\ Log(Main, "release", NoEntry)

-----------------------------------------------------------------------------
(* workers                                                                  *)

\* what worker w does after finishing item i-1: report test i, report the broken runner, or finish
Timed(w, i) == i # Broken /\ script[w].tests[i] = "timed"
NextOf(w, i) ==
    LET s == script[w] IN
    IF i <= Len(s.tests) THEN (IF s.tests[i] = "timed" THEN <<"mid", i>> ELSE <<"acq", i>>)
    ELSE IF s.raises = "exc" /\ i # Broken + 1 THEN <<"acq", Broken>>
    ELSE <<"put", 0>>
\* the block of test i has ended: the target raised in it (run() dies with that exception => broken runner), or on
NextAfter(w, i) == IF i # Broken /\ script[w].tfault = i THEN <<"acq", Broken>> ELSE NextOf(w, i + 1)

Goto(w, nx) == /\ wpc' = [wpc EXCEPT ![w] = nx[1]]
               /\ wi' = [wi EXCEPT ![w] = nx[2]]

WStart(w) ==
    /\ wpc[w] = "ready"
    /\ runBy' = [runBy EXCEPT ![w] = Append(@, w)]
    /\ Goto(w, NextOf(w, 1))
    /\ UNCHANGED <<script, makeFault, intrAt, mpc, cause, propagated, wk, sem, queue, threads, clog, told,
                   abortAlive, ngets>>
    /\ Log(w, "begin", NoEntry)

\* a timed test: time(start), startTest, tags(own) have been given to the worker's own result; now time(end) and
\* the outcome follow
WLocal(w) ==
    /\ wpc[w] = "mid"
    /\ wpc' = [wpc EXCEPT ![w] = "acq"]
    /\ UNCHANGED <<script, makeFault, intrAt, mpc, cause, propagated, wi, wk, sem, queue, threads, clog, runBy, told,
                   abortAlive, ngets>>
    /\ Log(w, "local", NoEntry)

WAcquire(w) ==
    /\ wpc[w] = "acq" /\ sem = Free
    /\ sem' = w
    /\ wpc' = [wpc EXCEPT ![w] = "call"]
    /\ wk' = [wk EXCEPT ![w] = 1]
    /\ UNCHANGED <<script, makeFault, intrAt, mpc, cause, propagated, wi, queue, threads, clog, runBy, told,
                   abortAlive, ngets>>
    /\ Log(w, "acquire", NoEntry)

OutcomeOf(w, i) == IF i = Broken THEN "addError" ELSE IF script[w].tests[i] = "timed" THEN "addSuccess" ELSE script[w].tests[i]
TimedCalls == <<"time", "startTest", "time", "tags", "outcome", "stopTest">>
CallsOf(w, i) == IF Timed(w, i) THEN TimedCalls ELSE Calls
\* The worker's result keeps the last explicit time it was given (TestResult.time): a test reported without times
\* - and the broken-runner holder - starts and ends at the end time of the last timed test the sub-suite reported
\* before it (0: none, the real clock).
RanUpTo(w) == IF script[w].tfault # 0 THEN script[w].tfault ELSE Len(script[w].tests)
RECURSIVE LastExp(_, _)
LastExp(w, j) == IF j = 0 THEN 0 ELSE IF script[w].tests[j] = "timed" THEN Id(w, j) + 2 ELSE LastExp(w, j - 1)
TimeOf(w, i, k) == IF Timed(w, i) THEN (IF k = 1 THEN Id(w, i) + 1 ELSE Id(w, i) + 2)
                   ELSE IF i = Broken THEN LastExp(w, RanUpTo(w)) ELSE LastExp(w, i - 1)
CallEntry(w, i, k, h) ==
    LET c == CallsOf(w, i)[k] IN
    Entry(w, IF c = "outcome" THEN OutcomeOf(w, i) ELSE c,
          IF c = "time" THEN TimeOf(w, i, k) ELSE IF c = "tags" THEN w ELSE Id(w, i), h)
\* the caller's result raises at this call (startTest of the scripted test)
FaultAt(w, i, k) == i # Broken /\ script[w].tfault = i /\ CallsOf(w, i)[k] = "startTest"

WCall(w) ==
    /\ wpc[w] = "call"
    /\ clog' = Append(clog, CallEntry(w, wi[w], wk[w], sem))
    \* a raise before the outcome skips the rest of the block; the semaphore is released all the same
    /\ IF wk[w] = Len(CallsOf(w, wi[w])) \/ FaultAt(w, wi[w], wk[w])
       THEN wpc' = [wpc EXCEPT ![w] = "rel"] /\ UNCHANGED wk
       ELSE wk' = [wk EXCEPT ![w] = @ + 1] /\ UNCHANGED wpc
    /\ UNCHANGED <<script, makeFault, intrAt, mpc, cause, propagated, wi, sem, queue, threads, runBy, told,
                   abortAlive, ngets>>
    /\ Log(w, "call", clog'[Len(clog')])

WRelease(w) ==
    /\ wpc[w] = "rel"
    /\ sem' = Free
    /\ Goto(w, NextAfter(w, wi[w]))
    /\ UNCHANGED <<script, makeFault, intrAt, mpc, cause, propagated, wk, queue, threads, clog, runBy, told,
                   abortAlive, ngets>>
    /\ Log(w, "release", NoEntry)

WPut(w) ==
    /\ wpc[w] = "put"
    /\ queue' = Append(queue, w)
    /\ wpc' = [wpc EXCEPT ![w] = "exit"]
    /\ UNCHANGED <<script, makeFault, intrAt, mpc, cause, propagated, wi, wk, sem, threads, clog, runBy, told,
                   abortAlive, ngets>>
    /\ Log(w, "put", NoEntry)

WExit(w) ==
    /\ wpc[w] = "exit"
    /\ wpc' = [wpc EXCEPT ![w] = "done"]
    /\ UNCHANGED <<script, makeFault, intrAt, mpc, cause, propagated, wi, wk, sem, queue, threads, clog, runBy, told,
                   abortAlive, ngets>>
    /\ Log(w, "exit", NoEntry)

DoWStart   == \E w \in Workers : WStart(w)
DoWLocal   == \E w \in Workers : WLocal(w)
DoWAcquire == \E w \in Workers : WAcquire(w)
DoWCall    == \E w \in Workers : WCall(w)
DoWRelease == \E w \in Workers : WRelease(w)
DoWPut     == \E w \in Workers : WPut(w)
DoWExit    == \E w \in Workers : WExit(w)

MainStep == MBegin \/ MSpawn \/ MGet \/ MJoin \/ MStopAcq \/ MStopCall \/ MStopRel
WorkerStep(w) == WStart(w) \/ WLocal(w) \/ WAcquire(w) \/ WCall(w) \/ WRelease(w) \/ WPut(w) \/ WExit(w)

Terminal == mpc.pc \in {"returned", "raised"} /\ Alive(wpc) = {}
Done == Terminal /\ UNCHANGED vars

Next == MBegin \/ MSpawn \/ MGet \/ MJoin \/ MStopAcq \/ MStopCall \/ MStopRel
        \/ DoWStart \/ DoWLocal \/ DoWAcquire \/ DoWCall \/ DoWRelease \/ DoWPut \/ DoWExit \/ Done

Fairness == WF_vars(MainStep) /\ \A w \in 1..4 : WF_vars(w \in Workers /\ WorkerStep(w))

-----------------------------------------------------------------------------
(* MEANING of C13 (TestResult variant)                                      *)

\* each sub-suite is run at most once, by its own thread; exactly once when run() returns
EachOnce ==
    /\ \A s \in Workers : Len(runBy[s]) <= 1 /\ \A j \in DOMAIN runBy[s] : runBy[s][j] # Main
    /\ \A s1, s2 \in Workers : (s1 # s2 /\ runBy[s1] # <<>> /\ runBy[s2] # <<>>) => runBy[s1][1] # runBy[s2][1]
    /\ mpc.pc = "returned" => \A s \in Workers : Len(runBy[s]) = 1

\* run() returns only after every worker has finished
ReturnsAfterAll == mpc.pc = "returned" => Alive(wpc) = {} /\ \A w \in Workers : wpc[w] = "done"

\* what worker w is scripted to report, as calls on the caller's result
RECURSIVE BlocksFrom(_, _)
BlockOf(w, i) == [k \in DOMAIN CallsOf(w, i) |-> LET e == CallEntry(w, i, k, 0) IN <<e.call, e.v>>]
BlocksFrom(w, i) ==
    IF i <= Len(script[w].tests)
    THEN IF script[w].tfault = i
         \* the caller's result raised at startTest: the block stops there, run() is over, the runner is broken
         THEN SubSeq(BlockOf(w, i), 1, 2) \o BlockOf(w, Broken)
         ELSE BlockOf(w, i) \o BlocksFrom(w, i + 1)
    ELSE IF script[w].raises = "exc" THEN BlockOf(w, Broken) ELSE <<>>
Emitted(w) == BlocksFrom(w, 1)
Seen(w) == LET s == SelectSeq(clog, LAMBDA e : e.thr = w) IN [j \in DOMAIN s |-> <<s[j].call, s[j].v>>]

\* every event of a worker reaches the caller's result exactly once and in that worker's order
EventsOnceInOrder ==
    \A w \in Workers : /\ IsPrefix(Seen(w), Emitted(w))
                       /\ wpc[w] = "done" => Seen(w) = Emitted(w)

\* the caller's result sees one test at a time, every call made under the semaphore
About(e) == IF e.call \in {"time", "tags", "stop"} THEN 0 ELSE e.v
FaultedStart(e) == e.call = "startTest" /\ e.thr \in Workers /\ script[e.thr].tfault # 0
                   /\ e.v = Id(e.thr, script[e.thr].tfault)
OneAtATime ==
    /\ \A j \in DOMAIN clog : clog[j].h = clog[j].thr
    /\ \A i, k \in DOMAIN clog :
          (i < k /\ About(clog[i]) # 0 /\ About(clog[i]) = About(clog[k])) =>
              \A j \in (i + 1)..(k - 1) : clog[j].thr = clog[i].thr /\ About(clog[j]) \in {0, About(clog[i])}
    \* a block is opened by its time/startTest pair and closed by stopTest before another thread's call
    /\ \A j \in DOMAIN clog : (clog[j].call = "startTest") =>
          /\ j > 1 /\ clog[j - 1].call = "time" /\ clog[j - 1].thr = clog[j].thr
    /\ \A j \in DOMAIN clog : (j > 1 /\ clog[j].thr # clog[j - 1].thr) =>
          (clog[j - 1].call \in {"stopTest", "stop"} \/ FaultedStart(clog[j - 1]))

\* each worker reports through a result of its OWN: the block of a test carries that worker's own start and end
\* time and that worker's own tags - also when tests of different workers overlap (one worker's startTest between
\* another's startTest and its outcome)
OwnBlock ==
    /\ \A j \in DOMAIN clog : (clog[j].call = "time" /\ clog[j].v # 0) => clog[j].v \div 100 = clog[j].thr
    /\ \A j \in DOMAIN clog : clog[j].call = "tags" => clog[j].v = clog[j].thr
    /\ \A j \in DOMAIN clog :
          (clog[j].call = "startTest" /\ clog[j].thr \in Workers /\ clog[j].v # Id(clog[j].thr, Broken)
             /\ Timed(clog[j].thr, (clog[j].v % 100) \div 10)) =>
              /\ j > 1 /\ clog[j - 1].call = "time" /\ clog[j - 1].v = clog[j].v + 1
              /\ j < Len(clog) => (FaultedStart(clog[j]) \/ (clog[j + 1].call = "time" /\ clog[j + 1].v = clog[j].v + 2))

\* a sub-suite whose run() raises (an Exception - its own, or the caller's result raising inside it) is reported as an errored 'broken-runner' test
BrokenReported ==
    \A w \in Workers : ((script[w].raises = "exc" \/ script[w].tfault # 0) /\ wpc[w] = "done") =>
        \E j \in DOMAIN clog : clog[j].thr = w /\ clog[j].v = Id(w, Broken) /\ clog[j].call = "addError"

\* abort: every worker alive when the exception arrived has been told to stop, the exception propagates
AbortTellsAll ==
    /\ mpc.pc = "raised" => /\ cause # None /\ propagated = cause
                            /\ abortAlive \subseteq told
    /\ mpc.pc = "returned" => cause = None /\ propagated = None

Termination == <>[]Terminal

ExportC == Terminal => PrintT(<<"EXPORT", ToJson([script |-> script, makeFault |-> makeFault, intrAt |-> intrAt,
                                                  hist |-> hist])>>)
=============================================================================
