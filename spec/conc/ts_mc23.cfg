SPECIFICATION Spec
CONSTANTS
  Record = FALSE
  Works <- Works23
  FaultChoices <- FaultsFew

INVARIANT TypeOK
INVARIANT HolderOnly
INVARIANT Contiguous
INVARIANT BlockShape
INVARIANT OnceInOrder
INVARIANT Released
INVARIANT FaultsSurface
INVARIANT ShouldStopReads
CHECK_DEADLOCK TRUE
