SPECIFICATION Spec
CONSTANTS
  Record = FALSE
  Scripts <- Scripts4
  FaultChoices <- Faults4

INVARIANT EachOnce
INVARIANT ReturnsAfterAll
INVARIANT EventsOnceInOrder
INVARIANT OneAtATime
INVARIANT OwnBlock
INVARIANT BrokenReported
INVARIANT AbortTellsAll
CHECK_DEADLOCK TRUE
