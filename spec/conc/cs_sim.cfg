SPECIFICATION SimSpec
CONSTANTS
  Record = TRUE
  Scripts <- ScriptsS
  FaultChoices <- AnyFaults
CONSTRAINT ExportC
INVARIANT EachOnce
INVARIANT ReturnsAfterAll
INVARIANT EventsOnceInOrder
INVARIANT OneAtATime
INVARIANT OwnBlock
INVARIANT BrokenReported
INVARIANT AbortTellsAll
CHECK_DEADLOCK FALSE
