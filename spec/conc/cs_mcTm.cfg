SPECIFICATION FairSpec
CONSTANTS
  Record = FALSE
  Scripts <- ScriptsTm
  FaultChoices <- FaultsTm
PROPERTY Termination
INVARIANT EachOnce
INVARIANT ReturnsAfterAll
INVARIANT EventsOnceInOrder
INVARIANT OneAtATime
INVARIANT OwnBlock
INVARIANT BrokenReported
INVARIANT AbortTellsAll
CHECK_DEADLOCK TRUE
