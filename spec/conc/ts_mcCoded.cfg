SPECIFICATION Spec
CONSTANTS
  Record = FALSE
  Works <- WorksC
  FaultChoices <- FaultsOneT1
INVARIANT TypeOK
INVARIANT HolderOnly
INVARIANT Contiguous
INVARIANT BlockShape
INVARIANT OnceInOrder
INVARIANT Released
INVARIANT FaultsSurface
INVARIANT ShouldStopReads
CHECK_DEADLOCK TRUE
