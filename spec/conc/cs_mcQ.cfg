SPECIFICATION FairSpec
CONSTANTS
  Record = FALSE
  Scripts <- ScriptsQ
  FaultChoices <- OneFault
PROPERTY Termination
INVARIANT EachOnce
INVARIANT ReturnsAfterAll
INVARIANT EventsOnceInOrder
INVARIANT OneAtATime
INVARIANT OwnBlock
INVARIANT BrokenReported
INVARIANT AbortTellsAll
CHECK_DEADLOCK TRUE
