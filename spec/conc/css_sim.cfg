SPECIFICATION SimSpec
CONSTANTS
  Record = TRUE
  Scripts <- ScriptsS
  FaultChoices <- AnyFaults
  RouteChoices <- SimRoutes
CONSTRAINT ExportC
INVARIANT EachOnce
INVARIANT ReturnsAfterAll
INVARIANT EventsOnceInOrder
INVARIANT StreamFields
INVARIANT BrokenReported
INVARIANT AbortTellsAll
CHECK_DEADLOCK FALSE
