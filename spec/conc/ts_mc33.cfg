SPECIFICATION Spec
CONSTANTS
  Record = FALSE
  Works <- Works33
  FaultChoices <- FaultsNone

INVARIANT TypeOK
INVARIANT HolderOnly
INVARIANT Contiguous
INVARIANT BlockShape
INVARIANT OnceInOrder
INVARIANT Released
INVARIANT FaultsSurface
CHECK_DEADLOCK TRUE
