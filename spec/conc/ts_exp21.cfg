SPECIFICATION Spec
CONSTANTS
  Record = TRUE
  Works <- WorksX1
  FaultChoices <- FaultsX
CONSTRAINT ExportC
INVARIANT TypeOK
INVARIANT HolderOnly
INVARIANT Contiguous
INVARIANT OnceInOrder
INVARIANT Released
INVARIANT FaultsSurface
INVARIANT ShouldStopReads
CHECK_DEADLOCK TRUE
