--------------------------- MODULE ConcStreamSuite ---------------------------
(***************************************************************************)
(* ConcurrentStreamTestSuite.run (testtools/testsuite.py:129-195) with     *)
(* StreamToQueue / TimestampingStreamResult / ExtendedToStreamDecorator    *)
(* per worker (testtools/testresult/real.py).                              *)
(*                                                                         *)
(* Main thread (thread 0):                                                 *)
(*   MBegin   make_tests(), Queue(), first next(tests)                     *)
(*   MSpawn   Thread.start() of worker w, then next(tests)                 *)
(*   MGet     blocking queue.get() (or KeyboardInterrupt there) and the    *)
(*            dispatch of the message: status => result.status(event fields)    *)
(*            on the caller's result (which may raise: cfault);            *)
(*            stopTestRun => threads.pop(...), then join; startTestRun =>  *)
(*            nothing                                                      *)
(*   MJoin    Thread.join(); return when the dict is empty                 *)
(*   abort    `except:` every process_result still in the dict gets        *)
(*            stop(), the exception propagates (one step: no blocking op)  *)
(* Worker w:                                                               *)
(*   WStart   thread begins, process_result.startTestRun() reaches put     *)
(*   WPut     one queue.put: startTestRun, the status events of its tests  *)
(*            (or of the ErrorHolder "broken-runner-'route'" when run()    *)
(*            raises), stopTestRun in the `finally`                        *)
(*   WExit    the thread ends                                              *)
(***************************************************************************)
EXTENDS Naturals, Sequences, FiniteSets, TLC, Json, SequencesExt, IOUtils

CONSTANTS Record

\* number of traceback chunk events ExtendedToStreamDecorator emits for the ErrorHolder (measured by the
\* harness on the real code and passed in the environment: it depends on the traceback depth only)
NFile == CHOOSE n \in 0..9 : ToString(n) = IOEnv.C13_NFILE

Main == 0
None == "none"
NoFault == 99
Broken == 9
Id(w, i) == 100 * w + 10 * i

VARIABLES
    script,      \* frozen: per worker [tests: Seq("ok"|"er"|"raw"|"rawn"|"rawt"), raises: no | exc | base, route: a code or "none"];
                 \* route codes need NOT be distinct: make_tests may give several workers the same code (or None)
    makeFault,   \* frozen: NoFault or k: make_tests raises after yielding k sub-suites
    intrAt,      \* frozen: NoFault or j: the j-th (0-based) queue.get() raises KeyboardInterrupt
    cfault,      \* frozen: NoFault or n: the caller's result raises at its n-th (0-based) status() call
    mpc,         \* main: [pc, w]  pc \in begin spawn get join returned raised
    cause, propagated,
    wpc,         \* per worker: new ready put exit done
    wk,          \* per worker: index of the next message to put
    queue,       \* sequence of messages [kind, w, id, st, sub, code]
    threads,     \* the dict (keyed by the worker's own StreamToQueue object - never by route code), as a sequence of workers
    clog,        \* the caller's stream result: sequence of [w, id, st, code, sub, ts]; w = the worker the test id belongs to
    emitted,     \* per worker: the status messages it has put so far (history)
    runBy, told, abortAlive, ngets, nstatus, hist

vars == <<script, makeFault, intrAt, cfault, mpc, cause, propagated, wpc, wk, queue, threads, clog, emitted,
          runBy, told, abortAlive, ngets, nstatus, hist>>

Workers == DOMAIN script
N == Len(script)
Alive(p) == {w \in DOMAIN p : p[w] \notin {"new", "done"}}
PC(p, w) == [pc |-> p, w |-> w]
Msg(k, w, id, st, sub, code) == [kind |-> k, w |-> w, id |-> id, st |-> st, sub |-> sub, code |-> code]
NoMsg == Msg(None, 0, 0, None, FALSE, None)
\* a status event leaves StreamToQueue with that worker's route code (prefixing the event's own, `sub`)
StatusMsg(w, id, st, sub) == Msg("status", w, id, st, sub, script[w].route)
Ctl(k, w) == Msg(k, w, 0, None, FALSE, None)

\* the status events one scripted test produces through ExtendedToStreamDecorator (PlaceHolder.run) or directly
EventsOf(w, i, kind) ==
    CASE kind = "ok"  -> << StatusMsg(w, Id(w, i), "inprogress", FALSE), StatusMsg(w, Id(w, i), "success", FALSE) >>
      [] kind = "er"  -> << StatusMsg(w, Id(w, i), "inprogress", FALSE), StatusMsg(w, Id(w, i), "fail", FALSE) >>
      [] kind = "raw" -> << StatusMsg(w, Id(w, i), "success", TRUE) >>
      \* raw events that spell the timestamp keyword out: explicitly None (must still be stamped) / a real time
      [] kind = "rawn" -> << StatusMsg(w, Id(w, i), "success", FALSE) >>
      [] kind = "rawt" -> << StatusMsg(w, Id(w, i), "success", FALSE) >>
BrokenEvents(w) == << StatusMsg(w, Id(w, Broken), "inprogress", FALSE) >>
                   \o [j \in 1..NFile |-> StatusMsg(w, Id(w, Broken), "file", FALSE)]
                   \o << StatusMsg(w, Id(w, Broken), "fail", FALSE) >>
RECURSIVE TestEvents(_, _)
TestEvents(w, i) == IF i > Len(script[w].tests) THEN <<>>
                    ELSE EventsOf(w, i, script[w].tests[i]) \o TestEvents(w, i + 1)
Msgs(w) == << Ctl("startTestRun", w) >> \o TestEvents(w, 1)
           \o (IF script[w].raises = "exc" THEN BrokenEvents(w) ELSE <<>>)
           \o << Ctl("stopTestRun", w) >>

CEntry(m) == [w |-> m.w, id |-> m.id, st |-> m.st, code |-> m.code, sub |-> m.sub, ts |-> TRUE]
NoCEntry == [w |-> 0, id |-> 0, st |-> None, code |-> None, sub |-> FALSE, ts |-> FALSE]

Log(t, act, m, e) ==
    hist' = IF Record
            THEN Append(hist, [thr |-> t, act |-> act, m |-> m, e |-> e, alive |-> Alive(wpc'),
                               qlen |-> Len(queue'), told |-> told', main |-> mpc'.pc, prop |-> propagated'])
            ELSE hist

InitWith(s, mf, ia, cf) ==
    /\ script = s /\ makeFault = mf /\ intrAt = ia /\ cfault = cf
    /\ mpc = PC("begin", 0) /\ cause = None /\ propagated = None
    /\ wpc = [w \in DOMAIN s |-> "new"] /\ wk = [w \in DOMAIN s |-> 1]
    /\ queue = <<>> /\ threads = <<>> /\ clog = <<>>
    /\ emitted = [w \in DOMAIN s |-> <<>>]
    /\ runBy = [w \in DOMAIN s |-> <<>>]
    /\ told = {} /\ abortAlive = {} /\ ngets = 0 /\ nstatus = 0 /\ hist = <<>>

-----------------------------------------------------------------------------
SeqSet(s) == {s[j] : j \in DOMAIN s}

\* `except:` - stop() on every process_result in the dict, then re-raise; nothing here can block
Abort(c, thr) ==
    /\ cause' = c /\ propagated' = c
    /\ abortAlive' = Alive(wpc')
    /\ told' = told \cup SeqSet(thr)
    /\ mpc' = PC("raised", 0)

AfterMake(k, thr) ==
    IF makeFault = k THEN Abort("make", thr)
    ELSE /\ UNCHANGED <<cause, propagated, told, abortAlive>>
         /\ mpc' = IF k < N THEN PC("spawn", k + 1) ELSE IF thr = <<>> THEN PC("returned", 0) ELSE PC("get", 0)

MBegin ==
    /\ mpc.pc = "begin"
    /\ UNCHANGED <<script, makeFault, intrAt, cfault, wpc, wk, queue, threads, clog, emitted, runBy, ngets, nstatus>>
    /\ AfterMake(0, <<>>)
    /\ Log(Main, "begin", NoMsg, NoCEntry)

MSpawn ==
    /\ mpc.pc = "spawn"
    /\ wpc' = [wpc EXCEPT ![mpc.w] = "ready"]
    /\ threads' = Append(threads, mpc.w)
    /\ UNCHANGED <<script, makeFault, intrAt, cfault, wk, queue, clog, emitted, runBy, ngets, nstatus>>
    /\ AfterMake(mpc.w, threads')
    /\ Log(Main, "start", NoMsg, NoCEntry)

MGet ==
    /\ mpc.pc = "get"
    /\ ngets' = ngets + 1
    /\ UNCHANGED <<script, makeFault, intrAt, cfault, wpc, wk, emitted, runBy>>
    /\ IF intrAt = ngets
       THEN /\ UNCHANGED <<queue, clog, nstatus, threads>>
            /\ Abort("ki", threads)
            /\ Log(Main, "get", NoMsg, NoCEntry)
       ELSE /\ queue # <<>>
            /\ queue' = Tail(queue)
            /\ LET m == Head(queue) IN
               CASE m.kind = "status" ->
                      /\ nstatus' = nstatus + 1
                      /\ UNCHANGED threads
                      /\ IF cfault = nstatus
                         THEN UNCHANGED clog /\ Abort("cfault", threads)
                         ELSE /\ clog' = Append(clog, CEntry(m))
                              /\ mpc' = PC("get", 0)
                              /\ UNCHANGED <<cause, propagated, told, abortAlive>>
                      /\ Log(Main, "get", m, IF cfault = nstatus THEN NoCEntry ELSE CEntry(m))
                 [] m.kind = "stopTestRun" ->
                      /\ threads' = SelectSeq(threads, LAMBDA x : x # m.w)
                      /\ mpc' = PC("join", m.w)
                      /\ UNCHANGED <<clog, nstatus, cause, propagated, told, abortAlive>>
                      /\ Log(Main, "get", m, NoCEntry)
                 [] OTHER ->
                      /\ mpc' = PC("get", 0)
                      /\ UNCHANGED <<clog, nstatus, threads, cause, propagated, told, abortAlive>>
                      /\ Log(Main, "get", m, NoCEntry)

MJoin ==
    /\ mpc.pc = "join" /\ wpc[mpc.w] = "done"
    /\ mpc' = IF threads = <<>> THEN PC("returned", 0) ELSE PC("get", 0)
    /\ UNCHANGED <<script, makeFault, intrAt, cfault, cause, propagated, wpc, wk, queue, threads, clog, emitted,
                   runBy, told, abortAlive, ngets, nstatus>>
    /\ Log(Main, "join", NoMsg, NoCEntry)

-----------------------------------------------------------------------------
WStart(w) ==
    /\ wpc[w] = "ready"
    /\ wpc' = [wpc EXCEPT ![w] = "put"]
    /\ UNCHANGED <<script, makeFault, intrAt, cfault, mpc, cause, propagated, wk, queue, threads, clog, emitted,
                   runBy, told, abortAlive, ngets, nstatus>>
    /\ Log(w, "begin", NoMsg, NoCEntry)

WPut(w) ==
    /\ wpc[w] = "put"
    /\ LET m == Msgs(w)[wk[w]] IN
       /\ queue' = Append(queue, m)
       /\ emitted' = IF m.kind = "status" THEN [emitted EXCEPT ![w] = Append(@, m)] ELSE emitted
       \* after startTestRun has been put, test.run(process_result) is entered
       /\ runBy' = IF wk[w] = 1 THEN [runBy EXCEPT ![w] = Append(@, w)] ELSE runBy
       /\ wk' = [wk EXCEPT ![w] = @ + 1]
       /\ wpc' = [wpc EXCEPT ![w] = IF wk[w] = Len(Msgs(w)) THEN "exit" ELSE "put"]
       /\ UNCHANGED <<script, makeFault, intrAt, cfault, mpc, cause, propagated, threads, clog, told, abortAlive,
                      ngets, nstatus>>
       /\ Log(w, "put", m, NoCEntry)

WExit(w) ==
    /\ wpc[w] = "exit"
    /\ wpc' = [wpc EXCEPT ![w] = "done"]
    /\ UNCHANGED <<script, makeFault, intrAt, cfault, mpc, cause, propagated, wk, queue, threads, clog, emitted,
                   runBy, told, abortAlive, ngets, nstatus>>
    /\ Log(w, "exit", NoMsg, NoCEntry)

DoWStart == \E w \in Workers : WStart(w)
DoWPut   == \E w \in Workers : WPut(w)
DoWExit  == \E w \in Workers : WExit(w)
MainStep == MBegin \/ MSpawn \/ MGet \/ MJoin
WorkerStep(w) == WStart(w) \/ WPut(w) \/ WExit(w)

Terminal == mpc.pc \in {"returned", "raised"} /\ Alive(wpc) = {}
Done == Terminal /\ UNCHANGED vars
Next == MBegin \/ MSpawn \/ MGet \/ MJoin \/ DoWStart \/ DoWPut \/ DoWExit \/ Done
Fairness == WF_vars(MainStep) /\ \A w \in 1..4 : WF_vars(w \in Workers /\ WorkerStep(w))

-----------------------------------------------------------------------------
(* MEANING of C13 (stream variant)                                          *)

EachOnce ==
    /\ \A s \in Workers : Len(runBy[s]) <= 1 /\ \A j \in DOMAIN runBy[s] : runBy[s][j] # Main
    /\ \A s1, s2 \in Workers : (s1 # s2 /\ runBy[s1] # <<>> /\ runBy[s2] # <<>>) => runBy[s1][1] # runBy[s2][1]
    /\ mpc.pc = "returned" => \A s \in Workers : Len(runBy[s]) = 1

ReturnsAfterAll == mpc.pc = "returned" => \A w \in Workers : wpc[w] = "done"

Seen(w) == LET s == SelectSeq(clog, LAMBDA e : e.w = w) IN [j \in DOMAIN s |-> <<s[j].id, s[j].st>>]
Put(w) == [j \in DOMAIN emitted[w] |-> <<emitted[w][j].id, emitted[w][j].st>>]

\* every event a worker emits reaches the caller's result exactly once and in that worker's order
EventsOnceInOrder ==
    /\ \A j \in DOMAIN clog : clog[j].w \in Workers
    /\ \A w \in Workers : /\ IsPrefix(Seen(w), Put(w))
                          /\ mpc.pc = "returned" => Seen(w) = Put(w)

\* forwarded events carry the route code of the worker they come from (prefixing the event's own) and a
\* timestamp; the codes of different workers may coincide - events are attributed by test id, not by code
StreamFields ==
    \A j \in DOMAIN clog :
        LET e == clog[j]
            src == {k \in DOMAIN emitted[e.w] : emitted[e.w][k].id = e.id}
        IN /\ e.ts
           /\ src # {}
           /\ e.code = script[e.w].route
           /\ e.sub = emitted[e.w][CHOOSE k \in src : TRUE].sub

\* a sub-suite whose run() raises is reported as a failed "broken-runner-'route'" test
BrokenReported ==
    \A w \in Workers : (script[w].raises = "exc" /\ mpc.pc = "returned") =>
        \E j \in DOMAIN clog : clog[j].w = w /\ clog[j].id = Id(w, Broken) /\ clog[j].st = "fail"

AbortTellsAll ==
    /\ mpc.pc = "raised" => /\ cause # None /\ propagated = cause
                            /\ abortAlive \subseteq told
    /\ mpc.pc = "returned" => cause = None /\ propagated = None

Termination == <>[]Terminal

ExportC == Terminal => PrintT(<<"EXPORT", ToJson([script |-> script, makeFault |-> makeFault, intrAt |-> intrAt,
                                                  cfault |-> cfault, hist |-> hist])>>)
=============================================================================
