---------------------------- MODULE SemaphoreIndMut ----------------------------
(***************************************************************************)
(* Log-free abstraction of Threadsafe.tla (ThreadsafeForwardingResult's    *)
(* semaphore protocol) for an UNBOUNDED number of blocks per thread:       *)
(* each thread repeatedly acquires the semaphore, performs the target      *)
(* calls of one block (any of which may raise), and releases in a finally. *)
(* Apalache discharges the inductive invariant IndInv (Init => IndInv,     *)
(* IndInv /\ Next => IndInv'), which implies HolderOnly and Released for   *)
(* every reachable state, whatever the number of blocks and faults.        *)
(***************************************************************************)
EXTENDS Integers, FiniteSets

CONSTANT
    \* @type: Set(Str);
    Thread

VARIABLES
    \* @type: Str -> Str;
    pc,        \* "idle" | "wait" | "in" | "fin"   (fin: inside the finally, about to release)
    \* @type: Str;
    holder,    \* the thread holding the semaphore, or "none"
    \* @type: Str -> Int;
    done,      \* blocks completed per thread (unbounded)
    \* @type: Str -> Int;
    step       \* target calls made in the current block

vars == <<pc, holder, done, step>>

Init ==
    /\ pc = [t \in Thread |-> "idle"]
    /\ holder = "none"
    /\ done = [t \in Thread |-> 0]
    /\ step = [t \in Thread |-> 0]

\* startTest / tags / time on the forwarder: thread-local, then an outcome call wants the semaphore
Want(t) == /\ pc[t] = "idle" /\ pc' = [pc EXCEPT ![t] = "wait"]
           /\ UNCHANGED <<holder, done, step>>
Acquire(t) == /\ pc[t] = "wait"
              /\ holder' = t /\ pc' = [pc EXCEPT ![t] = "in"] /\ step' = [step EXCEPT ![t] = 0]
              /\ UNCHANGED done
\* one call on the shared target (only ever made by the holder); it returns ...
TargetCall(t) == /\ pc[t] = "in" /\ step[t] < 7
                 /\ step' = [step EXCEPT ![t] = @ + 1]
                 /\ UNCHANGED <<pc, holder, done>>
\* ... or raises / the block is complete: control reaches the finally
ToFinally(t) == /\ pc[t] = "in" /\ pc' = [pc EXCEPT ![t] = "fin"]
                /\ UNCHANGED <<holder, done, step>>
Release(t) == /\ pc[t] = "fin"
              /\ holder' = "none" /\ pc' = [pc EXCEPT ![t] = "idle"]
              /\ done' = [done EXCEPT ![t] = @ + 1]
              /\ UNCHANGED step

Next == \E t \in Thread : Want(t) \/ Acquire(t) \/ TargetCall(t) \/ ToFinally(t) \/ Release(t)

Inside(t) == pc[t] \in {"in", "fin"}

TypeOK ==
    /\ pc \in [Thread -> {"idle", "wait", "in", "fin"}]
    /\ holder \in Thread \cup {"none"}
    /\ done \in [Thread -> Int] /\ \A t \in Thread : done[t] >= 0
    /\ step \in [Thread -> Int] /\ \A t \in Thread : step[t] >= 0 /\ step[t] <= 7

\* every target call is made by the holder; at most one thread is inside
HolderOnly == \A t \in Thread : Inside(t) => holder = t
\* the semaphore is free whenever nobody is inside (also after faults)
Released == (\A t \in Thread : ~Inside(t)) => holder = "none"

IndInv ==
    /\ TypeOK
    /\ HolderOnly
    /\ (holder # "none" => Inside(holder))

\* for Apalache: the initial predicate of the inductive step
IndInit == IndInv
=============================================================================
