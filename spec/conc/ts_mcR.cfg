SPECIFICATION FairSpec
CONSTANTS
  Record = FALSE
  Works <- WorksR
  FaultChoices <- FaultsNone
PROPERTY Termination
INVARIANT TypeOK
INVARIANT HolderOnly
INVARIANT Contiguous
INVARIANT BlockShape
INVARIANT OnceInOrder
INVARIANT Released
INVARIANT FaultsSurface
INVARIANT ShouldStopReads
CHECK_DEADLOCK TRUE
