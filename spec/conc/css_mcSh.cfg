SPECIFICATION FairSpec
CONSTANTS
  Record = FALSE
  Scripts <- ScriptsSh2
  FaultChoices <- OneFault
  RouteChoices <- SharedRoutes
PROPERTY Termination
INVARIANT EachOnce
INVARIANT ReturnsAfterAll
INVARIANT EventsOnceInOrder
INVARIANT StreamFields
INVARIANT BrokenReported
INVARIANT AbortTellsAll
CHECK_DEADLOCK TRUE
