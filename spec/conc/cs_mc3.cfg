SPECIFICATION Spec
CONSTANTS
  Record = FALSE
  Scripts <- Scripts3
  FaultChoices <- Faults3

INVARIANT EachOnce
INVARIANT ReturnsAfterAll
INVARIANT EventsOnceInOrder
INVARIANT OneAtATime
INVARIANT OwnBlock
INVARIANT BrokenReported
INVARIANT AbortTellsAll
CHECK_DEADLOCK TRUE
