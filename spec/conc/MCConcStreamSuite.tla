-------------------------- MODULE MCConcStreamSuite --------------------------
(* Model-checking instances of ConcStreamSuite.                             *)
EXTENDS ConcStreamSuite

CONSTANTS Scripts, FaultChoices(_), RouteChoices(_)

S(tests, raises) == [tests |-> tests, raises |-> raises]

\* route codes handed out by make_tests: distinct ones, or shared by two / three workers (a string, or None);
\* a worker whose code is None emits no event with a route code of its own (StreamToQueue cannot prefix None)
Codes == <<"a", "b", "c", "d">>
Routed(s, rs) == [w \in DOMAIN s |-> [tests |-> s[w].tests, raises |-> s[w].raises, route |-> rs[w]]]
AllowedRoutes(s, rs) == \A w \in DOMAIN s : rs[w] = "none" => \A i \in DOMAIN s[w].tests : s[w].tests[i] # "raw"
DistinctRoutes(s) == {[w \in DOMAIN s |-> Codes[w]]}
SharedRoutes(s) == {rs \in {[w \in DOMAIN s |-> "a"], [w \in DOMAIN s |-> "none"],
                            [w \in DOMAIN s |-> IF w = Len(s) THEN "b" ELSE "none"],
                            [w \in DOMAIN s |-> IF w = 1 THEN "b" ELSE "a"]} : AllowedRoutes(s, rs)}
SharedRoutes3(s) == {rs \in {[w \in DOMAIN s |-> "a"], [w \in DOMAIN s |-> IF w = Len(s) THEN "b" ELSE "none"]} : AllowedRoutes(s, rs)}
SimRoutes(s) == DistinctRoutes(s) \cup SharedRoutes(s)

\* quick: 2 workers x <= 1 test (2..4 queue messages each), one fault anywhere
ScriptQ == {S(<<>>, "no"), S(<<"raw">>, "no"), S(<<"ok">>, "no")}
ScriptsQ == [1..2 -> ScriptQ]
\* broken runners (run() raises), 1..2 workers
ScriptsB == { <<S(<<"rawn", "rawt">>, "no"), S(<<>>, "no")>>, <<S(<<"raw">>, "base"), S(<<>>, "no")>>, <<S(<<>>, "exc"), S(<<"er">>, "no")>>, <<S(<<"raw">>, "exc")>>, <<S(<<>>, "exc"), S(<<>>, "exc")>> }
\* workers sharing a route code
ScriptsSh2 == [1..2 -> {S(<<>>, "no"), S(<<"ok">>, "no")}] \cup { <<S(<<"raw">>, "no"), S(<<>>, "no")>> }
ScriptsSh3 == { <<S(<<>>, "no"), S(<<>>, "no"), S(<<"ok">>, "no")>> }
FaultsSh3(s) == {<<NoFault, NoFault, NoFault>>, <<NoFault, 1, NoFault>>, <<NoFault, NoFault, 0>>}
\* thorough
ScriptT == {S(<<>>, "no"), S(<<"raw">>, "no")}
E == S(<<>>, "no")
Scripts3 == { <<E, E, E>>, <<E, S(<<"raw">>, "no"), E>>, <<S(<<>>, "exc"), E, S(<<"ok">>, "no")>> }
Scripts4 == { <<E, E, E, E>> }
Scripts13 == [1..1 -> {S(<<"ok", "er", "raw">>, "no"), S(<<"ok", "er", "raw">>, "exc")}]
             \cup { <<S(<<"ok", "raw">>, "no"), S(<<"er">>, "exc")>> }
ScriptsXq == { <<S(<<"ok">>, "no")>> }
ScriptsX == { <<S(<<"ok">>, "no")>>, <<S(<<>>, "no"), S(<<>>, "no")>> }
ScriptsS == [1..3 -> ScriptQ \cup {S(<<"rawn">>, "no"), S(<<"rawt", "ok">>, "no"), S(<<"er", "raw">>, "no"), S(<<>>, "exc"), S(<<"raw">>, "exc")}] \cup [1..4 -> ScriptT \cup {S(<<>>, "exc")}]

NoFaults(s) == {<<NoFault, NoFault, NoFault>>}
OneFault(s) == {<<NoFault, NoFault, NoFault>>} \cup {<<k, NoFault, NoFault>> : k \in 0..Len(s)}
               \cup {<<NoFault, j, NoFault>> : j \in 0..2} \cup {<<NoFault, NoFault, n>> : n \in 0..2}
ExpFaults(s) == {<<NoFault, NoFault, NoFault>>, <<Len(s), NoFault, NoFault>>, <<NoFault, 1, NoFault>>, <<NoFault, NoFault, 0>>}
ExpFaultsQ(s) == IF Len(s) = 1 THEN ExpFaults(s) ELSE {<<NoFault, NoFault, NoFault>>}
Faults3(s) == IF s = <<E, E, E>> THEN OneFault(s) ELSE NoFaults(s)
Faults4(s) == {<<NoFault, NoFault, NoFault>>}
AnyFaults(s) == {<<k, j, n>> : k \in {NoFault} \cup (0..Len(s)), j \in {NoFault, 0, 1, 3}, n \in {NoFault, 0, 1, 2, 4}}
SomeFaults(s) == {<<k, j, n>> : k \in {NoFault} \cup (0..Len(s)), j \in {NoFault, 1}, n \in {NoFault, 0, 2}}

MCInit == \E s \in Scripts : \E rs \in RouteChoices(s) : \E f \in FaultChoices(s) :
              InitWith(Routed(s, rs), f[1], f[2], f[3])
Spec == MCInit /\ [][Next]_vars
NextNoDone == MainStep \/ \E w \in Workers : WorkerStep(w)
SimSpec == MCInit /\ [][NextNoDone]_vars
FairSpec == MCInit /\ [][Next]_vars /\ Fairness
=============================================================================
