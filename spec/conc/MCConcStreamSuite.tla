-------------------------- MODULE MCConcStreamSuite --------------------------
(* Model-checking instances of ConcStreamSuite.                             *)
EXTENDS ConcStreamSuite

CONSTANTS Scripts, FaultChoices(_)

S(tests, raises) == [tests |-> tests, raises |-> raises]

\* quick: 2 workers x <= 1 test (2..4 queue messages each), one fault anywhere
ScriptQ == {S(<<>>, FALSE), S(<<"raw">>, FALSE), S(<<"ok">>, FALSE)}
ScriptsQ == [1..2 -> ScriptQ]
\* broken runners (run() raises), 1..2 workers
ScriptsB == { <<S(<<>>, TRUE), S(<<"er">>, FALSE)>>, <<S(<<"raw">>, TRUE)>>, <<S(<<>>, TRUE), S(<<>>, TRUE)>> }
\* thorough
ScriptT == {S(<<>>, FALSE), S(<<"raw">>, FALSE)}
Scripts3 == [1..3 -> ScriptT] \cup { <<S(<<>>, TRUE), S(<<>>, FALSE), S(<<"ok">>, FALSE)>> }
Scripts4 == { <<S(<<>>, FALSE), S(<<>>, FALSE), S(<<>>, FALSE), S(<<"raw">>, FALSE)>> }
Scripts13 == [1..1 -> {S(<<"ok", "er", "raw">>, FALSE), S(<<"ok", "er", "raw">>, TRUE)}]
             \cup { <<S(<<"ok", "raw">>, FALSE), S(<<"er">>, TRUE)>> }
ScriptsX == { <<S(<<"ok">>, FALSE)>>, <<S(<<>>, TRUE)>>, <<S(<<>>, FALSE), S(<<>>, FALSE)>> }
ScriptsS == [1..3 -> ScriptQ \cup {S(<<"er", "raw">>, FALSE), S(<<>>, TRUE), S(<<"raw">>, TRUE)}] \cup [1..4 -> ScriptT \cup {S(<<>>, TRUE)}]

NoFaults(s) == {<<NoFault, NoFault, NoFault>>}
OneFault(s) == {<<NoFault, NoFault, NoFault>>} \cup {<<k, NoFault, NoFault>> : k \in 0..Len(s)}
               \cup {<<NoFault, j, NoFault>> : j \in 0..2} \cup {<<NoFault, NoFault, n>> : n \in 0..2}
AnyFaults(s) == {<<k, j, n>> : k \in {NoFault} \cup (0..Len(s)), j \in {NoFault, 0, 1, 3}, n \in {NoFault, 0, 1, 2, 4}}

MCInit == \E s \in Scripts : \E f \in FaultChoices(s) : InitWith(s, f[1], f[2], f[3])
Spec == MCInit /\ [][Next]_vars
NextNoDone == MainStep \/ \E w \in Workers : WorkerStep(w)
SimSpec == MCInit /\ [][NextNoDone]_vars
FairSpec == MCInit /\ [][Next]_vars /\ Fairness
=============================================================================
