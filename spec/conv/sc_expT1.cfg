SPECIFICATION Spec
CONSTANTS
  Ids <- Ids1
  Calls <- CallsT
  TagOps <- TagOps1
  Times <- Times1
  MaxTests = 1
  MaxTags = 0
  MaxTime = 1
  MaxRuns = 1
CONSTRAINT ExportC
INVARIANT WireWellFormed
INVARIANT RoundTrip
INVARIANT TableTracksOpenTest
INVARIANT CtxMeaning
CHECK_DEADLOCK FALSE
