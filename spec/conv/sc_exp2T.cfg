SPECIFICATION Spec
CONSTANTS
  Ids <- Ids2
  Calls <- CallsK
  TagOps <- TagOps3
  Times <- Times3
  MaxTests = 2
  MaxTags = 2
  MaxTime = 2
  MaxRuns = 1
CONSTRAINT ExportC
CONSTRAINT FirstIsT1
CONSTRAINT NotBoth
INVARIANT WireWellFormed
INVARIANT RoundTrip
INVARIANT TableTracksOpenTest
INVARIANT CtxMeaning
CHECK_DEADLOCK FALSE
