----------------------------- MODULE StreamConv -----------------------------
(***************************************************************************)
(* TestResult -> StreamResult -> TestResult (property C09).                *)
(*                                                                         *)
(* Three machines composed (testtools.testresult.real, testtools.testcase):*)
(*  (1) E2S  ExtendedToStreamDecorator: startTestRun / time / tags /        *)
(*      startTest / add* (_convert) / stopTest / stopTestRun, with the      *)
(*      TagContext stack `ctx`, the sticky clock `now` and the chunk loop   *)
(*      with one-chunk look-ahead exactly as written (real.py:1671-1718);   *)
(*  (2) the wire: the sequence of status() events (`wire`), each event      *)
(*      handed on to the consumer through `pending`;                        *)
(*  (3) S2E  StreamToExtendedDecorator: the in-progress table of            *)
(*      _StreamToTestRecord (ensure key / update / pop on a final status /  *)
(*      flush at stopTestRun) and PlaceHolder.run, which replays a popped   *)
(*      record into the extended result `out` (testcase.py:855-866).        *)
(*                                                                         *)
(* The MEANING is written independently of these mechanisms, as folds over  *)
(* TestResult call logs: TagsAt (scoping by position instead of a stack),   *)
(* TimeAt (last supplied value instead of a variable), ExpChunkEvents (an   *)
(* index formula instead of the look-ahead loop), TestsOf (what one test's  *)
(* bracket says).  The same TestsOf is applied to the input history `inp`   *)
(* and to the reproduced log `out`; RoundTrip relates the two.              *)
(***************************************************************************)
EXTENDS Naturals, Sequences, FiniteSets, TLC, Json, SequencesExt

CONSTANTS
    Ids,         \* test ids
    Calls,       \* alphabet of outcome calls  [kind, form, details, reason]
    TagOps,      \* alphabet of tags() calls   [new, gone]
    Times,       \* alphabet of time() values
    MaxTests,    \* bound on startTest calls in the run
    MaxTags,     \* bound on tags() calls in the run
    MaxTime,     \* bound on time() calls in the run
    MaxRuns      \* bound on startTestRun/stopTestRun brackets on ONE decorator chain (bounds above are per history)

None   == "none"
NoTags == {"~"}      \* test_tags=None (TLC cannot compare a set with a string)
Clock  == "clock"    \* a timestamp read from datetime.now(utc) because no time() was supplied

Kinds == {"success", "failure", "error", "skip", "xfail", "uxsuccess"}
\* forms of an outcome call:
\*   "plain"   add*(test)                         (success, uxsuccess, skip)
\*   "exc"     add*(test, err=exc_info)           (failure, error, xfail)
\*   "details" add*(test, details={...})          (all six)
\*   "reason"  addSkip(test, reason=r)            (skip)
\*   "both"    addSkip(test, reason=r, details={...}) with no 'reason' entry in the details  (skip; the sender
\*             does not reject it: the details' files, then the reason file)
\* a detail is [name, ct, chunks]; chunks is the sequence iter_bytes() yields

\* what TracebackContent(err, test) is for the one exc_info the driver uses (3 chunks, see harness/c09.py)
TbDetail == [name |-> "traceback", ct |-> "tb", chunks |-> <<"T1", "T2", "T3">>]

VARIABLES
    phase,     \* "off" | "idle" (run started, no test open) | "intest" | "done" (outcome given) | "ended"
    ctx,       \* E2S: TagContext stack, a sequence of sets (top = current)
    now,       \* E2S: the last time() value or None
    cur,       \* the id of the test the caller has open
    nTests, nTags, nTime,      \* bounds
    wire,      \* every status() event E2S emitted, in order
    pending,   \* events emitted but not yet consumed by S2E
    inprog,    \* S2E: id -> record (the _inprogress table; E2S never sends route codes)
    out,       \* the extended result's call log, as produced by PlaceHolder.run
    inp,       \* history: the TestResult calls made by the caller (for the meaning)
    hist       \* observation: exported action log

vars == <<phase, ctx, now, cur, nTests, nTags, nTime, wire, pending, inprog, out, inp, hist>>

-----------------------------------------------------------------------------
(* Mechanism (1): ExtendedToStreamDecorator                                 *)

Current == ctx[Len(ctx)]                       \* TagContext.get_current_tags
Now     == IF now = None THEN Clock ELSE now   \* _now()

Ev(i, st, tg, fn, fb, eof, mime, ts) ==
    [id |-> i, status |-> st, tags |-> tg, fname |-> fn, fbytes |-> fb, eof |-> eof, mime |-> mime, ts |-> ts]

StatusOf(k) == CASE k = "success" -> "success"
                 [] k \in {"failure", "error"} -> "fail"      \* addFailure = addError
                 [] k = "skip" -> "skip"
                 [] k = "xfail" -> "xfail"
                 [] k = "uxsuccess" -> "uxsuccess"

\* the chunk loop of _convert as written: `held` is file_bytes (<<>> = None), emitted one step late
RECURSIVE Loop(_, _, _, _)
Loop(cs, i, held, acc) ==
    IF i > Len(cs) THEN <<held, acc>>
    ELSE Loop(cs, i + 1, <<cs[i]>>, IF held = <<>> THEN acc ELSE Append(acc, <<held[1], FALSE>>))
ChunkEvents(cs) ==
    LET r == Loop(cs, 1, <<>>, <<>>)
    IN Append(r[2], <<IF r[1] = <<>> THEN "" ELSE r[1][1], TRUE>>)

\* details dict the loop iterates (real.py:1676-1680)
EffDetails(c) == IF c.form = "exc" THEN <<TbDetail>>
                 ELSE IF c.form \in {"details", "both"} THEN c.details ELSE <<>>

FileEvs(i, d, ts) ==
    LET ce == ChunkEvents(d.chunks)
    IN [j \in 1..Len(ce) |-> Ev(i, None, NoTags, d.name, ce[j][1], ce[j][2], d.ct, ts)]

Convert(i, c) ==
    LET ts == Now
        ds == EffDetails(c)
        files == FlattenSeq([k \in 1..Len(ds) |-> FileEvs(i, ds[k], ts)])
        rsn == IF c.form \in {"reason", "both"}            \* `if reason is not None`, whatever the details were
               THEN <<Ev(i, None, NoTags, "reason", c.reason, TRUE, "text", ts)>> ELSE <<>>
    IN files \o rsn \o <<Ev(i, StatusOf(c.kind), Current, None, None, FALSE, None, ts)>>

-----------------------------------------------------------------------------
(* Mechanism (3): _StreamToTestRecord table + PlaceHolder.run               *)

Interim == {None, "inprogress"}

NewRec(e) == [id |-> e.id, status |-> "unknown", tags |-> {}, first |-> e.ts, last |-> None, files |-> <<>>]

FileIdx(fs, n) == IF \E i \in DOMAIN fs : fs[i].name = n
                  THEN CHOOSE i \in DOMAIN fs : fs[i].name = n ELSE 0
GotFile(fs, e) ==
    LET i == FileIdx(fs, e.fname) IN
    IF i = 0 THEN Append(fs, [name |-> e.fname, ct |-> e.mime, chunks |-> <<e.fbytes>>])
    ELSE [fs EXCEPT ![i].chunks = Append(@, e.fbytes)]

Update(r, e) ==
    LET r1 == IF e.status # None THEN [r EXCEPT !.status = e.status] ELSE r
        r2 == [r1 EXCEPT !.last = e.ts]
        r3 == IF e.fname # None /\ e.fbytes # "" THEN [r2 EXCEPT !.files = GotFile(@, e)] ELSE r2
        r4 == IF e.tags # NoTags THEN [r3 EXCEPT !.tags = e.tags] ELSE r3
    IN r4

\* _status_map
ReplayAs(st) == CASE st \in {"inprogress", "unknown", "fail"} -> "failure"
                  [] st = "success" -> "success"
                  [] st = "skip" -> "skip"
                  [] st = "xfail" -> "xfail"
                  [] st = "uxsuccess" -> "uxsuccess"

LTime(v)        == [op |-> "time", v |-> v]
LTags(n, g)     == [op |-> "tags", new |-> n, gone |-> g]
LStart(i)       == [op |-> "startTest", id |-> i]
LStop(i)        == [op |-> "stopTest", id |-> i]
LOutcome(i, k, f, ds, r) == [op |-> "outcome", id |-> i, kind |-> k, form |-> f, details |-> ds, reason |-> r]

\* PlaceHolder.run on an extended result
Replay(r) ==
    (IF r.first # None THEN <<LTime(r.first)>> ELSE <<>>)
    \o <<LTags(r.tags, {}), LStart(r.id)>>
    \o (IF r.last # None THEN <<LTime(r.last)>> ELSE <<>>)
    \o <<LOutcome(r.id, ReplayAs(r.status), "details", r.files, None), LStop(r.id), LTags({}, r.tags)>>

-----------------------------------------------------------------------------
(* MEANING, independent of the mechanisms: folds over a TestResult call log *)

\* the largest index i <= p whose call is one of `ops`, 0 if there is none
RECURSIVE LastOp(_, _, _)
LastOp(L, p, ops) == IF p = 0 THEN 0 ELSE IF L[p].op \in ops THEN p ELSE LastOp(L, p - 1, ops)

RunStart(L, p) == LastOp(L, p, {"startTestRun"})

\* the time in force at position p: the last value supplied before p in this run
TimeAt(L, p) ==
    LET i == LastOp(L, p - 1, {"time", "startTestRun"})
    IN IF i = 0 \/ L[i].op = "startTestRun" THEN Clock ELSE L[i].v

\* call j was made while a test was open / inside a test whose stopTest came before p
InTest(L, j) == LET i == LastOp(L, j - 1, {"startTest", "stopTest"}) IN i # 0 /\ L[i].op = "startTest"
ClosedScope(L, j, p) == InTest(L, j) /\ \E e \in (j + 1)..(p - 1) : L[e].op = "stopTest"

\* the tags in force at position p: tags() calls of this run in order, those of closed tests forgotten
RECURSIVE TagWalk(_, _, _, _)
TagWalk(L, j, p, acc) ==
    IF j >= p THEN acc
    ELSE TagWalk(L, j + 1, p,
            IF L[j].op = "tags" /\ ~ClosedScope(L, j, p) THEN (acc \cup L[j].new) \ L[j].gone ELSE acc)
TagsAt(L, p) == TagWalk(L, RunStart(L, p) + 1, p, {})

RECURSIVE Join(_)
Join(cs) == IF cs = <<>> THEN "" ELSE Head(cs) \o Join(Tail(cs))

\* the details an outcome call carries, as the extended API defines them (a skip reason is the text detail 'reason')
CallDetails(e) ==
    CASE e.form = "exc" -> <<TbDetail>>
      [] e.form = "details" -> e.details
      [] e.form = "reason" -> <<[name |-> "reason", ct |-> "text", chunks |-> <<e.reason>>]>>
      [] e.form = "both" -> e.details \o <<[name |-> "reason", ct |-> "text", chunks |-> <<e.reason>>]>>
      [] OTHER -> <<>>
NonEmptyFiles(ds) ==
    {[name |-> ds[k].name, ct |-> ds[k].ct, bytes |-> Join(ds[k].chunks)] :
        k \in {k \in DOMAIN ds : Join(ds[k].chunks) # ""}}

\* the skip reason a call carries: the text of its non-empty 'reason' detail
ReasonOf(e) == LET fs == {f \in NonEmptyFiles(CallDetails(e)) : f.name = "reason"}
               IN IF e.kind # "skip" \/ fs = {} THEN None ELSE (CHOOSE f \in fs : TRUE).bytes

Outcomes(L) == {i \in DOMAIN L : L[i].op = "outcome"}
StartOf(L, o) == LastOp(L, o - 1, {"startTest"})

TestOf(L, o) ==
    [id |-> L[o].id, kind |-> L[o].kind, tags |-> TagsAt(L, o),
     t0 |-> IF StartOf(L, o) = 0 THEN None ELSE TimeAt(L, StartOf(L, o)), t1 |-> TimeAt(L, o),
     reason |-> ReasonOf(L[o]), files |-> NonEmptyFiles(CallDetails(L[o]))]
TestsOf(L) == LET idx == SetToSortSeq(Outcomes(L), LAMBDA a, b : a < b)
              IN [k \in DOMAIN idx |-> TestOf(L, idx[k])]

\* error and failure both travel as 'fail' and come back as failure
Travel(t) == [t EXCEPT !.kind = IF @ = "error" THEN "failure" ELSE @]

Struct(L) == SelectSeq(L, LAMBDA e : e.op \in {"startTest", "outcome", "stopTest"})
\* startTest / outcome / stopTest brackets, same test throughout a bracket
Bracketed(L) ==
    LET q == Struct(L) IN
    \A k \in DOMAIN q :
        /\ q[k].op = (CASE k % 3 = 1 -> "startTest" [] k % 3 = 2 -> "outcome" [] OTHER -> "stopTest")
        /\ (k % 3 # 1 => q[k].id = q[k - 1].id)

\* what the wire must carry for one detail: chunks in order, eof exactly on the last; an empty iterator is one empty eof event
ExpChunkEvents(cs) == IF cs = <<>> THEN << <<"", TRUE>> >> ELSE [i \in 1..Len(cs) |-> <<cs[i], i = Len(cs)>>]
ExpFileEvs(i, d, ts) ==
    LET ce == ExpChunkEvents(d.chunks)
    IN [j \in 1..Len(ce) |-> Ev(i, None, NoTags, d.name, ce[j][1], ce[j][2], d.ct, ts)]
ExpCallWire(L, o) ==
    LET ds == CallDetails(L[o]) ts == TimeAt(L, o)
    IN FlattenSeq([k \in 1..Len(ds) |-> ExpFileEvs(L[o].id, ds[k], ts)])
       \o <<Ev(L[o].id, StatusOf(L[o].kind), TagsAt(L, o), None, None, FALSE, None, ts)>>
ExpWire(L) ==
    FlattenSeq([i \in DOMAIN L |->
        IF L[i].op = "startTest" THEN <<Ev(L[i].id, "inprogress", NoTags, None, None, FALSE, None, TimeAt(L, i))>>
        ELSE IF L[i].op = "outcome" THEN ExpCallWire(L, i) ELSE <<>>])

-----------------------------------------------------------------------------
Log(a, arg) == hist' = Append(hist, [a |-> a, arg |-> arg, nw |-> Len(wire'),
                                      nt |-> Cardinality(Outcomes(inp'))])

Init ==
    /\ phase = "off" /\ ctx = <<{}>> /\ now = None /\ cur = None
    /\ nTests = 0 /\ nTags = 0 /\ nTime = 0
    /\ wire = <<>> /\ pending = <<>> /\ inprog = <<>> /\ out = <<>> /\ inp = <<>> /\ hist = <<>>

Quiet == pending = <<>>      \* calls are synchronous: the previous call's events have been consumed

\* startTestRun/stopTestRun brackets so far on this chain
Runs == Cardinality({i \in DOMAIN inp : inp[i].op = "startTestRun"})

StartTestRun ==
    /\ phase \in {"off", "ended"} /\ Runs < MaxRuns      \* the same decorator chain may be used for another run
    /\ phase' = "idle"
    /\ ctx' = <<{}>> /\ now' = None                      \* E2S.startTestRun
    /\ inprog' = <<>>                                     \* hook.startTestRun
    /\ out' = Append(out, [op |-> "startTestRun"])        \* decorated.startTestRun
    /\ inp' = Append(inp, [op |-> "startTestRun"])
    /\ UNCHANGED <<cur, nTests, nTags, nTime, wire, pending>>
    /\ Log("startTestRun", None)

Time(v) ==
    /\ phase \in {"idle", "intest"} /\ Quiet /\ nTime < MaxTime
    /\ now' = v /\ nTime' = nTime + 1
    /\ inp' = Append(inp, LTime(v))
    /\ UNCHANGED <<phase, ctx, cur, nTests, nTags, wire, pending, inprog, out>>
    /\ Log("time", v)

Tags(t) ==
    /\ phase \in {"idle", "intest"} /\ Quiet /\ nTags < MaxTags
    /\ ctx' = [ctx EXCEPT ![Len(ctx)] = (@ \cup t.new) \ t.gone]      \* TagContext.change_tags
    /\ nTags' = nTags + 1
    /\ inp' = Append(inp, LTags(t.new, t.gone))
    /\ UNCHANGED <<phase, now, cur, nTests, nTime, wire, pending, inprog, out>>
    /\ Log("tags", t)

StartTest(i) ==
    /\ phase = "idle" /\ Quiet /\ nTests < MaxTests
    /\ LET e == Ev(i, "inprogress", NoTags, None, None, FALSE, None, Now)
       IN wire' = Append(wire, e) /\ pending' = Append(pending, e)
    /\ ctx' = Append(ctx, Current)                        \* TagContext(parent): starts with the parent's tags
    /\ phase' = "intest" /\ cur' = i /\ nTests' = nTests + 1
    /\ inp' = Append(inp, LStart(i))
    /\ UNCHANGED <<now, nTags, nTime, inprog, out>>
    /\ Log("startTest", i)

Outcome(c) ==
    /\ phase = "intest" /\ Quiet
    /\ LET evs == Convert(cur, c)
       IN wire' = wire \o evs /\ pending' = pending \o evs
    /\ phase' = "done"
    /\ inp' = Append(inp, LOutcome(cur, c.kind, c.form, c.details, c.reason))
    /\ UNCHANGED <<ctx, now, cur, nTests, nTags, nTime, inprog, out>>
    /\ Log("outcome", c)

StopTest ==
    /\ phase = "done" /\ Quiet
    /\ ctx' = SubSeq(ctx, 1, Len(ctx) - 1)               \* self._tags = self._tags.parent
    /\ phase' = "idle"
    /\ inp' = Append(inp, LStop(cur))
    /\ UNCHANGED <<now, cur, nTests, nTags, nTime, wire, pending, inprog, out>>
    /\ Log("stopTest", cur)

\* S2E.status for the oldest unconsumed event
Deliver ==
    /\ pending # <<>>
    /\ LET e == Head(pending)
           old == IF e.id \in DOMAIN inprog THEN inprog[e.id] ELSE NewRec(e)
           new == Update(old, e)
       IN IF e.status \in Interim
          THEN /\ inprog' = [x \in (DOMAIN inprog) \cup {e.id} |-> IF x = e.id THEN new ELSE inprog[x]]
               /\ out' = out
          ELSE /\ inprog' = [x \in (DOMAIN inprog) \ {e.id} |-> inprog[x]]
               /\ out' = out \o Replay(new)
    /\ pending' = Tail(pending)
    /\ UNCHANGED <<phase, ctx, now, cur, nTests, nTags, nTime, wire, inp, hist>>

StopTestRun ==
    /\ phase = "idle" /\ Quiet
    /\ phase' = "ended"
    \* hook.stopTestRun flushes whatever is still in the table as incomplete, then decorated.stopTestRun
    /\ LET left == SetToSeq(DOMAIN inprog)
       IN out' = out \o FlattenSeq([k \in 1..Len(left) |-> Replay([inprog[left[k]] EXCEPT !.last = None])])
                     \o <<[op |-> "stopTestRun"]>>
    /\ inprog' = <<>>
    /\ inp' = Append(inp, [op |-> "stopTestRun"])
    /\ UNCHANGED <<ctx, now, cur, nTests, nTags, nTime, wire, pending>>
    /\ Log("stopTestRun", None)

Next ==
    \/ StartTestRun \/ StopTestRun \/ StopTest \/ Deliver
    \/ \E v \in Times : Time(v)
    \/ \E t \in TagOps : Tags(t)
    \/ \E i \in Ids : StartTest(i)
    \/ \E c \in Calls : Outcome(c)

Spec == Init /\ [][Next]_vars

-----------------------------------------------------------------------------
(* C09 invariants                                                           *)

\* structure of the wire alone: per test  <<inprogress>> \o file runs \o <<final>>
SegStarts == {i \in DOMAIN wire : wire[i].status = "inprogress"}
SegEnd(i) == LET later == {j \in SegStarts : j > i}
             IN IF later = {} THEN Len(wire) ELSE (CHOOSE j \in later : \A j2 \in later : j <= j2) - 1
IsFile(e) == e.fname # None
SegShape(i) ==
    LET hi == SegEnd(i)
        complete == hi > i          \* something followed the inprogress event: the outcome was converted
    IN /\ wire[i].fname = None
       /\ \A j \in (i + 1)..hi : wire[j].id = wire[i].id /\ wire[j].ts = wire[hi].ts
       /\ complete => /\ wire[hi].status \notin Interim /\ ~IsFile(wire[hi]) /\ wire[hi].tags # NoTags
                      /\ \A j \in (i + 1)..(hi - 1) : IsFile(wire[j]) /\ wire[j].status = None
                      \* eof is set exactly on the last event of each run of one file name, and a name never resumes
                      /\ \A j \in (i + 1)..(hi - 1) :
                            wire[j].eof <=> (j = hi - 1 \/ wire[j + 1].fname # wire[j].fname)
                      /\ \A j, k \in (i + 1)..(hi - 1) :
                            (j < k /\ wire[j].fname = wire[k].fname) =>
                                \A m \in j..k : wire[m].fname = wire[j].fname
WireShape ==
    /\ wire # <<>> => wire[1].status = "inprogress"
    /\ \A i \in SegStarts : SegShape(i)

\* ... and its content: every detail's chunks in order, the final status carries the tags and time in force
WireWellFormed == WireShape /\ wire = ExpWire(inp)

\* every test whose outcome was given is reproduced as one bracket saying the same
RoundTrip ==
    Quiet =>
      /\ Bracketed(out)
      /\ Len(Struct(out)) = 3 * Cardinality(Outcomes(inp))
      /\ LET ti == TestsOf(inp) IN TestsOf(out) = [k \in DOMAIN ti |-> Travel(ti[k])]

\* nothing is left over: the table holds exactly the test that is open
TableTracksOpenTest ==
    Quiet => DOMAIN inprog = (IF phase = "intest" THEN {cur} ELSE {})

\* the tag stack means what the history says
CtxMeaning == (phase \in {"idle", "intest", "done"} /\ Quiet) => Current = TagsAt(Append(inp, [op |-> "probe"]), Len(inp) + 1)

-----------------------------------------------------------------------------
(* Export of behaviours for replay into the real converters                 *)
Terminal == phase = "ended" /\ Runs = MaxRuns

\* per test, what the reproduced bracket must say (details with their chunk lists; the driver joins and drops empty ones)
ExportTest(L, o) ==
    LET t == Travel(TestOf(L, o))
    IN [id |-> t.id, kind |-> t.kind, tags |-> t.tags, t0 |-> t.t0, t1 |-> t.t1, files |-> CallDetails(L[o])]
ExportTests == LET idx == SetToSortSeq(Outcomes(inp), LAMBDA a, b : a < b)
               IN [k \in DOMAIN idx |-> ExportTest(inp, idx[k])]
ExportC == Terminal => PrintT(<<"EXPORT", ToJson([hist |-> hist, wire |-> wire, tests |-> ExportTests])>>)
ViewNoHist == <<phase, ctx, now, cur, nTests, nTags, nTime, wire, pending, inprog, out, inp>>
=============================================================================
