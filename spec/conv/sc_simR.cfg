SPECIFICATION Spec
CONSTANTS
  Ids <- Ids2
  Calls <- CallsR
  TagOps <- TagOps4
  Times <- Times3
  MaxTests = 3
  MaxTags = 4
  MaxTime = 4
  MaxRuns = 1
CONSTRAINT ExportC
INVARIANT WireWellFormed
INVARIANT RoundTrip
INVARIANT TableTracksOpenTest
INVARIANT CtxMeaning
CHECK_DEADLOCK FALSE
