-------------------------- MODULE MCStreamConvSim --------------------------
(* Alphabets for `tlc -simulate`: payloads drawn at random (TLC's RandomElement, seeded by -seed) from the   *)
(* full space "0..2 details, 0..3 chunks each over {"", x, yz}, any content type" (1 + 160 + 25600 payloads; *)
(* too many to enumerate as successors of every Outcome step, and TLC evaluates constant definitions         *)
(* eagerly, which is why this lives in its own module).                                                      *)
EXTENDS MCStreamConv

RandDetail(n) == D(n, RandomElement(CTsAll), RandomElement(Seqs(3) \cup SplitSeqs))
PayR == {<<>>} \cup { <<RandDetail("d1")>> : i \in 1..20 }
               \cup { <<RandDetail("d1"), RandDetail("d2")>> : i \in 1..30 }
               \cup { <<RandDetail("d2"), RandDetail("d1")>> : i \in 1..10 }
CallsR == CallsOver(PayR \cup Two({<<"x">>}, CasePairs)) \cup CaseCalls \cup SkipWithReasonDetail({P0, P1, P2, P3})
=============================================================================
