SPECIFICATION Spec
CONSTANTS
  Ids <- Ids1
  Calls <- CallsT
  TagOps <- TagOps3
  Times <- Times2
  MaxTests = 1
  MaxTags = 1
  MaxTime = 0
  MaxRuns = 1
VIEW ViewNoHist
INVARIANT WireWellFormed
INVARIANT RoundTrip
INVARIANT TableTracksOpenTest
INVARIANT CtxMeaning
CHECK_DEADLOCK FALSE
