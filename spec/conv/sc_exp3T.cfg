SPECIFICATION Spec
CONSTANTS
  Ids <- Ids2
  Calls <- CallsK
  TagOps <- TagOps1
  Times <- Times1
  MaxTests = 3
  MaxTags = 1
  MaxTime = 1
  MaxRuns = 1
CONSTRAINT ExportC
CONSTRAINT FirstIsT1
INVARIANT WireWellFormed
INVARIANT RoundTrip
INVARIANT TableTracksOpenTest
INVARIANT CtxMeaning
CHECK_DEADLOCK FALSE
