SPECIFICATION Spec
CONSTANTS
  Ids <- Ids1
  Calls <- CallsRR
  TagOps <- TagOps1
  Times <- Times1
  MaxTests = 2
  MaxTags = 1
  MaxTime = 1
  MaxRuns = 2
CONSTRAINT ExportC
INVARIANT WireWellFormed
INVARIANT RoundTrip
INVARIANT TableTracksOpenTest
INVARIANT CtxMeaning
CHECK_DEADLOCK FALSE
