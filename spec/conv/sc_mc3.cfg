SPECIFICATION Spec
CONSTANTS
  Ids <- Ids2
  Calls <- CallsS4
  TagOps <- TagOps3
  Times <- Times2
  MaxTests = 3
  MaxTags = 1
  MaxTime = 1
  MaxRuns = 1
VIEW ViewNoHist
CONSTRAINT FirstIsT1
INVARIANT WireWellFormed
INVARIANT RoundTrip
INVARIANT TableTracksOpenTest
INVARIANT CtxMeaning
CHECK_DEADLOCK FALSE
