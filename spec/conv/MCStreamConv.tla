---------------------------- MODULE MCStreamConv ----------------------------
(* Model-checking instances of StreamConv: payload / call / tag / time alphabets. *)
EXTENDS StreamConv

D(n, ct, cs) == [name |-> n, ct |-> ct, chunks |-> cs]
Call(k, f, ds, r) == [kind |-> k, form |-> f, details |-> ds, reason |-> r]

ChunkVals == {"", "x", "yz"}
Seqs(n) == UNION {[1..k -> ChunkVals] : k \in 0..n}      \* all chunk sequences of length 0..n  (40 for n = 3)

\* content types: text/plain;charset=utf8, application/octet-stream, text/x-t;a="b c";k="v", application/x-bin;n="1"
CTs == {"text", "bin", "par", "binp"}

\* ---- payload alphabets (a payload = the details dict in insertion order) ----
Short == { <<>>, <<"">>, <<"x">>, <<"", "yz">>, <<"x", "yz">>, <<"yz", "", "x">> }
One(S, C)  == { <<D("d1", ct, cs)>> : cs \in S, ct \in C }
Two(S, CC) == { <<D("d1", cc[1], s1), D("d2", cc[2], s2)>> : s1 \in S, s2 \in S, cc \in CC }

\* quick: every chunk sequence up to 3 for one binary detail, the short ones for every content type,
\* every pair of short ones for two content-type pairs                                   (1 + 40 + 18 + 72 = 131)
PayQ == {<<>>} \cup One(Seqs(3), {"bin"}) \cup One(Short, {"text", "par", "binp"})
               \cup Two(Short, {<<"text", "bin">>, <<"par", "par">>})
\* thorough: one detail = every sequence x every content type; two details = every pair up to length 2 x 3 type pairs
PayT == {<<>>} \cup One(Seqs(3), CTs)
               \cup Two(Seqs(2), {<<"text", "bin">>, <<"par", "par">>, <<"binp", "text">>})
               \cup Two({<<"x", "", "yz">>, <<"", "", "">>, <<>>}, {<<"bin", "par">>})
\* small: for histories of several tests
P0 == <<>>
P1 == <<D("d1", "bin", <<"x", "yz">>)>>
P2 == <<D("d1", "text", <<>>), D("d2", "par", <<"", "x">>)>>
P3 == <<D("d2", "binp", <<"yz", "", "x">>), D("d1", "text", <<"">>)>>

Reasons == {"r1", "r2", ""}

\* ---- outcome-call alphabets ----
Fixed ==  { Call("success", "plain", <<>>, None), Call("uxsuccess", "plain", <<>>, None),
            Call("skip", "plain", <<>>, None) }
     \cup { Call(k, "exc", <<>>, None) : k \in {"failure", "error", "xfail"} }
     \cup { Call("skip", "reason", <<>>, r) : r \in Reasons }
\* a skip whose reason travels inside the details, as TestCase reports it
SkipWithReasonDetail(P) == { Call("skip", "details", <<D("reason", "text", <<r>>)>> \o p, None) : r \in {"r1"}, p \in P }

CallsOver(P) == { Call(k, "details", p, None) : k \in Kinds, p \in P } \cup Fixed
CallsQ == CallsOver(PayQ) \cup SkipWithReasonDetail({P0, P1, P2})
CallsT == CallsOver(PayT) \cup SkipWithReasonDetail({P0, P1, P2, P3})

\* several tests: every kind in two forms, small payloads
CallsH == Fixed \cup { Call("success", "details", P2, None), Call("failure", "details", P3, None),
                       Call("error", "details", P1, None), Call("skip", "details", P3, None),
                       Call("xfail", "details", P1, None), Call("uxsuccess", "details", P2, None) }
              \cup SkipWithReasonDetail({P1})
\* three tests: one form per kind
CallsS == { Call("success", "plain", <<>>, None), Call("failure", "exc", <<>>, None),
            Call("error", "details", P1, None), Call("skip", "reason", <<>>, "r1"),
            Call("xfail", "details", P2, None), Call("uxsuccess", "details", P3, None) }

\* ---- tags() and time() alphabets ----
T(n, g) == [new |-> n, gone |-> g]
TagOps1 == { T({"a"}, {}) }
TagOps3 == { T({"a"}, {}), T({"b"}, {}), T({}, {"a"}) }
TagOps4 == { T({"a"}, {}), T({"b"}, {}), T({}, {"a"}), T({"b"}, {"a"}) }
Times1 == {"1"}
Times2 == {"1", "2"}
Times3 == {"1", "2", "0"}
Ids1 == {"t1"}
Ids2 == {"t1", "t2"}

\* tags / time heavy histories: three calls
CallsK == { Call("success", "plain", <<>>, None), Call("error", "details", P1, None),
            Call("skip", "reason", <<>>, "r1") }
\* three tests, exported: four calls
CallsS4 == CallsK \cup { Call("xfail", "details", P2, None) }

\* tags() and time() are explored separately in the tag/time heavy export
NotBoth == nTags = 0 \/ nTime = 0

\* symmetry on ids: the first test of a run is t1 (state constraint for the exhaustive configs)
FirstIsT1 == \A i \in DOMAIN inp :
    (inp[i].op = "startTest" /\ \A j \in 1..(i - 1) : inp[j].op # "startTest") => inp[i].id = "t1"
=============================================================================
