---------------------------- MODULE MCStreamConv ----------------------------
(* Model-checking instances of StreamConv: payload / call / tag / time alphabets. *)
EXTENDS StreamConv

D(n, ct, cs) == [name |-> n, ct |-> ct, chunks |-> cs]
Call(k, f, ds, r) == [kind |-> k, form |-> f, details |-> ds, reason |-> r]

ChunkVals == {"", "x", "yz"}
Seqs(n) == UNION {[1..k -> ChunkVals] : k \in 0..n}      \* all chunk sequences of length 0..n  (40 for n = 3)

\* content types: text/plain;charset=utf8, application/octet-stream, text/x-t;a="b c";k="v", application/x-bin;n="1"
CTs == {"text", "bin", "par", "binp"}
\* content types that differ ONLY in the letter case of a parameter value (parameter values are case-sensitive):
\*   tiA text/plain;charset=utf8;title="build log"     tiB ...;title="Build Log"
\*   bdA application/x-report;boundary="abcdef"         bdB ...;boundary="aBcDeF"
\* Both members of a pair are sent through the converters in one history, in both orders (two details of one
\* test, and two tests of one run), because a parser that remembers earlier MIME strings is history dependent.
CaseCTs == {"tiA", "tiB", "bdA", "bdB"}
CasePairs == { <<"tiA", "tiB">>, <<"tiB", "tiA">>, <<"bdA", "bdB">>, <<"bdB", "bdA">> }
CTsAll == CTs \cup CaseCTs

\* chunk sequences whose boundary falls INSIDE a multi-byte character of a utf8 text detail (concretised by the
\* driver: e1|e2 = the two bytes of U+00E9 cut in the middle, s1|s2 = a 4-byte character U+1F600 cut 2+2);
\* the bytes of the whole detail are valid UTF-8, no single chunk is
SplitSeqs == { <<"e1", "e2">>, <<"s1", "s2">>, <<"e1", "", "e2">>, <<"x", "s1", "s2">> }

\* ---- payload alphabets (a payload = the details dict in insertion order) ----
Short == { <<>>, <<"">>, <<"x">>, <<"", "yz">>, <<"x", "yz">>, <<"yz", "", "x">> }
One(S, C)  == { <<D("d1", ct, cs)>> : cs \in S, ct \in C }
Two(S, CC) == { <<D("d1", cc[1], s1), D("d2", cc[2], s2)>> : s1 \in S, s2 \in S, cc \in CC }

\* quick: every chunk sequence up to 3 for one binary detail, the short ones for every content type,
\* every pair of short ones for two content-type pairs                                   (1 + 40 + 18 + 72 = 131)
\* plus: split multi-byte characters (text types), content types differing only in case (both orders)  (+ 8 + 2 + 8)
PayX == One(SplitSeqs, {"text", "tiB"})
        \cup { <<D("d1", "bin", <<"x">>), D("d2", "text", <<"s1", "s2">>)>>, <<D("d1", "text", <<"e1", "e2">>), D("d2", "par", <<"e1", "e2">>)>> }
        \cup Two({<<"x">>}, CasePairs) \cup { <<D("d1", cc[1], <<"e1", "e2">>), D("d2", cc[2], <<"yz", "">>)>> : cc \in CasePairs }
PayQ == {<<>>} \cup One(Seqs(3), {"bin"}) \cup One(Short, {"text", "par", "binp"})
               \cup Two(Short, {<<"text", "bin">>, <<"par", "par">>}) \cup PayX
\* thorough: one detail = every sequence x every content type; two details = every pair up to length 2 x 3 type pairs
PayT == {<<>>} \cup One(Seqs(3), CTs)
               \cup Two(Seqs(2), {<<"text", "bin">>, <<"par", "par">>, <<"binp", "text">>})
               \cup Two({<<"x", "", "yz">>, <<"", "", "">>, <<>>}, {<<"bin", "par">>})
               \cup PayX \cup One(SplitSeqs \cup {<<"x">>, <<>>}, CTsAll) \cup Two(SplitSeqs, CasePairs)
\* small: for histories of several tests
P0 == <<>>
P1 == <<D("d1", "bin", <<"x", "yz">>)>>
P2 == <<D("d1", "text", <<>>), D("d2", "par", <<"", "x">>)>>
P3 == <<D("d2", "binp", <<"yz", "", "x">>), D("d1", "text", <<"">>)>>

Reasons == {"r1", "r2", ""}

\* ---- outcome-call alphabets ----
Fixed ==  { Call("success", "plain", <<>>, None), Call("uxsuccess", "plain", <<>>, None),
            Call("skip", "plain", <<>>, None) }
     \cup { Call(k, "exc", <<>>, None) : k \in {"failure", "error", "xfail"} }
     \cup { Call("skip", "reason", <<>>, r) : r \in Reasons }
\* a skip whose reason travels inside the details, as TestCase reports it
SkipWithReasonDetail(P) == { Call("skip", "details", <<D("reason", "text", <<r>>)>> \o p, None) : r \in {"r1"}, p \in P }

\* ... also when the reason detail's text is cut inside a character
SkipWithSplitReason == { Call("skip", "details", <<D("reason", "text", <<"e1", "e2">>)>>, None) }
\* one detail of each case-variant content type: two tests of one run give every ordered pair
CaseCalls == { Call(k, "details", <<D("d1", ct, <<"x">>)>>, None) : k \in {"success"}, ct \in CaseCTs }

\* addSkip given BOTH a reason and a details dict that has no 'reason' entry ({} included), as a forwarding result does
SkipWithBoth == { Call("skip", "both", p, r) : p \in {P0, P1, P2}, r \in {"r1"} } \cup { Call("skip", "both", P0, "") }

CallsOver(P) == { Call(k, "details", p, None) : k \in Kinds, p \in P } \cup Fixed \cup SkipWithSplitReason \cup SkipWithBoth
CallsQ == CallsOver(PayQ) \cup SkipWithReasonDetail({P0, P1, P2})
CallsT == CallsOver(PayT) \cup SkipWithReasonDetail({P0, P1, P2, P3})

\* several tests: every kind in two forms, small payloads
CallsH == Fixed \cup { Call("success", "details", P2, None), Call("failure", "details", P3, None),
                       Call("error", "details", P1, None), Call("skip", "details", P3, None),
                       Call("xfail", "details", P1, None), Call("uxsuccess", "details", P2, None) }
              \cup SkipWithReasonDetail({P1}) \cup CaseCalls \cup SkipWithBoth
\* three tests: one form per kind
CallsS == { Call("success", "plain", <<>>, None), Call("failure", "exc", <<>>, None),
            Call("error", "details", P1, None), Call("skip", "reason", <<>>, "r1"),
            Call("xfail", "details", P2, None), Call("uxsuccess", "details", P3, None) }

\* ---- tags() and time() alphabets ----
T(n, g) == [new |-> n, gone |-> g]
TagOps1 == { T({"a"}, {}) }
TagOps3 == { T({"a"}, {}), T({"b"}, {}), T({}, {"a"}) }
TagOps4 == { T({"a"}, {}), T({"b"}, {}), T({}, {"a"}), T({"b"}, {"a"}) }
Times1 == {"1"}
Times2 == {"1", "2"}
Times3 == {"1", "2", "0"}
Ids1 == {"t1"}
Ids2 == {"t1", "t2"}

\* tags / time heavy histories: three calls
CallsK == { Call("success", "plain", <<>>, None), Call("error", "details", P1, None),
            Call("skip", "reason", <<>>, "r1") }
\* three tests, exported: four calls
CallsS4 == CallsK \cup { Call("xfail", "details", P2, None) }

\* two runs on one decorator chain (sc_exp2r: time() / tags() given in one run must not reach the other): two calls
CallsRR == { Call("success", "plain", <<>>, None), Call("error", "details", P1, None) }

\* tags() and time() are explored separately in the tag/time heavy export
NotBoth == nTags = 0 \/ nTime = 0

\* symmetry on ids: the first test of a run is t1 (state constraint for the exhaustive configs)
FirstIsT1 == \A i \in DOMAIN inp :
    (inp[i].op = "startTest" /\ \A j \in 1..(i - 1) : inp[j].op # "startTest") => inp[i].id = "t1"
=============================================================================
