SPECIFICATION Spec
CONSTANTS
  Ids <- Ids2
  Calls <- CallsS
  TagOps <- TagOps3
  Times <- Times1
  MaxTests = 2
  MaxTags = 2
  MaxTime = 1
  MaxRuns = 1
VIEW ViewNoHist
CONSTRAINT FirstIsT1
INVARIANT WireWellFormed
INVARIANT RoundTrip
INVARIANT TableTracksOpenTest
INVARIANT CtxMeaning
CHECK_DEADLOCK FALSE
