SPECIFICATION Spec
CONSTANTS
  Ids <- Ids2
  Calls <- CallsH
  TagOps <- TagOps1
  Times <- Times1
  MaxTests = 2
  MaxTags = 0
  MaxTime = 0
  MaxRuns = 1
CONSTRAINT ExportC
CONSTRAINT FirstIsT1
INVARIANT WireWellFormed
INVARIANT RoundTrip
INVARIANT TableTracksOpenTest
INVARIANT CtxMeaning
CHECK_DEADLOCK FALSE
