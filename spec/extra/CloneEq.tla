------------------------------ MODULE CloneEq ------------------------------
(***************************************************************************)
(* X06 (part 2) - testtools.testcase.clone_test_with_new_id and             *)
(* TestCase.__eq__ / __hash__.                                              *)
(*                                                                         *)
(* Documented sentences formalised:                                         *)
(*  D1 clone_test_with_new_id docstring: "Copy a TestCase, and give the     *)
(*     copied test a new id.  This is only expected to be used on tests     *)
(*     that have been constructed but not executed."; _clone_test_id_       *)
(*     callback: ":return: A copy.copy of the test with id=callback."       *)
(*     for-framework-folk.rst "Test renaming": "a function to copy a test   *)
(*     case instance to one with a new name.  This is helpful for           *)
(*     implementing test parameterization."                                 *)
(*       -> the copy answers id() with the new id; the original (and every  *)
(*          earlier copy) keeps its id; the copy is a test of the same      *)
(*          class and method: run, it executes that method on ITSELF and    *)
(*          is reported under its own id            CloneMeaning, RunMeaning *)
(*  D2 TestCase.__eq__ (code): unittest's equality (same type, same test    *)
(*     method) and equal attribute dictionaries; "__hash__ =                *)
(*     unittest.TestCase.__hash__" with the comment "We need to explicitly  *)
(*     set this since we're overriding __eq__" (Python data model: objects  *)
(*     that compare equal must have the same hash)                          *)
(*       -> == is an equivalence relation on tests, two tests are equal     *)
(*          exactly when they are of the same class and every attribute of  *)
(*          one has the same value in the other, equal tests hash equal     *)
(*                               EqEquivalence, EqIffSameAttributes, HashOK *)
(*                                                                         *)
(* MECHANISM: objects as attribute dictionaries; copy.copy = a new object   *)
(* with the same dictionary; the clone gets an 'id' entry holding a fresh   *)
(* callback; == is the code's two-step test; run() rebinds the per-run      *)
(* attributes (_reset) and calls the method found on the object.            *)
(* MEANING: the relations named above, written over all objects alive.      *)
(***************************************************************************)
EXTENDS Naturals, Sequences, FiniteSets, TLC, Json

CONSTANTS
    Classes,      \* test classes
    Methods,      \* test method names (every class has all of them)
    NewIds,       \* ids handed to clone_test_with_new_id
    Extras,       \* values assigned to the instance attribute 'extra'
    MaxObjs,      \* bound on objects alive
    MaxSteps,
    CopyKeepsId   \* FALSE = as coded; TRUE = spec mutation: the clone's id callback is lost (id() of the class)

None == "none"

VARIABLES
    objs,     \* sequence of objects; an object = [cls, attrs] where attrs is a record (the __dict__)
    tok,      \* next fresh identity token (for objects compared by identity: itertools.count, lambdas)
    n,
    hist

vars == <<objs, tok, n, hist>>

\* attrs: meth (_testMethodName), gen (identity of _unique_id_gen: one per construction / per run),
\*        idcb (identity of the 'id' instance attribute, 0 = none), newid (what that callback returns), extra
Obj(c, m, g) == [cls |-> c, attrs |-> [meth |-> m, gen |-> g, idcb |-> 0, newid |-> None, extra |-> None]]

-----------------------------------------------------------------------------
(* Mechanism *)

ClassId(c, m) == <<c, m>>                       \* unittest: module.Class.method
\* instance attribute 'id' shadows the method
IdOf(o) == IF o.attrs.idcb # 0 THEN <<o.attrs.newid>> ELSE ClassId(o.cls, o.attrs.meth)

\* TestCase.__eq__: unittest's __eq__ (type(self) is type(other), same _testMethodName), then the dictionaries
Eq(o, p) ==
    IF o.cls # p.cls THEN FALSE
    ELSE IF o.attrs.meth # p.attrs.meth THEN FALSE
    ELSE o.attrs = p.attrs

\* unittest.TestCase.__hash__: hash((type(self), self._testMethodName))
HashOf(o) == <<o.cls, o.attrs.meth>>

\* how the test method of class c ends
Ends(m) == IF m = "test_fail" THEN "addFailure" ELSE "addSuccess"

Matrix(q) == [i \in DOMAIN q |-> [j \in DOMAIN q |-> Eq(q[i], q[j])]]
Ids(q) == [i \in DOMAIN q |-> IdOf(q[i])]
Log(a, arg, out) ==
    hist' = Append(hist, [a |-> a, arg |-> arg, out |-> out, ids |-> Ids(objs'), eq |-> Matrix(objs'),
                          extras |-> [i \in DOMAIN objs' |-> objs'[i].attrs.extra],
                          hasheq |-> [i \in DOMAIN objs' |-> [j \in DOMAIN objs' |-> HashOf(objs'[i]) = HashOf(objs'[j])]]])

Init ==
    /\ objs = <<>> /\ tok = 1 /\ n = 0 /\ hist = <<>>

Construct(c, m) ==
    /\ n < MaxSteps /\ Len(objs) < MaxObjs
    /\ objs' = Append(objs, Obj(c, m, tok))
    /\ tok' = tok + 1 /\ n' = n + 1
    /\ Log("construct", [cls |-> c, meth |-> m], Len(objs) + 1)

\* copy.copy(test); newTest.id = lambda: new_id
Clone(i, nid) ==
    /\ n < MaxSteps /\ Len(objs) < MaxObjs /\ i \in DOMAIN objs
    /\ LET o == objs[i]
           c == IF CopyKeepsId THEN o ELSE [o EXCEPT !.attrs.idcb = tok, !.attrs.newid = nid]
       IN objs' = Append(objs, c)
    /\ tok' = tok + 1 /\ n' = n + 1
    /\ Log("clone", [of |-> i, newid |-> nid], Len(objs) + 1)

\* copy.copy(test): a new object with the same attribute dictionary
Copy(i) ==
    /\ n < MaxSteps /\ Len(objs) < MaxObjs /\ i \in DOMAIN objs
    /\ objs' = Append(objs, objs[i])
    /\ UNCHANGED tok /\ n' = n + 1
    /\ Log("copy", i, Len(objs) + 1)

SetExtra(i, v) ==
    /\ n < MaxSteps /\ i \in DOMAIN objs /\ objs[i].attrs.extra # v
    /\ objs' = [objs EXCEPT ![i].attrs.extra = v]
    /\ UNCHANGED tok /\ n' = n + 1
    /\ Log("setattr", [of |-> i, v |-> v], None)

\* run(result): _reset() rebinds the per-run attributes, then the method found on THIS object runs
RunObj(i) ==
    /\ n < MaxSteps /\ i \in DOMAIN objs
    /\ objs' = [objs EXCEPT ![i].attrs.gen = tok]
    /\ tok' = tok + 1 /\ n' = n + 1
    /\ Log("run", i, [body |-> [meth |-> objs[i].attrs.meth, cls |-> objs[i].cls, selfid |-> IdOf(objs[i])],
                      reported |-> IdOf(objs[i]), outcome |-> Ends(objs[i].attrs.meth)])

Next ==
    \/ \E c \in Classes, m \in Methods : Construct(c, m)
    \/ \E i \in 1..MaxObjs : (\E nid \in NewIds : Clone(i, nid)) \/ (\E v \in Extras : SetExtra(i, v)) \/ RunObj(i) \/ Copy(i)

Spec == Init /\ [][Next]_vars

-----------------------------------------------------------------------------
(* MEANING *)

All == DOMAIN objs

EqEquivalence ==
    /\ \A i \in All : Eq(objs[i], objs[i])
    /\ \A i, j \in All : Eq(objs[i], objs[j]) = Eq(objs[j], objs[i])
    /\ \A i, j, k \in All : (Eq(objs[i], objs[j]) /\ Eq(objs[j], objs[k])) => Eq(objs[i], objs[k])

AttrNames == {"meth", "gen", "idcb", "newid", "extra"}
Get(o, a) == CASE a = "meth" -> <<o.attrs.meth>> [] a = "gen" -> <<o.attrs.gen>> [] a = "idcb" -> <<o.attrs.idcb>>
               [] a = "newid" -> <<o.attrs.newid>> [] OTHER -> <<o.attrs.extra>>
EqIffSameAttributes ==
    \A i, j \in All :
        Eq(objs[i], objs[j]) <=> (objs[i].cls = objs[j].cls /\ \A a \in AttrNames : Get(objs[i], a) = Get(objs[j], a))

HashOK == \A i, j \in All : Eq(objs[i], objs[j]) => HashOf(objs[i]) = HashOf(objs[j])

\* equal tests answer id() alike
EqualTestsSameId == \A i, j \in All : Eq(objs[i], objs[j]) => IdOf(objs[i]) = IdOf(objs[j])

Did(a) == Len(hist') = Len(hist) + 1 /\ hist'[Len(hist')].a = a
LastH == hist'[Len(hist')]

\* D1
CloneMeaning ==
    [][Did("clone") =>
          LET c == Len(objs')
              o == LastH.arg.of
          IN /\ c = Len(objs) + 1
             /\ IdOf(objs'[c]) = <<LastH.arg.newid>>                           \* the copy has the new id
             /\ \A i \in DOMAIN objs : IdOf(objs'[i]) = IdOf(objs[i])          \* nobody else's id moves
             /\ \A i \in DOMAIN objs : objs'[i] = objs[i]                      \* the original is not modified at all
             /\ objs'[c].cls = objs[o].cls /\ objs'[c].attrs.meth = objs[o].attrs.meth
             /\ objs'[c].attrs.extra = objs[o].attrs.extra]_vars

\* a plain copy is a distinct object equal to its source (until either is changed or run)
CopyMeaning ==
    [][Did("copy") =>
          LET c == Len(objs') IN
          /\ c = Len(objs) + 1 /\ Eq(objs'[c], objs'[LastH.arg]) /\ Eq(objs'[LastH.arg], objs'[c])
          /\ \A i \in DOMAIN objs : objs'[i] = objs[i]]_vars

\* D1: a test, run, executes its own method on itself and is reported under its own id
RunMeaning ==
    [][Did("run") =>
          LET i == LastH.arg IN
          /\ LastH.out.body.meth = objs[i].attrs.meth /\ LastH.out.body.cls = objs[i].cls
          /\ LastH.out.body.selfid = IdOf(objs[i]) /\ LastH.out.reported = IdOf(objs[i])
          /\ \A j \in DOMAIN objs : IdOf(objs'[j]) = IdOf(objs[j])]_vars

\* constructing, or changing an attribute of, one test never changes the id of any test
IdsStable ==
    [][(Did("construct") \/ Did("setattr") \/ Did("copy")) => \A j \in DOMAIN objs : IdOf(objs'[j]) = IdOf(objs[j])]_vars

-----------------------------------------------------------------------------
Terminal == n = MaxSteps
ExportC == Terminal => PrintT(<<"EXPORT", ToJson(hist)>>)
ViewNoHist == <<objs, tok, n>>
=============================================================================
