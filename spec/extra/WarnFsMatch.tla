---------------------------- MODULE WarnFsMatch ----------------------------
(***************************************************************************)
(* X12 (part 2) - the stock matchers the matcher specification spec/match   *)
(* leaves out: Warnings / WarningMessage / IsDeprecated, SamePath,          *)
(* HasPermissions, TarballContains, MatchesPredicateWithParams.             *)
(*                                                                         *)
(* Documented sentences formalised:                                         *)
(*  D1 Warnings docstring: "Match if the matchee produces warnings. ...     *)
(*     warnings_matcher: Optional validator for the warnings emitted by     *)
(*     matchee. If no warnings_matcher is supplied then the simple fact     *)
(*     that at least one warning is emitted is considered enough to match   *)
(*     on."  doc/for-test-authors.rst: "Captures all warnings produced by a *)
(*     callable as a list of warning.WarningMessage and matches against     *)
(*     it."  (example: Warnings(HasLength(1)) = "exactly one warning")      *)
(*                                   W_CapturesAll, W_VerdictMeaning         *)
(*  D2 WarningMessage docstring: "Create a matcher that will match          *)
(*     warnings.WarningMessages. ... category_type: A warning type ...      *)
(*     message_matcher: A matcher object that will be evaluated against     *)
(*     warning's message. filename_matcher: ... the warning's filename.     *)
(*     lineno_matcher: ... the warning's line number."  rst: "Match against *)
(*     various attributes (category, message and filename to name a few)"   *)
(*                                   W_ElementMeaning, W_VerdictMeaning      *)
(*  D3 IsDeprecated docstring: "Make a matcher that checks that a callable  *)
(*     produces exactly one DeprecationWarning. message: Matcher for the    *)
(*     warning message."  rst: "Matches if a callable produces a warning    *)
(*     whose message matches the specified matcher ... a convenience        *)
(*     function that combines Warnings and WarningMessage."                 *)
(*                                                     W_VerdictMeaning      *)
(*  D4 SamePath docstring: "Matches if two paths are the same.  That is,    *)
(*     the paths are equal, or they point to the same file but in different *)
(*     ways.  The paths do not have to exist."  rst: "Matches if two paths  *)
(*     actually refer to the same thing.  The paths don't have to exist,    *)
(*     but if they do exist, SamePath will resolve any symlinks."  example  *)
(*     assertThat('somefile', SamePath('childdir/../somefile'))             *)
(*                                   SP_VerdictMeaning, SP_ResolvedCanonical *)
(*  D5 HasPermissions docstring: "Matches if a file has the given           *)
(*     permissions.  Permissions are specified and matched as a four-digit  *)
(*     octal string. ... e.g. '0775' for rwxrwxr-x."  rst: "a file or       *)
(*     directory ... HasPermissions('1777') ... HasPermissions('0600')"     *)
(*                                                     HP_VerdictMeaning     *)
(*  D6 TarballContains docstring: "Matches if the given tarball contains    *)
(*     the given paths.  Uses TarFile.getnames() to get the paths out of    *)
(*     the tarball."  rst: "In many ways, much like DirContains, but        *)
(*     instead of matching on os.listdir matches on TarFile.getnames."      *)
(*     (DirContains: "is the directory listing exactly equal to the given   *)
(*     files?" - the orders do not matter)            TB_VerdictMeaning      *)
(*  D7 MatchesPredicateWithParams docstring: "Match if a given              *)
(*     parameterised function returns True. ... returns a factory which you *)
(*     then customise to use by constructing an actual matcher from it. The *)
(*     predicate function should take the object to match as its first      *)
(*     parameter. Any additional parameters supplied when constructing a    *)
(*     matcher are supplied to the predicate as additional parameters when  *)
(*     checking for a match."  message: "formatted with .format() and be    *)
(*     given a tuple containing whatever was passed to match() + *args in   *)
(*     *args, and whatever was passed to **kwargs as its **kwargs."  rst:   *)
(*     "The predicate needs to return a boolean (or any truthy object)"     *)
(*                          PP_VerdictMeaning, PP_DescMeaning, PP_OwnParams  *)
(*                                                                         *)
(* A behaviour is one (matcher, matchee) case.  MECHANISM: the code path of *)
(* the matcher, one action per stage (record under the "always" filter /    *)
(* length test / MatchesStructure per element; os.path.realpath component   *)
(* by component over a link table; oct() and [-4:]; getnames, two sorts,    *)
(* comparison; predicate call with (x,) + args, **kwargs and message        *)
(* formatting).  MEANING: predicates over the case alone (quantifiers over  *)
(* the emitted list; the table "which file does this path expression refer  *)
(* to" of the MC module, which the driver validates against the real        *)
(* directory by inode; arithmetic on the mode; bag equality; the predicate  *)
(* in arithmetic).                                                          *)
(***************************************************************************)
EXTENDS Integers, Sequences, FiniteSets, TLC, Json

CONSTANTS
    Cases,          \* set of case records, see the MC module
    AlwaysFilter    \* TRUE = warnings.simplefilter("always") as in the code; FALSE = spec mutation ("default" action)

VARIABLES
    case,     \* constant along a behaviour
    pc,
    reg,      \* the working registers of the matcher (shape depends on case.kind)
    out,      \* outcomes so far: <<[v |-> "match" | "mismatch", desc |-> description tokens]>>
    hist

vars == <<case, pc, reg, out, hist>>

Front(s) == SubSeq(s, 1, Len(s) - 1)
Min2(a, b) == IF a <= b THEN a ELSE b
Outcome(b, d) == [v |-> IF b THEN "match" ELSE "mismatch", desc |-> d]

-----------------------------------------------------------------------------
(* Warnings / WarningMessage / IsDeprecated *)

\* categories: Sub < Dep < Warning, User < Warning, Pend < Warning
IsSubCat(c, d) == c = d \/ (c = "Sub" /\ d = "Dep")

\* warnings.catch_warnings(record=True) + simplefilter("always"): every warning is appended to the log.
\* (spec mutation: the "default" action shows a warning once per (text, category, line))
RECURSIVE Once(_, _)
Once(ws, seen) ==
    IF ws = <<>> THEN <<>>
    ELSE LET k == <<Head(ws).msg, Head(ws).cat, Head(ws).line>>
         IN IF k \in seen THEN Once(Tail(ws), seen) ELSE <<Head(ws)>> \o Once(Tail(ws), seen \cup {k})
Recorded(ws) == IF AlwaysFilter THEN ws ELSE Once(ws, {})

\* IsDeprecated(message) = Warnings(MatchesListwise([WarningMessage(category_type=DeprecationWarning, message=message)]))
SpecsOf(m) ==
    CASE m.k = "list" -> m.specs
      [] m.k = "dep" -> <<[cat |-> "Dep", msg |-> m.msg, file |-> "*", line |-> 0]>>
      [] OTHER -> <<>>

\* WarningMessage(...) = MatchesStructure(category=Is(type), message=AfterPreprocessing(str, m), filename=m, lineno=m,
\* line=Always()): the set of attributes whose matcher reports a mismatch ("*" / 0: no matcher given -> Always())
BadFields(s, x) ==
    {f \in {"category", "message", "filename", "lineno"} :
        CASE f = "category" -> s.cat # x.cat                        \* Is(category_type)
          [] f = "message" -> s.msg # "*" /\ s.msg # x.msg
          [] f = "filename" -> s.file # "*" /\ s.file # x.file
          [] OTHER -> s.line # 0 /\ s.line # x.line}

WRecord ==
    /\ UNCHANGED case
    /\ pc = "w.record"
    /\ reg' = [reg EXCEPT !.rec = Recorded(case.emits)]
    /\ pc' = "w.apply"
    /\ UNCHANGED out
    /\ hist' = Append(hist, [a |-> "record", rec |-> reg'.rec])

WApply ==
    /\ UNCHANGED case
    /\ pc = "w.apply"
    /\ LET m == case.m
           n == Len(reg.rec)
       IN CASE m.k = "any" ->          \* elif not w: return Mismatch("Expected at least one warning, got none")
                 /\ out' = <<Outcome(n > 0, <<>>)>> /\ pc' = "done" /\ UNCHANGED reg
                 /\ hist' = Append(hist, [a |-> "apply", how |-> "nonempty", ok |-> (n > 0)])
            [] m.k = "len" ->          \* HasLength(n).match(w)
                 /\ out' = <<Outcome(n = m.n, <<>>)>> /\ pc' = "done" /\ UNCHANGED reg
                 /\ hist' = Append(hist, [a |-> "apply", how |-> "length", ok |-> (n = m.n)])
            [] OTHER ->                \* MatchesListwise: length test, then zip(matchers, values)
                 /\ reg' = [reg EXCEPT !.lenbad = (n # Len(reg.specs)), !.i = 1]
                 /\ IF Min2(n, Len(reg.specs)) = 0
                    THEN out' = <<Outcome(n = Len(reg.specs), <<>>)>> /\ pc' = "done"
                    ELSE pc' = "w.elem" /\ UNCHANGED out
                 /\ hist' = Append(hist, [a |-> "apply", how |-> "listwise", ok |-> (n = Len(reg.specs))])

WElem ==
    /\ UNCHANGED case
    /\ pc = "w.elem"
    /\ LET i == reg.i
           bad == BadFields(reg.specs[i], reg.rec[i])
           diffs == Append(reg.diffs, bad)
           last == i = Min2(Len(reg.rec), Len(reg.specs))
       IN /\ reg' = [reg EXCEPT !.i = i + 1, !.diffs = diffs]
          /\ IF last
             THEN out' = <<Outcome(~reg.lenbad /\ \A j \in DOMAIN diffs : diffs[j] = {}, <<>>)>> /\ pc' = "done"
             ELSE UNCHANGED <<out, pc>>
          /\ hist' = Append(hist, [a |-> "elem", i |-> i, bad |-> bad])

\* MEANING
FieldOk(pat, val) == pat = "*" \/ pat = val
LineOk(pat, val) == pat = 0 \/ pat = val
WMExact(s, x) == s.cat = x.cat /\ FieldOk(s.msg, x.msg) /\ FieldOk(s.file, x.file) /\ LineOk(s.line, x.line)
WMSub(s, x) == IsSubCat(x.cat, s.cat) /\ FieldOk(s.msg, x.msg) /\ FieldOk(s.file, x.file) /\ LineOk(s.line, x.line)
ListOf(R(_, _), specs, ws) == Len(specs) = Len(ws) /\ \A i \in DOMAIN specs : R(specs[i], ws[i])

\* the readings the documentation admits; a case is judged when they agree
WReadings(m, ws) ==
    CASE m.k = "any" -> {Len(ws) >= 1}                                  \* D1 "at least one warning is emitted"
      [] m.k = "len" -> {Len(ws) = m.n}                                 \* D1 "captures all warnings ... as a list"
      [] m.k = "list" -> {ListOf(WMExact, m.specs, ws),                  \* D2; "a warning type": the type itself,
                          ListOf(WMSub, m.specs, ws)}                    \*     or also its subclasses (not stated)
      [] OTHER ->                                                       \* D3
           LET ok(x) == FieldOk(m.msg, x.msg)
               deps(R(_)) == {i \in DOMAIN ws : R(ws[i].cat)}
               exact(c) == c = "Dep"
               sub(c) == IsSubCat(c, "Dep")
           IN {Len(ws) = 1 /\ ws[1].cat = "Dep" /\ ok(ws[1]),           \* exactly one warning, a DeprecationWarning
               Len(ws) = 1 /\ IsSubCat(ws[1].cat, "Dep") /\ ok(ws[1]),  \* ... subclasses count
               Cardinality(deps(exact)) = 1 /\ \A i \in deps(exact) : ok(ws[i]),   \* other categories do not count
               Cardinality(deps(sub)) = 1 /\ \A i \in deps(sub) : ok(ws[i]),
               Len(ws) = 1 /\ ok(ws[1])}                                \* the rst example warns with a UserWarning
WUnspecified == case.kind = "W" /\ Cardinality(WReadings(case.m, case.emits)) > 1
WMeaning == CHOOSE b \in WReadings(case.m, case.emits) : TRUE

-----------------------------------------------------------------------------
(* SamePath: f(x) = os.path.abspath(os.path.realpath(x)); Equals(f(self.path)).match(f(other_path)) *)

\* the directory the replay builds (R = its root = the working directory):
\*   f, h files; d, d/e directories; d/h, d/e/g files;
\*   l -> "f", la -> "<R>/f" (absolute), ld -> "d/e", d/lu -> "../h" symbolic links; everything else is missing
LinkTable == {<<<<"l">>, FALSE, <<"f">>>>, <<<<"la">>, TRUE, <<"f">>>>, <<<<"ld">>, FALSE, <<"d", "e">>>>,
              <<<<"d", "lu">>, FALSE, <<"..", "h">>>>}
IsLink(p) == \E t \in LinkTable : t[1] = p
LinkOf(p) == CHOOSE t \in LinkTable : t[1] = p

\* one turn of posixpath._joinrealpath: consume one component
WalkStep(res, rest) ==
    LET c == Head(rest)
        np == Append(res, c)
    IN IF c = "." THEN [res |-> res, rest |-> Tail(rest)]
       ELSE IF c = ".." THEN [res |-> Front(res), rest |-> Tail(rest)]
       ELSE IF IsLink(np) THEN [res |-> IF LinkOf(np)[2] THEN <<>> ELSE res, rest |-> LinkOf(np)[3] \o Tail(rest)]
       ELSE [res |-> np, rest |-> Tail(rest)]

SPWalk ==
    /\ UNCHANGED case
    /\ pc \in {"sp.walk1", "sp.walk2"}
    /\ IF reg.rest = <<>>
       THEN /\ reg' = [reg EXCEPT !.ends = Append(reg.ends, reg.res), !.res = <<>>,
                                    !.rest = IF pc = "sp.walk1" THEN case.q.comps ELSE <<>>]
            /\ pc' = IF pc = "sp.walk1" THEN "sp.walk2" ELSE "sp.cmp"
            /\ hist' = Append(hist, [a |-> "resolved", which |-> IF pc = "sp.walk1" THEN "self" ELSE "other", real |-> reg.res])
       ELSE /\ Assert(Head(reg.rest) # ".." \/ reg.res # <<>>, "path expression leaves the scratch root")
            /\ LET s == WalkStep(reg.res, reg.rest) IN reg' = [reg EXCEPT !.res = s.res, !.rest = s.rest]
            /\ UNCHANGED pc
            /\ hist' = Append(hist, [a |-> "walk", res |-> reg'.res, rest |-> reg'.rest])
    /\ UNCHANGED out

SPCompare ==
    /\ UNCHANGED case
    /\ pc = "sp.cmp"
    /\ out' = <<Outcome(reg.ends[1] = reg.ends[2], <<>>)>>
    /\ pc' = "done"
    /\ UNCHANGED reg
    /\ hist' = Append(hist, [a |-> "compare", same |-> (reg.ends[1] = reg.ends[2])])

\* MEANING: case.p.node / case.q.node name what the path expression refers to (MC table, validated against the
\* real directory by the driver: same name <=> same inode; "M:<dir node>/<name>" for a path that does not exist)
SPMeaning == case.p.node = case.q.node

-----------------------------------------------------------------------------
(* HasPermissions: permissions = oct(os.stat(filename).st_mode)[-4:]; Equals(octal_permissions).match(permissions) *)

Digit == <<"0", "1", "2", "3", "4", "5", "6", "7">>
RECURSIVE OctDigits(_)
OctDigits(n) == IF n < 8 THEN <<Digit[n + 1]>> ELSE Append(OctDigits(n \div 8), Digit[(n % 8) + 1])
OctStr(n) == <<"0", "o">> \o OctDigits(n)
LastFour(s) == IF Len(s) <= 4 THEN s ELSE SubSeq(s, Len(s) - 3, Len(s))

HPOct ==
    /\ UNCHANGED case
    /\ pc = "hp.oct"
    /\ reg' = [reg EXCEPT !.oct = OctStr(case.mode)]
    /\ pc' = "hp.slice" /\ UNCHANGED out
    /\ hist' = Append(hist, [a |-> "oct", s |-> reg'.oct])
HPSlice ==
    /\ UNCHANGED case
    /\ pc = "hp.slice"
    /\ reg' = [reg EXCEPT !.last = LastFour(reg.oct)]
    /\ pc' = "hp.cmp" /\ UNCHANGED out
    /\ hist' = Append(hist, [a |-> "slice", s |-> reg'.last])
HPCompare ==
    /\ UNCHANGED case
    /\ pc = "hp.cmp"
    /\ out' = <<Outcome(reg.last = case.perm, <<>>)>>
    /\ pc' = "done" /\ UNCHANGED reg
    /\ hist' = Append(hist, [a |-> "compare", same |-> (reg.last = case.perm)])

\* MEANING: the four octal digits of the permission bits (special, user, group, other) of the mode
DigitVal(c) == CHOOSE n \in 0..7 : Digit[n + 1] = c
Pow8(k) == CASE k = 0 -> 1 [] k = 1 -> 8 [] k = 2 -> 64 [] OTHER -> 512
HPMeaning == \A k \in 1..4 : DigitVal(case.perm[k]) = ((case.mode % 4096) \div Pow8(4 - k)) % 8

-----------------------------------------------------------------------------
(* TarballContains: Equals(sorted(self.paths)).match(sorted(tarball.getnames())) *)

NameOrder == <<"a", "b", "d", "d/c">>        \* Python's order of these strings
Rank(n) == CHOOSE i \in DOMAIN NameOrder : NameOrder[i] = n
RECURSIVE Insert(_, _)
Insert(x, s) == IF s = <<>> THEN <<x>> ELSE IF Rank(x) <= Rank(Head(s)) THEN <<x>> \o s ELSE <<Head(s)>> \o Insert(x, Tail(s))
RECURSIVE Sorted(_)
Sorted(s) == IF s = <<>> THEN <<>> ELSE Insert(Head(s), Sorted(Tail(s)))

TBNames ==
    /\ UNCHANGED case
    /\ pc = "tb.names"
    /\ reg' = [reg EXCEPT !.names = case.members]        \* TarFile.getnames(): archive order
    /\ pc' = "tb.sort" /\ UNCHANGED out
    /\ hist' = Append(hist, [a |-> "getnames", names |-> reg'.names])
TBSort ==
    /\ UNCHANGED case
    /\ pc = "tb.sort"
    /\ reg' = [reg EXCEPT !.sn = Sorted(reg.names), !.sp = Sorted(case.paths)]
    /\ pc' = "tb.cmp" /\ UNCHANGED out
    /\ hist' = Append(hist, [a |-> "sort", names |-> reg'.sn, paths |-> reg'.sp])
TBCompare ==
    /\ UNCHANGED case
    /\ pc = "tb.cmp"
    /\ out' = <<Outcome(reg.sn = reg.sp, <<>>)>>
    /\ pc' = "done" /\ UNCHANGED reg
    /\ hist' = Append(hist, [a |-> "compare", same |-> (reg.sn = reg.sp)])

\* MEANING: the same names, each as often (orders immaterial)
Count(s, n) == Cardinality({i \in DOMAIN s : s[i] = n})
TBMeaning == \A i \in DOMAIN NameOrder : Count(case.members, NameOrder[i]) = Count(case.paths, NameOrder[i])

-----------------------------------------------------------------------------
(* MatchesPredicateWithParams(predicate, message, name) -> factory; factory(args, kwargs).match(x) *)

\* kwargs: a set of <<name, value>> pairs.  predicates of the replay:
\*   div(x, k): x % k == 0          btw(x, lo, hi=5): lo < x < hi
KwHas(kw, n) == \E p \in kw : p[1] = n
KwGet(kw, n) == (CHOOSE p \in kw : p[1] = n)[2]

\* the call predicate(x, *args, **kwargs)
CallPred(pred, vec, kw) ==
    IF pred = "div" THEN vec[1] % vec[2] = 0
    ELSE LET hi == IF Len(vec) >= 3 THEN vec[3] ELSE IF KwHas(kw, "hi") THEN KwGet(kw, "hi") ELSE 5
         IN vec[2] < vec[1] /\ vec[1] < hi

\* message.format applied to the tuple (x,) + args and the keyword arguments
FormatMsg(tmpl, vec, kw) ==
    [i \in DOMAIN tmpl |->
        CASE tmpl[i].t = "pos" -> [t |-> "val", v |-> vec[tmpl[i].i + 1]]
          [] tmpl[i].t = "kw" -> [t |-> "val", v |-> KwGet(kw, tmpl[i].n)]
          [] OTHER -> tmpl[i]]

PPMake ==
    /\ UNCHANGED case
    /\ pc = "pp.make"
    /\ LET k == Len(reg.ms) + 1
       IN /\ reg' = [reg EXCEPT !.ms = Append(reg.ms, case.cons[k])]        \* construct_matcher: args and kwargs are kept
          /\ pc' = IF k = Len(case.cons) THEN "pp.match" ELSE "pp.make"
          /\ hist' = Append(hist, [a |-> "make", k |-> k, args |-> case.cons[k].args, kw |-> case.cons[k].kw])
    /\ UNCHANGED out

PPMatch ==
    /\ UNCHANGED case
    /\ pc = "pp.match"
    /\ LET k == Len(out) + 1
           m == reg.ms[k]
           vec == <<case.x>> \o m.args
           ok == CallPred(case.pred, vec, m.kw)
           o == Outcome(ok, IF ok THEN <<>> ELSE FormatMsg(case.tmpl, vec, m.kw))
       IN /\ out' = Append(out, o)
          /\ pc' = IF k = Len(reg.ms) THEN "done" ELSE "pp.match"
          /\ hist' = Append(hist, [a |-> "match", k |-> k, v |-> o.v, desc |-> o.desc])
    /\ UNCHANGED reg

\* MEANING, from the case alone: the k-th matcher made by the factory holds the k-th parameters
PPHolds(k) ==
    LET c == case.cons[k]
        x == case.x
    IN IF case.pred = "div" THEN \E q \in 0..x : q * c.args[1] = x
       ELSE LET lo == c.args[1]
                hi == IF Len(c.args) = 2 THEN c.args[2] ELSE IF c.kw = {} THEN 5 ELSE KwGet(c.kw, "hi")
            IN x \in (lo + 1)..(hi - 1)
PPDesc(k) ==
    LET c == case.cons[k]
        sub(t) == IF t.t = "lit" THEN t
                  ELSE IF t.t = "kw" THEN [t |-> "val", v |-> KwGet(c.kw, t.n)]
                  ELSE IF t.i = 0 THEN [t |-> "val", v |-> case.x]
                  ELSE [t |-> "val", v |-> c.args[t.i]]
    IN [i \in DOMAIN case.tmpl |-> sub(case.tmpl[i])]

-----------------------------------------------------------------------------
InitReg(c) ==
    CASE c.kind = "W" -> [rec |-> <<>>, specs |-> SpecsOf(c.m), lenbad |-> FALSE, i |-> 0, diffs |-> <<>>]
      [] c.kind = "SP" -> [res |-> <<>>, rest |-> c.p.comps, ends |-> <<>>]
      [] c.kind = "HP" -> [oct |-> <<>>, last |-> <<>>]
      [] c.kind = "TB" -> [names |-> <<>>, sn |-> <<>>, sp |-> <<>>]
      [] OTHER -> [ms |-> <<>>]
InitPc(c) ==
    CASE c.kind = "W" -> "w.record" [] c.kind = "SP" -> "sp.walk1" [] c.kind = "HP" -> "hp.oct"
      [] c.kind = "TB" -> "tb.names" [] OTHER -> "pp.make"

Init ==
    /\ case \in Cases
    /\ pc = InitPc(case) /\ reg = InitReg(case) /\ out = <<>>
    /\ hist = <<[a |-> "init", case |-> case]>>

Next == WRecord \/ WApply \/ WElem \/ SPWalk \/ SPCompare \/ HPOct \/ HPSlice \/ HPCompare
          \/ TBNames \/ TBSort \/ TBCompare \/ PPMake \/ PPMatch
Spec == Init /\ [][Next]_vars

-----------------------------------------------------------------------------
(* Invariants *)

Done == pc = "done"
Matched(k) == out[k].v = "match"

TypeOK ==
    /\ case.kind \in {"W", "SP", "HP", "TB", "PP"}
    /\ \A k \in DOMAIN out : out[k].v \in {"match", "mismatch"}
    /\ Done => Len(out) = (IF case.kind = "PP" THEN Len(case.cons) ELSE 1)
    /\ ~Done /\ case.kind # "PP" => out = <<>>

\* D1: the matcher gets all the warnings, in the order of emission, repeated ones included
W_CapturesAll == case.kind = "W" /\ pc # "w.record" => reg.rec = case.emits

\* D2: per element, no attribute is reported iff the category is the given type and every given matcher accepts
W_ElementMeaning == case.kind = "W" =>
    \A j \in DOMAIN reg.diffs : (reg.diffs[j] = {}) <=> WMExact(reg.specs[j], case.emits[j])

\* D1-D3
W_VerdictMeaning == case.kind = "W" /\ Done /\ ~WUnspecified => (Matched(1) <=> WMeaning)

\* D4: the resolved part never holds a link, "." or ".."
SP_ResolvedCanonical == case.kind = "SP" =>
    \A e \in {reg.res} \cup {reg.ends[i] : i \in DOMAIN reg.ends} :
        \A n \in 1..Len(e) : ~IsLink(SubSeq(e, 1, n)) /\ e[n] \notin {".", ".."}
SP_VerdictMeaning == case.kind = "SP" /\ Done => (Matched(1) <=> SPMeaning)

\* D5
HP_FourDigits == case.kind = "HP" /\ pc \in {"hp.cmp", "done"} => Len(reg.last) = 4 /\ \A i \in 1..4 : reg.last[i] \in {Digit[j] : j \in 1..8}
HP_VerdictMeaning == case.kind = "HP" /\ Done => (Matched(1) <=> HPMeaning)

\* D6
TB_SortedLists == case.kind = "TB" /\ pc \in {"tb.cmp", "done"} =>
    /\ \A i \in 1..(Len(reg.sn) - 1) : Rank(reg.sn[i]) <= Rank(reg.sn[i + 1])
    /\ \A i \in DOMAIN NameOrder : Count(reg.sn, NameOrder[i]) = Count(case.members, NameOrder[i])
    /\ \A i \in DOMAIN NameOrder : Count(reg.sp, NameOrder[i]) = Count(case.paths, NameOrder[i])
TB_VerdictMeaning == case.kind = "TB" /\ Done => (Matched(1) <=> TBMeaning)

\* D7
PP_OwnParams == case.kind = "PP" => \A k \in DOMAIN reg.ms : reg.ms[k] = case.cons[k]
PP_VerdictMeaning == case.kind = "PP" => \A k \in DOMAIN out : Matched(k) <=> PPHolds(k)
PP_DescMeaning == case.kind = "PP" => \A k \in DOMAIN out : ~Matched(k) => out[k].desc = PPDesc(k)

-----------------------------------------------------------------------------
Terminal == Done
NoHist == <<case, pc, reg, out>>
Judged == IF case.kind = "W" THEN ~WUnspecified ELSE TRUE
ExportC == Terminal => PrintT(<<"EXPORT", ToJson([hist |-> hist, out |-> out, judged |-> Judged])>>)
=============================================================================
