------------------------------ MODULE UniStream ------------------------------
(***************************************************************************)
(* X08 (part 2) - testtools.compat.unicode_output_stream(stream).           *)
(*                                                                         *)
(* Documented sentences formalised (docstring):                             *)
(*  D1 "Get wrapper for given stream that writes any unicode without        *)
(*     exception"                                              NeverRaises  *)
(*  D2 "Characters that can't be coerced to the encoding of the stream, or  *)
(*     'ascii' if valid encoding is not found, will be replaced."           *)
(*                                                      ReplacementMeaning  *)
(*  D3 "The original stream may be returned in situations where a wrapper   *)
(*     is determined unneeded."; code comment: "already a TextIO"; NEWS     *)
(*     0.9.29: "unicode_output_stream was wrapping a stream encoder around  *)
(*     io.StringIO and io.TextIOWrapper objects, which was incorrect."      *)
(*     -> io text streams and streams with a unicode encoding come back     *)
(*     unchanged and receive the text itself               UnchangedMeaning *)
(*                                                                         *)
(* MECHANISM: the if-chain of the code (isinstance test, codecs.getwriter   *)
(* lookup with its two failure modes, the utf* shortcut, the                *)
(* stream.__class__(stream.buffer, ...) reconstruction, the StreamWriter).  *)
(* MEANING: a table over (what kind of stream, which characters its         *)
(* encoding can represent).                                                 *)
(* Texts are sequences of character classes: "a" ASCII, "l" Latin-1 only,   *)
(* "g" Greek (ISO-8859-7) only, "x" in no 8-bit codec used here, "w" a      *)
(* character outside the BMP.                                               *)
(***************************************************************************)
EXTENDS Naturals, Sequences, FiniteSets, TLC, Json

CONSTANTS
    Streams,      \* set of records [kind, enc, buffer]
    Texts,        \* set of texts (sequences of character classes)
    MaxWrites,
    UtfShortcut   \* TRUE = as coded; FALSE = spec mutation: the utf* shortcut also taken for every valid codec

None == "none"
Chars == {"a", "l", "g", "x", "w"}

\* kind: "stringio" | "tiw" (io.TextIOWrapper) | "duck" (any other object with write());
\* enc (duck/tiw): "absent" (no attribute) | "none" (None) | "bogus" | "ascii" | "latin1" | "greek" | "utf8" | "utf16"
\* buffer (duck): TRUE when the object also offers .buffer/.newlines/.line_buffering and its class takes them
ValidCodecs == {"ascii", "latin1", "greek", "utf8", "utf16"}
UtfCodecs == {"utf8", "utf16"}

Can(enc, c) ==
    CASE enc \in UtfCodecs -> TRUE
      [] enc = "ascii" -> c = "a"
      [] enc = "latin1" -> c \in {"a", "l"}
      [] enc = "greek" -> c \in {"a", "g"}
      [] OTHER -> FALSE

VARIABLES
    stream,     \* the stream handed in
    wrapper,    \* what unicode_output_stream returned: [same, how, enc]
    nw,
    hist

vars == <<stream, wrapper, nw, hist>>

-----------------------------------------------------------------------------
(* Mechanism *)

AsciiWriter == [same |-> FALSE, how |-> "streamwriter", enc |-> "ascii"]

Wrap(s) ==
    IF s.kind \in {"stringio", "tiw"} THEN [same |-> TRUE, how |-> "text", enc |-> s.enc]       \* isinstance(...)
    ELSE IF s.enc = "absent" THEN AsciiWriter                       \* AttributeError
    ELSE IF s.enc \in {"none", "bogus"} THEN AsciiWriter            \* codecs.getwriter("" | "bogus"): LookupError
    ELSE IF (IF UtfShortcut THEN s.enc \in UtfCodecs ELSE s.enc \in ValidCodecs)
         THEN [same |-> TRUE, how |-> "text", enc |-> s.enc]        \* "a unicode encoding so no error handler is needed"
    ELSE IF s.buffer THEN [same |-> FALSE, how |-> "rebuilt", enc |-> s.enc]   \* stream.__class__(stream.buffer, enc, "replace", ...)
    ELSE [same |-> FALSE, how |-> "streamwriter", enc |-> s.enc]               \* writer(stream, "replace")

\* what one write(text) through the returned object delivers
Deliver(w, s, text) ==
    IF w.how = "text"
    THEN IF s.kind = "tiw" /\ \E i \in DOMAIN text : ~Can(s.enc, text[i])
         THEN [out |-> "unspecified", data |-> <<>>]         \* an io.TextIOWrapper is returned as it is, with its own error handler
         ELSE [out |-> "text", data |-> text]
    ELSE [out |-> "bytes", data |-> [i \in DOMAIN text |-> IF Can(w.enc, text[i]) THEN text[i] ELSE "?"]]

Init ==
    /\ stream \in Streams
    /\ wrapper = Wrap(stream)
    /\ nw = 0
    /\ hist = <<[a |-> "wrap", stream |-> stream, same |-> wrapper.same, enc |-> wrapper.enc]>>

Write(text) ==
    /\ nw < MaxWrites
    /\ nw' = nw + 1
    /\ hist' = Append(hist, [a |-> "write", text |-> text, res |-> Deliver(wrapper, stream, text)])
    /\ UNCHANGED <<stream, wrapper>>

Next == \E t \in Texts : Write(t)
Spec == Init /\ [][Next]_vars

-----------------------------------------------------------------------------
(* MEANING *)

\* D3: streams that take text themselves
TakesAnyText(s) == s.kind = "stringio" \/ (s.kind = "duck" /\ s.enc \in UtfCodecs)
IsTextIO(s) == s.kind \in {"stringio", "tiw"}
\* D2: "the encoding of the stream, or 'ascii' if valid encoding is not found"
Effective(s) == IF s.enc \in ValidCodecs THEN s.enc ELSE "ascii"

Writes == {i \in DOMAIN hist : hist[i].a = "write"}

NeverRaises == \A i \in Writes : hist[i].res.out \in {"text", "bytes", "unspecified"}

UnchangedMeaning ==
    /\ (IsTextIO(stream) \/ TakesAnyText(stream)) <=> wrapper.same
    /\ wrapper.same => \A i \in Writes : hist[i].res.out = "unspecified" \/ hist[i].res.data = hist[i].text

ReplacementMeaning ==
    ~wrapper.same =>
        \A i \in Writes :
            LET t == hist[i].text
                d == hist[i].res.data
            IN /\ hist[i].res.out = "bytes" /\ Len(d) = Len(t)
               /\ \A j \in DOMAIN t : d[j] = (IF Can(Effective(stream), t[j]) THEN t[j] ELSE "?")

\* only an io.TextIOWrapper with a narrow codec is left to its own error handler
UnspecifiedOnlyForNarrowTextIO ==
    \A i \in Writes : hist[i].res.out = "unspecified" => (stream.kind = "tiw" /\ stream.enc \notin UtfCodecs)

-----------------------------------------------------------------------------
Terminal == nw = MaxWrites
ExportC == Terminal => PrintT(<<"EXPORT", ToJson(hist)>>)
=============================================================================
