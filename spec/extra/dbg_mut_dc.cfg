SPECIFICATION Spec
CONSTANTS
  MaxDepth = 3
  MaxSteps = 5
  RestoreBoth = FALSE

INVARIANT ValueIsInnermost
INVARIANT Restored
CHECK_DEADLOCK FALSE
