----------------------------- MODULE ResStream -----------------------------
(***************************************************************************)
(* X05 - testtools.testresult.real.ResourcedToStreamDecorator (on top of    *)
(* ExtendedToStreamDecorator = CopyStreamResult + StreamSummary).           *)
(*                                                                         *)
(* Documented sentences formalised:                                         *)
(*  D1 class docstring: "At each stage of a resource's lifecycle, a stream  *)
(*     event with relevant details will be emitted."       OneEventPerStage *)
(*  D2 "Each stream event will have its test_id field set to the resource   *)
(*     manager's identifier (see testresources.TestResourceManager.id())    *)
(*     plus the method being executed (either 'make' or 'clean')."; code    *)
(*     comment: "If the resource implements the TestResourceManager.id()    *)
(*     API, let's use it, otherwise fallback to the class name."            *)
(*                                                          ResourceEvents  *)
(*  D3 "The test_status will be either 'inprogress' or 'success'."  (start  *)
(*     -> inprogress, stop -> success)                      ResourceEvents  *)
(*  D4 "The runnable flag will be set to False."            ResourceEvents  *)
(*  D5 _now docstring: "If the time() method has not been called, this is   *)
(*     equivalent to datetime.now(), otherwise its the last supplied        *)
(*     datestamp given to the time() method."  (startTestRun resets the     *)
(*     result, the supplied time included)         ResourceEvents, NowAt    *)
(*  D6 ExtendedToStreamDecorator docstring: "converts old ... TestResult    *)
(*     API calls into StreamResult calls": the events of ordinary tests     *)
(*     are those of the same history without the resource calls             *)
(*                                                       OrdinaryUnaffected *)
(*  D7 StreamSummary docstring: "summarises a stream. The summary uses the  *)
(*     same representation as the original unittest.TestResult contract";   *)
(*     wasSuccessful: "Return False if any failure has occurred.  Note that *)
(*     incomplete tests can only be detected when stopTestRun is called":   *)
(*     the decorator's counters summarise the stream it emitted; a          *)
(*     resource stage that was started and stopped is one (successful)      *)
(*     test, one that was only started is an incomplete test                *)
(*                                                          SummaryMeaning  *)
(*                                                                         *)
(* MECHANISM (code-shaped): one action per public call; the state of the    *)
(* decorator (started flag, supplied time, tag context, in-progress table   *)
(* of the StreamSummary hook, counters); every call appends the events it   *)
(* sends to the decorated StreamResult to `emitted`.                        *)
(* MEANING (independent): folds over the call history `calls` (what time    *)
(* and tags were current at call i; which events call i stands for) and     *)
(* over the emitted stream (which ids are closed / left open).              *)
(***************************************************************************)
EXTENDS Naturals, Sequences, FiniteSets, TLC, Json

CONSTANTS
    Resources,    \* set of records [tok, hasid, idval, clsname]
    Tests,        \* ids of ordinary tests
    Outcomes,     \* subset of {"success", "fail", "skip", "xfail", "uxsuccess"}
    Times,        \* values given to time()
    MaxLen,       \* bound on calls per run
    MaxRuns,      \* bound on startTestRun/stopTestRun brackets
    StopStatus    \* "success" = as documented/coded; anything else = spec mutation

None == "none"
NoTags == {"~"}       \* test_tags=None
Clock == "clock"      \* timestamp taken from the system clock
Final == {"success", "fail", "skip", "xfail", "uxsuccess"}

VARIABLES
    started,    \* _started: startTestRun was called at least once
    running,    \* between startTestRun and stopTestRun
    runs,
    now,        \* value given to time() since startTestRun, or None            (mechanism)
    gtag,       \* tag "g" set in the run-level tag context                      (mechanism)
    cur,        \* test between startTest and stopTest, or None
    curdone,    \* an outcome was reported for cur
    emitted,    \* events sent to the decorated StreamResult in this run         (mechanism output)
    table,      \* ids in progress in the StreamSummary hook, insertion order    (mechanism)
    sum,        \* [testsRun, errors, skipped, xfails, uxs]                      (mechanism)
    calls,      \* API calls of this run                                         (history, for the meaning)
    n,
    hist

vars == <<started, running, runs, now, gtag, cur, curdone, emitted, table, sum, calls, n, hist>>

-----------------------------------------------------------------------------
(* Mechanism *)

Ev(i, s, r, ts, tg, fn) == [id |-> i, status |-> s, runnable |-> r, ts |-> ts, tags |-> tg, fname |-> fn]

Stamp == IF now = None THEN Clock ELSE now                       \* _now()
CurTags == IF gtag THEN {"g"} ELSE {}                            \* current_tags

\* _convertResourceLifecycle: hasattr(resource, "id") ? resource.id() : module.classname
RId(r) == IF r.hasid THEN r.idval ELSE r.clsname
ResEvent(r, m, ph) ==
    Ev(<<RId(r), m>>, IF ph = "start" THEN "inprogress" ELSE StopStatus, FALSE, Stamp, NoTags, None)

\* _convert: [reason attachment,] final status with the current tags
OutcomeEvents(t, k) ==
    (IF k = "skip" THEN <<Ev(<<t>>, None, TRUE, Stamp, NoTags, "reason")>> ELSE <<>>)
      \o <<Ev(<<t>>, k, TRUE, Stamp, CurTags, None)>>

ZeroSum == [testsRun |-> 0, errors |-> <<>>, skipped |-> <<>>, xfails |-> <<>>, uxs |-> <<>>]

Without(q, x) == SelectSeq(q, LAMBDA y : y # x)
Has(q, x) == \E j \in DOMAIN q : q[j] = x

\* StreamSummary.status -> _StreamToTestRecord.status -> _gather_test, for one event
Gather(st, e) ==
    LET tb == st[1]
        sm == st[2]
    IN IF e.status \in Final
       THEN <<Without(tb, e.id),
              [sm EXCEPT !.testsRun = @ + 1,
                         !.errors = IF e.status = "fail" THEN Append(@, e.id) ELSE @,
                         !.skipped = IF e.status = "skip" THEN Append(@, e.id) ELSE @,
                         !.xfails = IF e.status = "xfail" THEN Append(@, e.id) ELSE @,
                         !.uxs = IF e.status = "uxsuccess" THEN Append(@, e.id) ELSE @]>>
       ELSE <<IF Has(tb, e.id) THEN tb ELSE Append(tb, e.id), sm>>

RECURSIVE GatherAll(_, _)
GatherAll(st, es) == IF es = <<>> THEN st ELSE GatherAll(Gather(st, Head(es)), Tail(es))

Reverse(q) == [j \in 1..Len(q) |-> q[Len(q) + 1 - j]]

Send(es) ==
    LET st == GatherAll(<<table, sum>>, es)
    IN /\ emitted' = emitted \o es
       /\ table' = st[1]
       /\ sum' = st[2]

Log(a, arg, fresh) ==
    hist' = Append(hist, [a |-> a, arg |-> arg, fresh |-> fresh,
                          new |-> IF fresh THEN emitted' ELSE SubSeq(emitted', Len(emitted) + 1, Len(emitted')),
                          sum |-> sum', open |-> Len(table')])

-----------------------------------------------------------------------------
Init ==
    /\ started = FALSE /\ running = FALSE /\ runs = 0
    /\ now = None /\ gtag = FALSE /\ cur = None /\ curdone = FALSE
    /\ emitted = <<>> /\ table = <<>> /\ sum = ZeroSum /\ calls = <<>> /\ n = 0
    /\ hist = <<>>

StartTestRun ==
    /\ ~running /\ runs < MaxRuns
    /\ started' = TRUE /\ running' = TRUE /\ runs' = runs + 1
    /\ now' = None /\ gtag' = FALSE /\ cur' = None /\ curdone' = FALSE
    /\ emitted' = <<>> /\ table' = <<>> /\ sum' = ZeroSum
    /\ calls' = <<>> /\ n' = 0
    /\ Log("startTestRun", None, TRUE)

Time(t) ==
    /\ running /\ n < MaxLen
    /\ now' = t
    /\ calls' = Append(calls, [c |-> "time", t |-> t]) /\ n' = n + 1
    /\ UNCHANGED <<started, running, runs, gtag, cur, curdone, emitted, table, sum>>
    /\ Log("time", t, FALSE)

TagsOn ==
    /\ running /\ n < MaxLen /\ cur = None /\ ~gtag
    /\ gtag' = TRUE
    /\ calls' = Append(calls, [c |-> "tags"]) /\ n' = n + 1
    /\ UNCHANGED <<started, running, runs, now, cur, curdone, emitted, table, sum>>
    /\ Log("tags", None, FALSE)

\* startTest: "if not self._started: self.startTestRun()" - the old-style caller that never starts a run
StartTest(t) ==
    /\ cur = None
    /\ \/ running /\ n < MaxLen
          /\ Send(<<Ev(<<t>>, "inprogress", TRUE, Stamp, NoTags, None)>>)
          /\ calls' = Append(calls, [c |-> "startTest", t |-> t]) /\ n' = n + 1
          /\ UNCHANGED <<started, running, runs, now, gtag>>
          /\ Log("startTest", t, FALSE)
       \/ ~started /\ runs < MaxRuns
          /\ started' = TRUE /\ running' = TRUE /\ runs' = runs + 1
          /\ now' = None /\ gtag' = FALSE
          /\ LET st == GatherAll(<<<<>>, ZeroSum>>, <<Ev(<<t>>, "inprogress", TRUE, Clock, NoTags, None)>>)
             IN /\ emitted' = <<Ev(<<t>>, "inprogress", TRUE, Clock, NoTags, None)>>
                /\ table' = st[1] /\ sum' = st[2]
          /\ calls' = <<[c |-> "startTest", t |-> t]>> /\ n' = 1
          /\ Log("startTest", t, TRUE)
    /\ cur' = t /\ curdone' = FALSE

Outcome(k) ==
    /\ running /\ n < MaxLen /\ cur # None /\ ~curdone
    /\ Send(OutcomeEvents(cur, k))
    /\ curdone' = TRUE
    /\ calls' = Append(calls, [c |-> "outcome", t |-> cur, k |-> k]) /\ n' = n + 1
    /\ UNCHANGED <<started, running, runs, now, gtag, cur>>
    /\ Log("outcome", [t |-> cur, k |-> k], FALSE)

\* Python 3.12.1: a skipped test may be reported without startTest/stopTest
StraySkip(t) ==
    /\ running /\ n < MaxLen /\ cur = None /\ "skip" \in Outcomes
    /\ Send(OutcomeEvents(t, "skip"))
    /\ calls' = Append(calls, [c |-> "outcome", t |-> t, k |-> "skip"]) /\ n' = n + 1
    /\ UNCHANGED <<started, running, runs, now, gtag, cur, curdone>>
    /\ Log("outcome", [t |-> t, k |-> "skip"], FALSE)

StopTest ==
    /\ running /\ n < MaxLen /\ cur # None
    /\ cur' = None /\ curdone' = FALSE
    /\ calls' = Append(calls, [c |-> "stopTest", t |-> cur]) /\ n' = n + 1
    /\ UNCHANGED <<started, running, runs, now, gtag, emitted, table, sum>>
    /\ Log("stopTest", cur, FALSE)

Resource(r, m, ph) ==
    /\ running /\ n < MaxLen
    /\ Send(<<ResEvent(r, m, ph)>>)
    /\ calls' = Append(calls, [c |-> "resource", r |-> r, m |-> m, ph |-> ph]) /\ n' = n + 1
    /\ UNCHANGED <<started, running, runs, now, gtag, cur, curdone>>
    /\ Log("resource", [r |-> r.tok, m |-> m, ph |-> ph], FALSE)

\* stopTestRun: the hook flushes what is left in progress as "Test did not complete" (dict.popitem order)
StopTestRun ==
    /\ running
    /\ running' = FALSE
    /\ sum' = [sum EXCEPT !.testsRun = @ + Len(table), !.errors = @ \o Reverse(table)]
    /\ table' = <<>>
    /\ UNCHANGED <<started, runs, now, gtag, cur, curdone, emitted, calls, n>>
    /\ Log("stopTestRun", None, FALSE)

Next ==
    \/ StartTestRun \/ StopTestRun \/ TagsOn \/ StopTest
    \/ \E t \in Times : Time(t)
    \/ \E t \in Tests : StartTest(t) \/ StraySkip(t)
    \/ \E k \in Outcomes : Outcome(k)
    \/ \E r \in Resources, m \in {"make", "clean"}, ph \in {"start", "stop"} : Resource(r, m, ph)

Spec == Init /\ [][Next]_vars

-----------------------------------------------------------------------------
(* MEANING: folds over the call history *)

MaxOf(S) == CHOOSE x \in S : \A y \in S : y <= x

\* D5: the time in force at call i = the value of the last time() call before it in this run, else the clock
NowAt(i) ==
    LET ts == {j \in 1..(i - 1) : calls[j].c = "time"}
    IN IF ts = {} THEN Clock ELSE calls[MaxOf(ts)].t

\* tags in force at call i (run-level context; this model sets tags only outside tests)
TagsAt(i) == IF \E j \in 1..(i - 1) : calls[j].c = "tags" THEN {"g"} ELSE {}

\* D2: the resource manager's identifier
Identifier(r) == IF r.hasid THEN r.idval ELSE r.clsname

\* the events call i stands for
Stands(i) ==
    LET c == calls[i] IN
    CASE c.c = "resource" ->
            <<[id |-> <<Identifier(c.r), c.m>>,                                      \* D2
               status |-> IF c.ph = "start" THEN "inprogress" ELSE "success",          \* D3
               runnable |-> FALSE,                                                     \* D4
               ts |-> NowAt(i), tags |-> NoTags, fname |-> None]>>                     \* D5
      [] c.c = "startTest" -> <<Ev(<<c.t>>, "inprogress", TRUE, NowAt(i), NoTags, None)>>
      [] c.c = "outcome" ->
            (IF c.k = "skip" THEN <<Ev(<<c.t>>, None, TRUE, NowAt(i), NoTags, "reason")>> ELSE <<>>)
              \o <<Ev(<<c.t>>, c.k, TRUE, NowAt(i), TagsAt(i), None)>>
      [] OTHER -> <<>>

RECURSIVE StreamOf(_)
StreamOf(i) == IF i = 0 THEN <<>> ELSE StreamOf(i - 1) \o Stands(i)

IsRes(e) == Len(e.id) = 2
NResCalls == Cardinality({i \in DOMAIN calls : calls[i].c = "resource"})

\* D1: exactly one event per lifecycle call
OneEventPerStage == Len(SelectSeq(emitted, IsRes)) = NResCalls

\* D2-D5 (and the conversion of the ordinary calls around them)
ResourceEvents == emitted = StreamOf(Len(calls))

\* D6: delete the resource calls from the history: the remaining calls stand for exactly the non-resource events.
\* (time() calls stay, so NowAt is evaluated on the reduced history.)
Reduced == SelectSeq(calls, LAMBDA c : c.c # "resource")
NowIn(q, i) ==
    LET ts == {j \in 1..(i - 1) : q[j].c = "time"} IN IF ts = {} THEN Clock ELSE q[MaxOf(ts)].t
TagsIn(q, i) == IF \E j \in 1..(i - 1) : q[j].c = "tags" THEN {"g"} ELSE {}
StandsIn(q, i) ==
    LET c == q[i] IN
    CASE c.c = "startTest" -> <<Ev(<<c.t>>, "inprogress", TRUE, NowIn(q, i), NoTags, None)>>
      [] c.c = "outcome" ->
            (IF c.k = "skip" THEN <<Ev(<<c.t>>, None, TRUE, NowIn(q, i), NoTags, "reason")>> ELSE <<>>)
              \o <<Ev(<<c.t>>, c.k, TRUE, NowIn(q, i), TagsIn(q, i), None)>>
      [] OTHER -> <<>>
RECURSIVE StreamIn(_, _)
StreamIn(q, i) == IF i = 0 THEN <<>> ELSE StreamIn(q, i - 1) \o StandsIn(q, i)
OrdinaryUnaffected ==
    SelectSeq(emitted, LAMBDA e : ~IsRes(e)) = StreamIn(Reduced, Len(Reduced))

-----------------------------------------------------------------------------
(* MEANING of the summary: folds over the emitted stream (D7) *)

IdsSeen == {emitted[i].id : i \in DOMAIN emitted}
IdxOf(x) == {i \in DOMAIN emitted : emitted[i].id = x}
FinalsOf(x) == {i \in IdxOf(x) : emitted[i].status \in Final}
\* an id is left open when its last event is not a final one
Open(x) == FinalsOf(x) = {} \/ MaxOf(IdxOf(x)) > MaxOf(FinalsOf(x))
NFinal == Cardinality({i \in DOMAIN emitted : emitted[i].status \in Final})
WithStatus(s) == {i \in DOMAIN emitted : emitted[i].status = s}
Bag(q) == [x \in {q[j] : j \in DOMAIN q} |-> Cardinality({j \in DOMAIN q : q[j] = x})]
BagOfIdx(S) == [x \in {emitted[i].id : i \in S} |-> Cardinality({i \in S : emitted[i].id = x})]
OpenIds == {x \in IdsSeen : Open(x)}

SummaryMeaning ==
    /\ sum.testsRun = NFinal + (IF running THEN 0 ELSE Cardinality(OpenIds))
    /\ Bag(sum.skipped) = BagOfIdx(WithStatus("skip"))
    /\ Bag(sum.xfails) = BagOfIdx(WithStatus("xfail"))
    /\ Bag(sum.uxs) = BagOfIdx(WithStatus("uxsuccess"))
    /\ LET fails == BagOfIdx(WithStatus("fail")) IN
       IF running THEN Bag(sum.errors) = fails
       ELSE \A x \in IdsSeen \cup DOMAIN Bag(sum.errors) :
               LET f == IF x \in DOMAIN fails THEN fails[x] ELSE 0
                   g == IF x \in DOMAIN Bag(sum.errors) THEN Bag(sum.errors)[x] ELSE 0
               IN g = f + (IF Open(x) THEN 1 ELSE 0)
    /\ running => {table[j] : j \in DOMAIN table} = OpenIds

\* a complete resource stage (start ... stop) counts as one test and never as a failure;
\* a stage that was started and never stopped makes the run unsuccessful once it has stopped
ResourceStagesCounted ==
    \A x \in IdsSeen : Len(x) = 2 =>
        ((\E j \in DOMAIN sum.errors : sum.errors[j] = x) <=> (~running /\ Open(x)))

TypeOK ==
    /\ Len(calls) = n
    /\ running => started

-----------------------------------------------------------------------------
Terminal == ~running /\ runs = MaxRuns
ExportC == Terminal => PrintT(<<"EXPORT", ToJson(hist)>>)
ViewNoHist == <<started, running, runs, now, gtag, cur, curdone, emitted, table, sum, calls, n>>
=============================================================================
