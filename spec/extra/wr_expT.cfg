SPECIFICATION Spec
CONSTANTS
  Plans <- PlansT
  WrapKinds <- AllWraps
  Aborts <- AllAborts
  JoinInOrder = TRUE
  WrapEach = TRUE
CONSTRAINT ExportC
INVARIANT TypeOK
INVARIANT WrapOncePerWorker
INVARIANT WorkerReportsToWrapped
INVARIANT TargetSeesAll
INVARIANT DoneMeaning
INVARIANT AbortMeaning
PROPERTY NoTestAfterStop
CHECK_DEADLOCK FALSE
