SPECIFICATION Spec
CONSTANTS
  Specs <- SpecsAll
  Load <- LoadAll
  SpecErr <- SpecErrAll
  Files <- FilesAll
  ModLoad <- ModLoadAll
  ModErr <- ModErrAll
  Patterns <- PatternsAll
  Match <- MatchAll
  LoadLists <- LoadListsAll
  Modes <- ModesAll
  MaxNames = 3
  SortOnDiscover = TRUE
CONSTRAINT ExportC
INVARIANT TypeOK
INVARIANT ListMeaning
INVARIANT RunMeaning
INVARIANT ExitMeaning
INVARIANT SortedWhenDiscovered
INVARIANT LoadListRestricts
INVARIANT ImportErrorNonZero
INVARIANT FailfastStops
CHECK_DEADLOCK FALSE
