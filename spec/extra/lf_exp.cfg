SPECIFICATION Spec
CONSTANTS
  Bases <- BasesTwo
  FixKinds <- FixAll
  Events <- EventsAll
  FlushTypes <- FlushAll
  ErrObs <- ErrObsAll
  MaxDepth = 3
  MaxSteps = 3
  MaxCaps = 2
  LegacyAware = TRUE
CONSTRAINT ExportC
INVARIANT TypeOK
INVARIANT ObserversAreVisible
INVARIANT LegacyAgrees
INVARIANT DeliveryMeaning
INVARIANT ErrorsPartition
PROPERTY FlushMeaning
CHECK_DEADLOCK FALSE
