SPECIFICATION Spec
CONSTANTS
  Names <- CNames
  InstsOf <- CInsts
  AlphaOf <- CAlpha
  DepthOf <- CDepth
  Py27UxsStops = TRUE
  ExtResetsOk = TRUE
  ShareGivenLog = TRUE
  PushOnStartTest = TRUE

INVARIANT LogMeaning
INVARIANT OkMeaning
INVARIANT StopMeaning
INVARIANT RunsMeaning
INVARIANT TagsMeaning
PROPERTY OneEventPerCall
CHECK_DEADLOCK FALSE
