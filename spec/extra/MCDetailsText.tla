---------------------------- MODULE MCDetailsText ----------------------------
(* Model-checking instances of DetailsText: names, content kinds, bounds. *)
EXTENDS DetailsText

K(ct, raw) == [ct |-> ct, raw |-> raw]

\* documented kinds
Jpeg == K("jpeg", <<"bad">>)                    \* image/jpeg, bytes that are no text at all
JsonK == K("json", <<"w1">>)                    \* application/json: readable, yet not "text/..."
Empty == K("utf8", <<>>)                        \* text_content("")
One == K("utf8", <<"w1">>)                      \* one line
Multi == K("utf8", <<"w1", "nl", "w2">>)        \* several lines
Latin == K("latin1", <<"w2">>)                  \* text/plain without charset: ISO-8859-1
LatinBad == K("latin1", <<"bad">>)              \* ... which decodes every byte
OneNl == K("utf8", <<"w1", "nl">>)              \* one line + newline           (documented for the special detail only)
TbNl == K("tb", <<"w1", "nl", "sp", "w2", "nl">>)   \* text/x-traceback: several lines + newline   (ditto)
\* undocumented kinds (executed, not judged)
BlankK == K("utf8", <<"sp", "nl">>)              \* white space only
Bad == K("utf8", <<"w1", "bad">>)               \* not UTF-8
Padded == K("utf8", <<"nl", "w1", "sp">>)       \* white space around the text

KindsAll == {Jpeg, JsonK, Empty, One, Multi, LatinBad, OneNl, TbNl, BlankK, Bad, Padded}
KindsCore == {Jpeg, Empty, One, Multi, Latin}
KindsMc == {Jpeg, Empty, One, Multi, TbNl, BlankK, Bad}

\* sorted() order: upper case before lower case, "log-10" before "log-9", a name after "traceback"
Names3 == <<"log-10", "log-9", "traceback">>
Names4 == <<"Zeta", "log-10", "log-9", "traceback">>
Names4z == <<"Zeta", "log-9", "traceback", "tz">>

ModesA == {<<"fn", None>>, <<"fn", "traceback">>}
ModesB == {<<"fn", "log-9">>, <<"err", "traceback">>}
ModesAll == {<<"fn", None>>, <<"fn", "traceback">>, <<"fn", "log-9">>}
=============================================================================
