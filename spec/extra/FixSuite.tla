------------------------------ MODULE FixSuite ------------------------------
(***************************************************************************)
(* X13 (part 1) - testtools.testsuite.FixtureSuite: run() around a fixture, *)
(* sort_tests, and how sort_tests / filter_by_ids / iterate_tests /          *)
(* countTestCases compose on it.                                            *)
(*                                                                         *)
(* Documented sentences formalised:                                         *)
(*  D1 for-framework-folk.rst "FixtureSuite": "A test suite that sets up a  *)
(*     fixture before running any tests, and then tears it down after all   *)
(*     of the tests are run."  NEWS 0.9.11: "FixtureSuite added, allows     *)
(*     test suites to run with a given fixture."      Bracketed, RunMeaning *)
(*     (the tear-down is in a finally clause: also when a test lets an      *)
(*     exception out of run(), when the result asks to stop, when no test   *)
(*     is left)                                                             *)
(*  D2 unittest.TestSuite.run (FixtureSuite is one): the tests run in suite *)
(*     order; "if result.shouldStop: break" before each test   RunMeaning   *)
(*  D3 rst "sorted_tests": "testtools flattens and sorts tests that have    *)
(*     the standard TestSuite, and defines a new method sort_tests, which   *)
(*     can be used by non-standard TestSuites to know when they should sort *)
(*     their tests.  An example implementation can be seen at               *)
(*     FixtureSuite.sorted_tests."  NEWS 0.9.24: "Non-standard test suites  *)
(*     are preserved, and their sort_tests() method called ...              *)
(*     sorted_tests(suite, True) can be used by such suites to do a local   *)
(*     sort."                                               LeavesMeaning   *)
(*  D4 filter_by_ids docstring: "Remove tests from suite_or_case where      *)
(*     their id is not in test_ids. ... :return: suite_or_case, unless      *)
(*     suite_or_case was a case ...  For subclasses of TestSuite, filtering *)
(*     is done by: attempting to call suite.filter_by_ids(test_ids); if     *)
(*     there is no method, iterating the suite and identifying tests to     *)
(*     remove, then removing them from _tests, manually recursing into each *)
(*     entry."  rst "filter_by_ids": "most wrappers that subclass           *)
(*     unittest.TestSuite will work just fine".  NEWS 0.9.25: "--load-list  *)
(*     will now preserve any custom suites (such as testtools.FixtureSuite  *)
(*     ...) rather than flattening them."   (testtools.run discover sorts,  *)
(*     then --load-list filters: the two compose)           LeavesMeaning   *)
(*  D5 iterate_tests: "Iterate through all of the test cases in             *)
(*     'test_suite_or_case'."                         LeavesMeaning (obs)   *)
(*                                                                         *)
(* MECHANISM (code-shaped): the suite's _tests as a list of entries (a case *)
(* or a nested plain TestSuite with its own list); sort_tests replaces it   *)
(* by the flattened entries sorted by id; filter_by_ids rewrites every      *)
(* list in place, a dropped case becoming an empty TestSuite; run() is      *)
(* setUp, the TestSuite loop with the shouldStop test, cleanUp in finally.  *)
(* MEANING: ops, the history of sort / filter calls, folded over the        *)
(* initial sequence of leaf ids; and the event log ev of the run.           *)
(***************************************************************************)
EXTENDS Naturals, Sequences, FiniteSets, TLC, Json

CONSTANTS
    Ids,          \* test ids (naturals: their order is the order of the concrete id strings)
    InitTests,    \* set of initial _tests values
    Kinds,        \* set of functions Ids -> {"pass", "fail", "error", "stop", "interrupt"}: what each test does
    FixKinds,     \* subset of {"ok", "setup-raises", "cleanup-raises"}
    PreStop,      \* subset of BOOLEAN: the result already has shouldStop set when run() is called
    MaxOps,       \* bound on the sort / filter calls before the run
    FilterSets,   \* the id sets given to filter_by_ids
    CleanInFinally   \* TRUE = as coded (try: ... finally: cleanUp); FALSE = spec mutation

None == "none"

\* entry of a _tests list: a case [k |-> "case", id |-> i, kids |-> <<>>] or a plain suite [k |-> "suite", id |-> 0, kids |-> seq of ids]
E(e, t) == [e |-> e, t |-> t]
Case(i) == [k |-> "case", id |-> i, kids |-> <<>>]
Suite(q) == [k |-> "suite", id |-> 0, kids |-> q]

VARIABLES
    tests,     \* FixtureSuite._tests                                          (mechanism)
    kind,      \* what each test does (input, constant)
    fix,       \* fixture kind (input, constant)
    stopflag,  \* result.shouldStop
    pc,        \* "ops" | "loop" | "finally" | "done"
    idx,       \* position in the flattened run loop
    ev,        \* event log: [e |-> "setUp" | "cleanUp" | "test", t |-> test id or 0]
    exc,       \* exception leaving run(): None | "setUp" | "cleanUp" | "KeyboardInterrupt"
    ops,       \* history of composition calls: [op |-> "sort" | "filter", S |-> id set]   (meaning)
    leaves0,   \* leaf ids of the initial suite, in order                    (meaning)
    hist

vars == <<tests, kind, fix, stopflag, pc, idx, ev, exc, ops, leaves0, hist>>

-----------------------------------------------------------------------------
(* Mechanism *)

RECURSIVE LeavesOf(_)
\* iterate_tests: cases in order, recursing into nested suites
LeavesOf(q) ==
    IF q = <<>> THEN <<>>
    ELSE (IF Head(q).k = "case" THEN <<Head(q).id>> ELSE Head(q).kids) \o LeavesOf(Tail(q))

RECURSIVE InsertById(_, _)
InsertById(s, x) == IF s = <<>> THEN <<x>> ELSE IF x < Head(s) THEN <<x>> \o s ELSE <<Head(s)>> \o InsertById(Tail(s), x)
RECURSIVE SortIds(_)
SortIds(s) == IF s = <<>> THEN <<>> ELSE InsertById(SortIds(Tail(s)), Head(s))

\* sort_tests: self._tests = sorted_tests(self, True) - plain suites flattened, every case one entry, sorted on the id
SortMech(q) == LET s == SortIds(LeavesOf(q)) IN [j \in DOMAIN s |-> Case(s[j])]

\* filter_by_ids on a TestSuite: filtered = [filter_by_ids(item, ids) for item in suite]; suite._tests[:] = filtered
\* (a case that is not wanted becomes unittest.TestSuite())
FilterMech(q, S) ==
    [j \in DOMAIN q |->
        IF q[j].k = "case" THEN (IF q[j].id \in S THEN q[j] ELSE Suite(<<>>))
        ELSE Suite(SelectSeq(q[j].kids, LAMBDA i : i \in S))]

-----------------------------------------------------------------------------
Log(a, arg) ==
    hist' = Append(hist, [a |-> a, arg |-> arg, leaves |-> LeavesOf(tests'), count |-> Len(LeavesOf(tests')),
                          ev |-> ev', exc |-> exc', stop |-> stopflag'])

Init ==
    /\ tests \in InitTests /\ kind \in Kinds /\ fix \in FixKinds /\ stopflag \in PreStop
    /\ pc = "ops" /\ idx = 1 /\ ev = <<>> /\ exc = None /\ ops = <<>>
    /\ leaves0 = LeavesOf(tests)
    /\ hist = <<[a |-> "init", arg |-> [tests |-> tests, kind |-> kind, fix |-> fix],
                 leaves |-> LeavesOf(tests), count |-> Len(LeavesOf(tests)), ev |-> <<>>, exc |-> None, stop |-> stopflag]>>

SortTests ==
    /\ pc = "ops" /\ Len(ops) < MaxOps
    /\ tests' = SortMech(tests)
    /\ ops' = Append(ops, [op |-> "sort", S |-> {}])
    /\ UNCHANGED <<kind, fix, stopflag, pc, idx, ev, exc, leaves0>>
    /\ Log("sort_tests", None)

FilterByIds(S) ==
    /\ pc = "ops" /\ Len(ops) < MaxOps
    /\ tests' = FilterMech(tests, S)
    /\ ops' = Append(ops, [op |-> "filter", S |-> S])
    /\ UNCHANGED <<kind, fix, stopflag, pc, idx, ev, exc, leaves0>>
    /\ Log("filter_by_ids", S)

\* FixtureSuite.run: self._fixture.setUp()  (outside the try)
RunSetUp ==
    /\ pc = "ops"
    /\ ev' = Append(ev, E("setUp", 0))
    /\ IF fix = "setup-raises" THEN exc' = "setUp" /\ pc' = "done" ELSE exc' = exc /\ pc' = "loop"
    /\ UNCHANGED <<tests, kind, fix, stopflag, idx, ops, leaves0>>
    /\ Log("run:setUp", None)

\* TestSuite.run: for test in self: if result.shouldStop: break; test(result)   (nested suites run the same loop)
RunTest ==
    /\ pc = "loop" /\ idx <= Len(LeavesOf(tests)) /\ ~stopflag
    /\ UNCHANGED <<tests, kind, fix, ops, leaves0>>
    /\ LET t == LeavesOf(tests)[idx] IN
       /\ ev' = Append(ev, E("test", t))
       /\ stopflag' = (stopflag \/ kind[t] = "stop")
       /\ IF kind[t] = "interrupt"
          THEN exc' = "KeyboardInterrupt" /\ pc' = (IF CleanInFinally THEN "finally" ELSE "done")
          ELSE exc' = exc /\ pc' = pc
       /\ idx' = idx + 1
       /\ Log("run:test", t)

\* the loop ends: nothing left, or the result asked to stop
RunLoopEnds ==
    /\ pc = "loop" /\ (idx > Len(LeavesOf(tests)) \/ stopflag)
    /\ pc' = "finally"
    /\ UNCHANGED <<tests, kind, fix, stopflag, idx, ev, exc, ops, leaves0>>
    /\ Log("run:loop-ends", None)

\* finally: self._fixture.cleanUp()
RunCleanUp ==
    /\ pc = "finally"
    /\ ev' = Append(ev, E("cleanUp", 0))
    /\ exc' = IF fix = "cleanup-raises" /\ exc = None THEN "cleanUp" ELSE exc
    /\ pc' = "done"
    /\ UNCHANGED <<tests, kind, fix, stopflag, idx, ops, leaves0>>
    /\ Log("run:cleanUp", None)

Next == SortTests \/ (\E S \in FilterSets : FilterByIds(S)) \/ RunSetUp \/ RunTest \/ RunLoopEnds \/ RunCleanUp

Spec == Init /\ [][Next]_vars

-----------------------------------------------------------------------------
(* MEANING *)

RECURSIVE ApplyOps(_, _)
\* D3/D4: sort = the same tests ordered by id; filter = the same tests, in the same order, minus those not asked for
ApplyOps(q, l) ==
    IF q = <<>> THEN l
    ELSE ApplyOps(Tail(q), IF Head(q).op = "sort" THEN SortIds(l) ELSE SelectSeq(l, LAMBDA i : i \in Head(q).S))

\* D3/D4/D5: what iterate_tests sees is the initial tests under the composition calls made so far, whatever their order
LeavesMeaning == LeavesOf(tests) = ApplyOps(ops, leaves0)

\* ids are unique and sorting keeps them so
IsSorted(l) == \A i, j \in DOMAIN l : i < j => l[i] < l[j]
SortMeaning == (ops # <<>> /\ ops[Len(ops)].op = "sort") => IsSorted(LeavesOf(tests))

Count(x) == Cardinality({j \in DOMAIN ev : ev[j].e = x})
Pos(x) == CHOOSE j \in DOMAIN ev : ev[j].e = x

\* D1, in every state: at most one setUp and one cleanUp; every test runs after the setUp and before the cleanUp
Bracketed ==
    /\ Count("setUp") <= 1 /\ Count("cleanUp") <= 1
    /\ \A j \in DOMAIN ev : ev[j].e = "test" =>
          /\ Count("setUp") = 1 /\ Pos("setUp") < j
          /\ Count("cleanUp") = 1 => j < Pos("cleanUp")
    /\ Count("cleanUp") = 1 => Count("setUp") = 1

\* D2: the tests that run are the suite's tests in order, up to and including the first that stops the run
\* (asks the result to stop, or lets KeyboardInterrupt out); none when the result had already been told to stop
Stopper(i) == kind[i] \in {"stop", "interrupt"}
RECURSIVE UpToStopper(_)
UpToStopper(l) == IF l = <<>> THEN <<>> ELSE IF Stopper(Head(l)) THEN <<Head(l)>> ELSE <<Head(l)>> \o UpToStopper(Tail(l))
ExpectedRun == IF hist[1].stop THEN <<>> ELSE UpToStopper(ApplyOps(ops, leaves0))

\* D1 + D2 when run() is over
RunMeaning ==
    pc = "done" =>
        IF fix = "setup-raises"
        THEN ev = <<E("setUp", 0)>> /\ exc = "setUp"                   \* no test runs without its fixture
        ELSE /\ ev = <<E("setUp", 0)>> \o [j \in DOMAIN ExpectedRun |-> E("test", ExpectedRun[j])] \o <<E("cleanUp", 0)>>
                                                                   \* exactly once each, around exactly these tests
             /\ exc = (IF \E j \in DOMAIN ExpectedRun : kind[ExpectedRun[j]] = "interrupt" THEN "KeyboardInterrupt"
                       ELSE IF fix = "cleanup-raises" THEN "cleanUp" ELSE None)

TypeOK ==
    /\ pc \in {"ops", "loop", "finally", "done"}
    /\ \A j \in DOMAIN tests : tests[j].k \in {"case", "suite"}
    /\ Len(ev) <= Cardinality(Ids) + 2

-----------------------------------------------------------------------------
Terminal == pc = "done"
ExportC == Terminal => PrintT(<<"EXPORT", ToJson(hist)>>)
ViewNoHist == <<tests, kind, fix, stopflag, pc, idx, ev, exc, ops, leaves0>>
=============================================================================
