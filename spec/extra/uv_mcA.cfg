SPECIFICATION Spec
CONSTANTS
  Prefixes <- PrefAll
  MaxSteps = 7
  MaxRuns = 3
  Stages = TRUE
  ResetOnRun = TRUE
VIEW ViewNoHist
INVARIANT IntsDistinctIncreasing
INVARIANT StringsDistinct
INVARIANT ResetStartsOver
INVARIANT EpochPerRun
PROPERTY StringShape
CHECK_DEADLOCK FALSE
