SPECIFICATION Spec
CONSTANTS
  MDecs <- MDecs1
  CDecs <- CDecsAll
  BDecs <- NoDecs
  Bodies <- BodiesPF
  Clones <- ClonesAll
  WrapsCopies = TRUE
CONSTRAINT ExportC
INVARIANT TypeOK
INVARIANT SkipMeaning
INVARIANT NothingRuns
INVARIANT RunsNormally
INVARIANT IdMeaning
INVARIANT MarkersMeaning
CHECK_DEADLOCK FALSE
