SPECIFICATION Spec
CONSTANTS
  Tags <- Tags2
  Deltas <- Deltas2
  MaxCtx = 2
  MaxSteps = 4
  CopyOnGet = TRUE
  GoneMinusNew = FALSE
VIEW ViewNoHist
INVARIANT TypeOK
INVARIANT TagsMeaning
INVARIANT MergeMeaning
INVARIANT MergeDisjoint
PROPERTY ReturnedIsCurrent
PROPERTY OthersAlone
PROPERTY MutateHarmless
PROPERTY NewMeaning
CHECK_DEADLOCK FALSE
