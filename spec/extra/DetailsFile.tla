----------------------------- MODULE DetailsFile -----------------------------
(***************************************************************************)
(* X11 (part 2) - testtools.content.content_from_file(path, content_type,   *)
(* chunk_size, buffer_now) and attach_file(detailed, path, name,            *)
(* content_type, chunk_size, buffer_now): WHEN the file is read, and under  *)
(* which name / type the detail is attached.                                *)
(*                                                                         *)
(* Documented sentences formalised:                                         *)
(*  F1 content_from_file: "Note that unless ``buffer_now`` is explicitly    *)
(*     passed in as True, the file will only be read from when              *)
(*     ``iter_bytes`` is called."; ":param buffer_now: If True, read the    *)
(*     file from disk now and keep it in memory. Otherwise, only read when  *)
(*     the content is serialized."; for-test-authors.rst: "the file is      *)
(*     opened and the actual bytes read only when they are needed"          *)
(*                                 CreationMeaning, EagerMeaning, LazyMeaning *)
(*  F2 attach_file: "Note that by default the contents of the file will be  *)
(*     read immediately. If ``buffer_now`` is False, then the file *must*   *)
(*     exist when the test result is called with the results of this        *)
(*     test"; ":param buffer_now: If False the file content is read when    *)
(*     the content object is evaluated rather than when attach_file is      *)
(*     called. ... disabling buffer_now may cause the file to be read after *)
(*     it is deleted."             CreationMeaning, EagerMeaning, LazyMeaning *)
(*  F3 attach_file: "This is a convenience method wrapping around           *)
(*     ``addDetail``."; ":param name: The name to give to the detail for    *)
(*     the attached file."; testtools.tests.test_content                    *)
(*     TestAttachFile.test_optional_name: "If no name is provided,          *)
(*     attach_file just uses the base name of the file."     NameMeaning    *)
(*  F4 both: ":param content_type: The type of content.  If not specified,  *)
(*     defaults to UTF8-encoded text/plain."                 TypeMeaning    *)
(*  F5 both: ":param chunk_size: The size of chunks to read from the file.  *)
(*     Defaults to ``DEFAULT_CHUNK_SIZE``." (4096)           ChunkMeaning   *)
(*  F6 TestContent.test_from_nonexistent_file: iter_bytes of a content      *)
(*     whose file does not exist raises IOError         LazyMeaning (raises) *)
(*                                                                         *)
(* What exactly is promised for buffer_now = False: the file is not read    *)
(* before iter_bytes is called.  Whether EVERY serialisation reads the file *)
(* again (the code does) is not said: the replay accepts, for the n-th read *)
(* of a lazy content, what the file held at ANY of its reads so far         *)
(* (field allowed); a difference from the mechanism's choice - the file as  *)
(* it is now - is reported as DRIFT.                                        *)
(*                                                                         *)
(* MECHANISM: the environment's file, the buffered chunk list of each       *)
(* content (content_from_reader: `if buffer_now: contents = list(reader())`)*)
(* the default values of the two signatures, _iter_chunks' read loop,       *)
(* os.path.basename, the details dict of the object attached to.            *)
(* MEANING: folds over the call history (what the file held when).          *)
(***************************************************************************)
EXTENDS Naturals, Sequences, FiniteSets, TLC, Json

CONSTANTS
    Versions,        \* file contents the environment writes
    Size(_),         \* their length in bytes
    Init0,           \* initial states of the file (Absent or a version)
    PathParts,       \* the path below the scratch directory, as components
    ChunkSizes,      \* explicit chunk_size values explored (besides the default)
    DefaultChunk,    \* DEFAULT_CHUNK_SIZE
    MaxOps,
    MaxContents,     \* bound on the calls of content_from_file / attach_file
    CffLazyDefault   \* TRUE = as documented and coded; FALSE = spec mutation (content_from_file buffers unless told not to)

Absent == "absent"
NoBuf == "~"
Given == "given-name"

VARIABLES
    file,        \* what the file holds now, or Absent                                     (environment)
    contents,    \* the Content objects made so far: [buf, cs, ct, seen]                    (mechanism)
    dets,        \* detailed.getDetails(): name -> index into contents                      (mechanism)
    nops,
    hist         \* call history: meaning AND export

vars == <<file, contents, dets, nops, hist>>

-----------------------------------------------------------------------------
(* Mechanism *)

Min(a, b) == IF a < b THEN a ELSE b

\* _iter_chunks: chunk = stream.read(chunk_size); while chunk: yield chunk; chunk = stream.read(chunk_size)
RECURSIVE IterChunks(_, _)
IterChunks(remaining, cs) ==
    LET chunk == Min(remaining, cs) IN
    IF chunk = 0 THEN <<>> ELSE <<chunk>> \o IterChunks(remaining - chunk, cs)

Basename(p) == p[Len(p)]                                                  \* os.path.basename(path)

\* content_from_file(path, content_type, chunk_size, buffer_now) -> content_from_reader(reader, content_type, buffer_now)
Make(ctArg, csArg, bufferNow) ==
    [ct |-> IF ctArg = "default" THEN "utf8" ELSE ctArg,                  \* if content_type is None: content_type = UTF8_TEXT
     cs |-> IF csArg = 0 THEN DefaultChunk ELSE csArg,
     buf |-> IF bufferNow THEN file ELSE NoBuf,                           \* if buffer_now: contents = list(reader())
     seen |-> {}]

\* calls of content_from_file / attach_file so far, failed ones included
Attempts == Cardinality({j \in DOMAIN hist : hist[j].a \in {"cff", "attach"}})

Init ==
    /\ file \in Init0
    /\ contents = <<>> /\ dets = <<>> /\ nops = 0
    /\ hist = <<[a |-> "init", to |-> file, path |-> PathParts]>>

WriteFile(v) ==
    /\ nops < MaxOps /\ v # file
    /\ file' = v /\ nops' = nops + 1
    /\ hist' = Append(hist, [a |-> "write", to |-> v])
    /\ UNCHANGED <<contents, dets>>

DeleteFile ==
    /\ nops < MaxOps /\ file # Absent
    /\ file' = Absent /\ nops' = nops + 1
    /\ hist' = Append(hist, [a |-> "delete", to |-> Absent])
    /\ UNCHANGED <<contents, dets>>

\* content_from_file(path[, content_type][, chunk_size][, buffer_now]);  bn: "default" | "yes" | "no"
Cff(bn, cs, ct) ==
    /\ nops < MaxOps /\ Attempts < MaxContents
    /\ nops' = nops + 1
    /\ LET bufferNow == IF bn = "default" THEN ~CffLazyDefault ELSE bn = "yes"      \* buffer_now=False in the signature
           fails == bufferNow /\ file = Absent                                      \* open() raises
           c == Make(ct, cs, bufferNow)
       IN /\ contents' = IF fails THEN contents ELSE Append(contents, c)
          /\ hist' = Append(hist, [a |-> "cff", bn |-> bn, cs |-> cs, ct |-> ct,
                                   res |-> IF fails THEN "raises" ELSE "ok",
                                   idx |-> IF fails THEN 0 ELSE Len(contents) + 1,
                                   ctype |-> c.ct, opens |-> IF bufferNow THEN 1 ELSE 0])
    /\ UNCHANGED <<file, dets>>

\* attach_file(detailed, path[, name][, buffer_now])
Attach(bn, named) ==
    /\ nops < MaxOps /\ Attempts < MaxContents
    /\ nops' = nops + 1
    /\ LET bufferNow == IF bn = "default" THEN TRUE ELSE bn = "yes"                 \* buffer_now=True in the signature
           name == IF named THEN Given ELSE Basename(PathParts)                     \* if name is None: name = basename(path)
           fails == bufferNow /\ file = Absent
           c == Make("default", 0, bufferNow)
           nd == IF fails THEN dets
                 ELSE [n \in (DOMAIN dets) \cup {name} |-> IF n = name THEN Len(contents) + 1 ELSE dets[n]]   \* addDetail
       IN /\ contents' = IF fails THEN contents ELSE Append(contents, c)
          /\ dets' = nd
          /\ hist' = Append(hist, [a |-> "attach", bn |-> bn, named |-> named,
                                   res |-> IF fails THEN "raises" ELSE "ok",
                                   idx |-> IF fails THEN 0 ELSE Len(contents) + 1,
                                   name |-> name, ctype |-> c.ct, opens |-> IF bufferNow THEN 1 ELSE 0,
                                   dets |-> [n \in DOMAIN nd |-> nd[n]]])
    /\ UNCHANGED file

\* list(content.iter_bytes())
Read(i) ==
    /\ nops < MaxOps /\ i \in DOMAIN contents
    /\ nops' = nops + 1
    /\ LET c == contents[i]
           src == IF c.buf # NoBuf THEN c.buf ELSE file                             \* the buffered list, or open(path) now
           seen == IF c.buf # NoBuf THEN {c.buf} ELSE c.seen \cup {file}
       IN /\ contents' = [contents EXCEPT ![i].seen = seen]
          /\ hist' = Append(hist, [a |-> "read", c |-> i,
                                   res |-> IF src = Absent THEN "raises" ELSE "ok",
                                   ver |-> src,
                                   chunks |-> IF src = Absent THEN <<>> ELSE IterChunks(Size(src), c.cs),
                                   cs |-> c.cs,
                                   allowed |-> seen,
                                   opens |-> IF c.buf # NoBuf THEN 0 ELSE 1])
    /\ UNCHANGED <<file, dets>>

Next ==
    \/ \E v \in Versions : WriteFile(v)
    \/ DeleteFile
    \/ \E bn \in {"default", "yes", "no"} :
          \/ \E cs \in ChunkSizes \cup {0} : Cff(bn, cs, "default")
          \/ Cff(bn, 0, "jpeg")
          \/ \E named \in BOOLEAN : Attach(bn, named)
    \/ \E i \in 1..MaxContents : Read(i)

Spec == Init /\ [][Next]_vars

-----------------------------------------------------------------------------
(* MEANING: folds over the call history *)

Max(S) == CHOOSE x \in S : \A y \in S : y <= x
\* what the file holds after the first k calls
FileAt(k) == hist[Max({j \in 1..k : hist[j].a \in {"init", "write", "delete"}})].to

Creations == {j \in DOMAIN hist : hist[j].a \in {"cff", "attach"}}
ReadsAll == {j \in DOMAIN hist : hist[j].a = "read"}
CreatedAt(c) == CHOOSE j \in Creations : hist[j].idx = c
\* F1 / F2: is the content promised to hold what the file held when it was made
PromisedEager(j) == IF hist[j].a = "cff" THEN hist[j].bn = "yes" ELSE hist[j].bn # "no"

\* F1 / F2: making an eager content reads the file then and there (so the file has to exist); making a lazy one does
\* not touch the file
CreationMeaning ==
    \A j \in Creations :
        /\ hist[j].res = "raises" <=> (PromisedEager(j) /\ FileAt(j) = Absent)
        /\ ~PromisedEager(j) => hist[j].opens = 0

\* F1 / F2: "read the file from disk now and keep it in memory"
EagerMeaning ==
    \A j \in ReadsAll : PromisedEager(CreatedAt(hist[j].c)) =>
        /\ hist[j].res = "ok" /\ hist[j].ver = FileAt(CreatedAt(hist[j].c))
        /\ hist[j].allowed = {hist[j].ver} /\ hist[j].opens = 0

\* F1 / F2 / F6: "only read when the content is serialized" - the file as it is at a serialisation (the mechanism: at
\* this one), an exception when it does not exist then
LazyMeaning ==
    \A j \in ReadsAll : ~PromisedEager(CreatedAt(hist[j].c)) =>
        /\ hist[j].ver = FileAt(j)
        /\ hist[j].res = (IF FileAt(j) = Absent THEN "raises" ELSE "ok")
        /\ hist[j].allowed = {FileAt(k) : k \in {m \in ReadsAll : m <= j /\ hist[m].c = hist[j].c}}

\* F3: the detail is filed under the given name, or the last component of the path; nothing is filed when the call fails
NameMeaning ==
    /\ \A j \in Creations : (hist[j].a = "attach") =>
          hist[j].name = (IF hist[j].named THEN Given ELSE PathParts[Len(PathParts)])
    /\ LET ok == {j \in Creations : hist[j].a = "attach" /\ hist[j].res = "ok"} IN
       /\ DOMAIN dets = {hist[j].name : j \in ok}
       /\ \A n \in DOMAIN dets : dets[n] = hist[Max({j \in ok : hist[j].name = n})].idx

\* F4
TypeMeaning ==
    \A j \in Creations : hist[j].ctype = (IF hist[j].a = "cff" /\ hist[j].ct # "default" THEN hist[j].ct ELSE "utf8")

RECURSIVE Sum(_)
Sum(q) == IF q = <<>> THEN 0 ELSE Head(q) + Sum(Tail(q))
\* F5: chunks of the asked size (4096 unless given), the last one holding the rest
ChunkMeaning ==
    \A j \in ReadsAll : hist[j].res = "ok" =>
        LET q == hist[j].chunks
            h == hist[CreatedAt(hist[j].c)]
            cs == IF h.a = "cff" /\ h.cs # 0 THEN h.cs ELSE DefaultChunk
        IN /\ Sum(q) = Size(hist[j].ver)
           /\ \A m \in DOMAIN q : q[m] >= 1 /\ q[m] <= cs /\ (m < Len(q) => q[m] = cs)

TypeOK == nops = Len(hist) - 1 /\ Len(contents) <= MaxContents /\ \A n \in DOMAIN dets : dets[n] \in DOMAIN contents

-----------------------------------------------------------------------------
Terminal == nops = MaxOps
ExportC == Terminal => PrintT(<<"EXPORT", ToJson(hist)>>)
=============================================================================
