SPECIFICATION Spec
CONSTANTS
  ArgAlpha <- ArgM
  DecAlpha <- DecAll
  BaseAlpha <- BaseM
  SubAlpha <- SubM
  LateAlpha <- LateM
  OldShape <- Old
  MaxInst = 2
  MaxSteps = 4
  ArgFirst = TRUE
VIEW ViewNoHist
INVARIANT TypeOK
INVARIANT Precedence
INVARIANT ArgOverrides
PROPERTY DecidedAtInit
PROPERTY FreshEachRun
CHECK_DEADLOCK FALSE
