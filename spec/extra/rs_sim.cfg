SPECIFICATION Spec
CONSTANTS
  Resources <- ResS
  Tests <- TestsA
  Outcomes <- OutcomesAll
  Times <- TimesA
  MaxLen = 9
  MaxRuns = 2
  StopStatus = "success"
CONSTRAINT ExportC
INVARIANT TypeOK
INVARIANT OneEventPerStage
INVARIANT ResourceEvents
INVARIANT OrdinaryUnaffected
INVARIANT SummaryMeaning
INVARIANT ResourceStagesCounted
CHECK_DEADLOCK FALSE
