SPECIFICATION Spec
CONSTANTS
  Radix = 256
  Gens <- OneGen
  MaxIdx = 70000
  KeepOut = FALSE
  WrapAt = 0
VIEW ViewNoHist
INVARIANT NoRepeat
INVARIANT Decodes
INVARIANT Canonical
CHECK_DEADLOCK FALSE
