------------------------------- MODULE Holder -------------------------------
(***************************************************************************)
(* X06 (part 1) - testtools.testcase.PlaceHolder / ErrorHolder.             *)
(*                                                                         *)
(* Documented sentences formalised:                                         *)
(*  D1 PlaceHolder docstring: "A placeholder test.  PlaceHolder implements  *)
(*     much of the same interface as TestCase and is particularly suitable  *)
(*     for being added to TestResults."  -> run(result) reports exactly one *)
(*     test: one startTest, one outcome, one stopTest, in that order        *)
(*                                                             OneTestSeen  *)
(*  D2 __init__: "test_id: The id of the placeholder test.                  *)
(*     short_description: The short description of the place holder test.   *)
(*     If not provided, the id will be used instead."      DescribeMeaning  *)
(*  D3 "details: Outcome details as accepted by addSuccess etc.             *)
(*     outcome: The outcome to call. Defaults to 'addSuccess'."             *)
(*                                                          OutcomeMeaning  *)
(*  D4 "tags: Tags to report for the test."  -> the tags are current in the *)
(*     result while the test is reported (at startTest and at the outcome), *)
(*     and are withdrawn afterwards                            TagsMeaning  *)
(*  D5 "timestamps: A two-tuple of timestamps for the test start and        *)
(*     finish. Each timestamp may be None to indicate it is not known."     *)
(*     -> a known start is the result's time when startTest arrives, a      *)
(*     known finish is its time when the outcome arrives; an unknown one    *)
(*     leaves the result's clock alone                         TimeMeaning  *)
(*  D6 ErrorHolder: "error: The exc info tuple that will be used as the     *)
(*     test's error.  This is inserted into the details as 'traceback' -    *)
(*     any existing key will be overridden."; for-framework-folk.rst:       *)
(*     "PlaceHolder takes a test id and an optional description.  When      *)
(*     it's run, it succeeds.  ErrorHolder takes a test id, and error and   *)
(*     an optional short description.  When it's run, it reports that       *)
(*     error."                                    OutcomeMeaning (details)  *)
(*  D7 the exact call list of run(), as the task states it: optional        *)
(*     time(start), tags(T, {}), startTest, optional time(stop), outcome    *)
(*     with details, stopTest, tags({}, T)                      ExactCalls  *)
(*                                                                         *)
(* MECHANISM: run() as the code's call sequence on the                      *)
(* ExtendedToOriginalDecorator (RunCalls), and the decorator's forwarding   *)
(* to the three result flavours (Fwd).                                      *)
(* MEANING: an observing result (tag-context stack + clock) folded over     *)
(* the calls that reached it (Observe), related to the constructor          *)
(* arguments.                                                               *)
(***************************************************************************)
EXTENDS Naturals, Sequences, FiniteSets, TLC, Json

CONSTANTS
    Configs,         \* set of holder configurations (records, see MCHolder)
    Flavours,        \* subset of {"ext", "py27", "py26", "none"}
    Globals,         \* set of tag sets current in the result before the holder runs
    MaxRunsH,        \* how many times the same holder is run
    TagsAroundTest   \* TRUE = as coded (tags before startTest, withdrawn after stopTest); FALSE = spec mutation

None == "none"
Prior == "prior"      \* whatever the result thought the time was before run()
Outcomes == {"addSuccess", "addError", "addFailure", "addSkip", "addExpectedFailure", "addUnexpectedSuccess"}

VARIABLES
    cfg, flav, g0,
    phase,       \* "describe1" -> "run" -> "describe2" -> "done"
    nrun,
    ctx,         \* tag-context stack of the observing (extended) result: sequence of sets, top = last
    rtime,       \* the time the result was last told
    lastCalls,   \* calls run() made on the decorator in the last run             (mechanism)
    lastLog,     \* calls that reached the result in the last run                  (mechanism)
    before,      \* <<ctx, rtime>> just before the last run                        (ghost for the meaning)
    hist

vars == <<cfg, flav, g0, phase, nrun, ctx, rtime, lastCalls, lastLog, before, hist>>

-----------------------------------------------------------------------------
(* Mechanism *)

Call(m, a, new, gone) == [m |-> m, a |-> a, new |-> new, gone |-> gone]

\* details: set of <<name, content token>>.  __init__: self._details = details or {};
\* if error is not None: self._details["traceback"] = TracebackContent(error, self)
DetailsOf(c) ==
    IF c.error THEN {p \in c.det : p[1] # "traceback"} \cup {<<"traceback", "ERR">>} ELSE c.det

TagsOn(c) == <<Call("tags", None, c.tags, {})>>
TagsOff(c) == <<Call("tags", None, {}, c.tags)>>

\* PlaceHolder.run on the ExtendedToOriginalDecorator
RunCalls(c) ==
    (IF c.ts0 # None THEN <<Call("time", c.ts0, {}, {})>> ELSE <<>>)
      \o (IF TagsAroundTest THEN TagsOn(c) ELSE <<>>)
      \o <<Call("startTest", None, {}, {})>>
      \o (IF TagsAroundTest THEN <<>> ELSE TagsOn(c))
      \o (IF c.ts1 # None THEN <<Call("time", c.ts1, {}, {})>> ELSE <<>>)
      \o <<Call(c.outcome, DetailsOf(c), {}, {})>>
      \o <<Call("stopTest", None, {}, {})>>
      \o TagsOff(c)

\* ExtendedToOriginalDecorator: what reaches a result of flavour f for one call
Fwd(x, f) ==
    CASE f = "ext" -> <<x>>
      [] f = "none" -> <<>>                       \* run(None): a private TestResult, nothing observable
      [] x.m \in {"time", "tags"} -> <<>>         \* no such method on 2.6 / 2.7 results
      [] x.m \in {"startTest", "stopTest"} -> <<x>>
      [] f = "py27" -> <<Call(x.m, "converted", {}, {})>>
      [] x.m \in {"addSkip", "addExpectedFailure", "addSuccess"} -> <<Call("addSuccess", None, {}, {})>>
      [] OTHER -> <<Call(x.m, "converted", {}, {})>>   \* addError / addFailure on 2.6

RECURSIVE FwdAll(_, _)
FwdAll(q, f) == IF q = <<>> THEN <<>> ELSE Fwd(Head(q), f) \o FwdAll(Tail(q), f)

\* the observing result (testtools.testresult.doubles.ExtendedTestResult): tags / startTest / stopTest / time
Top(s) == s[Len(s)]
Apply(st, x) ==
    LET s == st[1]
        t == st[2]
    IN CASE x.m = "tags" -> <<[s EXCEPT ![Len(s)] = (@ \cup x.new) \ x.gone], t>>
         [] x.m = "startTest" -> <<Append(s, Top(s)), t>>
         [] x.m = "stopTest" -> <<SubSeq(s, 1, Len(s) - 1), t>>
         [] x.m = "time" -> <<s, x.a>>
         [] OTHER -> st
RECURSIVE ApplyAll(_, _)
ApplyAll(st, q) == IF q = <<>> THEN st ELSE ApplyAll(Apply(st, Head(q)), Tail(q))

-----------------------------------------------------------------------------
Describe(c) == [id |-> c.id, str |-> c.id, short |-> IF c.short = None THEN c.id ELSE c.short, count |-> 1]

Init ==
    /\ cfg \in Configs /\ flav \in Flavours /\ g0 \in Globals
    /\ ~(flav = "py26" /\ cfg.outcome = "addUnexpectedSuccess")     \* known finding of C08, not re-judged here
    /\ phase = "describe1" /\ nrun = 0
    /\ ctx = <<g0>> /\ rtime = Prior
    /\ lastCalls = <<>> /\ lastLog = <<>> /\ before = <<ctx, rtime>>
    /\ hist = <<[a |-> "init", cfg |-> cfg, flav |-> flav, g |-> g0]>>

DescribeIt ==
    /\ phase \in {"describe1", "describe2"}
    /\ phase' = IF phase = "describe1" THEN "run" ELSE "done"
    /\ hist' = Append(hist, [a |-> "describe", out |-> Describe(cfg)])
    /\ UNCHANGED <<cfg, flav, g0, nrun, ctx, rtime, lastCalls, lastLog, before>>

Run ==
    /\ phase = "run"
    /\ nrun' = nrun + 1
    /\ phase' = IF nrun + 1 = MaxRunsH THEN "describe2" ELSE "run"
    /\ lastCalls' = RunCalls(cfg)
    /\ lastLog' = FwdAll(lastCalls', flav)
    /\ before' = <<ctx, rtime>>
    /\ LET st == ApplyAll(<<ctx, rtime>>, IF flav = "ext" THEN lastLog' ELSE <<>>)
       IN ctx' = st[1] /\ rtime' = st[2]
    /\ hist' = Append(hist, [a |-> "run", log |-> lastLog', tagsAfter |-> Top(ctx')])
    /\ UNCHANGED <<cfg, flav, g0>>

Next == DescribeIt \/ Run
Spec == Init /\ [][Next]_vars

-----------------------------------------------------------------------------
(* MEANING: fold the observing result over what reached it *)

IsOutcome(x) == x.m \in Outcomes
Idx(P(_)) == {i \in DOMAIN lastLog : P(lastLog[i])}
The(S) == CHOOSE i \in S : TRUE

\* state of the observing result just before the i-th call of the last run
StateAt(i) == ApplyAll(before, SubSeq(lastLog, 1, i - 1))
TagsAt(i) == Top(StateAt(i)[1])
TimeAt(i) == StateAt(i)[2]

Ran == nrun > 0 /\ flav # "none"

\* D1
OneTestSeen ==
    Ran => LET st == Idx(LAMBDA x : x.m = "startTest")
               sp == Idx(LAMBDA x : x.m = "stopTest")
               oc == Idx(IsOutcome)
           IN /\ Cardinality(st) = 1 /\ Cardinality(sp) = 1 /\ Cardinality(oc) = 1
              /\ The(st) < The(oc) /\ The(oc) < The(sp)

\* D3, D6
BadOutcomes == {"addError", "addFailure", "addUnexpectedSuccess"}
OutcomeMeaning ==
    Ran => LET o == lastLog[The(Idx(IsOutcome))] IN
           IF flav = "ext"
           THEN /\ o.m = cfg.outcome
                /\ {p \in o.a : p[1] # "traceback"} = {p \in cfg.det : p[1] # "traceback"}
                /\ IF cfg.error THEN <<"traceback", "ERR">> \in o.a /\ <<"traceback", "OLD">> \notin o.a
                   ELSE {p \in o.a : p[1] = "traceback"} = {p \in cfg.det : p[1] = "traceback"}
           ELSE /\ (flav = "py27" => o.m = cfg.outcome)
                /\ (o.m \in BadOutcomes) = (cfg.outcome \in BadOutcomes)     \* the verdict never flips

\* D4
TagsMeaning ==
    (Ran /\ flav = "ext") =>
        /\ cfg.tags \subseteq TagsAt(The(Idx(LAMBDA x : x.m = "startTest")) + 1)   \* inside the test context
        /\ cfg.tags \subseteq TagsAt(The(Idx(IsOutcome)))
        /\ before[1][1] \subseteq TagsAt(The(Idx(IsOutcome)))                        \* run-level tags still apply
        /\ Top(ctx) = before[1][1] \ cfg.tags                                        \* withdrawn afterwards
        /\ Len(ctx) = 1

\* D5
TimeMeaning ==
    (Ran /\ flav = "ext") =>
        /\ TimeAt(The(Idx(LAMBDA x : x.m = "startTest"))) = (IF cfg.ts0 # None THEN cfg.ts0 ELSE before[2])
        /\ TimeAt(The(Idx(IsOutcome))) =
              (IF cfg.ts1 # None THEN cfg.ts1 ELSE IF cfg.ts0 # None THEN cfg.ts0 ELSE before[2])
        /\ Cardinality(Idx(LAMBDA x : x.m = "time")) =
              (IF cfg.ts0 # None THEN 1 ELSE 0) + (IF cfg.ts1 # None THEN 1 ELSE 0)

\* D7
Opt(b, q) == IF b THEN q ELSE <<>>
ExactCalls ==
    (Ran /\ flav = "ext") =>
        lastLog = Opt(cfg.ts0 # None, <<Call("time", cfg.ts0, {}, {})>>)
                    \o <<Call("tags", None, cfg.tags, {}), Call("startTest", None, {}, {})>>
                    \o Opt(cfg.ts1 # None, <<Call("time", cfg.ts1, {}, {})>>)
                    \o <<Call(cfg.outcome, DetailsOf(cfg), {}, {}), Call("stopTest", None, {}, {}),
                         Call("tags", None, {}, cfg.tags)>>

\* D2
DescribeMeaning ==
    \A i \in DOMAIN hist : hist[i].a = "describe" =>
        /\ hist[i].out.id = cfg.id /\ hist[i].out.str = cfg.id /\ hist[i].out.count = 1
        /\ hist[i].out.short = (IF cfg.short # None THEN cfg.short ELSE cfg.id)

-----------------------------------------------------------------------------
Terminal == phase = "done"
ExportC == Terminal => PrintT(<<"EXPORT", ToJson(hist)>>)
=============================================================================
