SPECIFICATION Spec
CONSTANTS
  Ids <- Ids3
  InitTests <- ShapesB
  Kinds <- AllKinds
  FixKinds <- AllFix
  PreStop <- BOOLEAN
  MaxOps = 0
  FilterSets <- SomeSubsets
  CleanInFinally = FALSE
VIEW ViewNoHist
INVARIANT TypeOK
INVARIANT LeavesMeaning
INVARIANT SortMeaning
INVARIANT Bracketed
INVARIANT RunMeaning
CHECK_DEADLOCK FALSE
