---------------------------- MODULE MCTextResult ----------------------------
(* Model-checking instances of TextResult.  1 tick = 100 microseconds. *)
EXTENDS TextResult

C0 == 1000000
TestsA == {"t1", "t2"}
TestsB == {"t1"}
KindsAll == {"error", "failure", "uxsuccess", "success", "skip", "xfail"}
KindsB == {"error", "failure", "uxsuccess", "success"}
\* 0.4 ms, exactly 1 ms, 1.234 s
TicksA == {4, 10, 12340}
TicksB == {4, 10}
\* exactly 1 ms after the start, 1.1 ms after, 0.5 ms BEFORE the start (time may go backwards),
\* one day and 1.0007 s after
SuppliedA == {C0 + 10, C0 + 11, C0 - 5, C0 + 864000000 + 10007}
SuppliedB == {C0 + 10, C0 - 15}
=============================================================================
