------------------------------- MODULE Doubles -------------------------------
(***************************************************************************)
(* X17 - the recording test doubles of testtools/testresult/doubles.py:     *)
(* LoggingBase, Python26TestResult, Python27TestResult, ExtendedTestResult, *)
(* TwistedTestResult, StreamResult.                                         *)
(*                                                                         *)
(* Documented sentences formalised:                                         *)
(*  D1 doc/for-framework-folk.rst "Test Doubles": "These TestResult objects *)
(*     implement a single variation of the TestResult API each, and log     *)
(*     activity to a list self._events."  StreamResult double: "All events  *)
(*     are logged to _events."  LoggingBase: "Basic support for logging of  *)
(*     results." (event_log=None -> a new list, otherwise THE list given)   *)
(*                                   LogMeaning, OneEventPerCall            *)
(*  D2 Python26TestResult: "A precisely python 2.6 like test result, that   *)
(*     logs."  (unittest 2.6: wasSuccessful() <=> no error, no failure;     *)
(*     stop() sets shouldStop; testsRun counts startTest)                   *)
(*  D3 Python27TestResult: "A precisely python 2.7 like test result, that   *)
(*     logs."  (2.7 adds skip / expected failure / unexpected success,      *)
(*     startTestRun / stopTestRun, and failfast: addError, addFailure and   *)
(*     addUnexpectedSuccess call stop() when failfast is set; an unexpected *)
(*     success does not make a 2.7 result unsuccessful; startTestRun resets *)
(*     nothing)                                                             *)
(*  D4 ExtendedTestResult: "A test result like the proposed extended        *)
(*     unittest result API."  (outcomes take err OR details; tags, time,    *)
(*     progress; current_tags; wasSuccessful() false after error, failure,  *)
(*     unexpected success; doc/for-framework-folk.rst on startTestRun:      *)
(*     "will reset any errors, failures and so forth on the result")        *)
(*  D5 TwistedTestResult: "Emulate the relevant bits of                     *)
(*     twisted.trial.itrial.IReporter."                                     *)
(*                       OkMeaning, StopMeaning, RunsMeaning, TagsMeaning   *)
(*                                                                         *)
(* MECHANISM (code-shaped, following the inheritance chain): each call      *)
(* appends to the list object the double was given and updates the flag     *)
(* attributes (_was_successful, shouldStop, testsRun, failfast, the         *)
(* TagContext stack).  MEANING: predicates over the global call history gh  *)
(* alone - the log of a list is the merge, in call order, of the events of  *)
(* all doubles that were given that list; each flag is a fold over the      *)
(* calls made to that double.                                               *)
(*                                                                         *)
(* Where the documentation is silent the specification follows the code     *)
(* and says so: ExtendedTestResult inherits the failfast attribute but its  *)
(* own outcome methods never consult it (StopMeaning = "either"); a falsy   *)
(* but not-None first form (reason "") given without details is logged as   *)
(* the details form (None) - such calls are marked `amb` and only their     *)
(* name and test are judged; shouldStop and testsRun are not reset by       *)
(* startTestRun.                                                            *)
(***************************************************************************)
EXTENDS Naturals, Sequences, FiniteSets, TLC, Json

CONSTANTS
    Names,           \* scenario names
    InstsOf(_),      \* scenario -> Seq([fl, log, given]): the doubles and the list each is given
    AlphaOf(_),      \* scenario -> Seq(set of calls): call alphabet per double
    DepthOf(_),      \* scenario -> number of calls
    Py27UxsStops,    \* TRUE as required; FALSE = spec mutation (failfast ignores unexpected successes)
    ExtResetsOk,     \* TRUE as required; FALSE = spec mutation (startTestRun keeps the verdict)
    ShareGivenLog,   \* TRUE as required; FALSE = spec mutation (an EMPTY list given is replaced by a new one)
    PushOnStartTest  \* TRUE as required; FALSE = spec mutation (startTest does not open a tag scope)

None == "none"
Falsy == {"none", "t0", "e0", "d0", "r0"}     \* None, a falsy test object, (), {}, ""
Truthy(v) == v \notin Falsy
Or(x, y) == IF Truthy(x) THEN x ELSE y         \* Python's `x or y`

C(m, a) == [m |-> m, a |-> a]

\* tags() arguments, written as one token: "+a" = tags({"a"}, set()), "-a" = tags(set(), {"a"}), "0" = tags(set(), set())
NewOf(tok) == CASE tok = "+a" -> {"a"} [] tok = "+b" -> {"b"} [] OTHER -> {}
GoneOf(tok) == CASE tok = "-a" -> {"a"} [] tok = "-b" -> {"b"} [] OTHER -> {}
SetStr(S) == CASE S = {} -> "{}" [] S = {"a"} -> "{a}" [] S = {"b"} -> "{b}" [] OTHER -> "{a,b}"

\* status(): the call carries the keyword arguments the caller supplied, flattened <<key, value, key, value, ..>>
StatusKeys == <<"test_id", "test_status", "test_tags", "runnable", "file_name", "file_bytes", "eof",
                "mime_type", "route_code", "timestamp">>
StatusDefault(k) == CASE k = "runnable" -> "T" [] k = "eof" -> "F" [] OTHER -> None
Given(a, k) == {j \in DOMAIN a : j % 2 = 1 /\ a[j] = k}
Field(a, k) == IF Given(a, k) = {} THEN StatusDefault(k) ELSE a[(CHOOSE j \in Given(a, k) : TRUE) + 1]

VARIABLES
    sname,     \* the scenario of this behaviour
    insts,     \* its doubles: Seq([fl, log, given])
    logs,      \* [log name -> Seq(event)]: the list objects                               (mechanism)
    st,        \* per double: [ok, stop, runs, ff, tags (stack of tag sets, innermost last)] (mechanism)
    gh,        \* global call history: Seq([i, c])                                          (history)
    hist

vars == <<sname, insts, logs, st, gh, hist>>

NInst == Len(insts)
Fl(i) == insts[i].fl
\* a double constructed with event_log=<list> logs to that list; with no argument to a list of its own.
\* given = FALSE: no event_log argument (log names a private list); "F" = a list that already holds a foreign entry
LogOf(i) == IF ShareGivenLog \/ ~insts[i].given \/ insts[i].log = "F"
            THEN insts[i].log ELSE "own" \o ToString(i)
LogNames == {insts[i].log : i \in 1..NInst} \cup {LogOf(i) : i \in 1..NInst}
InitLog(l) == IF l = "F" THEN <<<<"foreign">>>> ELSE <<>>

-----------------------------------------------------------------------------
(* Mechanism: one operator per class, `super` calls as in the code.  Each returns [s, ev] with ev the    *)
(* sequence of events appended (0 or 1).                                                                  *)

R(s, ev) == [s |-> s, ev |-> ev]

P26(s, c) ==
    CASE c.m = "addError"   -> R([s EXCEPT !.ok = FALSE], <<<<"addError", c.a[1], c.a[2]>>>>)
      [] c.m = "addFailure" -> R([s EXCEPT !.ok = FALSE], <<<<"addFailure", c.a[1], c.a[2]>>>>)
      [] c.m = "addSuccess" -> R(s, <<<<"addSuccess", c.a[1]>>>>)
      [] c.m = "startTest"  -> R([s EXCEPT !.runs = @ + 1], <<<<"startTest", c.a[1]>>>>)
      [] c.m = "stopTest"   -> R(s, <<<<"stopTest", c.a[1]>>>>)
      [] c.m = "stop"       -> R([s EXCEPT !.stop = TRUE], <<>>)
      [] OTHER -> Assert(FALSE, <<"no such method on Python26TestResult", c>>)

StopIfFF(r) == IF r.s.ff THEN R([r.s EXCEPT !.stop = TRUE], r.ev) ELSE r

P27(s, c) ==
    CASE c.m \in {"addError", "addFailure"} -> StopIfFF(P26(s, c))
      [] c.m = "addExpectedFailure" -> R(s, <<<<"addExpectedFailure", c.a[1], c.a[2]>>>>)
      [] c.m = "addSkip" -> R(s, <<<<"addSkip", c.a[1], c.a[2]>>>>)
      [] c.m = "addUnexpectedSuccess" ->
            LET r == R(s, <<<<"addUnexpectedSuccess", c.a[1]>>>>) IN IF Py27UxsStops THEN StopIfFF(r) ELSE r
      [] c.m = "startTestRun" -> R(s, <<<<"startTestRun">>>>)
      [] c.m = "stopTestRun" -> R(s, <<<<"stopTestRun">>>>)
      [] c.m = "ff" -> R([s EXCEPT !.ff = (c.a[1] = "T")], <<>>)          \* result.failfast = True | False
      [] OTHER -> P26(s, c)

Top(s) == s.tags[Len(s.tags)]

\* two-form arguments: a = <<test, err-or-reason, details>>
Ext(s, c) ==
    CASE c.m \in {"addError", "addFailure"} -> R([s EXCEPT !.ok = FALSE], <<<<c.m, c.a[1], Or(c.a[2], c.a[3])>>>>)
      [] c.m \in {"addExpectedFailure", "addSkip"} -> R(s, <<<<c.m, c.a[1], Or(c.a[2], c.a[3])>>>>)
      [] c.m = "addSuccess" ->                                            \* if details:
            R(s, IF Truthy(c.a[2]) THEN <<<<"addSuccess", c.a[1], c.a[2]>>>> ELSE <<<<"addSuccess", c.a[1]>>>>)
      [] c.m = "addUnexpectedSuccess" ->                                  \* if details is not None:
            R([s EXCEPT !.ok = FALSE],
              IF c.a[2] # None THEN <<<<"addUnexpectedSuccess", c.a[1], c.a[2]>>>> ELSE <<<<"addUnexpectedSuccess", c.a[1]>>>>)
      [] c.m = "progress" -> R(s, <<<<"progress", c.a[1], c.a[2]>>>>)
      [] c.m = "startTestRun" ->
            LET r == P27(s, c) IN R([r.s EXCEPT !.ok = (IF ExtResetsOk THEN TRUE ELSE @), !.tags = <<{}>>], r.ev)
      [] c.m = "startTest" ->
            LET r == P27(s, c) IN R([r.s EXCEPT !.tags = IF PushOnStartTest THEN Append(@, Top(r.s)) ELSE @], r.ev)
      [] c.m = "stopTest" ->
            LET s1 == IF Len(s.tags) > 1 THEN [s EXCEPT !.tags = SubSeq(@, 1, Len(@) - 1)] ELSE s IN P27(s1, c)
      [] c.m = "tags" ->
            R([s EXCEPT !.tags[Len(s.tags)] = (@ \cup NewOf(c.a[1])) \ GoneOf(c.a[1])],
              <<<<"tags", SetStr(NewOf(c.a[1])), SetStr(GoneOf(c.a[1]))>>>>)
      [] c.m = "time" -> R(s, <<<<"time", c.a[1]>>>>)
      [] OTHER -> P27(s, c)

\* a = <<test, error>> | <<test, failure, todo>> | <<test>> | <<test, todo>>
Tw(s, c) ==
    CASE c.m \in {"addError", "addFailure"} -> R([s EXCEPT !.ok = FALSE], <<<<c.m, c.a[1], c.a[2]>>>>)
      [] c.m = "startTest" -> R([s EXCEPT !.runs = @ + 1], <<<<"startTest", c.a[1]>>>>)
      [] c.m \in {"stopTest", "addSuccess", "addUnexpectedSuccess"} -> R(s, <<<<c.m, c.a[1]>>>>)
      [] c.m \in {"addExpectedFailure", "addSkip"} -> R(s, <<<<c.m, c.a[1], c.a[2]>>>>)
      [] c.m = "done" -> R(s, <<>>)
      [] OTHER -> Assert(FALSE, <<"no such method on TwistedTestResult", c>>)

Stream(s, c) ==
    CASE c.m \in {"startTestRun", "stopTestRun"} -> R(s, <<<<c.m>>>>)
      [] c.m = "status" -> R(s, <<<<"status">> \o [k \in 1..10 |-> Field(c.a, StatusKeys[k])]>>)
      [] OTHER -> Assert(FALSE, <<"no such method on the StreamResult double", c>>)

Do(fl, s, c) ==
    CASE fl = "py26" -> P26(s, c) [] fl = "py27" -> P27(s, c) [] fl = "ext" -> Ext(s, c)
      [] fl = "tw" -> Tw(s, c) [] OTHER -> Stream(s, c)

\* calls whose logged payload the documentation does not determine (falsy, not None, first form; no details)
Amb(fl, c) == fl = "ext" /\ c.m \in {"addError", "addFailure", "addExpectedFailure", "addSkip"}
                  /\ c.a[2] # None /\ ~Truthy(c.a[2])

-----------------------------------------------------------------------------
(* MEANING: over the call history only *)

H(i) == SelectSeq(gh, LAMBDA g : g.i = i)
Ms(h, S) == {k \in DOMAIN h : h[k].c.m \in S}
MaxOf(S) == CHOOSE x \in S : \A y \in S : y <= x

\* D1: what a call must leave in the log: the method name and the arguments supplied
Supplied(x, y) == IF x # None THEN x ELSE y
EvM(fl, c) ==
    CASE c.m \in {"stop", "ff", "done"} -> <<>>
      [] c.m = "tags" -> <<<<"tags", SetStr(NewOf(c.a[1])), SetStr(GoneOf(c.a[1]))>>>>
      [] c.m = "status" -> <<<<"status">> \o [k \in 1..10 |-> Field(c.a, StatusKeys[k])]>>
      [] fl = "ext" /\ c.m \in {"addError", "addFailure", "addExpectedFailure", "addSkip"} ->
            <<<<c.m, c.a[1], Supplied(c.a[2], c.a[3])>>>>
      [] fl = "ext" /\ c.m = "addSuccess" ->              \* an empty details dict counts as no details (pinned by the suite)
            IF c.a[2] \in {None, "d0"} THEN <<<<c.m, c.a[1]>>>> ELSE <<<<c.m, c.a[1], c.a[2]>>>>
      [] fl = "ext" /\ c.m = "addUnexpectedSuccess" ->
            IF c.a[2] = None THEN <<<<c.m, c.a[1]>>>> ELSE <<<<c.m, c.a[1], c.a[2]>>>>
      [] fl = "tw" /\ c.m = "addExpectedFailure" -> <<<<c.m, c.a[1], c.a[2]>>>>     \* todo is not logged
      [] fl \in {"tw", "py27"} /\ c.m = "addUnexpectedSuccess" -> <<<<c.m, c.a[1]>>>>
      [] OTHER -> <<<<c.m>> \o c.a>>

SameEvent(got, want, amb) ==
    IF amb THEN Len(got) = Len(want) /\ got[1] = want[1] /\ got[2] = want[2] ELSE got = want

RECURSIVE Merge(_, _)
\* events (with their amb mark) that the history puts into list l, in call order
Merge(g, l) ==
    IF g = <<>> THEN <<>>
    ELSE LET x == g[Len(g)]
             rest == Merge(SubSeq(g, 1, Len(g) - 1), l)
             e == EvM(Fl(x.i), x.c)
         IN IF insts[x.i].log = l /\ e # <<>> THEN Append(rest, <<e[1], Amb(Fl(x.i), x.c)>>) ELSE rest

\* D1: every list holds what it held before, followed by exactly one event per logging call of every double that was
\* given this list, in call order - and nothing else
LogMeaning ==
    \A l \in LogNames :
        LET want == Merge(gh, l)
            got == logs[l]
            n0 == Len(InitLog(l))
        IN /\ Len(got) = n0 + Len(want)
           /\ SubSeq(got, 1, n0) = InitLog(l)
           /\ \A j \in DOMAIN want : SameEvent(got[n0 + j], want[j][1], want[j][2])

\* D1, stepwise: a call touches the one list of the double it is made on, appending at most one event
OneEventPerCall ==
    [][\E i \in 1..NInst :
          /\ gh' = Append(gh, gh'[Len(gh')]) /\ gh'[Len(gh')].i = i
          /\ \A l \in LogNames : l # LogOf(i) => logs'[l] = logs[l]
          /\ Len(logs'[LogOf(i)]) \in {Len(logs[LogOf(i)]), Len(logs[LogOf(i)]) + 1}
          /\ SubSeq(logs'[LogOf(i)], 1, Len(logs[LogOf(i)])) = logs[LogOf(i)]
          /\ \A j \in 1..NInst : j # i => st'[j] = st[j]]_vars

\* D2-D5: wasSuccessful()
OkMeaning ==
    \A i \in 1..NInst :
        LET h == H(i) IN
        CASE Fl(i) \in {"py26", "py27", "tw"} -> st[i].ok = (Ms(h, {"addError", "addFailure"}) = {})
          [] Fl(i) = "ext" ->
               LET runs == Ms(h, {"startTestRun"})
                   from == IF runs = {} THEN 0 ELSE MaxOf(runs)
               IN st[i].ok = ({k \in Ms(h, {"addError", "addFailure", "addUnexpectedSuccess"}) : k > from} = {})
          [] OTHER -> TRUE

\* D2/D3: shouldStop.  "T" / "F" / "either" (documentation silent)
FFAt(h, k) == LET S == {j \in Ms(h, {"ff"}) : j < k} IN IF S = {} THEN FALSE ELSE h[MaxOf(S)].c.a[1] = "T"
StopWant(i) ==
    LET h == H(i)
        stopped == Ms(h, {"stop"}) # {}
        badff == \E k \in Ms(h, {"addError", "addFailure", "addUnexpectedSuccess"}) : FFAt(h, k)
    IN CASE Fl(i) = "py26" -> IF stopped THEN "T" ELSE "F"
         [] Fl(i) = "py27" -> IF stopped \/ badff THEN "T" ELSE "F"
         [] Fl(i) = "ext" -> IF stopped THEN "T" ELSE IF badff THEN "either" ELSE "F"
         [] OTHER -> "either"
StopMeaning == \A i \in 1..NInst : StopWant(i) = "either" \/ (st[i].stop = (StopWant(i) = "T"))

\* testsRun = number of startTest calls ever; failfast = what was last assigned
RunsMeaning ==
    \A i \in 1..NInst : Fl(i) \in {"py26", "py27", "ext", "tw"} =>
        /\ st[i].runs = Cardinality(Ms(H(i), {"startTest"}))
        /\ st[i].ff = FFAt(H(i), Len(H(i)) + 1)

\* D4: current_tags.  Tags changed inside a test (startTest..stopTest) end with it; a test starts with the tags
\* current around it; startTestRun forgets everything.  Written without a stack: a tags() call is still in force
\* iff the nesting depth never fell below the depth it was made at.
RECURSIVE Depth(_, _, _)
Depth(h, k, from) ==
    IF k <= from THEN 0
    ELSE LET d == Depth(h, k - 1, from) IN
         CASE h[k].c.m = "startTest" -> d + 1
           [] h[k].c.m = "stopTest" -> IF d > 0 THEN d - 1 ELSE 0
           [] OTHER -> d
InForce(h, k, from) == \A m \in k..Len(h) : Depth(h, m, from) >= Depth(h, k, from)
RECURSIVE FoldTags(_, _, _, _)
FoldTags(h, k, from, acc) ==
    IF k > Len(h) THEN acc
    ELSE FoldTags(h, k + 1, from,
                  IF h[k].c.m = "tags" /\ InForce(h, k, from)
                  THEN (acc \cup NewOf(h[k].c.a[1])) \ GoneOf(h[k].c.a[1]) ELSE acc)
TagsMeaning ==
    \A i \in 1..NInst : Fl(i) = "ext" =>
        LET h == H(i)
            runs == Ms(h, {"startTestRun"})
            from == IF runs = {} THEN 0 ELSE MaxOf(runs)
        IN Top(st[i]) = FoldTags(h, from + 1, from, {})

-----------------------------------------------------------------------------
(* Behaviours *)
StopWantP(i) == StopWant(i)'

S0 == [ok |-> TRUE, stop |-> FALSE, runs |-> 0, ff |-> FALSE, tags |-> <<{}>>]

Init ==
    /\ sname \in Names
    /\ insts = InstsOf(sname)
    /\ logs = [l \in LogNames |-> InitLog(l)]
    /\ st = [i \in 1..NInst |-> S0]
    /\ gh = <<>>
    /\ hist = <<[a |-> "init", insts |-> insts, name |-> sname]>>

Call(i, c) ==
    /\ Len(gh) < DepthOf(sname)
    /\ UNCHANGED <<sname, insts>>
    /\ gh' = Append(gh, [i |-> i, c |-> c])
    /\ LET r == Do(Fl(i), st[i], c) IN
       /\ st' = [st EXCEPT ![i] = r.s]
       /\ logs' = [logs EXCEPT ![LogOf(i)] = @ \o r.ev]
       /\ hist' = Append(hist, [a |-> "call", i |-> i, fl |-> Fl(i), c |-> c, new |-> r.ev, amb |-> Amb(Fl(i), c),
                                obs |-> [ok |-> r.s.ok, stop |-> StopWantP(i), runs |-> r.s.runs, ff |-> r.s.ff,
                                         tags |-> Top(r.s)]])

Py26Call == \E i \in 1..NInst : Fl(i) = "py26" /\ \E c \in AlphaOf(sname)[i] : Call(i, c)
Py27Call == \E i \in 1..NInst : Fl(i) = "py27" /\ \E c \in AlphaOf(sname)[i] : Call(i, c)
ExtCall == \E i \in 1..NInst : Fl(i) = "ext" /\ \E c \in AlphaOf(sname)[i] : Call(i, c)
TwistedCall == \E i \in 1..NInst : Fl(i) = "tw" /\ \E c \in AlphaOf(sname)[i] : Call(i, c)
StreamCall == \E i \in 1..NInst : Fl(i) = "stream" /\ \E c \in AlphaOf(sname)[i] : Call(i, c)
Next == Py26Call \/ Py27Call \/ ExtCall \/ TwistedCall \/ StreamCall
Spec == Init /\ [][Next]_vars

-----------------------------------------------------------------------------
Terminal == Len(gh) = DepthOf(sname)
ExportC == Terminal => PrintT(<<"EXPORT", ToJson(hist)>>)
=============================================================================
