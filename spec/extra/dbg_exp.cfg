SPECIFICATION Spec
CONSTANTS
  MaxDepth = 3
  MaxSteps = 5
  RestoreBoth = TRUE
CONSTRAINT ExportC
INVARIANT ValueIsInnermost
INVARIANT Restored
CHECK_DEADLOCK FALSE
