SPECIFICATION Spec
CONSTANTS
  Names <- NamesAll
  NodeKind <- TreeKind
  AltKinds <- AltGiven
  CbKinds <- CbOnly
  MaxCalls = 4
  CallbackOnce = TRUE
VIEW ViewNoHist
INVARIANT Denotation
INVARIANT CallbackRule
INVARIANT NoSwallowing
INVARIANT LoopRule
INVARIANT TreeSane
CHECK_DEADLOCK FALSE
