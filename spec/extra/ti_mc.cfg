SPECIFICATION Spec
CONSTANTS
  Names <- NamesAll
  NodeKind <- TreeKind
  AltKinds <- AltAll
  CbKinds <- CbAll
  MaxCalls = 3
  CallbackOnce = TRUE
VIEW ViewNoHist
INVARIANT Denotation
INVARIANT CallbackRule
INVARIANT NoSwallowing
INVARIANT LoopRule
INVARIANT TreeSane
CHECK_DEADLOCK FALSE
