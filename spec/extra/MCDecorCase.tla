----------------------------- MODULE MCDecorCase -----------------------------
(* Model-checking instances of DecorCase. *)
EXTENDS DecorCase

I(k, b, a) == [callout |-> k, before_run |-> b, after_run |-> a]
InitsAll == {I(k, b, a) : k \in {"k1", "k2"}, b \in {"none", "b1"}, a \in {"none", "a1"}}
InitsOne == {I("k2", "b1", "a1")}

RunsAll == {<<via, r, o>> : via \in {"run", "call"}, r \in {"r1", "none"}, o \in {"ret", "exc", "base"}}
RunsTwo == {<<"run", "r1", "ret">>, <<"call", "none", "base">>}

RunsFour == {<<"run", "r1", "ret">>, <<"call", "r1", "exc">>, <<"run", "none", "base">>, <<"call", "none", "ret">>}
OwnSetsAll == {<<"decorated", "c2">>, <<"decorated", "c1">>, <<"callout", "k1">>, <<"callout", "k2">>,
               <<"before_run", "none">>, <<"before_run", "b2">>, <<"after_run", "none">>, <<"after_run", "a2">>}
OwnSetsFew == {<<"decorated", "c2">>, <<"before_run", "b2">>, <<"after_run", "none">>, <<"callout", "k1">>}
OwnSetsTwo == {<<"decorated", "c2">>, <<"after_run", "a2">>}

Fwd == {"x", "y"}
Vals2 == {"v1", "v2"}
Vals1 == {"v1"}
GetAll == Fwd \cup OwnNames
GetFew == {"x", "y", "after_run"}
NoNames == {}
OwnFull == {"decorated", "callout", "before_run", "after_run"}
OwnShort == {"decorated", "callout", "before_run"}
=============================================================================
