SPECIFICATION Spec
CONSTANTS
  Inits <- InitsAll
  RunArgs <- RunsAll
  OwnSets <- OwnSetsFew
  FwdNames <- Fwd
  FwdVals <- Vals1
  GetNames <- GetFew
  MaxSteps = 2
  AfterInFinally = TRUE
  OwnTuple <- OwnShort
VIEW ViewNoHist
INVARIANT CalloutOnce
INVARIANT CaseGetsAltered
INVARIANT NoEarlyCase
INVARIANT BeforePrecedes
INVARIANT AfterFollows
INVARIANT ForwardedView
INVARIANT OwnStaysOwn
PROPERTY ReadYourWrite
CHECK_DEADLOCK FALSE
