--------------------------- MODULE MCMonkeyPatch ---------------------------
(* Model-checking instances of MonkeyPatch: objects, attribute kinds, patch alphabets, bounds. *)
EXTENDS MonkeyPatch

\* o1.x ordinary instance attribute; o1.y missing; o2.x instance attribute whose value is None;
\* o2.c attribute found on the CLASS of o2 only (getattr sees it, the instance dict does not have it)
Slots3 == {"o1.x", "o1.y", "o2.x"}
Slots4 == Slots3 \cup {"o2.c"}
A0(s) == CASE s = "o1.x" -> "orig" [] s = "o1.y" -> Absent [] s = "o2.x" -> "None" [] s = "o2.c" -> "cls"
Attrs3 == [s \in Slots3 |-> A0(s)]
Attrs4 == [s \in Slots4 |-> A0(s)]

\* exhaustive alphabet: every slot x {new object p, new object q, None}
PatchesAll3 == {<<s, v>> : s \in Slots3, v \in {"p", "q", "None"}}
PatchesAll4 == {<<s, v>> : s \in Slots4, v \in {"p", "q", "None"}}

\* export alphabet: same attribute twice with different values, a missing attribute (also patched to None),
\* a None-valued attribute, a class-level attribute
PatchesE == {<<"o1.x", "p">>, <<"o1.x", "q">>, <<"o1.y", "p">>, <<"o1.y", "None">>, <<"o2.x", "p">>, <<"o2.c", "p">>}
PatchesS == {<<"o1.x", "p">>, <<"o1.y", "q">>, <<"o2.x", "p">>, <<"o1.y", "None">>}

NoInit == {<<>>}
\* MonkeyPatcher(*patches) with 0..2 constructor patches
InitE == {<<>>} \cup {<<a>> : a \in PatchesE} \cup {<<a, b>> : a, b \in PatchesE}

PatchesT == {<<"o1.y", "q">>, <<"o1.x", "None">>}
AllKinds == {"ret", "exc", "base"}
=============================================================================
