SPECIFICATION Spec
CONSTANTS
  Slots <- Slots4
  Attrs0 <- Attrs4
  Patches <- PatchesS
  InitPend <- InitE
  MaxSteps = 4
  MaxPend = 3
  MaxOrig = 6
  MaxFn = 2
  FKinds <- AllKinds
  LifoRestore = TRUE
VIEW ViewNoHist
INVARIANT TypeOK
INVARIANT WouldRestore
INVARIANT SavedIffTouched
PROPERTY RestoreMeaning
PROPERTY RestoreIdempotent
PROPERTY PatchAssigns
PROPERTY RunMeaning
PROPERTY AddPatchIsLazy
CHECK_DEADLOCK FALSE
