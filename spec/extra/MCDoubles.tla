------------------------------ MODULE MCDoubles ------------------------------
(* Model-checking instances of Doubles: scenarios = doubles, the lists they are given, call alphabets, depth. *)
EXTENDS Doubles

I(fl, log, given) == [fl |-> fl, log |-> log, given |-> given]
S(name, ii, alpha, depth) == [name |-> name, insts |-> ii, alpha |-> alpha, depth |-> depth]

\* t1 a test object, t0 a falsy one; e1 an exc_info tuple, e0 (); d1 a details dict, d0 {}; r1 a reason, r0 ""
A26 == {C("addError", <<"t1", "e1">>), C("addError", <<"t0", "e0">>), C("addFailure", <<"t1", "e1">>),
        C("addSuccess", <<"t1">>), C("startTest", <<"t1">>), C("stopTest", <<"t0">>), C("stop", <<>>)}

A27 == {C("addError", <<"t1", "e1">>), C("addFailure", <<"t0", "e0">>), C("addSuccess", <<"t1">>),
        C("addUnexpectedSuccess", <<"t1">>), C("addSkip", <<"t1", "r0">>), C("addExpectedFailure", <<"t1", "e1">>),
        C("startTest", <<"t1">>), C("startTestRun", <<>>), C("stop", <<>>), C("ff", <<"T">>), C("ff", <<"F">>)}
A27b == {C("addSkip", <<"t1", "r1">>), C("stopTestRun", <<>>), C("stopTest", <<"t1">>), C("addFailure", <<"t1", "e1">>)}

\* ExtendedTestResult, outcome forms: <<test, err | reason, details>>
XA == {C("addError", <<"t1", "e1", None>>), C("addError", <<"t1", None, "d1">>), C("addFailure", <<"t0", None, "d0">>),
       C("addUnexpectedSuccess", <<"t1", None>>), C("addUnexpectedSuccess", <<"t1", "d0">>),
       C("addSuccess", <<"t1", "d0">>), C("addSuccess", <<"t1", "d1">>),
       C("addSkip", <<"t1", "r0", None>>), C("addSkip", <<"t1", None, "d1">>), C("addExpectedFailure", <<"t1", "e1", None>>),
       C("startTestRun", <<>>), C("stop", <<>>), C("ff", <<"T">>)}
\* ExtendedTestResult, verdict / stop flags over longer histories
XF == {C("addError", <<"t1", "e1", None>>), C("addUnexpectedSuccess", <<"t1", None>>), C("addSuccess", <<"t1", None>>),
       C("startTestRun", <<>>), C("stop", <<>>), C("ff", <<"T">>), C("ff", <<"F">>), C("startTest", <<"t1">>)}
\* ExtendedTestResult, tag scopes
XT == {C("startTestRun", <<>>), C("startTest", <<"t1">>), C("stopTest", <<"t1">>),
       C("tags", <<"+a">>), C("tags", <<"-a">>), C("tags", <<"+b">>)}
\* ExtendedTestResult, the rest (falsy arguments)
XM == {C("time", <<"0">>), C("time", <<"now">>), C("time", <<None>>), C("progress", <<"0", "cur">>), C("progress", <<"1", "set">>),
       C("tags", <<"0">>), C("stopTestRun", <<>>), C("addSuccess", <<"t0", None>>), C("addSkip", <<"t1", "r1", None>>),
       C("addExpectedFailure", <<"t1", None, "d0">>), C("addUnexpectedSuccess", <<"t0", "d1">>)}

ATw == {C("addError", <<"t1", "e1">>), C("addFailure", <<"t0", "e0">>), C("addSuccess", <<"t1">>),
        C("addExpectedFailure", <<"t1", "e1">>), C("addExpectedFailure", <<"t1", "e1", "todo">>),
        C("addUnexpectedSuccess", <<"t1">>), C("addUnexpectedSuccess", <<"t1", "todo">>), C("addSkip", <<"t1", "r0">>),
        C("startTest", <<"t1">>), C("stopTest", <<"t1">>), C("done", <<>>)}

\* status(): keyword arguments as supplied (any order); values: strings, T/F, none, "" (empty text / bytes), {} / {a}
ASt == {C("startTestRun", <<>>), C("stopTestRun", <<>>), C("status", <<>>),
        C("status", <<"test_id", "id", "test_status", "success">>),
        C("status", <<"timestamp", "now", "route_code", "rc", "test_tags", "{a}", "test_status", "inprogress", "test_id", "id", "runnable", "F">>),
        C("status", <<"file_name", "fn", "file_bytes", "", "eof", "T", "mime_type", "mt">>),
        C("status", <<"test_id", "", "test_tags", "{}", "runnable", "F", "eof", "F", "file_bytes", "by", "file_name", "">>),
        C("status", <<"eof", "T", "runnable", "T", "route_code", "", "timestamp", "none", "mime_type", "">>)}

One(fl, alpha, name, depth) == S(name, <<I(fl, "A", TRUE)>>, <<alpha>>, depth)

A27f == {C("addError", <<"t1", "e1">>), C("addUnexpectedSuccess", <<"t1">>), C("addSuccess", <<"t1">>),
         C("ff", <<"T">>), C("ff", <<"F">>), C("stop", <<>>)}
XF7 == XF \ {C("startTest", <<"t1">>)}
XT5 == XT \ {C("tags", <<"+b">>)}

SetupsQuick ==
    { One("py26", A26, "py26", 4),
      One("py27", A27, "py27", 3),
      One("py27", A27f, "py27-failfast", 4),
      One("py27", A27b \cup {C("ff", <<"T">>), C("addUnexpectedSuccess", <<"t1">>)}, "py27b", 3),
      One("ext", XA, "ext-forms", 3),
      One("ext", XF7, "ext-flags", 4),
      One("ext", XT5, "ext-tags", 5),
      One("ext", XT, "ext-tags2", 4),
      One("ext", XM, "ext-misc", 2),
      One("tw", ATw, "twisted", 3),
      One("stream", ASt, "stream", 3),
      \* doubles that were given no list
      S("private", <<I("py27", "P1", FALSE), I("ext", "P2", FALSE)>>,
        <<{C("addError", <<"t1", "e1">>), C("stop", <<>>)}, {C("addFailure", <<"t1", "e1", None>>), C("startTestRun", <<>>)}>>, 4),
      \* four flavours on ONE list, a fifth on a list which already holds something
      S("mix", <<I("ext", "A", TRUE), I("tw", "A", TRUE), I("py27", "A", TRUE), I("stream", "A", TRUE), I("py26", "F", TRUE)>>,
        << {C("addError", <<"t1", "e1", None>>), C("startTestRun", <<>>)},
           {C("addFailure", <<"t1", "e1">>)},
           {C("addUnexpectedSuccess", <<"t1">>), C("ff", <<"T">>)},
           {C("status", <<"test_id", "id">>)},
           {C("addSuccess", <<"t1">>)} >>, 4),
      \* two doubles of one class on one list: flags are per double, the log is common
      S("twins", <<I("ext", "A", TRUE), I("ext", "A", TRUE)>>,
        << {C("addError", <<"t1", "e1", None>>), C("startTestRun", <<>>), C("stop", <<>>)},
           {C("addError", <<"t1", "e1", None>>), C("startTestRun", <<>>), C("tags", <<"+a">>)} >>, 4) }

SetupsThorough ==
    { One("py26", A26, "py26", 5), One("py27", A27, "py27", 4), One("ext", XA, "ext-forms", 4),
      One("ext", XF, "ext-flags", 5), One("ext", XT, "ext-tags", 6), One("tw", ATw, "twisted", 4), One("stream", ASt, "stream", 4) }

\* random deep histories: everything at once
SetupsSim ==
    { S("sim", <<I("ext", "A", TRUE), I("py27", "A", TRUE), I("tw", "F", TRUE), I("stream", "A", TRUE), I("py26", "P1", FALSE), I("ext", "P2", FALSE)>>,
        << XF \cup XT \cup {C("addFailure", <<"t0", None, "d0">>), C("addSuccess", <<"t1", "d0">>), C("addSkip", <<"t1", "r0", None>>), C("tags", <<"0">>)},
           A27,
           {C("addFailure", <<"t0", "e0">>), C("addUnexpectedSuccess", <<"t1", "todo">>), C("startTest", <<"t1">>), C("done", <<>>)},
           {C("startTestRun", <<>>), C("status", <<>>), C("status", <<"test_id", "", "test_tags", "{}", "runnable", "F", "eof", "F", "file_bytes", "by", "file_name", "">>)},
           {C("addError", <<"t1", "e1">>), C("stop", <<>>), C("startTest", <<"t1">>)},
           {C("startTestRun", <<>>), C("startTest", <<"t1">>), C("stopTest", <<"t1">>), C("tags", <<"+a">>), C("addUnexpectedSuccess", <<"t1", None>>)} >>, 12) }

\* small instance for the spec mutations and the per-action coverage run
SetupsMut ==
    { One("py27", A27, "py27", 3), One("ext", XF, "ext-flags", 3), One("ext", XT, "ext-tags", 4),
      One("py26", A26, "py26", 2), One("tw", ATw, "twisted", 2), One("stream", ASt, "stream", 2),
      S("twins", <<I("ext", "A", TRUE), I("ext", "A", TRUE)>>,
        <<{C("addError", <<"t1", "e1", None>>)}, {C("startTestRun", <<>>)}>>, 2) }

\* per-action coverage run (vacuity control): every flavour, every call of the alphabets once
SetupsCov ==
    { One("py26", A26, "py26", 1), One("py27", A27 \cup A27b, "py27", 1), One("ext", XA \cup XF \cup XT \cup XM, "ext", 1),
      One("tw", ATw, "twisted", 1), One("stream", ASt, "stream", 1) }

Pick(T, n) == CHOOSE s \in T : s.name = n
NamesOf(T) == {s.name : s \in T}
QNames == NamesOf(SetupsQuick)
QTab == [n \in QNames |-> Pick(SetupsQuick, n)]
QInsts(n) == QTab[n].insts
QAlpha(n) == QTab[n].alpha
QDepth(n) == QTab[n].depth
TNames == NamesOf(SetupsThorough)
TTab == [n \in TNames |-> Pick(SetupsThorough, n)]
TInsts(n) == TTab[n].insts
TAlpha(n) == TTab[n].alpha
TDepth(n) == TTab[n].depth
SNames == NamesOf(SetupsSim)
STab == [n \in SNames |-> Pick(SetupsSim, n)]
SInsts(n) == STab[n].insts
SAlpha(n) == STab[n].alpha
SDepth(n) == STab[n].depth
MNames == NamesOf(SetupsMut)
CNames == NamesOf(SetupsCov)
CTab == [n \in CNames |-> Pick(SetupsCov, n)]
CInsts(n) == CTab[n].insts
CAlpha(n) == CTab[n].alpha
CDepth(n) == CTab[n].depth
MTab == [n \in MNames |-> Pick(SetupsMut, n)]
MInsts(n) == MTab[n].insts
MAlpha(n) == MTab[n].alpha
MDepth(n) == MTab[n].depth
=============================================================================
