---------------------------- MODULE MCWrapResult ----------------------------
(* Model-checking instances of WrapResult: worker plans (what make_tests returns), wrap kinds, faults. *)
EXTENDS WrapResult

\* no worker; one worker with 0..3 tests; two workers with 0..2 tests each; three workers
Plans1 == {<<>>, << <<>> >>, << <<1>> >>, << <<1, 2>> >>, << <<1, 2, 3>> >>}
Plans2 == {<< <<1>>, <<2>> >>, << <<1, 2>>, <<3>> >>, << <<1>>, <<2, 3>> >>, << <<>>, <<1>> >>, << <<1, 2>>, <<>> >>,
           << <<1, 2>>, <<3, 4>> >>}
Plans3 == {<< <<1>>, <<2>>, <<3>> >>, << <<1, 2>>, <<>>, <<3>> >>}
PlansE == Plans1 \cup {<< <<1>>, <<2>> >>, << <<1, 2>>, <<3>> >>, << <<>>, <<1>> >>, << <<1>>, <<>>, <<2>> >>}
PlansT == Plans1 \cup {<< <<1>>, <<2>> >>, << <<1, 2>>, <<3>> >>, << <<>>, <<1>> >>, << <<1>>, <<2, 3>> >>, << <<1>>, <<2>>, <<3>> >>}
PlansAll == Plans1 \cup Plans2 \cup Plans3

AllWraps == {"default", "decorate", "identity"}
AllAborts == 0..3
NoAbort == {0}
=============================================================================
