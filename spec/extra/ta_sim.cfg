SPECIFICATION Spec
CONSTANTS
  Tags <- Tags3
  Deltas <- Deltas3
  MaxCtx = 4
  MaxSteps = 12
  CopyOnGet = TRUE
  GoneMinusNew = TRUE
CONSTRAINT ExportC
INVARIANT TypeOK
INVARIANT TagsMeaning
INVARIANT MergeMeaning
INVARIANT MergeDisjoint
PROPERTY ReturnedIsCurrent
PROPERTY OthersAlone
PROPERTY MutateHarmless
PROPERTY NewMeaning
CHECK_DEADLOCK FALSE
