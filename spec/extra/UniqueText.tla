----------------------------- MODULE UniqueText -----------------------------
(***************************************************************************)
(* X02 (part 2) - testcase.unique_text_generator(prefix) with its helpers   *)
(* _mods / _unique_text.                                                    *)
(*                                                                         *)
(* Documented sentences formalised (docstring of unique_text_generator):    *)
(*  D4 "Generates text values that are unique."                   NoRepeat  *)
(*  D5 ":return: text that looks like '<prefix>-<text_with_unicode>'."      *)
(*     (the log carries the prefix; digits map to code points base + d)     *)
(*                                                                         *)
(* MECHANISM: an index counted up from 0, written by the divmod loop of     *)
(* _mods as little-endian digits in radix Radix (the code: 0x100 glyphs     *)
(* from U+1E00).  MEANING: Value, the positional reading of a digit string, *)
(* is a left inverse of the loop (Decodes) and the digit string is the      *)
(* canonical one (Canonical) - hence two different indices never give the   *)
(* same text; NoRepeat checks that directly on the texts produced so far.   *)
(***************************************************************************)
EXTENDS Naturals, Sequences, FiniteSets, TLC, Json

CONSTANTS
    Radix,      \* number of glyphs (code: CP_RANGE = 0x100)
    Gens,       \* generators alive at the same time (their prefixes)
    MaxIdx,     \* values drawn per generator
    KeepOut,    \* TRUE: remember every text (NoRepeat, export); FALSE: only the last one (long chains)
    WrapAt      \* 0 = as required; k > 0 = spec mutation: the index wraps modulo k

VARIABLES
    idx,     \* [Gens -> Nat] next index                      (mechanism)
    out,     \* [Gens -> Seq(digit strings)] texts so far     (history)
    lastv,   \* [Gens -> digit string] the last text
    hist

vars == <<idx, out, lastv, hist>>

RECURSIVE Mods(_)
\* (q, r) = divmod(i, mod); while True: yield r; if not q: break; (q, r) = divmod(q, mod)
Mods(i) == LET q == i \div Radix
               r == i % Radix
           IN IF q = 0 THEN <<r>> ELSE <<r>> \o Mods(q)

Init ==
    /\ idx = [g \in Gens |-> 0]
    /\ out = [g \in Gens |-> <<>>]
    /\ lastv = [g \in Gens |-> <<>>]
    /\ hist = <<>>

\* next(generator)
Draw(g) ==
    /\ idx[g] < MaxIdx
    /\ LET t == Mods(idx[g]) IN
       /\ lastv' = [lastv EXCEPT ![g] = t]
       /\ out' = IF KeepOut THEN [out EXCEPT ![g] = Append(@, t)] ELSE out
       /\ hist' = IF KeepOut THEN Append(hist, [g |-> g, i |-> idx[g], t |-> t]) ELSE hist
    /\ idx' = [idx EXCEPT ![g] = IF WrapAt > 0 THEN (@ + 1) % WrapAt ELSE @ + 1]

Next == \E g \in Gens : Draw(g)
Spec == Init /\ [][Next]_vars

-----------------------------------------------------------------------------
(* MEANING *)
RECURSIVE Value(_)
Value(ds) == IF ds = <<>> THEN 0 ELSE ds[1] + Radix * Value(Tail(ds))

\* D4, directly: the newest text of a generator differs from all its earlier ones
NoRepeat ==
    \A g \in Gens : \A i \in 1..(Len(out[g]) - 1) : out[g][i] # out[g][Len(out[g])]

\* reading the digits back gives the index the text was made from (left inverse => injective)
Decodes == \A g \in Gens : (lastv[g] # <<>>) => (WrapAt = 0 => Value(lastv[g]) = idx[g] - 1)

\* digits are glyph offsets, and there is no superfluous high digit
Canonical ==
    \A g \in Gens : LET t == lastv[g] IN
        /\ \A k \in DOMAIN t : t[k] \in 0..(Radix - 1)
        /\ Len(t) > 1 => t[Len(t)] # 0

-----------------------------------------------------------------------------
Terminal == \A g \in Gens : idx[g] = MaxIdx
ExportC == Terminal => PrintT(<<"EXPORT", ToJson(hist)>>)
ViewNoHist == <<idx, out, lastv>>
=============================================================================
