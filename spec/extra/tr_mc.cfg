SPECIFICATION Spec
CONSTANTS
  Tests <- TestsB
  Kinds <- KindsB
  Ticks <- TicksB
  Supplied <- SuppliedB
  Clock0 <- C0
  MaxLen = 4
  MaxRuns = 2
  CountUxs = TRUE
VIEW ViewNoHist
INVARIANT TypeOK
INVARIANT QuietInRun
INVARIANT GrammarMeaning
INVARIANT CeilMeaning
CHECK_DEADLOCK FALSE
