----------------------------- MODULE MCUniStream -----------------------------
(* Model-checking instance of UniStream: stream kinds and texts. *)
EXTENDS UniStream

S(kind, enc, buffer, impl) == [kind |-> kind, enc |-> enc, buffer |-> buffer, impl |-> impl]
StreamsAll == {
    S("stringio", "none", FALSE, "io"),
    S("tiw", "utf8", FALSE, "io"), S("tiw", "ascii", FALSE, "io"), S("tiw", "latin1", FALSE, "io"),
    S("duck", "absent", FALSE, "bytesio"),
    S("duck", "absent", FALSE, "fake"), S("duck", "none", FALSE, "fake"), S("duck", "bogus", FALSE, "fake"),
    S("duck", "ascii", FALSE, "fake"), S("duck", "latin1", FALSE, "fake"), S("duck", "greek", FALSE, "fake"),
    S("duck", "utf8", FALSE, "fake"), S("duck", "utf16", FALSE, "fake"),
    S("duck", "ascii", TRUE, "fake"), S("duck", "greek", TRUE, "fake"), S("duck", "utf8", TRUE, "fake") }
StreamsSmall == {S("duck", "greek", FALSE, "fake"), S("duck", "utf8", FALSE, "fake"), S("stringio", "none", FALSE, "io")}

TextsAll == { <<>>, <<"a">>, <<"l">>, <<"g">>, <<"x">>, <<"w">>,
              <<"a", "x", "a">>, <<"g", "l">>, <<"w", "a", "w">>, <<"a", "l", "g", "x", "w">>, <<"x", "x">>, <<"a", "a">> }
TextsSmall == {<<"a", "g">>, <<"x">>}
=============================================================================
