SPECIFICATION Spec
CONSTANTS
  Versions <- VersionsA
  Size <- SizeOf
  Init0 <- InitA
  PathParts <- Path
  ChunkSizes <- ChunksA
  DefaultChunk = 4096
  MaxOps = 4
  MaxContents = 1
  CffLazyDefault = TRUE
CONSTRAINT ExportC
INVARIANT TypeOK
INVARIANT CreationMeaning
INVARIANT EagerMeaning
INVARIANT LazyMeaning
INVARIANT NameMeaning
INVARIANT TypeMeaning
INVARIANT ChunkMeaning
CHECK_DEADLOCK FALSE
