----------------------------- MODULE TextResult -----------------------------
(***************************************************************************)
(* X08 (part 1) - testtools.testresult.real.TextTestResult: the text a run  *)
(* writes.                                                                  *)
(*                                                                         *)
(* Documented sentences formalised:                                         *)
(*  D1 class docstring: "A TestResult which outputs activity to a text      *)
(*     stream."  The grammar is the one of startTestRun/stopTestRun/        *)
(*     _show_list: "Tests running...", one section per error ("ERROR:       *)
(*     <id>"), per failure ("FAIL: <id>"), per unexpected success           *)
(*     ("UNEXPECTED SUCCESS: <id>") - in that order, each behind a line of  *)
(*     70 "=" and followed by a line of 70 "-" and the rendered details -,  *)
(*     an empty line, "Ran N test(s) in S.SSSs", then "OK" or "FAILED       *)
(*     (failures=K)"                                        GrammarMeaning  *)
(*  D2 TestResult.wasSuccessful: "If there have been any errors, failures   *)
(*     or unexpected successes, return False.  ... we consider unexpected   *)
(*     successes to be equivalent to failures"  -> K counts all three, OK   *)
(*     iff K = 0                                            GrammarMeaning  *)
(*  D3 _delta_to_float comment: "This calls ceiling to ensure that the      *)
(*     most pessimistic view of time taken is shown"  -> the printed time   *)
(*     is the elapsed time rounded UP to milliseconds          CeilMeaning  *)
(*  D4 TestResult.time: "Calling time() sets the datetime used by the       *)
(*     TestResult object.  Time is permitted to go backwards when using     *)
(*     this call.  ... None to reset the TestResult to gathering time from  *)
(*     the system."; _now: "If the time() method has not been called, this  *)
(*     is equivalent to datetime.now(), otherwise its the last supplied     *)
(*     datestamp"; startTestRun: "resets the result to a pristine           *)
(*     condition"   -> elapsed = (time in force at stopTestRun) - (time in  *)
(*     force at startTestRun), a time() value given in this run taking      *)
(*     precedence over the clock                               CeilMeaning  *)
(*  D5 unittest: startTest counts the test (testsRun); "test" is singular   *)
(*     exactly when N = 1                                   GrammarMeaning  *)
(*  D6 nothing is written between startTestRun and stopTestRun  QuietInRun  *)
(*                                                                         *)
(* MECHANISM: the lists errors / failures / unexpectedSuccesses, testsRun,  *)
(* the supplied time, the start instant; stopTestRun writes tokens from     *)
(* them.  MEANING: folds over the call history of the run.                  *)
(* Time unit: 1 tick = 100 microseconds (TLC integers are 32-bit).          *)
(***************************************************************************)
EXTENDS Integers, Sequences, FiniteSets, TLC, Json

CONSTANTS
    Tests,       \* test ids
    Kinds,       \* subset of {"error", "failure", "uxsuccess", "success", "skip", "xfail"}
    Ticks,       \* amounts the system clock may advance between calls
    Supplied,    \* values handed to time() (absolute ticks), besides None
    Clock0,      \* system clock when the run starts
    MaxLen, MaxRuns,
    CountUxs     \* TRUE = as documented/coded; FALSE = spec mutation (unexpected successes not counted in K)

None == "none"
NoT == 0 - 1        \* time(None) / no supplied time (times are integers)

VARIABLES
    running, runs,
    clock,       \* the system clock (environment)
    supplied,    \* value of the last time() call since startTestRun, or None          (mechanism)
    start,       \* instant recorded by startTestRun                                     (mechanism)
    errors, failures, uxs,    \* lists of test ids                                       (mechanism)
    testsRun,
    cur,         \* test between startTest and stopTest
    curdone,
    out,         \* tokens written in this run                                           (mechanism output)
    evs,         \* call history of this run                                             (for the meaning)
    n, hist

vars == <<running, runs, clock, supplied, start, errors, failures, uxs, testsRun, cur, curdone, out, evs, n, hist>>

-----------------------------------------------------------------------------
(* Mechanism *)

Now == IF supplied = NoT THEN clock ELSE supplied                  \* _now()
\* _delta_to_float(delta, 3), in milliseconds: ceiling
CeilMs(d) == IF d >= 0 THEN (d + 9) \div 10 ELSE 0 - ((0 - d) \div 10)

Section(label, q) ==                                               \* _show_list
    [j \in 1..(3 * Len(q)) |->
        LET t == q[(j + 2) \div 3] IN
        CASE j % 3 = 1 -> [k |-> "sep1", label |-> None, id |-> None, num |-> 0]
          [] j % 3 = 2 -> [k |-> "head", label |-> label, id |-> t, num |-> 0]
          [] OTHER -> [k |-> "sep2body", label |-> label, id |-> t, num |-> 0]]

Tok(k, label, num) == [k |-> k, label |-> label, id |-> None, num |-> num]

Log(a, arg) ==
    hist' = Append(hist, [a |-> a, arg |-> arg, clock |-> clock',
                          new |-> IF a = "startTestRun" THEN out' ELSE SubSeq(out', Len(out) + 1, Len(out')),
                          counts |-> [run |-> testsRun', e |-> Len(errors'), f |-> Len(failures'), u |-> Len(uxs')]])

Init ==
    /\ running = FALSE /\ runs = 0 /\ clock = Clock0 /\ supplied = NoT /\ start = 0
    /\ errors = <<>> /\ failures = <<>> /\ uxs = <<>> /\ testsRun = 0 /\ cur = None /\ curdone = FALSE
    /\ out = <<>> /\ evs = <<>> /\ n = 0 /\ hist = <<>>

\* a second run is only started when no supplied time is in force (what a time() value given before
\* startTestRun means is not documented: the reset discards it, the repository's own test expects it to count)
StartTestRun ==
    /\ ~running /\ runs < MaxRuns /\ supplied = NoT
    /\ running' = TRUE /\ runs' = runs + 1
    /\ errors' = <<>> /\ failures' = <<>> /\ uxs' = <<>> /\ testsRun' = 0 /\ cur' = None /\ curdone' = FALSE
    /\ supplied' = NoT
    /\ start' = clock                                  \* self.__start = self._now(), after the reset
    /\ out' = <<Tok("running", None, 0)>>
    /\ evs' = <<[c |-> "start", v |-> clock]>> /\ n' = 0
    /\ UNCHANGED clock
    /\ Log("startTestRun", None)

Tick(d) ==
    /\ running /\ n < MaxLen
    /\ clock' = clock + d
    /\ evs' = Append(evs, [c |-> "tick", v |-> d]) /\ n' = n + 1
    /\ UNCHANGED <<running, runs, supplied, start, errors, failures, uxs, testsRun, cur, curdone, out>>
    /\ Log("tick", d)

Time(t) ==
    /\ running /\ n < MaxLen /\ supplied # t
    /\ supplied' = t
    /\ evs' = Append(evs, [c |-> "time", v |-> t]) /\ n' = n + 1
    /\ UNCHANGED <<running, runs, clock, start, errors, failures, uxs, testsRun, cur, curdone, out>>
    /\ Log("time", t)

StartTest(t) ==
    /\ running /\ n < MaxLen /\ cur = None
    /\ cur' = t /\ curdone' = FALSE /\ testsRun' = testsRun + 1
    /\ evs' = Append(evs, [c |-> "startTest", v |-> t]) /\ n' = n + 1
    /\ UNCHANGED <<running, runs, clock, supplied, start, errors, failures, uxs, out>>
    /\ Log("startTest", t)

Add(kind) ==
    /\ running /\ n < MaxLen /\ cur # None /\ ~curdone
    /\ curdone' = TRUE
    /\ errors' = IF kind = "error" THEN Append(errors, cur) ELSE errors
    /\ failures' = IF kind = "failure" THEN Append(failures, cur) ELSE failures
    /\ uxs' = IF kind = "uxsuccess" THEN Append(uxs, cur) ELSE uxs
    /\ evs' = Append(evs, [c |-> kind, v |-> cur]) /\ n' = n + 1
    /\ UNCHANGED <<running, runs, clock, supplied, start, testsRun, cur, out>>
    /\ Log("add", [k |-> kind, t |-> cur])

\* an outcome outside startTest/stopTest (unittest reports class- and module-level fixture errors that way):
\* listed and counted in K like any other, not counted in N
AddStray(t, kind) ==
    /\ running /\ n < MaxLen /\ cur = None /\ kind \in {"error", "failure", "uxsuccess"}
    /\ errors' = IF kind = "error" THEN Append(errors, t) ELSE errors
    /\ failures' = IF kind = "failure" THEN Append(failures, t) ELSE failures
    /\ uxs' = IF kind = "uxsuccess" THEN Append(uxs, t) ELSE uxs
    /\ evs' = Append(evs, [c |-> kind, v |-> t]) /\ n' = n + 1
    /\ UNCHANGED <<running, runs, clock, supplied, start, testsRun, cur, curdone, out>>
    /\ Log("add", [k |-> kind, t |-> t])

StopTest ==
    /\ running /\ n < MaxLen /\ cur # None
    /\ cur' = None /\ curdone' = FALSE
    /\ evs' = Append(evs, [c |-> "stopTest", v |-> cur]) /\ n' = n + 1
    /\ UNCHANGED <<running, runs, clock, supplied, start, errors, failures, uxs, testsRun, out>>
    /\ Log("stopTest", cur)

StopTestRun ==
    /\ running
    /\ running' = FALSE
    /\ LET k == Len(failures) + Len(errors) + (IF CountUxs THEN Len(uxs) ELSE 0)
           ok == errors = <<>> /\ failures = <<>> /\ uxs = <<>>               \* wasSuccessful()
       IN out' = out \o Section("ERROR", errors) \o Section("FAIL", failures) \o Section("UNEXPECTED SUCCESS", uxs)
                   \o <<Tok("ran", IF testsRun # 1 THEN "s" ELSE "", testsRun),
                        Tok("elapsed", None, CeilMs(Now - start)),
                        IF ok THEN Tok("ok", None, 0) ELSE Tok("failed", None, k)>>
    /\ UNCHANGED <<runs, clock, supplied, start, errors, failures, uxs, testsRun, cur, curdone, evs, n>>
    /\ Log("stopTestRun", [exact |-> ((Now - start) % 10 = 0)])

Next ==
    \/ StartTestRun \/ StopTestRun \/ StopTest
    \/ \E d \in Ticks : Tick(d)
    \/ \E t \in Supplied \cup {NoT} : Time(t)
    \/ \E t \in Tests : StartTest(t)
    \/ \E k \in Kinds : Add(k) \/ \E t \in Tests : AddStray(t, k)

Spec == Init /\ [][Next]_vars

-----------------------------------------------------------------------------
(* MEANING: folds over the call history of the run *)

With(c) == SelectSeq(evs, LAMBDA e : e.c = c)
IdsOf(q) == [j \in DOMAIN q |-> q[j].v]
NTests == Len(With("startTest"))
Bad == {"error", "failure", "uxsuccess"}
K == Len(SelectSeq(evs, LAMBDA e : e.c \in Bad))

RECURSIVE SumTicks(_)
SumTicks(i) == IF i = 0 THEN 0 ELSE SumTicks(i - 1) + (IF evs[i].c = "tick" THEN evs[i].v ELSE 0)
StartInstant == evs[1].v
ClockAtEnd == StartInstant + SumTicks(Len(evs))
TimeCalls == {i \in DOMAIN evs : evs[i].c = "time"}
MaxOf(S) == CHOOSE x \in S : \A y \in S : y <= x
\* D4: the time in force at the end of the run
StopInstant ==
    IF TimeCalls = {} \/ evs[MaxOf(TimeCalls)].v = NoT THEN ClockAtEnd ELSE evs[MaxOf(TimeCalls)].v
Elapsed == StopInstant - StartInstant

\* what the section of label l lists, in order of report
Listed(l) == IdsOf(With(CASE l = "ERROR" -> "error" [] l = "FAIL" -> "failure" [] OTHER -> "uxsuccess"))
Heads(l) == LET q == SelectSeq(out, LAMBDA x : x.k = "head" /\ x.label = l) IN [j \in DOMAIN q |-> q[j].id]
KindsSeq(q) == [j \in DOMAIN q |-> q[j].k]
LabelRank(l) == CASE l = "ERROR" -> 1 [] l = "FAIL" -> 2 [] OTHER -> 3

QuietInRun == running => out = <<Tok("running", None, 0)>>

GrammarMeaning ==
    (~running /\ runs > 0) =>
        LET m == Len(out)
            body == SubSeq(out, 2, m - 3)
        IN /\ m >= 4 /\ out[1].k = "running"
           \* sections: triples sep1, head, sep2+details
           /\ Len(body) % 3 = 0
           /\ \A j \in DOMAIN body : body[j].k = (CASE j % 3 = 1 -> "sep1" [] j % 3 = 2 -> "head" [] OTHER -> "sep2body")
           /\ \A j \in DOMAIN body : j % 3 = 0 => (body[j].id = body[j - 1].id /\ body[j].label = body[j - 1].label)
           \* errors, then failures, then unexpected successes
           /\ \A i, j \in DOMAIN body : (i < j /\ i % 3 = 2 /\ j % 3 = 2) => LabelRank(body[i].label) <= LabelRank(body[j].label)
           /\ \A l \in {"ERROR", "FAIL", "UNEXPECTED SUCCESS"} : Heads(l) = Listed(l)
           \* the summary
           /\ out[m - 2].k = "ran" /\ out[m - 2].num = NTests
           /\ out[m - 2].label = (IF NTests = 1 THEN "" ELSE "s")
           /\ out[m - 1].k = "elapsed"
           /\ IF K = 0 THEN out[m].k = "ok" ELSE (out[m].k = "failed" /\ out[m].num = K)

\* D3/D4: rounded up to the millisecond: the printed value p (ms) satisfies  p - 1 < elapsed/ms <= p
CeilMeaning ==
    (~running /\ runs > 0) =>
        LET p == out[Len(out) - 1].num IN
        /\ 10 * p >= Elapsed
        /\ 10 * (p - 1) < Elapsed

TypeOK == testsRun >= 0 /\ (running => Len(evs) = n + 1)

-----------------------------------------------------------------------------
Terminal == ~running /\ runs = MaxRuns
ExportC == Terminal => PrintT(<<"EXPORT", ToJson(hist)>>)
ViewNoHist == <<running, runs, clock, supplied, start, errors, failures, uxs, testsRun, cur, curdone, out, evs, n>>
=============================================================================
