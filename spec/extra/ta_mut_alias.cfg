SPECIFICATION Spec
CONSTANTS
  Tags <- Tags2
  Deltas <- DeltasE
  MaxCtx = 2
  MaxSteps = 4
  CopyOnGet = FALSE
  GoneMinusNew = TRUE
VIEW ViewNoHist
INVARIANT TypeOK
INVARIANT TagsMeaning
INVARIANT MergeMeaning
INVARIANT MergeDisjoint
PROPERTY ReturnedIsCurrent
PROPERTY OthersAlone
PROPERTY MutateHarmless
PROPERTY NewMeaning
CHECK_DEADLOCK FALSE
