SPECIFICATION Spec
CONSTANTS
  Inner <- InnerAll
  Outer <- OuterAll
  Bodies <- BodiesAll
  MaxDepth = 2
  ExactType = TRUE
CONSTRAINT ExportC
INVARIANT FrameMeaning
INVARIANT InterruptEscapes
INVARIANT NoRaiseNoPass
CHECK_DEADLOCK FALSE
