---------------------------- MODULE MCTryImport ----------------------------
(* Model-checking instance of TryImport: the synthetic package tree the harness builds on disk. *)
EXTENDS TryImport

\* P = package x07pkg ; N = no such top-level package
TreeKind(p) ==
    CASE p = <<"P">> -> "mod_ok"
      [] p = <<"P", "present">> -> "attr"
      [] p = <<"P", "none_attr">> -> "attr_none"
      [] p = <<"P", "good">> -> "mod_ok"
      [] p = <<"P", "good", "attr">> -> "attr"
      [] p = <<"P", "good", "deep">> -> "attr"
      [] p = <<"P", "good", "deep", "leaf">> -> "attr"
      [] p = <<"P", "sub">> -> "mod_ok"
      [] p = <<"P", "sub", "leaf">> -> "mod_ok"
      [] p = <<"P", "sub", "leaf", "attr">> -> "attr"
      [] p = <<"P", "bad_ie">> -> "mod_ie"
      [] p = <<"P", "bad_dep">> -> "mod_ie"
      [] p = <<"P", "bad_other">> -> "mod_other"
      [] p = <<"P", "badpkg">> -> "mod_ie"
      [] p = <<"P", "badpkg", "child">> -> "mod_ok"
      [] p = <<"P", "otherpkg">> -> "mod_other"
      [] p = <<"P", "otherpkg", "child">> -> "mod_ok"
      [] p = <<"P", "loop">> -> "mod_loop"
      [] OTHER -> "absent"

NamesAll == {
    <<"P">>, <<"P", "present">>, <<"P", "none_attr">>, <<"P", "nothere">>, <<"P", "nothere", "x">>,
    <<"P", "good">>, <<"P", "good", "attr">>, <<"P", "good", "nope">>, <<"P", "good", "deep", "leaf">>,
    <<"P", "good", "deep", "nope">>, <<"P", "good", "attr", "nope", "more">>,
    <<"P", "sub">>, <<"P", "sub", "leaf">>, <<"P", "sub", "leaf", "attr">>, <<"P", "sub", "nope">>,
    <<"P", "bad_ie">>, <<"P", "bad_ie", "x">>, <<"P", "bad_dep">>, <<"P", "badpkg", "child">>,
    <<"P", "bad_other">>, <<"P", "bad_other", "x">>, <<"P", "otherpkg", "child">>,
    <<"P", "loop">>,
    <<"N">>, <<"N", "mod">>, <<"N", "mod", "attr">> }

NamesSmall == {<<"P", "good", "attr">>, <<"P", "good", "nope">>, <<"P", "bad_ie", "x">>, <<"P", "bad_other">>,
               <<"P", "sub", "leaf">>, <<"N", "mod">>, <<"P", "loop">>}
AltAll == {"default", "given"}
AltGiven == {"given"}
CbAll == {"nocb", "cb"}
CbOnly == {"cb"}
=============================================================================
