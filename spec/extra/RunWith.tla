------------------------------- MODULE RunWith -------------------------------
(***************************************************************************)
(* X19 (part 1) - which RunTest factory a testtools.TestCase runs with.    *)
(*                                                                         *)
(* Documented sentences formalised:                                        *)
(*  D1 TestCase docstring: ":cvar run_tests_with: A factory to make the    *)
(*     ``RunTest`` to run tests with.  Defaults to ``RunTest``.  The       *)
(*     factory is expected to take a test case and an optional list of     *)
(*     exception handlers."                                                *)
(*  D2 TestCase.__init__: ":keyword runTest: Optional class to use to      *)
(*     execute the test. If not supplied ``RunTest`` is used. The instance *)
(*     to be used is created when run() is invoked, so will be fresh each  *)
(*     time. Overrides ``TestCase.run_tests_with`` if given."              *)
(*  D3 doc/for-framework-folk.rst: "To specify a RunTest for all the tests *)
(*     in a TestCase class [run_tests_with = F] ... To specify a RunTest   *)
(*     for a specific test in a TestCase class [@run_test_with(F, ...)]    *)
(*     ... In addition, either of these can be overridden by passing a     *)
(*     factory in to the TestCase constructor with the optional runTest    *)
(*     argument."   (specific test beats all tests; the argument beats     *)
(*     both)                                                               *)
(*  D4 run_test_with: ":param kwargs: Keyword arguments to pass on as      *)
(*     extra arguments to 'test_runner'." ; ":param test_runner: A RunTest *)
(*     factory that takes a test case and an optional list of exception    *)
(*     handlers."  (a factory WITHOUT a last_resort parameter is a valid   *)
(*     factory, also in D1)                                                *)
(*  D5 run_test_with: "The returned decorator works by setting an          *)
(*     attribute on the decorated function.  TestCase.__init__ looks for   *)
(*     this attribute when deciding on a RunTest factory.  If you wish to  *)
(*     use multiple decorators on a test method, then you must either make *)
(*     this one the top-most decorator, or you must write your decorators  *)
(*     so that they update the wrapping function with the attributes of    *)
(*     the wrapped function."  (decided in __init__; a functools.wraps     *)
(*     decorator on top keeps it; the function is otherwise as it was)     *)
(*                                                                         *)
(* MECHANISM (code-shaped): __init__ pops runTest; if None,                *)
(* getattr(test_method, "_run_test_with", self.run_tests_with) - the       *)
(* attribute lookup on the class walks the MRO (subclass, base, TestCase); *)
(* the result is stored in the instance; run() calls what was stored.      *)
(* MEANING (independent): the sources present when the case was            *)
(* constructed (ghost snapshot atc[i]) ranked by the documented            *)
(* precedence; the factory is the first one present.                       *)
(***************************************************************************)
EXTENDS Naturals, Sequences, FiniteSets, TLC, Json

CONSTANTS
    ArgAlpha,     \* factories given as runTest= (besides "none")
    DecAlpha,     \* decorations of test method m1: records [f, kw, wrap]; f = "none": not decorated
    BaseAlpha,    \* run_tests_with of the base class (besides "none" = not set)
    SubAlpha,     \* run_tests_with of the class under test (besides "none" = inherited)
    LateAlpha,    \* factories assigned to the class attribute AFTER the class was built
    OldShape,     \* factories whose signature is (case, handlers=None, **kw): no last_resort
    MaxInst,      \* bound on the number of test cases constructed
    MaxSteps,     \* bound on the number of actions
    ArgFirst      \* TRUE = as coded (runTest is looked at first); FALSE = spec mutation

Methods == {"m1", "m2"}        \* m1 carries the decoration, m2 is never decorated
NoKw == "k0"                   \* the empty keyword set
NoDec == [f |-> "none", kw |-> NoKw, wrap |-> "none"]

VARIABLES
    built,     \* the class exists
    base,      \* run_tests_with set on the base class ("none" = not set)
    sub,       \* run_tests_with set on the class itself ("none" = not set)
    dec,       \* decoration of m1
    inst,      \* inst[i] = [m, arg]: test cases constructed so far
    chosen,    \* chosen[i] = [f, kw]: what __init__ stored                 (mechanism)
    atc,       \* atc[i] = the sources as they were when i was constructed    (meaning)
    runs,      \* runs[i] = RunTest objects made for i so far
    bodies,    \* bodies[i] = times the test method body of i has run
    late,      \* the class attribute has been reassigned after the build
    n,
    hist

vars == <<built, base, sub, dec, inst, chosen, atc, runs, bodies, late, n, hist>>

-----------------------------------------------------------------------------
(* Mechanism *)

\* is the attribute _run_test_with visible on the bound method?  a decorator on top that does not copy attributes hides it
AttrVisible(m) == m = "m1" /\ dec.f # "none" /\ dec.wrap # "hidden"

\* self.run_tests_with: attribute lookup through the MRO, ending at TestCase.run_tests_with = RunTest
ClassLookup == IF sub # "none" THEN sub ELSE IF base # "none" THEN base ELSE "RunTest"

FromMethod(m) == IF AttrVisible(m) THEN [f |-> dec.f, kw |-> dec.kw] ELSE [f |-> ClassLookup, kw |-> NoKw]

Decide(m, a) ==
    IF ArgFirst
    THEN IF a # "none" THEN [f |-> a, kw |-> NoKw] ELSE FromMethod(m)
    ELSE IF AttrVisible(m) THEN [f |-> dec.f, kw |-> dec.kw]
         ELSE IF a # "none" THEN [f |-> a, kw |-> NoKw] ELSE [f |-> ClassLookup, kw |-> NoKw]

Init ==
    /\ built = FALSE /\ base = "none" /\ sub = "none" /\ dec = NoDec
    /\ inst = <<>> /\ chosen = <<>> /\ atc = <<>> /\ runs = <<>> /\ bodies = <<>> /\ late = FALSE
    /\ n = 0 /\ hist = <<>>

\* class Base(TestCase): [run_tests_with = b];  class T(Base): [run_tests_with = s]; [@decoration] def m1; def m2
Define(b, s, d) ==
    /\ ~built /\ n < MaxSteps
    /\ built' = TRUE /\ base' = b /\ sub' = s /\ dec' = d
    /\ UNCHANGED <<inst, chosen, atc, runs, bodies, late>>
    /\ n' = n + 1
    /\ hist' = Append(hist, [a |-> "define", i |-> 0, arg |-> [base |-> b, sub |-> s, dec |-> d], exp |-> "none"])

\* T(m) / T(m, runTest=a)
Construct(m, a) ==
    /\ built /\ n < MaxSteps /\ Len(inst) < MaxInst
    /\ inst' = Append(inst, [m |-> m, arg |-> a])
    /\ chosen' = Append(chosen, Decide(m, a))
    /\ atc' = Append(atc, [arg |-> a,
                           dec |-> IF AttrVisible(m) THEN dec.f ELSE "none",
                           kw |-> IF AttrVisible(m) THEN dec.kw ELSE NoKw,
                           sub |-> sub, base |-> base])
    /\ runs' = Append(runs, 0) /\ bodies' = Append(bodies, 0)
    /\ UNCHANGED <<built, base, sub, dec, late>>
    /\ n' = n + 1
    /\ hist' = Append(hist, [a |-> "construct", i |-> Len(inst) + 1, arg |-> [m |-> m, runTest |-> a], exp |-> "none"])

\* case.run(result): one fresh RunTest from the stored factory; handlers always, last_resort when the factory takes it
Run(i) ==
    /\ i \in 1..Len(inst) /\ n < MaxSteps
    /\ runs' = [runs EXCEPT ![i] = @ + 1]
    /\ bodies' = [bodies EXCEPT ![i] = @ + 1]
    /\ UNCHANGED <<built, base, sub, dec, inst, chosen, atc, late>>
    /\ n' = n + 1
    /\ hist' = Append(hist, [a |-> "run", i |-> i, arg |-> "none",
                             exp |-> [f |-> chosen[i].f, kw |-> chosen[i].kw,
                                      lr |-> chosen[i].f \notin OldShape,
                                      made |-> runs'[i], bodies |-> bodies'[i]]])

\* T.m(case): the test method called as a plain function - the body runs, no RunTest is made
Call(i) ==
    /\ i \in 1..Len(inst) /\ n < MaxSteps
    /\ bodies' = [bodies EXCEPT ![i] = @ + 1]
    /\ UNCHANGED <<built, base, sub, dec, inst, chosen, atc, runs, late>>
    /\ n' = n + 1
    /\ hist' = Append(hist, [a |-> "call", i |-> i, arg |-> "none",
                             exp |-> [f |-> "none", kw |-> NoKw, lr |-> FALSE, made |-> runs[i], bodies |-> bodies'[i]]])

\* T.run_tests_with = f after the build: seen by cases constructed later only (D5: decided in __init__)
Reassign(f) ==
    /\ built /\ ~late /\ n < MaxSteps
    /\ sub' = f /\ late' = TRUE
    /\ UNCHANGED <<built, base, dec, inst, chosen, atc, runs, bodies>>
    /\ n' = n + 1
    /\ hist' = Append(hist, [a |-> "reassign", i |-> 0, arg |-> f, exp |-> "none"])

Next ==
    \/ \E b \in BaseAlpha \cup {"none"}, s \in SubAlpha \cup {"none"}, d \in DecAlpha : Define(b, s, d)
    \/ \E m \in Methods, a \in ArgAlpha \cup {"none"} : Construct(m, a)
    \/ \E i \in 1..MaxInst : Run(i) \/ Call(i)
    \/ \E f \in LateAlpha : Reassign(f)

Spec == Init /\ [][Next]_vars

-----------------------------------------------------------------------------
(* MEANING: the documented precedence as a ranked list of sources *)

\* D3: the constructor argument overrides "either of these"; the decoration is for "a specific test", the class
\* attribute for "all the tests" of the class (the class's own before an inherited one); D1/D2: else RunTest
Ranked(s) == <<s.arg, s.dec, s.sub, s.base, "RunTest">>

FirstPresent(q) == q[CHOOSE k \in 1..Len(q) : q[k] # "none" /\ \A j \in 1..(k - 1) : q[j] = "none"]

\* D4: the keywords go with the decoration: they reach the factory exactly when the decoration is what decided
DecDecides(s) == s.arg = "none" /\ s.dec # "none"

Precedence == \A i \in 1..Len(inst) :
    /\ chosen[i].f = FirstPresent(Ranked(atc[i]))
    /\ chosen[i].kw = (IF DecDecides(atc[i]) THEN atc[i].kw ELSE NoKw)

\* D2: overrides run_tests_with if given - and (D3) the decoration too
ArgOverrides == \A i \in 1..Len(inst) : inst[i].arg # "none" => chosen[i] = [f |-> inst[i].arg, kw |-> NoKw]

Did(a) == Len(hist') = Len(hist) + 1 /\ hist'[Len(hist')].a = a
LastH == hist'[Len(hist')]

\* D5: decided in __init__: nothing that happens later changes what a constructed case runs with
DecidedAtInit == [][\A i \in 1..Len(inst) : chosen'[i] = chosen[i]]_vars

\* D2: a fresh RunTest per run(), none for a plain call
FreshEachRun == [][/\ Did("run") => runs'[LastH.i] = runs[LastH.i] + 1 /\ LastH.exp.f = chosen[LastH.i].f
                   /\ Did("call") => runs' = runs]_vars

TypeOK ==
    /\ Len(inst) \in 0..MaxInst /\ Len(chosen) = Len(inst) /\ Len(atc) = Len(inst)
    /\ Len(runs) = Len(inst) /\ Len(bodies) = Len(inst)
    /\ \A i \in 1..Len(inst) : chosen[i].f # "none"

-----------------------------------------------------------------------------
Terminal == n = MaxSteps
ExportC == Terminal => PrintT(<<"EXPORT", ToJson(hist)>>)
ViewNoHist == <<built, base, sub, dec, inst, chosen, atc, runs, bodies, late, n>>
=============================================================================
