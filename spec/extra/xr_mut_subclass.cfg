SPECIFICATION Spec
CONSTANTS
  Inner <- InnerAll
  Outer <- OuterSome
  Bodies <- BodiesAll
  MaxDepth = 1
  ExactType = FALSE

INVARIANT FrameMeaning
INVARIANT InterruptEscapes
INVARIANT NoRaiseNoPass
CHECK_DEADLOCK FALSE
