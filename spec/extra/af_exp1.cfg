SPECIFICATION Spec
CONSTANTS
  U <- Univ
  InitProg <- Single
  NotNegates = TRUE
CONSTRAINT ExportC
INVARIANT TypeOK
INVARIANT StopsAtFirstFailure
PROPERTY CallMeaning
PROPERTY MessageIncluded
PROPERTY DirectAgrees
CHECK_DEADLOCK FALSE
