SPECIFICATION Spec
CONSTANTS
  Names <- NamesM
  MaxSteps = 5
  Loop = TRUE
VIEW ViewNoHist
INVARIANT TypeOK
PROPERTY GrowsByOne
PROPERTY KeepsOld
PROPERTY NameIfFree
PROPERTY ModifiedName
PROPERTY AddMeaning
CHECK_DEADLOCK FALSE
