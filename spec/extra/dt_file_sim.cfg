SPECIFICATION Spec
CONSTANTS
  Versions <- VersionsS
  Size <- SizeOf
  Init0 <- InitS
  PathParts <- Path
  ChunkSizes <- ChunksA
  DefaultChunk = 4096
  MaxOps = 9
  MaxContents = 2
  CffLazyDefault = TRUE
CONSTRAINT ExportC
INVARIANT TypeOK
INVARIANT CreationMeaning
INVARIANT EagerMeaning
INVARIANT LazyMeaning
INVARIANT NameMeaning
INVARIANT TypeMeaning
INVARIANT ChunkMeaning
CHECK_DEADLOCK FALSE
