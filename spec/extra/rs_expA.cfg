SPECIFICATION Spec
CONSTANTS
  Resources <- ResA
  Tests <- TestsA
  Outcomes <- OutcomesAll
  Times <- TimesA
  MaxLen = 3
  MaxRuns = 1
  StopStatus = "success"
CONSTRAINT ExportC
INVARIANT TypeOK
INVARIANT OneEventPerStage
INVARIANT ResourceEvents
INVARIANT OrdinaryUnaffected
INVARIANT SummaryMeaning
INVARIANT ResourceStagesCounted
CHECK_DEADLOCK FALSE
