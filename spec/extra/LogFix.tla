------------------------------- MODULE LogFix -------------------------------
(***************************************************************************)
(* X18 (part 1) - the Twisted log fixtures of                               *)
(* testtools/twistedsupport/_runtest.py: _NoTwistedLogObservers,            *)
(* _TwistedLogObservers, _ErrorObserver, CaptureTwistedLogs and             *)
(* flush_logged_errors.                                                     *)
(*                                                                         *)
(* Documented sentences formalised:                                         *)
(*  D1 _NoTwistedLogObservers: "Completely but temporarily remove all       *)
(*     Twisted log observers."  -> while it is active no observer that was  *)
(*     registered before it receives anything; when it is left every one    *)
(*     of them is registered again, in the same order                       *)
(*  D2 _TwistedLogObservers: "Temporarily add Twisted log observers."  ->   *)
(*     the given observers receive what is logged while it is active; when  *)
(*     it is left (also because its setUp failed half way: fixtures'        *)
(*     Fixture.setUp "will automatically call cleanUp if an exception       *)
(*     occurs within setUp itself") they are registered no longer           *)
(*       D1+D2 together: at every moment the observers of the global        *)
(*       publisher are exactly those the ACTIVE fixtures call for           *)
(*                                       ObserversAreVisible, DeliveryMeaning *)
(*  D3 _ErrorObserver: "Capture errors logged while fixture is active.";    *)
(*     flush_logged_errors: "Clear errors of the given types from the logs. *)
(*     If no errors provided, clear all errors.  :return: An iterable of    *)
(*     errors removed from the logs."; module function: "Flush errors of    *)
(*     the given types from the global Twisted log ... declare that logged  *)
(*     errors were expected behavior" (types match like Failure.check:      *)
(*     subclasses included)                  FlushMeaning, ErrorsPartition  *)
(*  D4 CaptureTwistedLogs: "Capture all the Twisted logs and add them as a  *)
(*     detail."; doc/twisted-support.rst: "attach them as the twisted-log   *)
(*     detail"  -> one detail, holding what was logged during its lifetime  *)
(*                                                        DeliveryMeaning   *)
(*                                                                         *)
(* MECHANISM (code- and Twisted-shaped): the global publisher's list of     *)
(* observers (modern observers and LegacyLogObserverWrapper objects), the   *)
(* legacy publisher's own list of wrappers; log.addObserver makes a NEW     *)
(* wrapper, log.removeObserver removes the FIRST wrapper whose callable is  *)
(* equal; every fixture is a list of such calls plus the cleanups it        *)
(* registers, run last-in-first-out.                                        *)
(* MEANING: a fold over the stack of active fixtures (Vis), independent of  *)
(* wrappers: base observers; _NoTwistedLogObservers empties; the others     *)
(* append theirs.                                                           *)
(*                                                                         *)
(* LegacyAware = TRUE models _NoTwistedLogObservers taking legacy observers *)
(* out through the legacy publisher (what the documented behaviour needs);  *)
(* FALSE is the tree as it stands: wrappers are taken out of the global     *)
(* publisher behind the legacy publisher's back, and TLC shows              *)
(* ObserversAreVisible violated (base observer a, _NoTwistedLogObservers,   *)
(* _TwistedLogObservers([a]), leave): see findings.d/X18.json.              *)
(***************************************************************************)
EXTENDS Naturals, Sequences, FiniteSets, TLC, Json

CONSTANTS
    Bases,        \* set of initial registrations: sequences of [obs, legacy]
    FixKinds,     \* alphabet of fixtures: records [ft, obs] (see MCLogFix)
    Events,       \* alphabet of events: "msg" or an error class
    FlushTypes,   \* alphabet of type tuples handed to flush_logged_errors
    ErrObs,       \* names of error observers (_LogObserver instances)
    MaxDepth, MaxSteps, MaxCaps,
    LegacyAware

None == "none"
\* error classes: Sub < E < Exception, U < Exception
IsSub(c, d) == c = d \/ (c = "Sub" /\ d = "E")
CapNames == <<"c1", "c2", "c3">>

VARIABLES
    glob,      \* global publisher: sequence of [id, obs, legacy]                        (mechanism)
    legacy,    \* legacy publisher: sequence of wrappers [id, obs, legacy]               (mechanism)
    nextw,     \* next wrapper identity
    stack,     \* active fixtures, oldest first: [ft, obs, cl]  (cl = cleanups registered)
    base,      \* the initial registrations (names, in order)                            (for the meaning)
    recv,      \* [name -> sequence of event numbers received]                           (mechanism: by glob)
    due,       \* [name -> sequence of event numbers it should have received]            (meaning: by Vis)
    errs,      \* [eo -> errors currently stored: sequence of [n, cls]]                  (mechanism)
    logged,    \* [eo -> every error that was due to eo]                                 (meaning)
    returned,  \* [eo -> concatenation of everything flush returned]                     (meaning)
    nev, ncap, n,
    hazard,    \* an observer was registered again while an earlier registration of it was hidden
    dup,       \* an observer was registered again while an earlier registration of it was visible: log.removeObserver
               \* then takes out "the first equal one", which of the two is not anybody's promise: order no longer judged
    done,
    hist

vars == <<glob, legacy, nextw, stack, base, recv, due, errs, logged, returned, nev, ncap, n, hazard, dup, done, hist>>

Names(q) == [i \in DOMAIN q |-> q[i].obs]
AllNames == {"a", "b", "m"} \cup ErrObs \cup {CapNames[i] : i \in 1..MaxCaps}

-----------------------------------------------------------------------------
(* Mechanism: the two publishers *)

St(g, l, w) == [g |-> g, l |-> l, w |-> w]
InSeq(q, x) == \E i \in DOMAIN q : q[i] = x
DropId(q, id) == SelectSeq(q, LAMBDA x : x.id # id)
FirstWith(q, o) == CHOOSE i \in DOMAIN q : q[i].obs = o /\ \A j \in DOMAIN q : q[j].obs = o => i <= j

\* op = [op, w, o]
Apply(st, op) ==
    CASE op.op = "gadd" -> IF InSeq(st.g, op.w) THEN st ELSE St(Append(st.g, op.w), st.l, st.w)
      [] op.op = "gremove" -> St(DropId(st.g, op.w.id), st.l, st.w)
      [] op.op = "ladd" ->                         \* log.addObserver: a NEW LegacyLogObserverWrapper
            LET w == [id |-> st.w, obs |-> op.o, legacy |-> TRUE]
            IN St(Append(st.g, w), Append(st.l, w), st.w + 1)
      [] OTHER ->                                  \* log.removeObserver: the FIRST wrapper with an equal callable
            IF \E i \in DOMAIN st.l : st.l[i].obs = op.o
            THEN LET w == st.l[FirstWith(st.l, op.o)]
                 IN St(DropId(st.g, w.id), DropId(st.l, w.id), st.w)
            ELSE st

Op(k, w, o) == [op |-> k, w |-> w, o |-> o]
NoW == [id |-> 0, obs |-> None, legacy |-> FALSE]

RECURSIVE RunCleanups(_, _)
RunCleanups(st, cl) == IF cl = <<>> THEN st ELSE RunCleanups(Apply(st, cl[Len(cl)]), SubSeq(cl, 1, Len(cl) - 1))

\* _NoTwistedLogObservers._setUp: for observer in reversed(real_observers): remove; addCleanup(add)
RECURSIVE NoObsFrom(_, _, _, _)
NoObsFrom(st, snap, i, cl) ==
    IF i = 0 THEN <<st, cl>>
    ELSE LET w == snap[i] IN
         IF LegacyAware /\ w.legacy /\ \E j \in DOMAIN st.l : st.l[j].obs = w.obs
         THEN NoObsFrom(Apply(st, Op("lremove", NoW, w.obs)), snap, i - 1, Append(cl, Op("ladd", NoW, w.obs)))
         ELSE NoObsFrom(Apply(st, Op("gremove", w, None)), snap, i - 1, Append(cl, Op("gadd", w, None)))

\* _TwistedLogObservers._setUp: for observer in observers: add; addCleanup(remove)
RECURSIVE ObsFrom(_, _, _, _)
ObsFrom(st, os, i, cl) ==
    IF i > Len(os) THEN <<st, cl>>
    ELSE ObsFrom(Apply(st, Op("ladd", NoW, os[i])), os, i + 1, Append(cl, Op("lremove", NoW, os[i])))

SetUp(st, f, os) ==
    IF f.ft = "noobs" THEN NoObsFrom(st, st.g, Len(st.g), <<>>) ELSE ObsFrom(st, os, 1, <<>>)

\* names that are registered with the legacy publisher but hidden by an active _NoTwistedLogObservers
RECURSIVE HiddenAt(_, _)
HiddenAt(k, acc) ==
    IF k > Len(stack) THEN acc
    ELSE IF stack[k].ft = "noobs" THEN HiddenAt(k + 1, acc \cup {base[i] : i \in DOMAIN base}
                                                          \cup UNION {{stack[j].obs[i] : i \in DOMAIN stack[j].obs} : j \in 1..(k - 1)})
    ELSE HiddenAt(k + 1, acc)
Hidden == HiddenAt(1, {})

-----------------------------------------------------------------------------
(* MEANING: what the active fixtures call for *)

RECURSIVE VisFrom(_, _, _)
VisFrom(stk, k, acc) ==
    IF k > Len(stk) THEN acc
    ELSE VisFrom(stk, k + 1, IF stk[k].ft = "noobs" THEN <<>> ELSE acc \o stk[k].obs)
Vis(stk) == VisFrom(stk, 1, base)

Count(q, x) == Cardinality({i \in DOMAIN q : q[i] = x})

Observed ==
    [glob |-> Names(glob'), legacy |-> Names(legacy'), noobs |-> \E k \in DOMAIN stack' : stack'[k].ft = "noobs",
     recv |-> recv', errs |-> errs', depth |-> Len(stack'), hazard |-> hazard', dup |-> dup']

Log(a, arg, out) == hist' = Append(hist, [a |-> a, arg |-> arg, out |-> out, obs |-> Observed])

-----------------------------------------------------------------------------
Init ==
    /\ \E b \in Bases :
          /\ glob = [i \in DOMAIN b |-> [id |-> i, obs |-> b[i].obs, legacy |-> b[i].legacy]]
          /\ legacy = SelectSeq(glob, LAMBDA w : w.legacy)
          /\ base = [i \in DOMAIN b |-> b[i].obs]
          /\ nextw = Len(b) + 1
    /\ stack = <<>>
    /\ recv = [x \in AllNames |-> <<>>] /\ due = [x \in AllNames |-> <<>>]
    /\ errs = [e \in ErrObs |-> <<>>] /\ logged = [e \in ErrObs |-> <<>>] /\ returned = [e \in ErrObs |-> <<>>]
    /\ nev = 0 /\ ncap = 0 /\ n = 0 /\ hazard = FALSE /\ dup = FALSE /\ done = FALSE
    /\ hist = <<[a |-> "init", arg |-> base, out |-> None,
                 obs |-> [glob |-> Names(glob), legacy |-> Names(legacy), noobs |-> FALSE, recv |-> recv, errs |-> errs,
                          depth |-> 0, hazard |-> FALSE, dup |-> FALSE]]>>

\* with fixture: / fixture.setUp()
Enter(f) ==
    /\ ~done /\ n < MaxSteps /\ Len(stack) < MaxDepth
    /\ f.ft = "cap" => ncap < MaxCaps
    /\ ncap' = IF f.ft = "cap" THEN ncap + 1 ELSE ncap
    /\ n' = n + 1
    /\ UNCHANGED <<base, recv, due, errs, logged, returned, nev, done>>
    /\ LET os == IF f.ft = "cap" THEN <<CapNames[ncap + 1]>> ELSE f.obs
           r == SetUp(St(glob, legacy, nextw), f, os)
       IN /\ IF f.ft = "obsfail"
             THEN \* the iteration over the observers raises after the last one: Fixture.setUp runs the cleanups
                  LET st == RunCleanups(r[1], r[2]) IN
                  glob' = st.g /\ legacy' = st.l /\ nextw' = st.w /\ UNCHANGED stack
             ELSE /\ glob' = r[1].g /\ legacy' = r[1].l /\ nextw' = r[1].w
                  /\ stack' = Append(stack, [ft |-> f.ft, obs |-> os, cl |-> r[2]])
          /\ hazard' = (hazard \/ \E i \in DOMAIN os : os[i] \in Hidden)
          /\ dup' = (dup \/ \E i \in DOMAIN os : (\E j \in DOMAIN glob : glob[j].obs = os[i]) \/ \E j \in DOMAIN os : j # i /\ os[j] = os[i])
          /\ Log("enter", [ft |-> f.ft, obs |-> os], IF f.ft = "obsfail" THEN "raises" ELSE None)

\* fixture.cleanUp(): the innermost one; a _TwistedLogObservers-like fixture may also be left out of order as long as
\* no _NoTwistedLogObservers was entered after it (what "temporarily" means then is anybody's guess)
Leave(k) ==
    /\ ~done /\ n < MaxSteps /\ k \in DOMAIN stack
    /\ \A j \in (k + 1)..Len(stack) : stack[j].ft # "noobs"
    /\ stack[k].ft = "noobs" => k = Len(stack)
    /\ LET st == RunCleanups(St(glob, legacy, nextw), stack[k].cl)
       IN glob' = st.g /\ legacy' = st.l /\ nextw' = st.w
    /\ stack' = [j \in 1..(Len(stack) - 1) |-> IF j < k THEN stack[j] ELSE stack[j + 1]]
    /\ n' = n + 1
    /\ UNCHANGED <<base, recv, due, errs, logged, returned, nev, ncap, hazard, dup, done>>
    /\ Log("leave", k, None)

\* log.msg(...) / log.err(Failure(cls(...)))
RECURSIVE Deliver(_, _, _, _)
Deliver(q, i, rc, x) == IF i > Len(q) THEN rc ELSE Deliver(q, i + 1, [rc EXCEPT ![q[i]] = Append(@, x)], x)

Emit(ev) ==
    /\ ~done /\ n < MaxSteps
    /\ nev' = nev + 1
    /\ recv' = Deliver(Names(glob), 1, recv, nev')
    /\ due' = Deliver(Vis(stack), 1, due, nev')
    /\ IF ev = "msg" THEN UNCHANGED <<errs, logged>>
       ELSE /\ errs' = [e \in ErrObs |-> errs[e] \o [i \in 1..Count(Names(glob), e) |-> [n |-> nev', cls |-> ev]]]
            /\ logged' = [e \in ErrObs |-> logged[e] \o [i \in 1..Count(Vis(stack), e) |-> [n |-> nev', cls |-> ev]]]
    /\ n' = n + 1
    /\ UNCHANGED <<glob, legacy, nextw, stack, base, returned, ncap, hazard, dup, done>>
    /\ Log("emit", ev, nev')

Matches(e, ts) == ts = <<>> \/ \E i \in DOMAIN ts : IsSub(e.cls, ts[i])

\* _LogObserver.flushErrors(*types): flushed / remainder
Flush(eo, ts) ==
    /\ ~done /\ n < MaxSteps /\ errs[eo] # <<>>
    /\ n' = n + 1
    /\ UNCHANGED <<glob, legacy, nextw, stack, base, recv, due, logged, nev, ncap, hazard, dup, done>>
    /\ LET fl == SelectSeq(errs[eo], LAMBDA e : Matches(e, ts))
           rm == SelectSeq(errs[eo], LAMBDA e : ~Matches(e, ts))
       IN /\ errs' = [errs EXCEPT ![eo] = rm]
          /\ returned' = [returned EXCEPT ![eo] = @ \o fl]
          /\ Log("flush", [eo |-> eo, types |-> ts], fl)

\* the end of the behaviour: everything still active is left, innermost first
RECURSIVE UnwindFrom(_, _)
UnwindFrom(st, k) == IF k = 0 THEN st ELSE UnwindFrom(RunCleanups(st, stack[k].cl), k - 1)
Unwind ==
    /\ ~done /\ n = MaxSteps
    /\ LET st == UnwindFrom(St(glob, legacy, nextw), Len(stack))
       IN glob' = st.g /\ legacy' = st.l /\ nextw' = st.w
    /\ stack' = <<>> /\ done' = TRUE
    /\ UNCHANGED <<base, recv, due, errs, logged, returned, nev, ncap, n, hazard, dup>>
    /\ Log("unwind", Len(stack), None)

Next ==
    \/ \E f \in FixKinds : Enter(f)
    \/ \E k \in 1..MaxDepth : Leave(k)
    \/ \E ev \in Events : Emit(ev)
    \/ \E eo \in ErrObs, ts \in FlushTypes : Flush(eo, ts)
    \/ Unwind

Spec == Init /\ [][Next]_vars

-----------------------------------------------------------------------------
(* Invariants *)

\* D1 + D2: the observers of the global publisher are those the active fixtures call for, in order;
\* in particular, once every fixture is left, the initial registrations exactly
ObserversAreVisible ==
    /\ \A x \in AllNames : Count(Names(glob), x) = Count(Vis(stack), x)
    /\ ~dup => Names(glob) = Vis(stack)

\* the legacy publisher agrees with the global one about its own observers whenever nothing is hidden
LegacyAgrees ==
    (\A k \in DOMAIN stack : stack[k].ft # "noobs") =>
        Names(legacy) = Names(SelectSeq(glob, LAMBDA w : w.legacy))

\* D1, D2, D4: everybody has received exactly the events logged while he was called for
DeliveryMeaning == recv = due

\* D3: every error that was logged for an error observer is either still stored or was returned by a flush,
\* never both, never twice
ErrorsPartition ==
    \A e \in ErrObs : \A x \in {logged[e][i] : i \in DOMAIN logged[e]} \cup {errs[e][i] : i \in DOMAIN errs[e]}
                                   \cup {returned[e][i] : i \in DOMAIN returned[e]} :
        Count(logged[e], x) = Count(errs[e], x) + Count(returned[e], x)

Did(a) == Len(hist') = Len(hist) + 1 /\ hist'[Len(hist')].a = a
LastH == hist'[Len(hist')]
RECURSIVE SubSeqFrom(_, _, _, _)
SubSeqFrom(s, t, i, j) ==
    IF i > Len(s) THEN TRUE ELSE IF j > Len(t) THEN FALSE
    ELSE IF s[i] = t[j] THEN SubSeqFrom(s, t, i + 1, j + 1) ELSE SubSeqFrom(s, t, i, j + 1)
IsSubSeq(s, t) == SubSeqFrom(s, t, 1, 1)      \* s is t with some elements deleted

\* D3: what a flush returns and what it leaves
FlushMeaning ==
    [][Did("flush") =>
          LET eo == LastH.arg.eo
              ts == LastH.arg.types
              fl == LastH.out
          IN /\ \A i \in DOMAIN fl : Matches(fl[i], ts)                     \* only errors of the given types (all, if none given)
             /\ \A i \in DOMAIN errs'[eo] : ~Matches(errs'[eo][i], ts)       \* none of them is left
             /\ IsSubSeq(fl, errs[eo]) /\ IsSubSeq(errs'[eo], errs[eo])      \* order kept
             /\ Len(fl) + Len(errs'[eo]) = Len(errs[eo])
             /\ \A e \in ErrObs \ {eo} : errs'[e] = errs[e]]_vars

TypeOK == Len(stack) <= MaxDepth /\ (done => stack = <<>>)

-----------------------------------------------------------------------------
Terminal == done
ExportC == Terminal => PrintT(<<"EXPORT", ToJson(hist)>>)
ViewNoHist == <<glob, legacy, nextw, stack, base, recv, due, errs, logged, returned, nev, ncap, n, hazard, dup, done>>
=============================================================================
