SPECIFICATION Spec
CONSTANTS
  Names <- QNames
  InstsOf <- QInsts
  AlphaOf <- QAlpha
  DepthOf <- QDepth
  Py27UxsStops = TRUE
  ExtResetsOk = TRUE
  ShareGivenLog = TRUE
  PushOnStartTest = TRUE
CONSTRAINT ExportC
INVARIANT LogMeaning
INVARIANT OkMeaning
INVARIANT StopMeaning
INVARIANT RunsMeaning
INVARIANT TagsMeaning
PROPERTY OneEventPerCall
CHECK_DEADLOCK FALSE
