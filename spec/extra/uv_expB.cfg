SPECIFICATION Spec
CONSTANTS
  Prefixes <- PrefAll
  MaxSteps = 5
  MaxRuns = 2
  Stages = TRUE
  ResetOnRun = TRUE
CONSTRAINT ExportC
INVARIANT IntsDistinctIncreasing
INVARIANT StringsDistinct
INVARIANT ResetStartsOver
INVARIANT EpochPerRun
PROPERTY StringShape
CHECK_DEADLOCK FALSE
