------------------------------ MODULE TbRender ------------------------------
(***************************************************************************)
(* X14 - traceback rendering: testtools.content.TracebackContent,           *)
(* StackLinesContent / StacktraceContent, testtools.TestResult(tb_locals),  *)
(* the __unittest frame hiding and its switch HIDE_INTERNAL_STACK.          *)
(*                                                                         *)
(* Documented sentences formalised:                                         *)
(*  D1 TracebackContent: "Content object for tracebacks.  This adapts an    *)
(*     exc_info tuple to the 'Content' interface.                           *)
(*     'text/x-traceback;language=python' is used for the mime type";       *)
(*     ":param capture_locals: If true, show locals in the traceback."      *)
(*     NEWS 1.8.0: "testtools.run now accepts --locals to show local        *)
(*     variables in tracebacks ... using the new traceback2 and linecache2  *)
(*     packages" (the layout is the standard library's: header, one entry   *)
(*     per frame outermost first, the exception line last, a chained        *)
(*     exception first with its connecting sentence; 'raise ... from None'  *)
(*     shows no chain)                 EndsWithException, ChainMeaning,     *)
(*                                     LocalsMeaning, HeaderMeaning         *)
(*  D2 NEWS 0.9.11: "Hide testtools's own stack frames when displaying      *)
(*     tracebacks, making it easier for test authors to focus on their      *)
(*     errors."; code comment "Skip test runner traceback levels"; the      *)
(*     switch: "Whether or not to hide layers of the stack trace that are   *)
(*     unittest/testtools internal code.  Defaults to True since the        *)
(*     system-under-test is rarely unittest or testtools."                  *)
(*             UserFramesShown, RunnerLevelsHidden, FullStackWhenNotHiding  *)
(*  D3 for-framework-folk.rst "Exception formatting": "Testtools TestCase   *)
(*     instances format their own exceptions.  The attribute                *)
(*     __testtools_tb_locals__ controls whether to include local variables  *)
(*     in the formatted exceptions."  (RunTest copies result.tb_locals)     *)
(*  D4 StacktraceContent: "This function will create and return a 'Content' *)
(*     object that contains a stack trace.  The mime type is set to         *)
(*     'text/x-traceback;language=python' ... :param prefix_content: A      *)
(*     unicode string to add before the stack lines.  :param                *)
(*     postfix_content: A unicode string to add after the stack lines."     *)
(*                                                         StackMeaning     *)
(*                                                                         *)
(* A behaviour: Init chooses an exception raised through a synthetic call   *)
(* stack (each frame a "fw" frame - its module has __unittest - or a "user" *)
(* frame), possibly chained to another exception raised through a sub-stack *)
(* (explicit cause, implicit context, suppressed), and the two switches;    *)
(* then the switches are toggled and the exception is rendered through the  *)
(* public ways in.  MECHANISM (code-shaped): the loop "while tb and         *)
(* '__unittest' in tb.tb_frame.f_globals: tb = tb.tb_next", then            *)
(* TracebackException.format (chain first, header iff frames, frames with   *)
(* their locals, exception line); for StacktraceContent the walk outwards   *)
(* that stops at the first framework frame.  MEANING: predicates over the   *)
(* kinds of the frames only.                                                *)
(***************************************************************************)
EXTENDS Naturals, Sequences, FiniteSets, TLC, Json

CONSTANTS
    Stacks,       \* set of main stacks: sequences over {"fw", "user"}, outermost (the catching frame) first
    Chains,       \* subset of {"none", "cause", "context", "suppressed"}
    CStacks,      \* set of sub-stacks the chained exception is raised through (below the raising frame)
    Apis,         \* subset of {"content", "result", "run", "stack"}
    MaxSteps,
    SkipLeading   \* TRUE = as coded (the hiding loop runs while hide is on); FALSE = spec mutation

None == "none"
Name(i) == CASE i = 1 -> "m1" [] i = 2 -> "m2" [] i = 3 -> "m3" [] OTHER -> "m4"
CName(i) == CASE i = 0 -> "h" [] i = 1 -> "c1" [] OTHER -> "c2"

VARIABLES
    stack, chain, cstack,     \* the exception (input, constant)
    hide,      \* StackLinesContent.HIDE_INTERNAL_STACK
    locs,      \* capture_locals / tb_locals
    n,
    hist

vars == <<stack, chain, cstack, hide, locs, n, hist>>

\* a rendered line (token): hdr / frame / locals / exc / sep
Tok(k, e, f) == [k |-> k, e |-> e, f |-> f]

-----------------------------------------------------------------------------
(* Mechanism *)

\* frames of a traceback: sequences of [f |-> name, kind |-> "fw" | "user"]
MainFrames(pre) == pre \o [i \in DOMAIN stack |-> [f |-> Name(i), kind |-> stack[i]]]
\* the chained exception was caught in the raising frame: its traceback starts there
ChainedFrames == <<[f |-> "h", kind |-> stack[Len(stack)]]>> \o [i \in DOMAIN cstack |-> [f |-> CName(i), kind |-> cstack[i]]]

RECURSIVE SkipFw(_)
\* while tb and "__unittest" in tb.tb_frame.f_globals: tb = tb.tb_next
SkipFw(fr) == IF fr # <<>> /\ Head(fr).kind = "fw" THEN SkipFw(Tail(fr)) ELSE fr

RECURSIVE FrameLines(_, _)
\* StackSummary.format: the frame line, then its locals when they were captured
FrameLines(e, fr) ==
    IF fr = <<>> THEN <<>>
    ELSE <<Tok("frame", e, Head(fr).f)>> \o (IF locs THEN <<Tok("locals", e, Head(fr).f)>> ELSE <<>>) \o FrameLines(e, Tail(fr))

\* TracebackException.format for one exception: header iff there are frames, the frames, the exception line
OneExc(e, fr) == (IF fr = <<>> THEN <<>> ELSE <<Tok("hdr", e, None)>>) \o FrameLines(e, fr) \o <<Tok("exc", e, None)>>

\* ... with the chain: __cause__ first, else __context__ unless suppressed
Formatted(fr) ==
    (IF chain \in {"cause", "context"} THEN OneExc("chained", ChainedFrames) \o <<Tok("sep", chain, None)>> ELSE <<>>)
    \o OneExc("main", fr)

\* TracebackContent(err, test, capture_locals): pre = frames above the synthetic stack (the runner and the test method)
RenderTb(pre) ==
    LET all == MainFrames(pre) IN Formatted(IF hide /\ SkipLeading THEN SkipFw(all) ELSE all)

RECURSIVE InnerUserRun(_)
\* StacktraceContent: walk outwards from the caller, stop at the first framework frame   (q: innermost first)
InnerUserRun(q) == IF q = <<>> \/ Head(q).kind = "fw" THEN <<>> ELSE <<Head(q)>> \o InnerUserRun(Tail(q))
Reverse(q) == [i \in DOMAIN q |-> q[Len(q) + 1 - i]]
RenderStack ==
    LET all == MainFrames(<<>>)
        shown == IF hide THEN Reverse(InnerUserRun(Reverse(all))) ELSE all
    IN <<Tok("prefix", "stack", None)>> \o [i \in DOMAIN shown |-> Tok("frame", "stack", shown[i].f)] \o <<Tok("postfix", "stack", None)>>

\* what is above the synthetic stack when a real test run renders the exception: testtools' runner frames (one abstract
\* framework frame "R") and the test method (a user frame "T")
RunPre == <<[f |-> "R", kind |-> "fw"], [f |-> "T", kind |-> "user"]>>

Output(api) == CASE api = "stack" -> RenderStack [] api = "run" -> RenderTb(RunPre) [] OTHER -> RenderTb(<<>>)

-----------------------------------------------------------------------------
Init ==
    /\ stack \in Stacks /\ chain \in Chains /\ cstack \in CStacks
    /\ (chain = "none" => cstack = <<>>)
    /\ hide \in BOOLEAN /\ locs \in BOOLEAN
    /\ n = 0
    /\ hist = <<[a |-> "raise", arg |-> [stack |-> stack, chain |-> chain, cstack |-> cstack], hide |-> hide, locs |-> locs, out |-> <<>>]>>

SetHide ==
    /\ n < MaxSteps /\ n' = n + 1 /\ hide' = ~hide
    /\ UNCHANGED <<stack, chain, cstack, locs>>
    /\ hist' = Append(hist, [a |-> "set-hide", arg |-> hide', hide |-> hide', locs |-> locs, out |-> <<>>])

SetLocals ==
    /\ n < MaxSteps /\ n' = n + 1 /\ locs' = ~locs
    /\ UNCHANGED <<stack, chain, cstack, hide>>
    /\ hist' = Append(hist, [a |-> "set-locals", arg |-> locs', hide |-> hide, locs |-> locs', out |-> <<>>])

Render(api) ==
    /\ n < MaxSteps /\ n' = n + 1
    /\ api = "stack" => chain = "none"
    /\ UNCHANGED <<stack, chain, cstack, hide, locs>>
    /\ hist' = Append(hist, [a |-> "render", arg |-> api, hide |-> hide, locs |-> locs, out |-> Output(api)])

Next == SetHide \/ SetLocals \/ \E api \in Apis : Render(api)

Spec == Init /\ [][Next]_vars

-----------------------------------------------------------------------------
(* MEANING: predicates over the kinds of the frames, for every way in *)

TbApis == Apis \ {"stack"}
Pre(api) == IF api = "run" THEN RunPre ELSE <<>>
Shown(out, e) == LET q == SelectSeq(out, LAMBDA t : t.k = "frame" /\ t.e = e) IN [i \in DOMAIN q |-> q[i].f]
Names(fr) == [i \in DOMAIN fr |-> fr[i].f]
UserNames(fr) == Names(SelectSeq(fr, LAMBDA x : x.kind = "user"))
IsUserName(fr, f) == \E i \in DOMAIN fr : fr[i].f = f /\ fr[i].kind = "user"
\* the leading block of framework frames: the "test runner traceback levels"
Leading(fr) == {fr[i].f : i \in {j \in DOMAIN fr : \A l \in 1..j : fr[l].kind = "fw"}}
IndexOf(out, t) == CHOOSE i \in DOMAIN out : out[i] = t
Has(out, t) == \E i \in DOMAIN out : out[i] = t

\* D2: every user frame of the exception is shown, outermost first
UserFramesShown ==
    \A api \in TbApis : LET fr == MainFrames(Pre(api)) out == Output(api) IN
        SelectSeq(Shown(out, "main"), LAMBDA f : IsUserName(fr, f)) = UserNames(fr)

\* D2: while hiding is on, no runner level (framework frame above the first user frame) is shown
RunnerLevelsHidden ==
    hide => \A api \in TbApis : LET fr == MainFrames(Pre(api)) IN
        \A i \in DOMAIN Shown(Output(api), "main") : Shown(Output(api), "main")[i] \notin Leading(fr)

\* D2: with the switch off nothing is hidden
FullStackWhenNotHiding ==
    ~hide => \A api \in TbApis : Shown(Output(api), "main") = Names(MainFrames(Pre(api)))

\* D1: the text ends with the exception line of the exception that was given
EndsWithException ==
    \A api \in TbApis : LET out == Output(api) IN out[Len(out)] = Tok("exc", "main", None)

\* D1: an explicit cause / an implicit context is rendered first - its user frames, its exception line, the
\* connecting sentence of its kind - and a suppressed one (raise ... from None) or none at all leaves no trace
ChainMeaning ==
    \A api \in TbApis : LET out == Output(api) IN
        IF chain \in {"cause", "context"}
        THEN /\ Has(out, Tok("exc", "chained", None)) /\ Has(out, Tok("sep", chain, None))
             /\ IndexOf(out, Tok("exc", "chained", None)) < IndexOf(out, Tok("sep", chain, None))
             /\ \A i \in DOMAIN out : out[i].e = "main" => IndexOf(out, Tok("sep", chain, None)) < i
             /\ \A i \in DOMAIN out : (out[i].e = "chained" /\ out[i].k # "sep") => i < IndexOf(out, Tok("sep", chain, None))
             /\ SelectSeq(Shown(out, "chained"), LAMBDA f : IsUserName(ChainedFrames, f)) = UserNames(ChainedFrames)
        ELSE \A i \in DOMAIN out : out[i].e = "main"

\* D1/D3: the locals of a frame are shown exactly when asked for, right under the frame
LocalsMeaning ==
    \A api \in TbApis : LET out == Output(api) IN
        \A i \in DOMAIN out :
            /\ out[i].k = "frame" => (locs <=> (i < Len(out) /\ out[i + 1] = Tok("locals", out[i].e, out[i].f)))
            /\ out[i].k = "locals" => (locs /\ i > 1 /\ out[i - 1] = Tok("frame", out[i].e, out[i].f))

\* the "Traceback (most recent call last):" header introduces the frames of an exception, when it has any to show
HeaderMeaning ==
    \A api \in TbApis : LET out == Output(api) IN
        \A e \in {"main", "chained"} :
            IF Shown(out, e) = <<>> THEN ~Has(out, Tok("hdr", e, None))
            ELSE Has(out, Tok("hdr", e, None)) /\ \A i \in DOMAIN out : (out[i].k = "frame" /\ out[i].e = e) => IndexOf(out, Tok("hdr", e, None)) < i

\* D4: prefix, stack lines, postfix; no framework frame while hiding; the caller's own run of user frames is there,
\* innermost last; with the switch off every frame is there
StackMeaning ==
    "stack" \in Apis =>
        LET out == RenderStack
            fr == MainFrames(<<>>)
            shown == Shown(out, "stack")
        IN /\ out[1].k = "prefix" /\ out[Len(out)].k = "postfix"
           /\ hide => \A i \in DOMAIN shown : IsUserName(fr, shown[i])
           /\ hide => LET run == Names(Reverse(InnerUserRun(Reverse(fr)))) IN
                        Len(run) <= Len(shown) /\ SubSeq(shown, Len(shown) - Len(run) + 1, Len(shown)) = run
           /\ ~hide => shown = Names(fr)

TypeOK ==
    /\ hide \in BOOLEAN /\ locs \in BOOLEAN
    /\ \A i \in DOMAIN stack : stack[i] \in {"fw", "user"}

-----------------------------------------------------------------------------
Terminal == n = MaxSteps
ExportC == Terminal => PrintT(<<"EXPORT", ToJson(hist)>>)
ViewNoHist == <<stack, chain, cstack, hide, locs, n>>
=============================================================================
