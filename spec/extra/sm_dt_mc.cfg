SPECIFICATION Spec
CONSTANTS
  Cases <- CasesBig
  Letters <- LettersAB
  Leftmost = TRUE
VIEW NoHist
INVARIANT TypeOK
INVARIANT NlRule
INVARIANT NormMeaning
INVARIANT LoopMeaning
INVARIANT VerdictMeaning
INVARIANT BlankLineReading
INVARIANT IdenticalAlwaysMatch
CHECK_DEADLOCK FALSE
