----------------------------- MODULE MCTbRender -----------------------------
(* Model-checking instances of TbRender: stacks, chains, bounds. *)
EXTENDS TbRender

Kinds == {"fw", "user"}
SeqsFromTo(lo, hi) == UNION {[1..m -> Kinds] : m \in lo..hi}
Stacks3 == SeqsFromTo(1, 3)
Stacks4 == SeqsFromTo(1, 4)
AllChains == {"none", "cause", "context", "suppressed"}
CStacks2 == SeqsFromTo(0, 2)
CStacksE == {<<>>, <<"user">>, <<"fw">>, <<"fw", "user">>}
AllApis == {"content", "result", "run", "stack"}
=============================================================================
