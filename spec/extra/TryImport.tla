----------------------------- MODULE TryImport -----------------------------
(***************************************************************************)
(* X07 - testtools.helpers.try_import(name, alternative=None,               *)
(* error_callback=None).  (try_imports no longer exists in this tree: NEWS, *)
(* "The try_imports utility has been removed from testtools.helpers".)      *)
(*                                                                         *)
(* Documented sentences formalised (docstring of try_import):               *)
(*  D1 "Attempt to import name.  If it fails, return alternative."          *)
(*  D2 ":param name: The name of the object to import, e.g. os.path or      *)
(*     os.path.join."   -> a dotted name denotes a module, or an attribute  *)
(*     (of an attribute ...) of a module                       Denotation   *)
(*  D3 ":param alternative: The value to return if no module can be         *)
(*     imported.  Defaults to None."                                        *)
(*  D4 ":param error_callback: If non-None, a callable that is passed the   *)
(*     ImportError when the module cannot be loaded."  NEWS 0.9.11:         *)
(*     "try_import ... have a callback that is called whenever they fail    *)
(*     to import a module."   -> called exactly once per failed call, with  *)
(*     the ImportError of the module that could not be loaded, never on     *)
(*     success                                               CallbackRule   *)
(*  D5 only ImportError means "cannot be imported": any other exception     *)
(*     raised while a module is imported is not a failed import and leaves  *)
(*     try_import unchanged (the code catches ImportError only)             *)
(*                                                            NoSwallowing  *)
(*  D6 code comment: "We cannot walk from the __import__ result because in  *)
(*     import loops (A imports A.B, which imports C, which calls            *)
(*     try_import("A.B")) A.B will not yet be set."  -> inside such a loop  *)
(*     the call returns the module that is being imported         LoopRule  *)
(*                                                                         *)
(* MECHANISM: the code's loop - __import__ of ever shorter prefixes until   *)
(* one succeeds (Python's import system modelled by ImportFrom over the     *)
(* set of loaded modules: parents first, bodies executed once, failed       *)
(* modules not kept), then sys.modules[prefix] and a getattr walk over the  *)
(* remainder; callback/alternative on failure.                              *)
(* MEANING: the denotation of the dotted name on the static package tree,   *)
(* walked left to right, independent of what is loaded.                     *)
(***************************************************************************)
EXTENDS Naturals, Sequences, FiniteSets, TLC, Json

CONSTANTS
    Names,          \* dotted names explored (sequences of segments)
    NodeKind(_),    \* path -> "mod_ok" | "mod_ie" | "mod_other" | "mod_loop" | "attr" | "attr_none" | "absent"
    AltKinds,       \* subset of {"default", "given"}
    CbKinds,        \* subset of {"nocb", "cb"}
    MaxCalls,
    CallbackOnce    \* TRUE = as documented/coded; FALSE = spec mutation (callback at every failed attempt)

None == "none"
ModKinds == {"mod_ok", "mod_ie", "mod_other", "mod_loop"}
AttrKinds == {"attr", "attr_none"}

VARIABLES
    loaded,    \* sys.modules restricted to the tree: set of module paths
    n,
    hist

vars == <<loaded, n, hist>>

Prefix(p, k) == SubSeq(p, 1, k)

-----------------------------------------------------------------------------
(* Mechanism: Python's __import__(dotted) over the tree *)

RECURSIVE ImportFrom(_, _, _, _)
ImportFrom(path, k, ld, ex) ==
    IF k > Len(path) THEN [out |-> "ok", about |-> <<>>, why |-> None, ld |-> ld, ex |-> ex]
    ELSE LET p == Prefix(path, k)
             kd == NodeKind(p)
         IN IF p \in ld THEN ImportFrom(path, k + 1, ld, ex)
            ELSE IF kd \notin ModKinds
                 THEN [out |-> "ie", about |-> p, why |-> "missing", ld |-> ld, ex |-> ex]      \* ModuleNotFoundError
            ELSE IF kd \in {"mod_ok", "mod_loop"} THEN ImportFrom(path, k + 1, ld \cup {p}, Append(ex, p))
            ELSE IF kd = "mod_ie"
                 THEN [out |-> "ie", about |-> p, why |-> "inside", ld |-> ld, ex |-> Append(ex, p)]
            ELSE [out |-> "other", about |-> p, why |-> "inside", ld |-> ld, ex |-> Append(ex, p)]

\* the getattr walk over the remainder, starting at the module sys.modules[Prefix(name, j)]
RECURSIVE Walk(_, _)
Walk(name, s) ==
    IF s > Len(name) THEN [found |-> TRUE, obj |-> name]
    ELSE IF NodeKind(Prefix(name, s)) \in AttrKinds THEN Walk(name, s + 1)
    ELSE [found |-> FALSE, obj |-> <<>>]

ValueOf(path) == IF NodeKind(path) = "attr_none" THEN <<"None">> ELSE path

\* try_import(name, alt, cb): the while loop over module_segments, then the for loop over the remainder
RECURSIVE Attempt(_, _, _, _, _)
Attempt(name, j, ld, ex, fails) ==
    IF j = 0
    THEN [res |-> "alt", val |-> <<>>, fails |-> fails, ld |-> ld, ex |-> ex]               \* while ... else
    ELSE LET r == ImportFrom(Prefix(name, j), 1, ld, ex) IN
         IF r.out = "other" THEN [res |-> "raises", val |-> r.about, fails |-> fails, ld |-> r.ld, ex |-> r.ex]
         ELSE IF r.out = "ie"
              THEN Attempt(name, j - 1, r.ld, r.ex, Append(fails, [about |-> r.about, why |-> r.why]))
         ELSE LET w == Walk(name, j + 1) IN
              IF w.found THEN [res |-> "value", val |-> ValueOf(name), fails |-> fails, ld |-> r.ld, ex |-> r.ex]
              ELSE [res |-> "alt", val |-> <<>>, fails |-> fails, ld |-> r.ld, ex |-> r.ex]

\* errors handed to the callback
Callbacks(t, cbk) ==
    IF cbk = "nocb" \/ t.res # "alt" \/ t.fails = <<>> THEN <<>>
    ELSE IF CallbackOnce THEN <<t.fails[Len(t.fails)]>> ELSE t.fails

\* D6: a module of kind "mod_loop" imports a helper whose body calls try_import(<that module>) while the module is
\* in sys.modules but not yet bound in its parent: the mechanism reads sys.modules, so the inner call sees the module
LoopPaths(t) == {q \in {t.ex[i] : i \in DOMAIN t.ex} : NodeKind(q) = "mod_loop"}
Inners(t) == {LET u == Attempt(q, Len(q), t.ld, <<>>, <<>>) IN [p |-> q, res |-> u.res, val |-> u.val] : q \in LoopPaths(t)}

Init == loaded = {} /\ n = 0 /\ hist = <<>>

Try(name, alt, cbk) ==
    /\ n < MaxCalls
    /\ LET t == Attempt(name, Len(name), loaded, <<>>, <<>>)
       IN /\ loaded' = t.ld
          /\ hist' = Append(hist, [a |-> "try_import", name |-> name, alt |-> alt, cb |-> cbk,
                                   res |-> t.res, val |-> t.val, cbs |-> Callbacks(t, cbk),
                                   loaded |-> t.ld, ex |-> t.ex, inners |-> Inners(t)])
    /\ n' = n + 1

Next == \E nm \in Names, alt \in AltKinds, cbk \in CbKinds : Try(nm, alt, cbk)
Spec == Init /\ [][Next]_vars

-----------------------------------------------------------------------------
(* MEANING: the denotation of a dotted name on the static tree *)

RECURSIVE Den(_, _)
Den(name, k) ==
    LET p == Prefix(name, k)
        kd == NodeKind(p)
    IN CASE kd \in {"mod_ok", "mod_loop"} -> IF k = Len(name) THEN [d |-> "value", about |-> ValueOf(name), why |-> None] ELSE Den(name, k + 1)
         [] kd \in AttrKinds -> IF k = Len(name) THEN [d |-> "value", about |-> ValueOf(name), why |-> None] ELSE Den(name, k + 1)
         [] kd = "mod_other" -> [d |-> "raises", about |-> p, why |-> "inside"]
         [] kd = "mod_ie" -> [d |-> "unavailable", about |-> p, why |-> "inside"]
         [] OTHER -> [d |-> "unavailable", about |-> p, why |-> "missing"]

\* the module that could not be loaded: the shortest prefix that is not an importable module
RECURSIVE FirstNonModule(_, _)
FirstNonModule(name, k) ==
    IF k > Len(name) THEN <<>>
    ELSE IF NodeKind(Prefix(name, k)) \in {"mod_ok", "mod_loop"} THEN FirstNonModule(name, k + 1)
    ELSE Prefix(name, k)

Last == hist[Len(hist)]

\* D1-D3
Denotation ==
    hist # <<>> =>
        LET d == Den(Last.name, 1) IN
        /\ (d.d = "value") <=> (Last.res = "value")
        /\ (d.d = "value") => Last.val = d.about
        /\ (d.d = "unavailable") <=> (Last.res = "alt")

\* D4
CallbackRule ==
    hist # <<>> =>
        LET d == Den(Last.name, 1) IN
        IF d.d = "unavailable" /\ Last.cb = "cb"
        THEN /\ Len(Last.cbs) = 1
             /\ Last.cbs[1].about = FirstNonModule(Last.name, 1)
             /\ Last.cbs[1].why = (IF NodeKind(FirstNonModule(Last.name, 1)) = "mod_ie" THEN "inside" ELSE "missing")
        ELSE Last.cbs = <<>>

\* D5
NoSwallowing ==
    hist # <<>> =>
        LET d == Den(Last.name, 1) IN
        /\ (d.d = "raises") <=> (Last.res = "raises")
        /\ (d.d = "raises") => (Last.val = d.about /\ Last.cbs = <<>>)

\* D6
LoopRule ==
    hist # <<>> => \A x \in Last.inners : x.res = "value" /\ x.val = x.p

\* the model of the import system keeps its own promises: parents of a loaded module are loaded, only ok modules are
TreeSane ==
    \A p \in loaded : NodeKind(p) \in {"mod_ok", "mod_loop"} /\ \A k \in 1..Len(p) : Prefix(p, k) \in loaded

-----------------------------------------------------------------------------
Terminal == n = MaxCalls
ExportC == Terminal => PrintT(<<"EXPORT", ToJson(hist)>>)
ViewNoHist == <<loaded, n, IF hist = <<>> THEN <<>> ELSE <<hist[Len(hist)]>>>>
=============================================================================
