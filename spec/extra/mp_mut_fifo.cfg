SPECIFICATION Spec
CONSTANTS
  Slots <- Slots3
  Attrs0 <- Attrs3
  Patches <- PatchesAll3
  InitPend <- NoInit
  MaxSteps = 4
  MaxPend = 2
  MaxOrig = 4
  MaxFn = 1
  FKinds <- AllKinds
  LifoRestore = FALSE
VIEW ViewNoHist
INVARIANT TypeOK
INVARIANT WouldRestore
INVARIANT SavedIffTouched
PROPERTY RestoreMeaning
PROPERTY RestoreIdempotent
PROPERTY PatchAssigns
PROPERTY RunMeaning
PROPERTY AddPatchIsLazy
CHECK_DEADLOCK FALSE
