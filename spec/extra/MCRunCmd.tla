------------------------------ MODULE MCRunCmd ------------------------------
(* Model-checking instances of RunCmd: the synthetic package vx09pkg the driver builds (harness/x09.py).
   ids (rank = lexicographic rank of the concrete id):
     1 unittest.loader._FailedTest.nomod            2 unittest.loader._FailedTest.test_broken
     3 unittest.loader._FailedTest.vx09pkg.test_broken
     4 vx09pkg.test_a.TA.test_1pass   5 ...TA.test_2fail   6 ...TA.test_3skip   7 ...TA.test_4err
     8 vx09pkg.test_l.TL.test_a (pass)   9 vx09pkg.test_l.TL.test_b (error)     [load_tests returns b before a]
    10 vx09pkg.test_ok.TO.test_x (pass) 11 vx09pkg.test_ok.TO.test_y (pass)
    12 vx09pkg.test_s.TS.test_a (skip)  13 vx09pkg.test_s.TS.test_b (pass)      [test_suite() returns b before a]
    14 an id no test has *)
EXTENDS RunCmd

T(i, kd) == [id |-> i, kind |-> kd]
TA == <<T(4, "pass"), T(5, "fail"), T(6, "skip"), T(7, "error")>>
TL == <<T(9, "error"), T(8, "pass")>>
TOK == <<T(10, "pass"), T(11, "pass")>>
TS == <<T(12, "skip"), T(13, "pass")>>

SpecsAll == {"a", "ok", "l", "s", "s.ts", "broken", "nomod", "a.TA", "a.TA.2", "l.TL.b", "ok.TO.y"}
SpecsMc == {"a", "ok", "l", "s.ts", "broken", "a.TA.2", "l.TL.b"}
LoadAll == [s \in SpecsAll |->
    CASE s = "a" -> TA [] s = "ok" -> TOK [] s = "l" -> TL [] s = "s" -> TS
      [] s = "s.ts" -> <<T(13, "pass"), T(12, "skip")>>
      [] s = "broken" -> <<T(2, "imperr")>> [] s = "nomod" -> <<T(1, "imperr")>>
      [] s = "a.TA" -> TA [] s = "a.TA.2" -> <<T(5, "fail")>> [] s = "l.TL.b" -> <<T(9, "error")>>
      [] s = "ok.TO.y" -> <<T(11, "pass")>>]
SpecErrAll == [s \in SpecsAll |-> IF s \in {"broken", "nomod"} THEN 1 ELSE 0]

FilesAll == <<"a", "broken", "l", "ok", "s">>
ModLoadAll == [m \in {"a", "broken", "l", "ok", "s"} |->
    CASE m = "a" -> TA [] m = "broken" -> <<T(3, "imperr")>> [] m = "l" -> TL [] m = "ok" -> TOK [] m = "s" -> TS]
ModErrAll == [m \in {"a", "broken", "l", "ok", "s"} |-> IF m = "broken" THEN 1 ELSE 0]

PatternsAll == {"all", "al", "os", "bo", "ls"}
MatchAll == [p \in PatternsAll |->
    CASE p = "all" -> {"a", "broken", "l", "ok", "s"} [] p = "al" -> {"a", "l"} [] p = "os" -> {"ok", "s"}
      [] p = "bo" -> {"broken", "ok"} [] p = "ls" -> {"l", "s"}]

\* empty file; only an id no test has; a failing + a skipped test + an absent id; passing tests of four modules;
\* the failed-import ids + one passing test; every test that does not fail
LoadListsAll == {{}, {14}, {5, 6, 14}, {4, 8, 11, 13}, {2, 3, 10, 13}, {4, 6, 8, 10, 11, 12, 13}}
NoLists == {}
LoadListsMc == {{}, {5, 6, 14}, {2, 3, 10, 13}, {4, 6, 8, 10, 11, 12, 13}}

\* <<--list, --failfast>>
ModesAll == {<<FALSE, FALSE>>, <<FALSE, TRUE>>, <<TRUE, FALSE>>, <<TRUE, TRUE>>}
ModesExp == {<<FALSE, FALSE>>, <<FALSE, TRUE>>, <<TRUE, FALSE>>}
=============================================================================
