SPECIFICATION Spec
CONSTANTS
  Plans <- Plans2
  WrapKinds <- AllWraps
  Aborts <- NoAbort
  JoinInOrder = FALSE
  WrapEach = FALSE
VIEW ViewNoHist
INVARIANT TypeOK
INVARIANT WrapOncePerWorker
INVARIANT WorkerReportsToWrapped
INVARIANT TargetSeesAll
INVARIANT DoneMeaning
INVARIANT AbortMeaning
PROPERTY NoTestAfterStop
CHECK_DEADLOCK FALSE
