----------------------------- MODULE TagAlgebra -----------------------------
(***************************************************************************)
(* X16 (part 1) - testtools.tags.TagContext and the delta merge             *)
(* testtools.testresult.real._merge_tags.                                   *)
(*                                                                         *)
(* Documented sentences formalised (testtools/tags.py docstrings,           *)
(* TestResult.tags docstring):                                              *)
(*  D1 TagContext.__init__: ":param parent: If provided, uses this as the   *)
(*     parent context.  Any tags that are current on the parent at the time *)
(*     of construction are current in this context."            StartTags   *)
(*  D2 change_tags: ":param new_tags: A set of tags to add to this context. *)
(*     :param gone_tags: A set of tags to remove from this context.         *)
(*     :return: The tags now current on this context."                      *)
(*                                        TagsMeaning, ReturnedIsCurrent    *)
(*  D3 "this context": a change is made to the context it is called on and  *)
(*     to no other (a child is a snapshot "at the time of construction",    *)
(*     not a view): the tags of a context are a function of its own         *)
(*     history only                              TagsMeaning, OthersAlone   *)
(*  D4 get_current_tags: "Return any current tags." - a value, not a handle *)
(*     on the context: what the caller does with the returned set changes   *)
(*     nothing                                             MutateHarmless   *)
(*  D5 TestResult.tags: ":param new_tags: A set of tags to be added to the  *)
(*     stream. :param gone_tags: A set of tags to be removed from the       *)
(*     stream."  ThreadsafeForwardingResult buffers the tags() calls of a   *)
(*     test with _merge_tags and forwards ONE tags(new, gone) call: the     *)
(*     merged delta must do to any set of current tags what the calls did   *)
(*     one after the other                    MergeMeaning, MergeDisjoint   *)
(*                                                                         *)
(* MECHANISM (code-shaped): per context the private set _tags; the          *)
(* constructor copies the parent's set; change_tags = update +              *)
(* difference_update + return a copy; get_current_tags returns a copy;      *)
(* _merge_tags = the four set updates of the code, folded over the calls.   *)
(* MEANING (independent of the sets): the ghost history dl[c] of deltas     *)
(* given to context c and born[c] = how many deltas its parent had seen     *)
(* when c was constructed; the current tags are a fold over these.          *)
(***************************************************************************)
EXTENDS Naturals, Sequences, FiniteSets, TLC, Json

CONSTANTS
    Tags,          \* tag names
    Deltas,        \* alphabet of [new, gone] records given to change_tags (new and gone disjoint)
    MaxCtx,        \* bound on the number of contexts
    MaxSteps,      \* bound on the number of calls
    CopyOnGet,     \* TRUE = as coded (get_current_tags returns set(self._tags)); FALSE = spec mutation
    GoneMinusNew   \* TRUE = as coded (result_gone.difference_update(new_tags)); FALSE = spec mutation

NoRet == {"~"}      \* nothing returned yet (TLC cannot compare a set with a string)
NoDelta == [new |-> {}, gone |-> {}]

VARIABLES
    nctx,      \* contexts constructed so far (numbered 1..nctx)
    parent,    \* parent[c] \in 0..c-1, 0 = none
    tags,      \* tags[c] = the private set of context c                        (mechanism)
    acc,       \* acc[c] = _merge_tags folded over the deltas given to c        (mechanism)
    ret,       \* ret[c] = the set object last returned by c, as its holder sees it now
    alias,     \* alias[c]: that object IS the private set                       (mechanism; never, as coded)
    born,      \* born[c] = number of deltas parent[c] had been given when c was constructed   (meaning)
    dl,        \* dl[c] = the deltas given to c, in order                        (meaning)
    n,
    hist

vars == <<nctx, parent, tags, acc, ret, alias, born, dl, n, hist>>

-----------------------------------------------------------------------------
(* Mechanism *)

\* _merge_tags(existing, changed): result_new.update(new); result_new.difference_update(gone);
\*                                  result_gone.update(gone); result_gone.difference_update(new)
Merge(ex, d) ==
    LET rn1 == ex.new \cup d.new
        rn2 == rn1 \ d.gone
        rg1 == ex.gone \cup d.gone
        rg2 == IF GoneMinusNew THEN rg1 \ d.new ELSE rg1
    IN [new |-> rn2, gone |-> rg2]

\* change_tags: self._tags.update(new_tags); self._tags.difference_update(gone_tags)
Changed(s, d) == (s \cup d.new) \ d.gone

Toggle(s, t) == IF t \in s THEN s \ {t} ELSE s \cup {t}

Log(a, c, arg, out) ==
    hist' = Append(hist, [a |-> a, c |-> c, arg |-> arg, out |-> out, obs |-> tags',
                          acc |-> IF c = 0 THEN NoDelta ELSE acc'[c]])

Init ==
    /\ nctx = 0 /\ parent = <<>> /\ tags = <<>> /\ acc = <<>> /\ ret = <<>> /\ alias = <<>>
    /\ born = <<>> /\ dl = <<>> /\ n = 0 /\ hist = <<>>

\* TagContext(parent)   (p = 0: TagContext())
New(p) ==
    /\ n < MaxSteps /\ nctx < MaxCtx /\ p \in 0..nctx
    /\ nctx' = nctx + 1
    /\ parent' = Append(parent, p)
    /\ tags' = Append(tags, IF p = 0 THEN {} ELSE tags[p])      \* self._tags.update(parent.get_current_tags())
    /\ acc' = Append(acc, NoDelta)
    /\ ret' = Append(ret, NoRet)
    /\ alias' = Append(alias, FALSE)
    /\ born' = Append(born, IF p = 0 THEN 0 ELSE Len(dl[p]))
    /\ dl' = Append(dl, <<>>)
    /\ n' = n + 1
    /\ hist' = Append(hist, [a |-> "new", c |-> nctx + 1, arg |-> p, out |-> NoRet, obs |-> tags', acc |-> NoDelta])

Change(c, d) ==
    /\ n < MaxSteps /\ c \in 1..nctx
    /\ tags' = [tags EXCEPT ![c] = Changed(@, d)]
    /\ acc' = [acc EXCEPT ![c] = Merge(@, d)]
    /\ ret' = [ret EXCEPT ![c] = tags'[c]]
    /\ alias' = [alias EXCEPT ![c] = ~CopyOnGet]
    /\ dl' = [dl EXCEPT ![c] = Append(@, d)]
    /\ UNCHANGED <<nctx, parent, born>>
    /\ n' = n + 1
    /\ Log("change", c, d, tags'[c])

Get(c) ==
    /\ n < MaxSteps /\ c \in 1..nctx
    /\ ret' = [ret EXCEPT ![c] = tags[c]]
    /\ alias' = [alias EXCEPT ![c] = ~CopyOnGet]
    /\ UNCHANGED <<nctx, parent, tags, acc, born, dl>>
    /\ n' = n + 1
    /\ Log("get", c, "none", tags[c])

\* the holder of the set last returned by c adds t to it (or discards t when it is there)
Mutate(c, t) ==
    /\ n < MaxSteps /\ c \in 1..nctx /\ ret[c] # NoRet
    /\ ret' = [ret EXCEPT ![c] = Toggle(@, t)]
    /\ tags' = IF alias[c] THEN [tags EXCEPT ![c] = Toggle(@, t)] ELSE tags
    /\ UNCHANGED <<nctx, parent, acc, alias, born, dl>>
    /\ n' = n + 1
    /\ Log("mutate", c, t, ret'[c])

Next ==
    \/ \E p \in 0..MaxCtx : New(p)
    \/ \E c \in 1..MaxCtx : Get(c) \/ (\E d \in Deltas : Change(c, d)) \/ (\E t \in Tags : Mutate(c, t))

Spec == Init /\ [][Next]_vars

-----------------------------------------------------------------------------
(* MEANING: folds over the ghost histories *)

\* D2/D5: what one tags()/change_tags call does to a set of current tags
ApplyDelta(d, S) == (S \cup d.new) \ d.gone

RECURSIVE ApplySeq(_, _)
ApplySeq(q, S) == IF q = <<>> THEN S ELSE ApplySeq(Tail(q), ApplyDelta(Head(q), S))

RECURSIVE StartTags(_)
\* D1: the tags current on the parent at the time of construction
StartTags(c) ==
    IF parent[c] = 0 THEN {}
    ELSE ApplySeq(SubSeq(dl[parent[c]], 1, born[c]), StartTags(parent[c]))

\* D1 + D2 + D3 + D4: the current tags of a context are its start tags changed by ITS OWN deltas, in order -
\* whatever was done to its parent after its construction, to its children, or to sets it returned
TagsMeaning == \A c \in 1..nctx : tags[c] = ApplySeq(dl[c], StartTags(c))

Did(a) == Len(hist') = Len(hist) + 1 /\ hist'[Len(hist')].a = a
LastH == hist'[Len(hist')]

\* D2: change_tags returns the tags now current; D4: get_current_tags returns the current tags
ReturnedIsCurrent == [][(Did("change") \/ Did("get")) => LastH.out = tags'[LastH.c]]_vars

\* D3: a call on one context leaves every other context alone
OthersAlone == [][(Did("change") \/ Did("get") \/ Did("mutate")) =>
                      \A c \in 1..nctx : c # LastH.c => tags'[c] = tags[c]]_vars

\* D4: mutating a returned set changes nothing
MutateHarmless == [][Did("mutate") => tags' = tags]_vars

\* D1: a new context starts from its parent's current tags and leaves the parent alone
NewMeaning == [][Did("new") =>
                    /\ tags'[nctx'] = (IF LastH.arg = 0 THEN {} ELSE tags[LastH.arg])
                    /\ \A c \in 1..nctx : tags'[c] = tags[c]]_vars

\* D5: the merged delta does to ANY starting set what the calls did in sequence
MergeMeaning == \A c \in 1..nctx : \A S \in SUBSET Tags : ApplyDelta(acc[c], S) = ApplySeq(dl[c], S)

\* the merged delta never asks to add and remove the same tag
MergeDisjoint == \A c \in 1..nctx : acc[c].new \cap acc[c].gone = {}

TypeOK ==
    /\ nctx \in 0..MaxCtx /\ Len(tags) = nctx /\ Len(parent) = nctx
    /\ \A c \in 1..nctx : tags[c] \subseteq Tags /\ parent[c] < c

-----------------------------------------------------------------------------
Terminal == n = MaxSteps
ExportC == Terminal => PrintT(<<"EXPORT", ToJson(hist)>>)
ViewNoHist == <<nctx, parent, tags, acc, ret, alias, born, dl, n>>
=============================================================================
