SPECIFICATION Spec
CONSTANTS
  Slots <- Slots4
  Attrs0 <- Attrs4
  Patches <- PatchesAll4
  InitPend <- InitE
  MaxSteps = 12
  MaxPend = 4
  MaxOrig = 12
  MaxFn = 3
  FKinds <- AllKinds
  LifoRestore = TRUE
CONSTRAINT ExportC
INVARIANT TypeOK
INVARIANT WouldRestore
INVARIANT SavedIffTouched
PROPERTY RestoreMeaning
PROPERTY RestoreIdempotent
PROPERTY PatchAssigns
PROPERTY RunMeaning
PROPERTY AddPatchIsLazy
CHECK_DEADLOCK FALSE
