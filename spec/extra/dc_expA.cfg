SPECIFICATION Spec
CONSTANTS
  Inits <- InitsAll
  RunArgs <- RunsAll
  OwnSets <- OwnSetsFew
  FwdNames <- Fwd
  FwdVals <- Vals1
  GetNames <- NoNames
  MaxSteps = 2
  AfterInFinally = TRUE
  OwnTuple <- OwnFull
CONSTRAINT ExportC
INVARIANT CalloutOnce
INVARIANT CaseGetsAltered
INVARIANT NoEarlyCase
INVARIANT BeforePrecedes
INVARIANT AfterFollows
INVARIANT ForwardedView
INVARIANT OwnStaysOwn
PROPERTY ReadYourWrite
CHECK_DEADLOCK FALSE
