---------------------------- MODULE UniqueDetail ----------------------------
(***************************************************************************)
(* X19 (part 2) - testtools.TestCase.addDetail / addDetailUniqueName /     *)
(* getDetails.                                                             *)
(*                                                                         *)
(* Documented sentences formalised:                                        *)
(*  D1 addDetailUniqueName: "Add a detail to the test, but ensure it's     *)
(*     name is unique.  This method checks whether ``name`` conflicts with *)
(*     a detail that has already been added to the test. If it does, it    *)
(*     will modify ``name`` to avoid the conflict."                        *)
(*       - a detail IS added (one more than before)            GrowsByOne  *)
(*       - no detail already added is lost or replaced         KeepsOld    *)
(*       - no conflict: stored under ``name`` itself           NameIfFree  *)
(*       - conflict: stored under a modification of ``name``   ModifiedName*)
(*  D2 addDetail: "Add a detail to be reported with this test's outcome.   *)
(*     :param name: The name to give this detail." - stored under exactly  *)
(*     that name (a later detail of the same name replaces the earlier one *)
(*     - it is a dict, D3)                                     AddMeaning  *)
(*  D3 getDetails: "Get the details dict that will be reported with this   *)
(*     test's outcome."                                                    *)
(*  The exact modification (name-1, name-2, ... first free) is the code's  *)
(*  rule, not the docstring's: it is modelled (mechanism) and compared     *)
(*  with the real keys, but a deviation from it that still satisfies D1 is *)
(*  reported as DRIFT by the driver.                                       *)
(*                                                                         *)
(* A name is a sequence of naturals: <<b>> is base name b, Append(nm, k)   *)
(* is "nm-k" (so <<1, 1>> is BOTH what the suffix rule makes of <<1>> and  *)
(* a name a caller can give directly - the interesting collisions).        *)
(*                                                                         *)
(* MECHANISM (code-shaped): full_name = name; suffix = 1; while full_name  *)
(* in existing_details: full_name = "%s-%d" % (name, suffix); suffix += 1; *)
(* addDetail(full_name, content).                                          *)
(* MEANING (independent): pre/post relation on the mapping - least free    *)
(* suffix by CHOOSE over a bounded range, old entries kept, size + 1.      *)
(***************************************************************************)
EXTENDS Naturals, Sequences, FiniteSets, TLC, Json

CONSTANTS
    Names,        \* alphabet of names given by the caller (sequences of naturals)
    MaxSteps,     \* bound on the number of calls
    Loop          \* TRUE = as coded (while ...); FALSE = spec mutation (if ...: one attempt only)

VARIABLES
    det,       \* the details dict: a function from names to content ids
    n,         \* calls made; call k adds the content object k
    hist

vars == <<det, n, hist>>

-----------------------------------------------------------------------------
(* Mechanism *)

Put(d, k, c) == [x \in DOMAIN d \cup {k} |-> IF x = k THEN c ELSE d[x]]

RECURSIVE Probe(_, _, _, _)
\* the while loop: full is the candidate, s the next suffix
Probe(d, name, full, s) ==
    IF full \in DOMAIN d /\ (Loop \/ s = 1)
    THEN Probe(d, name, Append(name, s), s + 1)
    ELSE full

Items(d) == {[k |-> x, v |-> d[x]] : x \in DOMAIN d}

Init == det = <<>> /\ n = 0 /\ hist = <<>>

\* case.addDetail(name, content)
Add(name) ==
    /\ n < MaxSteps
    /\ det' = Put(det, name, n + 1)
    /\ n' = n + 1
    /\ hist' = Append(hist, [a |-> "add", name |-> name, c |-> n + 1, key |-> name, obs |-> Items(det')])

\* case.addDetailUniqueName(name, content)
Uniq(name) ==
    /\ n < MaxSteps
    /\ LET full == Probe(det, name, name, 1) IN
         /\ det' = Put(det, full, n + 1)
         /\ hist' = Append(hist, [a |-> "uniq", name |-> name, c |-> n + 1, key |-> full, obs |-> Items(det')])
    /\ n' = n + 1

Next == \E nm \in Names : Add(nm) \/ Uniq(nm)

Spec == Init /\ [][Next]_vars

-----------------------------------------------------------------------------
(* MEANING *)

Did(a) == Len(hist') = Len(hist) + 1 /\ hist'[Len(hist')].a = a
LastH == hist'[Len(hist')]

Size(d) == Cardinality(DOMAIN d)

\* D1: exactly one more detail
GrowsByOne == [][Did("uniq") => Size(det') = Size(det) + 1]_vars

\* D1: everything already added is still there, with the content it had
KeepsOld == [][Did("uniq") => \A k \in DOMAIN det : k \in DOMAIN det' /\ det'[k] = det[k]]_vars

\* D1: the content given is stored, under ``name`` when that does not conflict
NameIfFree == [][Did("uniq") =>
                    /\ det'[LastH.key] = LastH.c
                    /\ (LastH.name \notin DOMAIN det => LastH.key = LastH.name)]_vars

\* D1 + the code's rule: on a conflict the key is name-N for the LEAST N >= 1 that is free; there is one among
\* 1..Size+1 (pigeonhole)
LeastFree(d, name) == CHOOSE k \in 1..(Size(d) + 1) :
                          /\ Append(name, k) \notin DOMAIN d
                          /\ \A j \in 1..(k - 1) : Append(name, j) \in DOMAIN d
ModifiedName == [][Did("uniq") /\ LastH.name \in DOMAIN det => LastH.key = Append(LastH.name, LeastFree(det, LastH.name))]_vars

\* D2: addDetail stores under exactly the name given, replacing what was there, touching nothing else
AddMeaning == [][Did("add") =>
                    /\ DOMAIN det' = DOMAIN det \cup {LastH.name}
                    /\ det'[LastH.name] = LastH.c
                    /\ \A k \in DOMAIN det : k # LastH.name => det'[k] = det[k]]_vars

\* content ids are those of the calls; each content object is stored under at most one name
TypeOK ==
    /\ n \in 0..MaxSteps
    /\ \A k \in DOMAIN det : det[k] \in 1..n
    /\ \A k1, k2 \in DOMAIN det : det[k1] = det[k2] => k1 = k2

-----------------------------------------------------------------------------
Terminal == n = MaxSteps
ExportC == Terminal => PrintT(<<"EXPORT", ToJson(hist)>>)
ViewNoHist == <<det, n>>
=============================================================================
