SPECIFICATION Spec
CONSTANTS
  Names <- NamesE
  MaxSteps = 5
  Loop = TRUE
CONSTRAINT ExportC
INVARIANT TypeOK
PROPERTY GrowsByOne
PROPERTY KeepsOld
PROPERTY NameIfFree
PROPERTY ModifiedName
PROPERTY AddMeaning
CHECK_DEADLOCK FALSE
