SPECIFICATION Spec
CONSTANTS
  Configs <- AllCfgs
  Flavours <- AllFlavours
  Globals <- GlobalsA
  MaxRunsH = 2
  TagsAroundTest = TRUE
CONSTRAINT ExportC
INVARIANT OneTestSeen
INVARIANT OutcomeMeaning
INVARIANT TagsMeaning
INVARIANT TimeMeaning
INVARIANT DescribeMeaning
INVARIANT ExactCalls
CHECK_DEADLOCK FALSE
