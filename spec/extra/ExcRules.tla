------------------------------- MODULE ExcRules -------------------------------
(***************************************************************************)
(* X04 - exception pass-through rules of ExpectedException.__exit__,        *)
(* TestCase.assertRaises and the Raises / MatchesException matchers.        *)
(*                                                                         *)
(* Documented sentences formalised:                                         *)
(*  D1 ExpectedException docstring: "If the raised exception has a type     *)
(*     other than the specified type, it will be re-raised.  If it has a    *)
(*     'str()' that does not match the given regular expression, an         *)
(*     AssertionError will be raised.  If no exception is raised, an        *)
(*     AssertionError will be raised."  doc/for-test-authors.rst: "If it    *)
(*     is a regular expression, the str() of the raised exception must      *)
(*     match the regular expression. If it is a matcher, then the raised    *)
(*     exception object must match it."                          EEMeaning  *)
(*  D2 assertRaises docstring: "Fail unless an exception of class excClass  *)
(*     is thrown by callableObj ... If a different type of exception is     *)
(*     thrown, it will not be caught"; for-test-authors.rst:                *)
(*     "TestCase.assertRaises returns the caught exception."     ARMeaning  *)
(*  D3 Raises docstring: "Match if the matchee raises an exception when     *)
(*     called.  Exceptions which are not subclasses of Exception propagate  *)
(*     out of the Raises.match call unless they are explicitly matched."    *)
(*     "If no exception_matcher is supplied then the simple fact of         *)
(*     raising an exception is considered enough to match on."              *)
(*     MatchesException docstring: "If an instance is given, the type and   *)
(*     arguments of the exception are checked. If a type is given only the  *)
(*     type of the exception is checked. If a tuple is given, then as with  *)
(*     isinstance, any of the types in the tuple matching is sufficient";   *)
(*     value_re: "match the str() of the exception against it".  RMMeaning  *)
(*                                                                         *)
(* A behaviour: a body (returns / raises class x message) inside a stack    *)
(* of 1..2 frames; frames exit innermost first, the outcome of one frame    *)
(* is what the next one sees.  MECHANISM: the if-chains of the code         *)
(* (ExitEE, ExitAR, ExitRM).  MEANING: the three decision predicates above, *)
(* written as CASE tables over (frame, incoming flow); FrameMeaning relates *)
(* every exit to them, InterruptEscapes is a derived end-to-end rule.       *)
(***************************************************************************)
EXTENDS Naturals, Sequences, FiniteSets, TLC, Json

CONSTANTS
    Inner,        \* alphabet of innermost frames
    Outer,        \* alphabet of outer frames
    Bodies,       \* alphabet of bodies
    MaxDepth,     \* 1 or 2 frames
    ExactType     \* TRUE = as documented (ExpectedException compares the type exactly); FALSE = spec mutation

\* class hierarchy: Sub < E < Exc;  U, V, AE < Exc;  ME < AE;  Exc, KI < Base
Parent(c) == CASE c = "Sub" -> "E" [] c = "ME" -> "AE" [] c \in {"E", "U", "V", "AE"} -> "Exc"
               [] c \in {"Exc", "KI"} -> "Base" [] OTHER -> "Base"
RECURSIVE IsSub(_, _)
IsSub(c, d) == IF c = d THEN TRUE ELSE IF c = "Base" THEN FALSE ELSE IsSub(Parent(c), d)
IsUser(c) == IsSub(c, "Exc")
InstanceOfAny(c, S) == \E d \in S : IsSub(c, d)

\* messages and regular expressions are tuples of characters; the patterns are literals, and
\* "match" is re.match: anchored at the start
IsPrefix(p, m) == Len(p) <= Len(m) /\ \A i \in DOMAIN p : p[i] = m[i]
GenMsg == <<"g">>     \* text of a failure raised by a frame itself (never put against a pattern)

\* frame: [api, exp, rek, rev, ann]
\*   api "EE": ExpectedException(the one class in exp, value_re, msg if ann)
\*   api "AR": assertRaises(exp as class or tuple, callable)
\*   api "RM": Raises(MatchesException(exp, value_re)).match(callable); rek = "nomatcher": Raises();
\*             rek = "inst": MatchesException(<instance of the class in exp with message rev>)
\*   rek "none" | "re" (rev = pattern) | "m" (rev = <<"ok">> | <<"bad">>: a matcher that accepts / rejects)
\* flow: [k |-> "ret"] or [k |-> "raise", cls, msg, gen]  (gen: raised by a frame: "no", "EE", "AR")
Ret == [k |-> "ret", cls |-> "none", msg |-> <<>>, gen |-> "no"]
Raise(c, m, g) == [k |-> "raise", cls |-> c, msg |-> m, gen |-> g]

VARIABLES
    frames,    \* frames still to exit, innermost first
    flow,      \* what currently leaves the innermost open frame (or the body)
    started,   \* body has run
    done,      \* history: <<frame, incoming flow, outcome>> per exited frame
    hist

vars == <<frames, flow, started, done, hist>>

-----------------------------------------------------------------------------
(* Mechanism *)

ValueOk(f, x) ==
    CASE f.rek = "re" -> Assert(x.gen = "no", "pattern applied to a generated message") /\ IsPrefix(f.rev, x.msg)
      [] f.rek = "m" -> f.rev = <<"ok">>
      [] OTHER -> TRUE

\* MatchesException.match(exc_info): "ok" or "bad"
MEMatch(f, x) ==
    IF f.rek = "inst"
    THEN (IF ~InstanceOfAny(x.cls, f.exp) THEN "bad" ELSE IF x.msg # f.rev THEN "bad" ELSE "ok")
    ELSE IF ~InstanceOfAny(x.cls, f.exp) THEN "bad"
    ELSE IF f.rek \in {"re", "m"} THEN (IF ValueOk(f, x) THEN "ok" ELSE "bad")
    ELSE "ok"

\* ExpectedException.__exit__(exc_type, exc_value, traceback)
ExitEE(f, x) ==
    LET t == CHOOSE c \in f.exp : TRUE IN
    IF x.k = "ret" THEN "AssertionError"                                      \* exc_type is None
    ELSE IF (IF ExactType THEN x.cls # t ELSE ~IsSub(x.cls, t)) THEN "propagates"   \* exc_type != self.exc_type
    ELSE IF (f.rek \in {"re", "m"} /\ f.rev # <<>>)                           \* if self.value_re:
         THEN (IF MEMatch(f, x) = "bad" THEN "AssertionError" ELSE "swallowed")
    ELSE "swallowed"

\* assertRaises: Raises(MatchesAll(ReRaiseOtherTypes(), MatchesException(excClass), capture)) under assertThat
ExitAR(f, x) ==
    IF x.k = "ret" THEN "fails"                               \* Mismatch("... returned ...") -> MismatchError
    ELSE IF ~InstanceOfAny(x.cls, f.exp) THEN "propagates"    \* ReRaiseOtherTypes: reraise(*matchee)
    ELSE IF MEMatch([f EXCEPT !.rek = "none"], x) = "bad" THEN "fails"
    ELSE "returns-exc"                                        \* capture.matchee

\* Raises(exception_matcher).match(matchee)
ExitRM(f, x) ==
    IF x.k = "ret" THEN "mismatch"
    ELSE LET mm == IF f.rek = "nomatcher" THEN "nomatcher" ELSE MEMatch(f, x) IN
         IF mm = "ok" THEN "match"
         ELSE IF ~IsUser(x.cls) THEN "propagates"
         ELSE IF mm = "nomatcher" THEN "match" ELSE "mismatch"

\* where the documentation leaves the verdict open: an ExpectedException(AssertionError) around a failing
\* assertRaises (which fails with "a failureException", exact type not stated)
\* - and MatchesException(instance) against an instance of a strict subclass ("the type ... checked": how?)
Unspecified(f, x) ==
    \/ f.api = "EE" /\ x.k = "raise" /\ x.gen = "AR" /\ f.exp \subseteq {"AE", "ME"}
    \/ f.rek = "inst" /\ x.k = "raise" /\ x.cls \notin f.exp /\ InstanceOfAny(x.cls, f.exp)

Exit(f, x) ==
    IF Unspecified(f, x) THEN "unspecified"
    ELSE CASE f.api = "EE" -> ExitEE(f, x) [] f.api = "AR" -> ExitAR(f, x) [] OTHER -> ExitRM(f, x)

\* what leaves a frame, given what entered it and the frame's verdict
After(f, x, o) ==
    CASE o \in {"swallowed", "returns-exc", "match", "mismatch"} -> Ret
      [] o = "AssertionError" -> Raise("AE", GenMsg, "EE")
      [] o = "fails" -> Raise("ME", GenMsg, "AR")
      [] o = "unspecified" -> Raise("Base", GenMsg, "open")      \* not judged, and nothing after it is
      [] OTHER -> x       \* propagates

-----------------------------------------------------------------------------
Init ==
    /\ \E b \in Bodies, fi \in Inner :
          \/ frames = <<fi>> /\ flow = b
          \/ MaxDepth >= 2 /\ \E fo \in Outer : frames = <<fi, fo>> /\ flow = b
    /\ started = FALSE /\ done = <<>>
    /\ hist = <<[a |-> "init", frames |-> frames, body |-> flow]>>

RunBody ==
    /\ ~started /\ started' = TRUE
    /\ UNCHANGED <<frames, flow, done>>
    /\ hist' = Append(hist, [a |-> "body", out |-> flow])

ExitFrame ==
    /\ started /\ frames # <<>> /\ flow.gen # "open"
    /\ LET f == Head(frames)
           o == Exit(f, flow)
       IN /\ flow' = After(f, flow, o)
          /\ done' = Append(done, <<f, flow, o>>)
          /\ hist' = Append(hist, [a |-> "exit", frame |-> f, in |-> flow, out |-> o, leaves |-> flow'])
    /\ frames' = Tail(frames)
    /\ UNCHANGED started

Next == RunBody \/ ExitFrame
Spec == Init /\ [][Next]_vars

-----------------------------------------------------------------------------
(* MEANING *)

\* what "the str() matches value_re" / "the exception object matches the matcher" means
Satisfies(f, x) ==
    CASE f.rek = "re" -> IsPrefix(f.rev, x.msg)
      [] f.rek = "m" -> f.rev = <<"ok">>
      [] OTHER -> TRUE

\* D1
EEMeaning(f, x) ==
    LET t == CHOOSE c \in f.exp : TRUE IN
    CASE x.k = "ret" -> "AssertionError"                 \* "If no exception is raised, an AssertionError will be raised"
      [] x.k = "raise" /\ x.cls # t -> "propagates"      \* "a type other than the specified type ... re-raised"
      [] x.k = "raise" /\ x.cls = t /\ ~Satisfies(f, x) -> "AssertionError"
      [] OTHER -> "swallowed"                            \* "will pass"

\* D2
ARMeaning(f, x) ==
    CASE x.k = "ret" -> "fails"
      [] x.k = "raise" /\ InstanceOfAny(x.cls, f.exp) -> "returns-exc"
      [] OTHER -> "propagates"                           \* "it will not be caught"

\* D3
ExplicitlyMatched(f, x) ==
    /\ f.rek # "nomatcher"
    /\ InstanceOfAny(x.cls, f.exp)
    /\ IF f.rek = "inst" THEN x.msg = f.rev ELSE Satisfies(f, x)
RMMeaning(f, x) ==
    CASE x.k = "ret" -> "mismatch"
      [] x.k = "raise" /\ ExplicitlyMatched(f, x) -> "match"
      [] x.k = "raise" /\ ~ExplicitlyMatched(f, x) /\ ~IsUser(x.cls) -> "propagates"
      [] x.k = "raise" /\ f.rek = "nomatcher" /\ IsUser(x.cls) -> "match"
      [] OTHER -> "mismatch"

Meaning(f, x) == CASE f.api = "EE" -> EEMeaning(f, x) [] f.api = "AR" -> ARMeaning(f, x) [] OTHER -> RMMeaning(f, x)

FrameMeaning ==
    \A i \in DOMAIN done : done[i][3] # "unspecified" => done[i][3] = Meaning(done[i][1], done[i][2])

\* derived, end to end: an exception that is not an Exception and that no frame names is never swallowed,
\* never replaced: it leaves every frame as it came
InterruptEscapes ==
    LET b == hist[1].body
        fs == hist[1].frames
    IN (b.k = "raise" /\ ~IsUser(b.cls) /\ \A i \in DOMAIN fs : ~InstanceOfAny(b.cls, fs[i].exp) \/ fs[i].rek = "nomatcher")
          => (started => flow = b \/ flow.gen = "open")

\* a frame never invents a success: when nothing was raised inside, no frame ends with swallowed/returns-exc/match
NoRaiseNoPass ==
    \A i \in DOMAIN done : done[i][2].k = "ret" => done[i][3] \in {"AssertionError", "fails", "mismatch"}

-----------------------------------------------------------------------------
Terminal == started /\ (frames = <<>> \/ flow.gen = "open")
ExportC == Terminal => PrintT(<<"EXPORT", ToJson(hist)>>)
=============================================================================
