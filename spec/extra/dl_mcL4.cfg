SPECIFICATION Spec
CONSTANTS
  Keys <- Keys3
  Elems <- Elems3
  InitD <- NoD
  InitL <- AllL4
  Ops <- ListOps
  MaxSteps = 1
  RemoveFirstOnly = TRUE
VIEW ViewNoHist
INVARIANT TypeOK
INVARIANT Laws
PROPERTY MapMeaning
PROPERTY FilterMeaning
PROPERTY SubMeaning
PROPERTY LSubMeaning
CHECK_DEADLOCK FALSE
