SPECIFICATION Spec
CONSTANTS
  Streams <- StreamsSmall
  Texts <- TextsSmall
  MaxWrites = 2
  UtfShortcut = FALSE
INVARIANT NeverRaises
INVARIANT UnchangedMeaning
INVARIANT ReplacementMeaning
INVARIANT UnspecifiedOnlyForNarrowTextIO
CHECK_DEADLOCK FALSE
