---------------------------- MODULE DocTestMatch ----------------------------
(***************************************************************************)
(* X12 (part 1) - DocTestMatches: "matches a string as if it were the       *)
(* output of a doctest example", with the ELLIPSIS and NORMALIZE_WHITESPACE *)
(* comparison flags.                                                        *)
(*                                                                         *)
(* Documented sentences formalised:                                         *)
(*  D1 doc/for-test-authors.rst, DocTestMatches: "Matches a string as if it *)
(*     were the output of a doctest example."  Docstring: "See if a string  *)
(*     matches a doctest example. ... flags: doctest comparison flags to    *)
(*     match on. e.g. doctest.ELLIPSIS."  doctest.OutputChecker.check_output*)
(*     docstring: "Return True iff the actual output from an example (got)  *)
(*     matches the expected output (want).  These strings are always        *)
(*     considered to match if they are identical; but depending on what     *)
(*     option flags the test runner is using, several non-exact match types *)
(*     are also possible."  (The output of an example ends with a newline:  *)
(*     both texts are completed by one when they lack it - __init__ /       *)
(*     _with_nl.)                                     VerdictMeaning, NlRule *)
(*  D2 Python library reference, doctest.NORMALIZE_WHITESPACE: "When        *)
(*     specified, all sequences of whitespace (blanks and newlines) are     *)
(*     treated as equal.  Any sequence of whitespace within the expected    *)
(*     output will match any sequence of whitespace within the actual       *)
(*     output.  By default, whitespace must match exactly."  Comment in     *)
(*     check_output: "This flag causes doctest to ignore any differences in *)
(*     the contents of whitespace strings.  Note that this can be used in   *)
(*     conjunction with the ELLIPSIS flag."                    NormMeaning  *)
(*  D3 doctest.ELLIPSIS: "When specified, an ellipsis marker (...) in the   *)
(*     expected output can match any substring in the actual output.  This  *)
(*     includes substrings that span line boundaries, and empty substrings" *)
(*     Comment in _ellipsis_match: "we only need to find the leftmost       *)
(*     non-overlapping match for each piece.  If there's no overall match   *)
(*     that way alone, there's no overall match period."                    *)
(*                                              VerdictMeaning, LoopMeaning  *)
(*                                                                         *)
(* Texts are sequences of one-character tokens: letters, "_" (a blank),     *)
(* "|" (a newline) and "..." (the ellipsis marker, one token).              *)
(*                                                                         *)
(* MECHANISM: the code path DocTestMatches.__init__ / _with_nl ->           *)
(* OutputChecker.check_output (identical? / whitespace-only lines blanked / *)
(* ' '.join(s.split()) when NORMALIZE_WHITESPACE / _ellipsis_match when     *)
(* ELLIPSIS: split on the marker, startswith, endswith, overlap test, then  *)
(* leftmost find of every remaining piece), one action per stage.           *)
(* MEANING: Meaning(want, got, flags) - equality of the completed texts, or *)
(* equality of their word sequences, or existence of texts for the markers  *)
(* (Wild: a backtracking "exists a split" definition), on word-normalised   *)
(* texts when both flags are given.                                         *)
(***************************************************************************)
EXTENDS Integers, Sequences, FiniteSets, TLC, Json

CONSTANTS
    Cases,        \* set of <<want, got, flags>>; flags \subseteq {"E", "N"}
    Leftmost,     \* TRUE = as the code: leftmost find of each piece; FALSE = spec mutation (rightmost)
    Letters       \* the non-whitespace, non-marker tokens (for TypeOK)

Ell == "..."
SPc == "_"
NLc == "|"
IsWs(c) == c \in {SPc, NLc}

VARIABLES
    want, got, flags,   \* the case (constant along a behaviour)
    pc,                 \* "new" | "exact" | "blank" | "norm" | "ell" | "scan" | "done"
    w, g,               \* the two texts as the code currently holds them
    ws, sp, ep,         \* _ellipsis_match: pieces still to find, window [sp, ep) of g
    normed,             \* the NORMALIZE_WHITESPACE stage has rewritten w and g
    verdict,            \* "open" | "match" | "mismatch"
    hist

vars == <<want, got, flags, pc, w, g, ws, sp, ep, normed, verdict, hist>>

-----------------------------------------------------------------------------
(* Mechanism *)

\* DocTestMatches.__init__ / _with_nl: if not s.endswith("\n"): s += "\n"
WithNl(s) == IF s # <<>> /\ s[Len(s)] = NLc THEN s ELSE Append(s, NLc)

AllBlank(line) == \A i \in DOMAIN line : line[i] = SPc

\* got = re.sub(r'(?m)^[^\S\n]+$', '', got): line by line
RECURSIVE BlankOutM(_, _)
BlankOutM(s, line) ==
    IF s = <<>> THEN (IF AllBlank(line) THEN <<>> ELSE line)
    ELSE IF Head(s) = NLc THEN (IF AllBlank(line) THEN <<>> ELSE line) \o <<NLc>> \o BlankOutM(Tail(s), <<>>)
    ELSE BlankOutM(Tail(s), Append(line, Head(s)))

\* ' '.join(s.split()): a scan that drops leading/trailing whitespace and emits one blank per inner run
RECURSIVE NormM(_, _, _)
NormM(s, out, gap) ==
    IF s = <<>> THEN out
    ELSE IF IsWs(Head(s)) THEN NormM(Tail(s), out, out # <<>>)
    ELSE NormM(Tail(s), IF gap THEN out \o <<SPc, Head(s)>> ELSE Append(out, Head(s)), FALSE)

\* want.split(ELLIPSIS_MARKER)
RECURSIVE SplitEll(_, _)
SplitEll(s, cur) ==
    IF s = <<>> THEN <<cur>>
    ELSE IF Head(s) = Ell THEN <<cur>> \o SplitEll(Tail(s), <<>>)
    ELSE SplitEll(Tail(s), Append(cur, Head(s)))

HasEll(s) == \E i \in DOMAIN s : s[i] = Ell
StartsWith(s, p) == Len(p) <= Len(s) /\ SubSeq(s, 1, Len(p)) = p
EndsWith(s, p) == Len(p) <= Len(s) /\ SubSeq(s, Len(s) - Len(p) + 1, Len(s)) = p
Front(s) == SubSeq(s, 1, Len(s) - 1)
MinOf(S) == CHOOSE x \in S : \A y \in S : x <= y
MaxOf(S) == CHOOSE x \in S : \A y \in S : x >= y

\* got.find(p, lo, hi): 0-based offset or -1
Find(s, p, lo, hi) ==
    LET C == {i \in lo..(hi - Len(p)) : SubSeq(s, i + 1, i + Len(p)) = p}
    IN IF C = {} THEN -1 ELSE IF Leftmost THEN MinOf(C) ELSE MaxOf(C)

\* which stage follows the whitespace-only-lines stage / the normalisation stage
AfterBlank == IF "N" \in flags THEN "norm" ELSE IF "E" \in flags THEN "ell" ELSE "done"
AfterNorm == IF "E" \in flags THEN "ell" ELSE "done"

Finish(v) == /\ pc' = "done" /\ verdict' = v

Init ==
    /\ \E c \in Cases : want = c[1] /\ got = c[2] /\ flags = c[3]
    /\ pc = "new" /\ w = <<>> /\ g = <<>> /\ ws = <<>> /\ sp = 0 /\ ep = 0 /\ normed = FALSE
    /\ verdict = "open"
    /\ hist = <<[a |-> "init", want |-> want, got |-> got, flags |-> flags]>>

\* DocTestMatches(example, flags) and match(actual): both texts completed by a newline
Complete ==
    /\ pc = "new"
    /\ w' = WithNl(want) /\ g' = WithNl(got)
    /\ pc' = "exact"
    /\ UNCHANGED <<want, got, flags, ws, sp, ep, normed, verdict>>
    /\ hist' = Append(hist, [a |-> "complete", w |-> w', g |-> g'])

\* if got == want: return True
Exact ==
    /\ pc = "exact"
    /\ IF g = w THEN Finish("match") ELSE pc' = "blank" /\ UNCHANGED verdict
    /\ UNCHANGED <<want, got, flags, w, g, ws, sp, ep, normed>>
    /\ hist' = Append(hist, [a |-> "exact", sofar |-> (g = w)])

\* not DONT_ACCEPT_BLANKLINE: whitespace-only lines of got lose their blanks; compare again
BlankLines ==
    /\ pc = "blank"
    /\ g' = BlankOutM(g, <<>>)
    /\ IF g' = w THEN Finish("match")
       ELSE IF AfterBlank = "done" THEN Finish("mismatch")
       ELSE pc' = AfterBlank /\ UNCHANGED verdict
    /\ UNCHANGED <<want, got, flags, w, ws, sp, ep, normed>>
    /\ hist' = Append(hist, [a |-> "blank", g |-> g', sofar |-> (g' = w)])

\* NORMALIZE_WHITESPACE: got = ' '.join(got.split()); want = ' '.join(want.split()); compare again
Normalize ==
    /\ pc = "norm"
    /\ w' = NormM(w, <<>>, FALSE) /\ g' = NormM(g, <<>>, FALSE)
    /\ normed' = TRUE
    /\ IF g' = w' THEN Finish("match")
       ELSE IF AfterNorm = "done" THEN Finish("mismatch")
       ELSE pc' = AfterNorm /\ UNCHANGED verdict
    /\ UNCHANGED <<want, got, flags, ws, sp, ep>>
    /\ hist' = Append(hist, [a |-> "norm", w |-> w', g |-> g', sofar |-> (g' = w')])

\* _ellipsis_match, up to the loop: no marker -> equality; exact matches at both ends; overlap test
Anchor ==
    /\ pc = "ell"
    /\ IF ~HasEll(w)
       THEN /\ Finish(IF w = g THEN "match" ELSE "mismatch")
            /\ UNCHANGED <<ws, sp, ep>>
            /\ hist' = Append(hist, [a |-> "anchor", pieces |-> <<w>>, ok |-> (w = g), sp |-> 0, ep |-> Len(g)])
       ELSE LET all == SplitEll(w, <<>>)
                hd == all[1]
                headok == hd = <<>> \/ StartsWith(g, hd)
                s1 == IF hd # <<>> /\ headok THEN Len(hd) ELSE 0
                r1 == IF hd # <<>> THEN Tail(all) ELSE all
                tl == r1[Len(r1)]
                tailok == tl = <<>> \/ EndsWith(g, tl)
                e1 == IF tl # <<>> /\ tailok THEN Len(g) - Len(tl) ELSE Len(g)
                r2 == IF tl # <<>> THEN Front(r1) ELSE r1
                ok == headok /\ tailok /\ s1 <= e1        \* if startpos > endpos: return False
            IN /\ Assert(Len(all) >= 2, "split yields at least two pieces")
               /\ ws' = r2 /\ sp' = s1 /\ ep' = e1
               /\ IF ~ok THEN Finish("mismatch")
                  ELSE IF r2 = <<>> THEN Finish("match")
                  ELSE pc' = "scan" /\ UNCHANGED verdict
               /\ hist' = Append(hist, [a |-> "anchor", pieces |-> all, ok |-> ok, sp |-> s1, ep |-> e1])
    /\ UNCHANGED <<want, got, flags, w, g, normed>>

\* one turn of "for w in ws: startpos = got.find(w, startpos, endpos) ..."
Scan ==
    /\ pc = "scan" /\ ws # <<>>
    /\ LET p == Head(ws)
           at == Find(g, p, sp, ep)
       IN /\ IF at < 0 THEN Finish("mismatch") /\ UNCHANGED <<sp, ws>>
             ELSE /\ sp' = at + Len(p)
                  /\ ws' = Tail(ws)
                  /\ IF Tail(ws) = <<>> THEN Finish("match") ELSE UNCHANGED <<pc, verdict>>
          /\ hist' = Append(hist, [a |-> "scan", piece |-> p, at |-> at])
    /\ UNCHANGED <<want, got, flags, w, g, ep, normed>>

Next == Complete \/ Exact \/ BlankLines \/ Normalize \/ Anchor \/ Scan
Spec == Init /\ [][Next]_vars

-----------------------------------------------------------------------------
(* MEANING *)

\* D1: the output of an example ends with a newline
Completed(s) == IF s = <<>> THEN <<NLc>> ELSE IF s[Len(s)] = NLc THEN s ELSE s \o <<NLc>>

\* D2: a text as the sequence of its words (maximal runs of non-whitespace); "all sequences of whitespace are
\* treated as equal": two texts agree iff their word sequences agree
RECURSIVE Words(_)
Words(s) ==
    IF \A i \in DOMAIN s : IsWs(s[i]) THEN <<>>
    ELSE LET b == CHOOSE i \in DOMAIN s : ~IsWs(s[i]) /\ \A j \in 1..(i - 1) : IsWs(s[j])
             e == CHOOSE i \in b..Len(s) : (\A j \in b..i : ~IsWs(s[j])) /\ (i = Len(s) \/ IsWs(s[i + 1]))
         IN <<SubSeq(s, b, e)>> \o Words(SubSeq(s, e + 1, Len(s)))
RECURSIVE Joined(_)
Joined(wd) == IF wd = <<>> THEN <<>> ELSE IF Len(wd) = 1 THEN wd[1] ELSE wd[1] \o <<SPc>> \o Joined(Tail(wd))

\* D3: "an ellipsis marker in the expected output can match any substring in the actual output", empty ones
\* included: there are texts for the markers that make the pattern equal to s
RECURSIVE Wild(_, _)
Wild(p, s) ==
    IF p = <<>> THEN s = <<>>
    ELSE IF Head(p) = Ell THEN \E i \in 0..Len(s) : Wild(Tail(p), SubSeq(s, i + 1, Len(s)))
    ELSE s # <<>> /\ Head(s) = Head(p) /\ Wild(Tail(p), Tail(s))

Meaning(wa, go, fl) ==
    LET cw == Completed(wa)
        cg == Completed(go)
    IN \/ cw = cg                                                       \* "always considered to match if identical"
       \/ "N" \in fl /\ Words(cw) = Words(cg)
       \/ "E" \in fl /\ (IF "N" \in fl THEN Wild(Joined(Words(cw)), Joined(Words(cg))) ELSE Wild(cw, cg))

\* not documented (neither by testtools nor by the doctest reference): unless DONT_ACCEPT_BLANKLINE is given, a
\* line of the actual output that consists of blanks only counts as an empty line.  "By default, whitespace must
\* match exactly" would say otherwise; such cases are explored and replayed but not judged against Meaning.
HasBlankOnlyLine(s) ==
    \E i \in DOMAIN s : \E j \in i..Len(s) :
        /\ \A k \in i..j : s[k] = SPc
        /\ (i = 1 \/ s[i - 1] = NLc)
        /\ (j = Len(s) \/ s[j + 1] = NLc)
Unspecified == "N" \notin flags /\ HasBlankOnlyLine(Completed(got))

-----------------------------------------------------------------------------
(* Invariants *)

Token == Letters \cup {SPc, NLc, Ell}
TypeOK ==
    /\ pc \in {"new", "exact", "blank", "norm", "ell", "scan", "done"}
    /\ verdict \in {"open", "match", "mismatch"}
    /\ flags \subseteq {"E", "N"}
    /\ w \in Seq(Token) /\ g \in Seq(Token)
    /\ sp \in 0..Len(g) /\ ep \in 0..Len(g)
    /\ (pc = "done") = (verdict # "open")
    /\ pc = "scan" => ws # <<>> /\ sp <= ep

\* D1
NlRule == pc \notin {"new"} /\ ~normed =>
    /\ w # <<>> /\ w[Len(w)] = NLc /\ g # <<>> /\ g[Len(g)] = NLc
    /\ w \in {want, want \o <<NLc>>}
    /\ (want # <<>> /\ want[Len(want)] = NLc) => w = want

\* D2: what the normalisation stage leaves are the word sequences of the completed texts, joined by single blanks
\* (blanking whitespace-only lines first changes no word)
NormMeaning == normed => w = Joined(Words(Completed(want))) /\ g = Joined(Words(Completed(got)))

\* D3, the loop invariant of _ellipsis_match: the whole pattern matches iff the pieces still to find can be
\* found, in order and without overlap, inside the remaining window
RECURSIVE Between(_)
Between(ps) == IF ps = <<>> THEN <<Ell>> ELSE <<Ell>> \o ps[1] \o Between(Tail(ps))
LoopMeaning == pc = "scan" => (Wild(Between(ws), SubSeq(g, sp + 1, ep)) <=> Wild(w, g))

\* the verdict is the documented one
VerdictMeaning == pc = "done" /\ ~Unspecified => ((verdict = "match") <=> Meaning(want, got, flags))

\* how the code reads whitespace-only lines (observed, not documented): after the test for identity the actual
\* output is taken with the blanks of its blank-only lines removed - this can add matches and remove them
LineOf(s, k) == Cardinality({j \in 1..(k - 1) : s[j] = NLc})
BlankD(s) ==
    LET drop(k) == s[k] = SPc /\ \A m \in DOMAIN s : LineOf(s, m) = LineOf(s, k) => IsWs(s[m])
        kept == SelectSeq([k \in DOMAIN s |-> k], LAMBDA k : ~drop(k))
    IN [i \in DOMAIN kept |-> s[kept[i]]]
BlankLineReading == pc = "done" =>
    ((verdict = "match") <=> (Completed(want) = Completed(got) \/ Meaning(want, BlankD(Completed(got)), flags)))

\* more flags never turn a match into a mismatch: identical completed texts match whatever the flags
IdenticalAlwaysMatch == pc = "done" /\ Completed(want) = Completed(got) => verdict = "match"

-----------------------------------------------------------------------------
Terminal == pc = "done"
NoHist == <<want, got, flags, pc, w, g, ws, sp, ep, normed, verdict>>
ExportC == Terminal => PrintT(<<"EXPORT", ToJson([hist |-> hist, verdict |-> verdict, judged |-> ~Unspecified,
                                                   meaning |-> Meaning(want, got, flags)])>>)
=============================================================================
