SPECIFICATION Spec
CONSTANTS
  Cases <- CasesEll
  Letters <- LettersAB
  Leftmost = FALSE
VIEW NoHist
INVARIANT TypeOK
INVARIANT LoopMeaning
INVARIANT VerdictMeaning
INVARIANT BlankLineReading
CHECK_DEADLOCK FALSE
