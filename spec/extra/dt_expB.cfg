SPECIFICATION Spec
CONSTANTS
  NameOrder <- Names4z
  Kinds <- KindsCore
  Modes <- ModesB
  PadLast = TRUE
CONSTRAINT ExportC
INVARIANT TypeOK
INVARIANT RaisesOnlyUndecodable
INVARIANT WellFormed
INVARIANT EveryDetailOnce
INVARIANT SectionOrder
INVARIANT Headings
INVARIANT SortedSections
INVARIANT SpecialLast
INVARIANT SpecialBare
INVARIANT RenderMeaning
CHECK_DEADLOCK FALSE
