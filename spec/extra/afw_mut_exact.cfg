SPECIFICATION Spec
CONSTANTS
  Endings <- EndingsAll
  TypeTuples <- TypesAll
  FExcs <- FExcAll
  SubclassAware = FALSE

INVARIANT Verdict
INVARIANT NothingBeforeFire
CHECK_DEADLOCK FALSE
