----------------------------- MODULE AssertFam -----------------------------
(***************************************************************************)
(* X15 - the assertion family of testtools.TestCase (assertEqual, assertIn, *)
(* assertNotIn, assertIs, assertIsNot, assertIsNone, assertIsNotNone,       *)
(* assertIsInstance, assertThat with message / verbose) and                 *)
(* testtools.assertions.assert_that.                                        *)
(*                                                                         *)
(* Documented sentences formalised:                                         *)
(*  D1 assertEqual: "Assert that 'expected' is equal to 'observed'.         *)
(*     :param message: An optional message to include in the error."        *)
(*     for-test-authors.rst: "The line self.assertThat(result, Equals(49))  *)
(*     is equivalent to self.assertEqual(result, 49)"                       *)
(*  D2 assertIn / assertNotIn: "Assert that needle is [not] in haystack.";  *)
(*     rst: "They are 'assert' versions of the in and not in operators."    *)
(*  D3 assertIs / assertIsNot: "Assert that 'expected' is [not]             *)
(*     'observed'."; rst: "check whether values are identical to one        *)
(*     another ... more strict than mere equality"                          *)
(*  D4 assertIsNone / assertIsNotNone: "Assert that 'observed' is [not]     *)
(*     equal to None. :param message: An optional message describing the    *)
(*     error."                                                              *)
(*  D5 assertIsInstance: rst "check whether or not a value is of a given    *)
(*     type" (isinstance; a tuple of types means any of them)               *)
(*  D6 assertThat: "Assert that matchee is matched by matcher. :raises      *)
(*     MismatchError: When matcher does not match thing."; rst: "A failure  *)
(*     in the self.assertThat method will immediately fail the test: No     *)
(*     more test code will be run after the assertion failure."             *)
(*  D7 assert_that: "Assert that matchee is matched by matcher. ... :raises *)
(*     MismatchError: When matcher does not match thing."; rst: "This       *)
(*     behaves like the method version does"                                *)
(*  D8 the matchers the assertions stand for (rst "Stock matchers"):        *)
(*     Equals "Matches if two items are equal", Is "Matches if two items    *)
(*     are identical", IsInstance "Adapts isinstance() to use as a          *)
(*     matcher", Contains "Checks whether something is contained in another *)
(*     thing", Not "Negates another matcher"; Annotate: "Mismatches are     *)
(*     then described as '<mismatch>: <annotation>'"                        *)
(*                                  CallMeaning, MessageIncluded,           *)
(*                                  DirectAgrees, StopsAtFirstFailure       *)
(*                                                                         *)
(* A behaviour: Init chooses a test body = a sequence of assertion calls    *)
(* over a small universe of Python values (names are object identities).    *)
(* MECHANISM (code-shaped): each assertion builds its matcher term          *)
(* (_FlippedEquals(e), Is(None), Not(Contains(n)), IsInstance over klass ...), *)
(* Annotate.if_message wraps it when the message is truthy, match() yields  *)
(* a mismatch or None through the wrappers, a mismatch is raised as         *)
(* MismatchError and ends the body.  MEANING: the relation the docstring    *)
(* names (==, is, in, isinstance) read off the universe directly.           *)
(***************************************************************************)
EXTENDS Naturals, Sequences, FiniteSets, TLC, Json

CONSTANTS
    U,            \* the universe: [name -> [ty, eqc, refl, items, chars]]
    InitProg(_),  \* predicate choosing the call sequences explored (an enumerable disjunction of prog = <<...>>)
    NotNegates    \* TRUE = as coded (Not turns a match into a mismatch and back); FALSE = spec mutation

None == "none"

\* call: [api, x, y, K, op, neg, msg, vb]
\*   assertEqual / assertIs / assertIsNot: x expected, y observed;  assertIn / assertNotIn: x needle, y haystack
\*   assertIsNone / assertIsNotNone: y observed;  assertIsInstance: y object, K the type names (tup: given as a tuple)
\*   assertThat / assert_that: y matchee, the matcher is op(x) / IsInstance over K, negated when neg
\*   msg: "none" (not given) | "" | "msg";  vb: verbose flag (assertThat / assert_that only)

-----------------------------------------------------------------------------
(* The universe's relations (Python's ==, is, in, isinstance) *)

RECURSIVE Eq(_, _)
Eq(a, b) ==
    LET va == U[a]
        vb == U[b]
    IN IF va.ty = "list" /\ vb.ty = "list"
       THEN /\ Len(va.items) = Len(vb.items)
            /\ \A i \in DOMAIN va.items : va.items[i] = vb.items[i] \/ Eq(va.items[i], vb.items[i])
       ELSE IF va.ty = "list" \/ vb.ty = "list" THEN FALSE
       ELSE va.eqc = vb.eqc /\ va.refl

Ident(a, b) == a = b

IsInfix(p, s) == \E off \in 0..(Len(s) - Len(p)) : \A i \in DOMAIN p : s[off + i] = p[i]

\* needle in haystack: list -> any(e is needle or e == needle); str -> substring
In(nd, h) ==
    IF U[h].ty = "list" THEN \E i \in DOMAIN U[h].items : U[h].items[i] = nd \/ Eq(U[h].items[i], nd)
    ELSE U[nd].ty = "str" /\ U[h].ty = "str" /\ IsInfix(U[nd].chars, U[h].chars)

SubT(t, k) == t = k \/ k = "object" \/ (t = "bool" /\ k = "int")
InstanceOf(v, K) == \E k \in K : SubT(U[v].ty, k)

\* calls outside the documented domain of the operators (in on a non-container, a non-string in a string)
Defined(c) ==
    LET contained == c.api \in {"assertIn", "assertNotIn"} \/ (c.api \in {"assertThat", "assert_that"} /\ c.op = "Contains")
    IN contained => (U[c.y].ty = "list" \/ (U[c.y].ty = "str" /\ U[c.x].ty = "str"))

-----------------------------------------------------------------------------
VARIABLES
    prog,      \* the test body (input, constant)
    k,         \* next call
    pc,        \* "body" | "report" | "done"
    failedAt,  \* index of the call that raised, 0 = none
    reached,   \* indices of the calls executed
    hist

vars == <<prog, k, pc, failedAt, reached, hist>>

-----------------------------------------------------------------------------
(* Mechanism *)

\* the matcher the assertion builds
TermOf(c) ==
    CASE c.api = "assertEqual"      -> [op |-> "FlippedEquals", v |-> c.x, K |-> {}, neg |-> FALSE]
      [] c.api = "assertIs"         -> [op |-> "Is", v |-> c.x, K |-> {}, neg |-> FALSE]
      [] c.api = "assertIsNot"      -> [op |-> "Is", v |-> c.x, K |-> {}, neg |-> TRUE]
      [] c.api = "assertIn"         -> [op |-> "Contains", v |-> c.x, K |-> {}, neg |-> FALSE]
      [] c.api = "assertNotIn"      -> [op |-> "Contains", v |-> c.x, K |-> {}, neg |-> TRUE]
      [] c.api = "assertIsNone"     -> [op |-> "Is", v |-> "non", K |-> {}, neg |-> FALSE]
      [] c.api = "assertIsNotNone"  -> [op |-> "Is", v |-> "non", K |-> {}, neg |-> TRUE]
      [] c.api = "assertIsInstance" -> [op |-> "IsInstance", v |-> None, K |-> c.K, neg |-> FALSE]
      [] OTHER                      -> [op |-> c.op, v |-> c.x, K |-> c.K, neg |-> c.neg]

\* Annotate.if_message(message, matcher): "if not annotation: return matcher"
Annotated(c) == c.msg \notin {None, ""}

\* matcher.match(matchee) of the innermost matcher: "ok" (None) or a mismatch
BaseMatch(t, y) ==
    CASE t.op \in {"Equals", "FlippedEquals"} -> IF Eq(y, t.v) THEN "ok" ELSE "not-equal"
      [] t.op = "Is"                          -> IF Ident(y, t.v) THEN "ok" ELSE "is-not"
      [] t.op = "Contains"                    -> IF In(t.v, y) THEN "ok" ELSE "does-not-contain"
      [] OTHER                                -> IF InstanceOf(y, t.K) THEN "ok" ELSE "not-an-instance"

\* Not.match: mismatch = self.matcher.match(other); if mismatch is None: return MatchedUnexpectedly else None
TermMatch(t, y) ==
    LET b == BaseMatch(t, y) IN
    IF t.neg /\ NotNegates THEN (IF b = "ok" THEN "matched-unexpectedly" ELSE "ok") ELSE b

\* _matchHelper / assert_that: annotate, match, "if not mismatch: return", else MismatchError(matchee, matcher, mismatch, verbose)
Mech(c) ==
    LET m == TermMatch(TermOf(c), c.y)
        raised == m # "ok"
    IN [raised |-> raised,
        mismatch |-> m,
        \* AnnotatedMismatch.describe() = "<mismatch>: <annotation>"; the verbose text embeds describe() as Difference
        hasmsg |-> raised /\ Annotated(c),
        verbose |-> raised /\ c.vb]

\* the documented stand-in, used directly: Equals(a).match(b), Not(Contains(n)).match(h), ...
DocTerm(c) == LET t == TermOf(c) IN IF t.op = "FlippedEquals" THEN [t EXCEPT !.op = "Equals"] ELSE t
Direct(c) == TermMatch(DocTerm(c), c.y)

-----------------------------------------------------------------------------
(* MEANING: the relation each docstring names *)

Sat(op, x, K, y) ==
    CASE op = "Equals" -> Eq(y, x) [] op = "Is" -> Ident(y, x) [] op = "Contains" -> In(x, y) [] OTHER -> InstanceOf(y, K)

Holds(c) ==
    CASE c.api = "assertEqual"      -> Eq(c.x, c.y)
      [] c.api = "assertIs"         -> Ident(c.x, c.y)
      [] c.api = "assertIsNot"      -> ~Ident(c.x, c.y)
      [] c.api = "assertIn"         -> In(c.x, c.y)
      [] c.api = "assertNotIn"      -> ~In(c.x, c.y)
      [] c.api = "assertIsNone"     -> U[c.y].ty = "NoneType"
      [] c.api = "assertIsNotNone"  -> U[c.y].ty # "NoneType"
      [] c.api = "assertIsInstance" -> InstanceOf(c.y, c.K)
      [] OTHER                      -> (IF c.neg THEN ~Sat(c.op, c.x, c.K, c.y) ELSE Sat(c.op, c.x, c.K, c.y))

\* D6: the first call whose relation fails ends the body
FailingIdx == {i \in DOMAIN prog : ~Holds(prog[i])}
FirstFail == IF FailingIdx = {} THEN 0 ELSE CHOOSE i \in FailingIdx : \A j \in FailingIdx : i <= j

-----------------------------------------------------------------------------
Init ==
    /\ InitProg(prog)
    /\ k = 1 /\ pc = "body" /\ failedAt = 0 /\ reached = <<>>
    /\ hist = <<[a |-> "init", arg |-> prog, holds |-> [i \in DOMAIN prog |-> Holds(prog[i])], out |-> None]>>

Call ==
    /\ pc = "body" /\ k <= Len(prog)
    /\ LET out == Mech(prog[k]) IN
       /\ reached' = Append(reached, k)
       /\ IF out.raised
          THEN failedAt' = k /\ pc' = "report" /\ k' = k
          ELSE failedAt' = failedAt /\ k' = k + 1 /\ pc' = (IF k = Len(prog) THEN "report" ELSE "body")
       /\ hist' = Append(hist, [a |-> "call", arg |-> k, holds |-> Holds(prog[k]), out |-> out,
                                direct |-> Direct(prog[k])])
    /\ UNCHANGED prog

\* the run reports the test: a failure (failureException) when a call raised, a success otherwise
Report ==
    /\ pc = "report"
    /\ pc' = "done"
    /\ hist' = Append(hist, [a |-> "report", arg |-> failedAt, holds |-> None,
                             out |-> (IF failedAt > 0 THEN "failure" ELSE "success"), reached |-> reached])
    /\ UNCHANGED <<prog, k, failedAt, reached>>

Next == Call \/ Report

Spec == Init /\ [][Next]_vars

-----------------------------------------------------------------------------
(* Invariants *)

Did(a) == Len(hist') = Len(hist) + 1 /\ hist'[Len(hist')].a = a
LastH == hist'[Len(hist')]

\* D1-D7: the assertion raises exactly when the documented relation fails
CallMeaning == [][Did("call") => (LastH.out.raised <=> ~Holds(prog[LastH.arg]))]_vars

\* D1/D4: a message that was given is part of the error
MessageIncluded == [][Did("call") => ((LastH.out.raised /\ prog[LastH.arg].msg = "msg") => LastH.out.hasmsg)]_vars

\* D1/D8: the assertion agrees with the matcher it stands for, used directly
DirectAgrees == [][Did("call") => ((LastH.direct = "ok") <=> ~LastH.out.raised)]_vars

\* D6: calls run in order up to and including the first one whose relation fails; nothing after it runs
StopsAtFirstFailure ==
    pc = "done" =>
        /\ failedAt = FirstFail
        /\ reached = [i \in 1..(IF FirstFail = 0 THEN Len(prog) ELSE FirstFail) |-> i]

TypeOK ==
    /\ pc \in {"body", "report", "done"}
    /\ k \in 1..(Len(prog) + 1)
    /\ \A i \in DOMAIN prog : Defined(prog[i])

-----------------------------------------------------------------------------
Terminal == pc = "done"
ExportC == Terminal => PrintT(<<"EXPORT", ToJson(hist)>>)
ViewNoHist == <<prog, k, pc, failedAt, reached>>
=============================================================================
