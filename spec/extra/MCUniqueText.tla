---------------------------- MODULE MCUniqueText ----------------------------
(* Model-checking instances of UniqueText. *)
EXTENDS UniqueText
OneGen == {"p"}
TwoGens == {"p", "q"}
=============================================================================
