SPECIFICATION Spec
CONSTANTS
  Plans <- PlansAll
  WrapKinds <- AllWraps
  Aborts <- AllAborts
  JoinInOrder = FALSE
  WrapEach = TRUE
VIEW ViewNoHist
INVARIANT TypeOK
INVARIANT WrapOncePerWorker
INVARIANT WorkerReportsToWrapped
INVARIANT TargetSeesAll
INVARIANT DoneMeaning
INVARIANT AbortMeaning
PROPERTY NoTestAfterStop
CHECK_DEADLOCK FALSE
