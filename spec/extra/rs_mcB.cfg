SPECIFICATION Spec
CONSTANTS
  Resources <- ResB
  Tests <- TestsB
  Outcomes <- OutcomesB
  Times <- TimesB
  MaxLen = 4
  MaxRuns = 2
  StopStatus = "success"
VIEW ViewNoHist
INVARIANT TypeOK
INVARIANT OneEventPerStage
INVARIANT ResourceEvents
INVARIANT OrdinaryUnaffected
INVARIANT SummaryMeaning
INVARIANT ResourceStagesCounted
CHECK_DEADLOCK FALSE
