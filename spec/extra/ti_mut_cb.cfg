SPECIFICATION Spec
CONSTANTS
  Names <- NamesSmall
  NodeKind <- TreeKind
  AltKinds <- AltAll
  CbKinds <- CbOnly
  MaxCalls = 2
  CallbackOnce = FALSE
VIEW ViewNoHist
INVARIANT Denotation
INVARIANT CallbackRule
INVARIANT NoSwallowing
INVARIANT LoopRule
INVARIANT TreeSane
CHECK_DEADLOCK FALSE
