SPECIFICATION Spec
CONSTANTS
  Inits <- InitsAll
  RunArgs <- RunsAll
  OwnSets <- OwnSetsAll
  FwdNames <- Fwd
  FwdVals <- Vals2
  GetNames <- GetAll
  MaxSteps = 4
  AfterInFinally = TRUE
  OwnTuple <- OwnFull
VIEW ViewNoHist
INVARIANT CalloutOnce
INVARIANT CaseGetsAltered
INVARIANT NoEarlyCase
INVARIANT BeforePrecedes
INVARIANT AfterFollows
INVARIANT ForwardedView
INVARIANT OwnStaysOwn
PROPERTY ReadYourWrite
CHECK_DEADLOCK FALSE
