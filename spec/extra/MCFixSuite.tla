----------------------------- MODULE MCFixSuite -----------------------------
(* Model-checking instances of FixSuite: suite shapes, test behaviours, bounds. *)
EXTENDS FixSuite

Ids3 == {1, 2, 3}

\* flat and unsorted; a nested plain suite; an empty nested suite in front; one test; no test; two nested suites
Shapes == {<<Case(3), Case(1), Case(2)>>,
           <<Case(2), Suite(<<3, 1>>)>>,
           <<Suite(<<>>), Case(2), Case(1)>>,
           <<Case(1)>>,
           <<>>,
           <<Suite(<<3>>), Suite(<<2, 1>>)>>}
ShapesB == {<<Case(3), Case(1), Case(2)>>, <<Case(2), Suite(<<3, 1>>)>>, <<Case(1)>>}

AllPass == {[i \in Ids3 |-> "pass"]}
AllKinds == [Ids3 -> {"pass", "fail", "error", "stop", "interrupt"}]
AllFix == {"ok", "setup-raises", "cleanup-raises"}
OkFix == {"ok"}
AllSubsets == SUBSET Ids3
SomeSubsets == {{}, {1}, {2, 3}, {1, 2, 3}}
NoPreStop == {FALSE}
=============================================================================
