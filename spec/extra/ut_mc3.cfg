SPECIFICATION Spec
CONSTANTS
  Radix = 3
  Gens <- TwoGens
  MaxIdx = 30
  KeepOut = TRUE
  WrapAt = 0
VIEW ViewNoHist
INVARIANT NoRepeat
INVARIANT Decodes
INVARIANT Canonical
CHECK_DEADLOCK FALSE
