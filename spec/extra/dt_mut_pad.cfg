SPECIFICATION Spec
CONSTANTS
  NameOrder <- Names3
  Kinds <- KindsCore
  Modes <- ModesA
  PadLast = FALSE
VIEW ViewNoHist
INVARIANT TypeOK
INVARIANT RaisesOnlyUndecodable
INVARIANT WellFormed
INVARIANT EveryDetailOnce
INVARIANT SectionOrder
INVARIANT Headings
INVARIANT SortedSections
INVARIANT SpecialLast
INVARIANT SpecialBare
INVARIANT RenderMeaning
CHECK_DEADLOCK FALSE
