SPECIFICATION Spec
CONSTANTS
  MDecs <- MDecs2
  CDecs <- NoDecs
  BDecs <- NoDecs
  Bodies <- BodiesAll
  Clones <- ClonesAll
  WrapsCopies = TRUE
CONSTRAINT ExportC
INVARIANT TypeOK
INVARIANT SkipMeaning
INVARIANT NothingRuns
INVARIANT RunsNormally
INVARIANT IdMeaning
INVARIANT MarkersMeaning
CHECK_DEADLOCK FALSE
