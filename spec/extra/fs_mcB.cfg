SPECIFICATION Spec
CONSTANTS
  Ids <- Ids3
  InitTests <- Shapes
  Kinds <- AllKinds
  FixKinds <- AllFix
  PreStop <- BOOLEAN
  MaxOps = 1
  FilterSets <- AllSubsets
  CleanInFinally = TRUE
VIEW ViewNoHist
INVARIANT TypeOK
INVARIANT LeavesMeaning
INVARIANT SortMeaning
INVARIANT Bracketed
INVARIANT RunMeaning
CHECK_DEADLOCK FALSE
