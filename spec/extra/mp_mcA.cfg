SPECIFICATION Spec
CONSTANTS
  Slots <- Slots3
  Attrs0 <- Attrs3
  Patches <- PatchesAll3
  InitPend <- NoInit
  MaxSteps = 6
  MaxPend = 2
  MaxOrig = 4
  MaxFn = 1
  FKinds <- AllKinds
  LifoRestore = TRUE
VIEW ViewNoHist
INVARIANT TypeOK
INVARIANT WouldRestore
INVARIANT SavedIffTouched
PROPERTY RestoreMeaning
PROPERTY RestoreIdempotent
PROPERTY PatchAssigns
PROPERTY RunMeaning
PROPERTY AddPatchIsLazy
CHECK_DEADLOCK FALSE
