SPECIFICATION Spec
CONSTANTS
  MDecs <- MDecsS3
  CDecs <- CDecs3
  BDecs <- BDecs2
  Bodies <- BodiesF
  Clones <- NoClone
  WrapsCopies = TRUE
CONSTRAINT ExportC
INVARIANT TypeOK
INVARIANT SkipMeaning
INVARIANT NothingRuns
INVARIANT RunsNormally
INVARIANT IdMeaning
INVARIANT MarkersMeaning
CHECK_DEADLOCK FALSE
