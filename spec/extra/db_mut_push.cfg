SPECIFICATION Spec
CONSTANTS
  Names <- MNames
  InstsOf <- MInsts
  AlphaOf <- MAlpha
  DepthOf <- MDepth
  Py27UxsStops = TRUE
  ExtResetsOk = TRUE
  ShareGivenLog = TRUE
  PushOnStartTest = FALSE

INVARIANT LogMeaning
INVARIANT OkMeaning
INVARIANT StopMeaning
INVARIANT RunsMeaning
INVARIANT TagsMeaning
PROPERTY OneEventPerCall
CHECK_DEADLOCK FALSE
