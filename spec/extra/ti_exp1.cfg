SPECIFICATION Spec
CONSTANTS
  Names <- NamesAll
  NodeKind <- TreeKind
  AltKinds <- AltAll
  CbKinds <- CbAll
  MaxCalls = 1
  CallbackOnce = TRUE
CONSTRAINT ExportC
INVARIANT Denotation
INVARIANT CallbackRule
INVARIANT NoSwallowing
INVARIANT LoopRule
INVARIANT TreeSane
CHECK_DEADLOCK FALSE
