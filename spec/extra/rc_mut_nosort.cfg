SPECIFICATION Spec
CONSTANTS
  Specs <- SpecsMc
  Load <- LoadAll
  SpecErr <- SpecErrAll
  Files <- FilesAll
  ModLoad <- ModLoadAll
  ModErr <- ModErrAll
  Patterns <- PatternsAll
  Match <- MatchAll
  LoadLists <- LoadListsMc
  Modes <- ModesExp
  MaxNames = 1
  SortOnDiscover = FALSE
VIEW ViewNoHist
INVARIANT TypeOK
INVARIANT ListMeaning
INVARIANT RunMeaning
INVARIANT ExitMeaning
INVARIANT SortedWhenDiscovered
INVARIANT LoadListRestricts
INVARIANT ImportErrorNonZero
INVARIANT FailfastStops
CHECK_DEADLOCK FALSE
