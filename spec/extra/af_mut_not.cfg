SPECIFICATION Spec
CONSTANTS
  U <- Univ
  InitProg <- Single
  NotNegates = FALSE
VIEW ViewNoHist
INVARIANT TypeOK
INVARIANT StopsAtFirstFailure
PROPERTY CallMeaning
PROPERTY MessageIncluded
PROPERTY DirectAgrees
CHECK_DEADLOCK FALSE
