----------------------------- MODULE AssertFails -----------------------------
(***************************************************************************)
(* X18 (part 2) - testtools.twistedsupport.assert_fails_with(d, *exc_types, *)
(* failureException=...).                                                   *)
(*                                                                         *)
(* Documented sentences formalised (docstring; doc/twisted-support.rst):    *)
(*  D1 "Assert that d will fail with one of exc_types."  "Equivalent to     *)
(*     Twisted's assertFailure."  (assertFailure: the returned Deferred     *)
(*     fires with the exception; types match like Failure.check, i.e.       *)
(*     subclasses included)                                     Verdict     *)
(*  D2 ":return: A Deferred that will fail with an AssertionError if d does *)
(*     not fail with one of the exception types."  (d fails with another    *)
(*     type, or d succeeds)                                     Verdict     *)
(*  D3 ":param type failureException: An optional keyword argument.  If     *)
(*     provided, will raise that exception instead of                       *)
(*     testtools.TestCase.failureException."                    Verdict     *)
(*  D4 the messages the code composes: "<Actual> raised instead of          *)
(*     <Expected, ...>" and "<Expected, ...> not raised (<result!r>         *)
(*     returned)"                                               Verdict     *)
(*  D5 "The normal way to use this is to return the result ... from your    *)
(*     unit test": it works for a Deferred that fires later as well as for  *)
(*     one that has already fired; nothing is decided before d fires        *)
(*                                                     NothingBeforeFire    *)
(*                                                                         *)
(* MECHANISM: a Deferred as a result slot plus a chain of (callback,        *)
(* errback) pairs run as soon as both a result and a pair are there;        *)
(* assert_fails_with appends the pair (got_success, got_failure).           *)
(* MEANING: a table over (how d ended, exc_types, failureException).        *)
(***************************************************************************)
EXTENDS Naturals, Sequences, FiniteSets, TLC, Json

CONSTANTS
    Endings,      \* how d ends: [k |-> "succ", v |-> result token] or [k |-> "fail", v |-> class]
    TypeTuples,   \* exc_types alphabet (non-empty sequences of classes)
    FExcs,        \* {"default", "custom"}
    SubclassAware \* TRUE = as documented (Failure.check); FALSE = spec mutation (exact type only)

None == "none"
\* Sub < E < Exception ; U < Exception ; KI = KeyboardInterrupt (a BaseException)
IsSub(c, d) == c = d \/ (c = "Sub" /\ d = "E")

VARIABLES
    ending, types, fexc,    \* the scenario
    fired, asserted,
    result,      \* current result of the Deferred: [k |-> "none" | "value" | "failure", ...]           (mechanism)
    chain,       \* pairs not yet run                                                                   (mechanism)
    hist

vars == <<ending, types, fexc, fired, asserted, result, chain, hist>>

NoResult == [k |-> "none", what |-> None, cls |-> None, actual |-> None, res |-> None]
Value(what, cls) == [k |-> "value", what |-> what, cls |-> cls, actual |-> None, res |-> None]
Failure(what, cls, actual, res) == [k |-> "failure", what |-> what, cls |-> cls, actual |-> actual, res |-> res]

Check(c, ts) == \E i \in DOMAIN ts : IF SubclassAware THEN IsSub(c, ts[i]) ELSE c = ts[i]

\* got_success / got_failure
RunPair(r) ==
    IF r.k = "value" THEN Failure("assertion", fexc, None, r.what)            \* "... not raised (<result> returned)"
    ELSE IF Check(r.cls, types) THEN Value("the-exception", r.cls)            \* return failure.value
    ELSE Failure("assertion", fexc, r.cls, None)                              \* "<Actual> raised instead of ..."

Settle(r, c) == IF r.k = "none" \/ c = 0 THEN <<r, c>> ELSE <<RunPair(r), 0>>

Init ==
    /\ ending \in Endings /\ types \in TypeTuples /\ fexc \in FExcs
    /\ fired = FALSE /\ asserted = FALSE /\ result = NoResult /\ chain = 0
    /\ hist = <<[a |-> "init", ending |-> ending, types |-> types, fexc |-> fexc]>>

Fire ==
    /\ ~fired /\ fired' = TRUE
    /\ LET r0 == IF ending.k = "succ" THEN Value(ending.v, None) ELSE Failure("original", ending.v, None, None)
           s == Settle(r0, chain)
       IN result' = s[1] /\ chain' = s[2]
    /\ UNCHANGED <<ending, types, fexc, asserted>>
    /\ hist' = Append(hist, [a |-> "fire", obs |-> IF asserted THEN result' ELSE NoResult])

DoAssert ==
    /\ ~asserted /\ asserted' = TRUE
    /\ LET s == Settle(result, 1) IN result' = s[1] /\ chain' = s[2]
    /\ UNCHANGED <<ending, types, fexc, fired>>
    /\ hist' = Append(hist, [a |-> "assert", obs |-> IF fired THEN result' ELSE NoResult])

Next == Fire \/ DoAssert
Spec == Init /\ [][Next]_vars

-----------------------------------------------------------------------------
(* MEANING *)
Expected(c) == \E i \in DOMAIN types : IsSub(c, types[i])

Verdict ==
    (fired /\ asserted) =>
        CASE ending.k = "fail" /\ Expected(ending.v) ->
                result.k = "value" /\ result.what = "the-exception" /\ result.cls = ending.v            \* D1
          [] ending.k = "fail" /\ ~Expected(ending.v) ->
                result.k = "failure" /\ result.what = "assertion" /\ result.cls = fexc                  \* D2, D3
                  /\ result.actual = ending.v                                                            \* D4
          [] OTHER ->
                result.k = "failure" /\ result.what = "assertion" /\ result.cls = fexc /\ result.res = ending.v

NothingBeforeFire == ~fired => result.k = "none"

Terminal == fired /\ asserted
ExportC == Terminal => PrintT(<<"EXPORT", ToJson(hist)>>)
=============================================================================
