---------------------------- MODULE MCAssertFam ----------------------------
(* Model-checking instances of AssertFam: the value universe and the programs (test bodies). *)
EXTENDS AssertFam

V(ty, eqc, refl, items, chars) == [ty |-> ty, eqc |-> eqc, refl |-> refl, items |-> items, chars |-> chars]

\* names are object identities.  one = 1, tru = True, f1 = 1.0 are equal objects of three types (bool is a subclass of
\* int); big / big2 are two int objects 1000; nan is not equal to itself; sab / sab2 are two str objects "ab";
\* l1 = [one, non, nan] and l1c = [tru, non, nan] are equal lists (the nan is the same object); l2 = [big]; el = []
Names == {"one", "tru", "f1", "big", "big2", "non", "nan", "sa", "sab", "sab2", "es", "l1", "l1c", "l2", "el"}
Univ ==
    [nm \in Names |->
        CASE nm = "one"  -> V("int", "1", TRUE, <<>>, <<>>)
          [] nm = "tru"  -> V("bool", "1", TRUE, <<>>, <<>>)
          [] nm = "f1"   -> V("float", "1", TRUE, <<>>, <<>>)
          [] nm = "big"  -> V("int", "1000", TRUE, <<>>, <<>>)
          [] nm = "big2" -> V("int", "1000", TRUE, <<>>, <<>>)
          [] nm = "non"  -> V("NoneType", "None", TRUE, <<>>, <<>>)
          [] nm = "nan"  -> V("float", "nan", FALSE, <<>>, <<>>)
          [] nm = "sa"   -> V("str", "s:a", TRUE, <<>>, <<"a">>)
          [] nm = "sab"  -> V("str", "s:ab", TRUE, <<>>, <<"a", "b">>)
          [] nm = "sab2" -> V("str", "s:ab", TRUE, <<>>, <<"a", "b">>)
          [] nm = "es"   -> V("str", "s:", TRUE, <<>>, <<>>)
          [] nm = "l1"   -> V("list", "-", TRUE, <<"one", "non", "nan">>, <<>>)
          [] nm = "l1c"  -> V("list", "-", TRUE, <<"tru", "non", "nan">>, <<>>)
          [] nm = "l2"   -> V("list", "-", TRUE, <<"big">>, <<>>)
          [] OTHER       -> V("list", "-", TRUE, <<>>, <<>>)]

Msgs == {None, "", "msg"}
TypeSets == {{"int"}, {"bool"}, {"float"}, {"str"}, {"list"}, {"NoneType"}, {"object"}, {"int", "str"}, {"float", "list"}}

C(api, x, y, K, tup, op, neg, msg, vb) ==
    [api |-> api, x |-> x, y |-> y, K |-> K, tup |-> tup, op |-> op, neg |-> neg, msg |-> msg, vb |-> vb]

\* every single call (chosen field by field: TLC never has to build the set of all calls)
Single(p) ==
    \/ \E api \in {"assertEqual", "assertIs", "assertIsNot", "assertIn", "assertNotIn"}, x \in Names, y \in Names, m \in Msgs :
          /\ Defined(C(api, x, y, {}, FALSE, "-", FALSE, m, FALSE))
          /\ p = <<C(api, x, y, {}, FALSE, "-", FALSE, m, FALSE)>>
    \/ \E api \in {"assertIsNone", "assertIsNotNone"}, y \in Names, m \in Msgs :
          p = <<C(api, "-", y, {}, FALSE, "-", FALSE, m, FALSE)>>
    \/ \E y \in Names, K \in TypeSets, tup \in BOOLEAN, m \in Msgs :
          /\ (tup \/ Cardinality(K) <= 1)
          /\ p = <<C("assertIsInstance", "-", y, K, tup, "-", FALSE, m, FALSE)>>
    \/ \E api \in {"assertThat", "assert_that"}, x \in Names, y \in Names, op \in {"Equals", "Is", "Contains"},
           neg \in BOOLEAN, m \in Msgs, vb \in BOOLEAN :
          /\ Defined(C(api, x, y, {}, FALSE, op, neg, m, vb))
          /\ p = <<C(api, x, y, {}, FALSE, op, neg, m, vb)>>
    \/ \E api \in {"assertThat", "assert_that"}, y \in Names, K \in TypeSets, neg \in BOOLEAN, m \in Msgs, vb \in BOOLEAN :
          p = <<C(api, "-", y, K, FALSE, "IsInstance", neg, m, vb)>>

\* a small alphabet for bodies of two and three calls (some hold, some fail, each api family once)
Small == {C("assertEqual", "one", "f1", {}, FALSE, "-", FALSE, None, FALSE),
          C("assertEqual", "big", "one", {}, FALSE, "-", FALSE, "msg", FALSE),
          C("assertIs", "big", "big2", {}, FALSE, "-", FALSE, "msg", FALSE),
          C("assertIsNot", "l1", "l1c", {}, FALSE, "-", FALSE, None, FALSE),
          C("assertIn", "f1", "l1c", {}, FALSE, "-", FALSE, "", FALSE),
          C("assertNotIn", "sa", "sab", {}, FALSE, "-", FALSE, None, FALSE),
          C("assertIsNone", "-", "el", {}, FALSE, "-", FALSE, None, FALSE),
          C("assertIsNotNone", "-", "nan", {}, FALSE, "-", FALSE, "msg", FALSE),
          C("assertIsInstance", "-", "tru", {"int", "str"}, TRUE, "-", FALSE, None, FALSE),
          C("assertThat", "nan", "nan", {}, FALSE, "Equals", TRUE, "msg", TRUE),
          C("assert_that", "big2", "l2", {}, FALSE, "Contains", FALSE, None, FALSE),
          C("assert_that", "-", "non", {"object"}, FALSE, "IsInstance", TRUE, "msg", FALSE)}
Multi(p) == (\E a \in Small, b \in Small : p = <<a, b>>) \/ (\E a \in Small, b \in Small, c \in Small : p = <<a, b, c>>)
=============================================================================
