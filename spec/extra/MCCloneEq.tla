----------------------------- MODULE MCCloneEq -----------------------------
(* Model-checking instances of CloneEq. *)
EXTENDS CloneEq
ClassesA == {"T", "U"}
ClassesB == {"T"}
MethodsA == {"test_ok", "test_fail"}
NewIdsA == {"n1", "n2"}
NewIdsB == {"n1"}
ExtrasA == {"v", "w"}
ExtrasB == {"v"}
=============================================================================
