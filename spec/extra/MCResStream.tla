---------------------------- MODULE MCResStream ----------------------------
(* Model-checking instances of ResStream: resource kinds, test/outcome/time alphabets, bounds. *)
EXTENDS ResStream

Res(tok, hasid, idval, cls) == [tok |-> tok, hasid |-> hasid, idval |-> idval, clsname |-> cls]
\* R1: class with an id() method; R2: no id attribute at all (falls back to module.ClassName);
\* R3: id given as an instance attribute (as in the repository's own test); R4: a different object whose id()
\* returns the same identifier as R1 (its stages merge with R1's in every consumer keyed by test_id)
R1 == Res("R1", TRUE, "res.one", "mod.WithId")
R2 == Res("R2", FALSE, None, "mod.Plain")
R3 == Res("R3", TRUE, "nice.res", "mod.Plain")
R4 == Res("R4", TRUE, "res.one", "mod.Other")

ResA == {R1, R2, R3}
ResB == {R1, R2}
ResS == {R1, R2, R3, R4}
TestsA == {"t1", "t2"}
TestsB == {"t1"}
OutcomesAll == {"success", "fail", "skip", "xfail", "uxsuccess"}
OutcomesB == {"success", "fail", "skip"}
TimesA == {"1", "2"}
TimesB == {"1"}
=============================================================================
