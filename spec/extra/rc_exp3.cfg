SPECIFICATION Spec
CONSTANTS
  Specs <- SpecsMc
  Load <- LoadAll
  SpecErr <- SpecErrAll
  Files <- FilesAll
  ModLoad <- ModLoadAll
  ModErr <- ModErrAll
  Patterns <- PatternsAll
  Match <- MatchAll
  LoadLists <- NoLists
  Modes <- ModesExp
  MaxNames = 3
  SortOnDiscover = TRUE
CONSTRAINT ExportC
INVARIANT TypeOK
INVARIANT ListMeaning
INVARIANT RunMeaning
INVARIANT ExitMeaning
INVARIANT SortedWhenDiscovered
INVARIANT LoadListRestricts
INVARIANT ImportErrorNonZero
INVARIANT FailfastStops
CHECK_DEADLOCK FALSE
