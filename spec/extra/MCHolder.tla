------------------------------ MODULE MCHolder ------------------------------
(* Model-checking instances of Holder: constructor-argument alphabets, result flavours. *)
EXTENDS Holder

Cfg(id, short, det, outcome, error, tags, ts0, ts1) ==
    [id |-> id, short |-> short, det |-> det, outcome |-> outcome, error |-> error,
     tags |-> tags, ts0 |-> ts0, ts1 |-> ts1]

DetsAll == {{}, {<<"d", "D">>}, {<<"d", "D">>, <<"traceback", "OLD">>}}
TagSets == {{}, {"a"}, {"g"}, {"a", "b"}}

\* PlaceHolder(test_id, short_description, details, outcome, tags=, timestamps=)
PlaceCfgs == {Cfg("t", sh, d, o, FALSE, tg, t0, t1) :
                 sh \in {None, "s"}, d \in DetsAll, o \in Outcomes, tg \in TagSets,
                 t0 \in {None, "1"}, t1 \in {None, "2"}}
\* ErrorHolder(test_id, error, short_description, details): always addError, no tags, no timestamps
ErrorCfgs == {Cfg("t", sh, d, "addError", TRUE, {}, None, None) : sh \in {None, "s"}, d \in DetsAll}
\* PlaceHolder(..., error=...) with tags and timestamps (the constructor ErrorHolder uses)
PlaceErrCfgs == {Cfg("t", None, d, o, TRUE, {"a"}, "1", "2") : d \in DetsAll, o \in {"addError", "addFailure"}}

AllCfgs == PlaceCfgs \cup ErrorCfgs \cup PlaceErrCfgs
AllFlavours == {"ext", "py27", "py26", "none"}
GlobalsA == {{}, {"g"}}
=============================================================================
