SPECIFICATION Spec
CONSTANTS
  Inits <- InitsOne
  RunArgs <- RunsTwo
  OwnSets <- OwnSetsTwo
  FwdNames <- Fwd
  FwdVals <- Vals1
  GetNames <- GetFew
  MaxSteps = 4
  AfterInFinally = TRUE
  OwnTuple <- OwnFull
CONSTRAINT ExportC
INVARIANT CalloutOnce
INVARIANT CaseGetsAltered
INVARIANT NoEarlyCase
INVARIANT BeforePrecedes
INVARIANT AfterFollows
INVARIANT ForwardedView
INVARIANT OwnStaysOwn
PROPERTY ReadYourWrite
CHECK_DEADLOCK FALSE
