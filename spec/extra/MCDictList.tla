----------------------------- MODULE MCDictList -----------------------------
(* Model-checking instances of DictList: key / element alphabets, initial registers. *)
EXTENDS DictList

Keys2 == {"k1", "k2"}
Keys3 == {"k1", "k2", "k3"}
Elems3 == {"x", "y", "z"}

Dicts(K) == UNION {[S -> 0..2] : S \in SUBSET K}
AllD2 == Dicts(Keys2) \X Dicts(Keys2)
AllD3 == Dicts(Keys3) \X Dicts(Keys3)
NoD == {<<Empty, Empty>>}
\* quick tier: every 3-key dict against every 2-key dict
MixD == Dicts(Keys3) \X Dicts(Keys2)

Lists(mx) == UNION {[1..m -> Elems3] : m \in 0..mx}
AllL3 == Lists(3) \X Lists(3)
AllL4 == Lists(4) \X Lists(4)
NoL == {<<Empty, Empty>>}

DictOps == {"map", "filter", "sub", "subrev"}
ListOps == {"lsub", "lsubrev"}
=============================================================================
