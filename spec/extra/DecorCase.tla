------------------------------ MODULE DecorCase ------------------------------
(***************************************************************************)
(* X03 - testtools.testcase.DecorateTestCaseResult.                         *)
(*                                                                         *)
(* Documented sentences formalised (class/constructor docstring,            *)
(* doc/for-framework-folk.rst "DecorateTestCaseResult"):                    *)
(*  D1 "This object calls out to your code when run / __call__ are called   *)
(*     and allows the result object that will be used to run the test to    *)
(*     be altered."  ":param callout: A callback to call when run/__call__  *)
(*     /debug is called. Must take a result parameter and return a result   *)
(*     object to be used."                       CalloutOnce, CaseGetsAltered *)
(*  D2 ":param before_run: If set, call this with the decorated result      *)
(*     before calling into the decorated run/__call__ method."  BeforePrecedes *)
(*  D3 "[after_run]: If set, call this with the decorated result after      *)
(*     calling into the decorated run/__call__ method."  (the code uses     *)
(*     try/finally: also when that method raises)             AfterFollows  *)
(*  D4 "Decorate a TestCase": every attribute other than the decorator's    *)
(*     own four (decorated, callout, before_run, after_run) is the wrapped  *)
(*     case's attribute - get, set and delete.   ForwardedView, OwnStaysOwn *)
(*                                                                         *)
(* MECHANISM: the pc-stepped body of _run (callout; before; try method      *)
(* finally after) and the three attribute hooks (__getattr__ only after     *)
(* the normal lookup in the decorator's own dict failed; __setattr__ with   *)
(* its tuple of own names; __delattr__).  MEANING: predicates over the      *)
(* event list `evs` that the callbacks and the case write, and over the     *)
(* two attribute stores.                                                    *)
(***************************************************************************)
EXTENDS Naturals, Sequences, FiniteSets, TLC, Json

CONSTANTS
    Inits,        \* constructor arguments explored: records [callout, before_run, after_run]
    RunArgs,      \* <<via, result, outcome>>: via \in {"run","call"}, outcome of the case's method \in {"ret","exc","base"}
    OwnSets,      \* <<own slot, value>> assignments explored
    FwdNames,     \* other attribute names
    FwdVals,      \* values assigned to them
    GetNames,     \* names read
    MaxSteps,
    AfterInFinally,  \* TRUE = as required; FALSE = spec mutation (after_run only when the method returned)
    OwnTuple         \* the tuple of names __setattr__ keeps on the decorator (mutation: a name missing)

Absent == "absent"
OwnNames == {"decorated", "callout", "before_run", "after_run"}
AllNames == FwdNames \cup OwnNames
Cases == {"c1", "c2"}

\* result object the callout hands back: k1 = lambda result: result, k2 wraps it into a new object
Altered(k, r) == IF k = "k1" THEN r ELSE "w(" \o r \o ")"

VARIABLES
    own,        \* the decorator's instance dict: [subset of AllNames -> value]      (mechanism)
    cattrs,     \* [Cases -> [AllNames -> value | Absent]] the cases' attributes
    pc,         \* "idle" | "called" | "pre" | "ran"                                  (mechanism)
    cur,        \* the call in progress: [via, r, r2, outcome, raised]
    evs,        \* events of the call in progress / of the last call                 (history)
    snap,       \* own slots as they were when the call started                      (history)
    steps,
    hist

vars == <<own, cattrs, pc, cur, evs, snap, steps, hist>>

-----------------------------------------------------------------------------
(* Mechanism: attribute hooks *)

\* normal lookup first (instance dict), __getattr__ = getattr(self.decorated, name) only when that failed
Lookup(name) ==
    IF name \in DOMAIN own THEN own[name]
    ELSE cattrs[own["decorated"]][name]

\* __setattr__: own names go to self.__dict__, everything else to the decorated case
SetMech(o, c, name, v) ==
    IF name \in OwnTuple
    THEN <<[x \in (DOMAIN o) \cup {name} |-> IF x = name THEN v ELSE o[x]], c>>
    ELSE <<o, [c EXCEPT ![o["decorated"]][name] = v]>>

\* __init__: self.decorated = case; self.callout = ...; self.before_run = ...; self.after_run = ...
Construct(i) ==
    LET c0 == [c \in Cases |-> [nm \in AllNames |-> IF nm = "x" /\ c = "c1" THEN "v0"
                                                   ELSE IF nm = "y" /\ c = "c2" THEN "v0" ELSE Absent]]
        s1 == SetMech(<<>>, c0, "decorated", "c1")
        s2 == SetMech(s1[1], s1[2], "callout", i.callout)
        s3 == SetMech(s2[1], s2[2], "before_run", i.before_run)
        s4 == SetMech(s3[1], s3[2], "after_run", i.after_run)
    IN s4

Obs == [own |-> [nm \in OwnNames |-> Lookup(nm)], cases |-> cattrs]
Log(a, arg, out) == hist' = Append(hist, [a |-> a, arg |-> arg, out |-> out, obs |-> Obs'])

NoCall == [via |-> "none", r |-> "none", r2 |-> "none", outcome |-> "none", raised |-> FALSE]

Init ==
    /\ \E i \in Inits :
          /\ own = Construct(i)[1] /\ cattrs = Construct(i)[2]
          /\ hist = <<[a |-> "init", arg |-> i, out |-> "none",
                       obs |-> [own |-> [nm \in OwnNames |-> Lookup(nm)], cases |-> cattrs]]>>
    /\ pc = "idle" /\ cur = NoCall /\ evs = <<>> /\ steps = 0
    /\ snap = [nm \in OwnNames |-> Lookup(nm)]

-----------------------------------------------------------------------------
(* Mechanism: _run(result, run_method) in four steps *)

\* result = self.callout(result)
StartRun(ra) ==
    /\ pc = "idle" /\ steps < MaxSteps
    /\ LET k == Lookup("callout") IN
       /\ cur' = [via |-> ra[1], r |-> ra[2], r2 |-> Altered(k, ra[2]), outcome |-> ra[3], raised |-> FALSE]
       /\ evs' = <<[ev |-> "callout", who |-> k, arg |-> ra[2]]>>
    /\ snap' = [nm \in OwnNames |-> Lookup(nm)]
    /\ pc' = "called"
    /\ UNCHANGED <<own, cattrs, steps, hist>>

\* if self.before_run: self.before_run(result)
DoBefore ==
    /\ pc = "called"
    /\ evs' = IF Lookup("before_run") # "none"
              THEN Append(evs, [ev |-> "before", who |-> Lookup("before_run"), arg |-> cur.r2]) ELSE evs
    /\ pc' = "pre"
    /\ UNCHANGED <<own, cattrs, cur, snap, steps, hist>>

\* try: return run_method(result)      (run_method = self.decorated.run | self.decorated)
DoCase ==
    /\ pc = "pre"
    /\ evs' = Append(evs, [ev |-> "case", who |-> Lookup("decorated"), via |-> cur.via, arg |-> cur.r2])
    /\ cur' = [cur EXCEPT !.raised = (cur.outcome # "ret")]
    /\ pc' = "ran"
    /\ UNCHANGED <<own, cattrs, snap, steps, hist>>

\* finally: if self.after_run: self.after_run(result)      - the call is over, it is logged as ONE step
DoAfter ==
    /\ pc = "ran"
    /\ evs' = IF Lookup("after_run") # "none" /\ (AfterInFinally \/ ~cur.raised)
              THEN Append(evs, [ev |-> "after", who |-> Lookup("after_run"), arg |-> cur.r2]) ELSE evs
    /\ pc' = "idle"
    /\ steps' = steps + 1
    /\ UNCHANGED <<own, cattrs, cur, snap>>
    /\ Log("run", <<cur.via, cur.r, cur.outcome>>, [ended |-> IF cur.raised THEN cur.outcome ELSE "ret", evs |-> evs'])

-----------------------------------------------------------------------------
(* Attribute access on the decorator *)

GetAttr(nm) ==
    /\ pc = "idle" /\ steps < MaxSteps
    /\ steps' = steps + 1
    /\ UNCHANGED <<own, cattrs, pc, cur, evs, snap>>
    /\ Log("get", nm, IF Lookup(nm) = Absent THEN "AttributeError" ELSE Lookup(nm))

SetAttr(nm, v) ==
    /\ pc = "idle" /\ steps < MaxSteps
    /\ LET s == SetMech(own, cattrs, nm, v) IN own' = s[1] /\ cattrs' = s[2]
    /\ steps' = steps + 1
    /\ UNCHANGED <<pc, cur, evs, snap>>
    /\ Log("set", <<nm, v>>, "none")

\* __delattr__: delattr(self.decorated, name)   (explored for the forwarded names only)
DelAttr(nm) ==
    /\ pc = "idle" /\ steps < MaxSteps
    /\ steps' = steps + 1
    /\ UNCHANGED <<own, pc, cur, evs, snap>>
    /\ LET c == own["decorated"] IN
       IF cattrs[c][nm] = Absent
       THEN /\ UNCHANGED cattrs /\ Log("del", nm, "AttributeError")
       ELSE /\ cattrs' = [cattrs EXCEPT ![c][nm] = Absent] /\ Log("del", nm, "none")

Next ==
    \/ \E ra \in RunArgs : StartRun(ra)
    \/ DoBefore \/ DoCase \/ DoAfter
    \/ \E nm \in GetNames : GetAttr(nm)
    \/ \E s \in OwnSets : SetAttr(s[1], s[2])
    \/ \E nm \in FwdNames, v \in FwdVals : SetAttr(nm, v)
    \/ \E nm \in FwdNames : DelAttr(nm)

Spec == Init /\ [][Next]_vars

-----------------------------------------------------------------------------
(* MEANING: over the events of a call *)

Idx(kind) == {i \in DOMAIN evs : evs[i].ev = kind}
Only(kind) == CHOOSE i \in Idx(kind) : TRUE
Done == pc = "idle" /\ cur.via # "none"      \* a call has completed; evs are its events

\* D1: per call the callout runs exactly once, first, with the caller's result
CalloutOnce ==
    (pc # "idle") \/ Done =>
        /\ Cardinality(Idx("callout")) = 1
        /\ evs[1].ev = "callout" /\ evs[1].arg = cur.r /\ evs[1].who = snap["callout"]

\* D1: the wrapped case is run exactly once per call, through the method the caller used, with the result
\* the callout returned - never with the caller's own result when the callout altered it
CaseGetsAltered ==
    (pc = "ran" \/ Done) =>
        /\ Cardinality(Idx("case")) = 1
        /\ LET e == evs[Only("case")] IN
              e.who = snap["decorated"] /\ e.via = cur.via /\ e.arg = Altered(snap["callout"], cur.r)
NoEarlyCase == (pc = "called" \/ pc = "pre") => Idx("case") = {}

\* D2: a before_run hook runs once, with the altered result, after the callout and before the case; none if unset
BeforePrecedes ==
    (pc \in {"pre", "ran"} \/ Done) =>
        IF snap["before_run"] = "none" THEN Idx("before") = {}
        ELSE /\ Cardinality(Idx("before")) = 1
             /\ evs[Only("before")].who = snap["before_run"]
             /\ evs[Only("before")].arg = Altered(snap["callout"], cur.r)
             /\ Only("before") > Only("callout")
             /\ \A i \in Idx("case") : Only("before") < i

\* D3: an after_run hook runs once, with the altered result, after the case - however the case's method ended;
\* never before the case
AfterFollows ==
    /\ Done =>
        IF snap["after_run"] = "none" THEN Idx("after") = {}
        ELSE /\ Cardinality(Idx("after")) = 1
             /\ evs[Only("after")].who = snap["after_run"]
             /\ evs[Only("after")].arg = Altered(snap["callout"], cur.r)
             /\ Only("after") > Only("case")
    /\ ~Done => Idx("after") = {}

-----------------------------------------------------------------------------
(* MEANING: attributes *)

\* D4: what the decorator shows for a non-own name is what the wrapped case holds
ForwardedView == \A nm \in FwdNames : Lookup(nm) = cattrs[Lookup("decorated")][nm]

\* D4: the decorator keeps exactly its own four names, and never plants them on a case
OwnStaysOwn ==
    /\ DOMAIN own = OwnNames
    /\ \A c \in Cases : \A nm \in OwnNames : cattrs[c][nm] = Absent

\* reading back what was just assigned gives the assigned value, wherever it went
ReadYourWrite ==
    [][(Len(hist') = Len(hist) + 1 /\ hist'[Len(hist')].a = "set") =>
          LET h == hist'[Len(hist')] IN
          /\ h.obs.own = [nm \in OwnNames |-> IF nm = h.arg[1] THEN h.arg[2] ELSE Lookup(nm)]
          /\ (h.arg[1] \in FwdNames => cattrs'[own["decorated"]][h.arg[1]] = h.arg[2])]_vars

-----------------------------------------------------------------------------
Terminal == steps = MaxSteps /\ pc = "idle"
ExportC == Terminal => PrintT(<<"EXPORT", ToJson(hist)>>)
ViewNoHist == <<own, cattrs, pc, cur, evs, snap, steps>>
=============================================================================
