SPECIFICATION Spec
CONSTANTS
  Keys <- Keys2
  Elems <- Elems3
  InitD <- AllD2
  InitL <- NoL
  Ops <- DictOps
  MaxSteps = 2
  RemoveFirstOnly = TRUE
CONSTRAINT ExportC
INVARIANT TypeOK
PROPERTY MapMeaning
PROPERTY FilterMeaning
PROPERTY SubMeaning
PROPERTY LSubMeaning
CHECK_DEADLOCK FALSE
