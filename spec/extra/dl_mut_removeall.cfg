SPECIFICATION Spec
CONSTANTS
  Keys <- Keys2
  Elems <- Elems3
  InitD <- NoD
  InitL <- AllL3
  Ops <- ListOps
  MaxSteps = 2
  RemoveFirstOnly = FALSE
VIEW ViewNoHist
INVARIANT TypeOK
INVARIANT Laws
PROPERTY MapMeaning
PROPERTY FilterMeaning
PROPERTY SubMeaning
PROPERTY LSubMeaning
CHECK_DEADLOCK FALSE
