------------------------------ MODULE MCExcRules ------------------------------
(* Model-checking instances of ExcRules: frame and body alphabets. *)
EXTENDS ExcRules

Foo == <<"f", "o", "o">>
XFoo == <<"x", "f", "o", "o">>
P1 == <<"f", "o">>       \* matches foo, not xfoo
P2 == <<"o", "o">>       \* found inside both, matches (anchored) neither

F(api, exp, rek, rev, ann) == [api |-> api, exp |-> exp, rek |-> rek, rev |-> rev, ann |-> ann]

ValueCfgs == {<<"none", <<>>>>, <<"re", P1>>, <<"re", P2>>, <<"re", <<>>>>, <<"m", <<"ok">>>>, <<"m", <<"bad">>>>}

EEFrames == {F("EE", {c}, v[1], v[2], FALSE) : c \in {"E", "Sub", "U", "KI"}, v \in ValueCfgs}
              \cup {F("EE", {c}, "re", P1, TRUE) : c \in {"E", "Sub", "KI"}}
              \cup {F("EE", {c}, "m", <<"bad">>, TRUE) : c \in {"E"}}
              \cup {F("EE", {"AE"}, "none", <<>>, FALSE), F("EE", {"ME"}, "none", <<>>, FALSE)}
ARFrames == {F("AR", s, "none", <<>>, FALSE) : s \in {{"E"}, {"Sub"}, {"U"}, {"KI"}, {"AE"}, {"ME"}, {"E", "V"}}}
RMFrames == {F("RM", s, v[1], v[2], FALSE) : s \in {{"E"}, {"Sub"}, {"KI"}, {"E", "V"}},
                                             v \in {<<"none", <<>>>>, <<"re", P1>>, <<"re", P2>>, <<"m", <<"bad">>>>}}
              \cup {F("RM", {}, "nomatcher", <<>>, FALSE)}
              \cup {F("RM", {"E"}, "inst", Foo, FALSE), F("RM", {"KI"}, "inst", Foo, FALSE)}
InnerAll == EEFrames \cup ARFrames \cup RMFrames

OuterSome == {F("EE", {"E"}, "none", <<>>, FALSE), F("EE", {"Sub"}, "none", <<>>, FALSE), F("EE", {"KI"}, "none", <<>>, FALSE),
              F("EE", {"AE"}, "none", <<>>, FALSE), F("EE", {"E"}, "re", P1, FALSE), F("EE", {"U"}, "m", <<"bad">>, FALSE),
              F("AR", {"E"}, "none", <<>>, FALSE), F("AR", {"AE"}, "none", <<>>, FALSE), F("AR", {"KI"}, "none", <<>>, FALSE),
              F("AR", {"E", "V"}, "none", <<>>, FALSE),
              F("RM", {"E"}, "none", <<>>, FALSE), F("RM", {"KI"}, "none", <<>>, FALSE), F("RM", {}, "nomatcher", <<>>, FALSE),
              F("RM", {"E", "V"}, "re", P1, FALSE), F("RM", {"AE"}, "none", <<>>, FALSE)}
\* outer frames for the exhaustive (not exported) instance: everything that never puts a pattern against a generated message
OuterAll == {f \in InnerAll : ~("ME" \in f.exp)}

BodiesAll == {Ret} \cup {Raise(c, m, "no") : c \in {"E", "Sub", "U", "V", "KI"}, m \in {Foo, XFoo}}
                   \cup {Raise("AE", Foo, "no"), Raise("ME", Foo, "no")}
=============================================================================
