------------------------------ MODULE SkipAttr ------------------------------
(***************************************************************************)
(* X10 - the skip decorators and test attributes of testtools.testcase:     *)
(* skip, skipIf, skipUnless (on methods, on classes, inherited from a base  *)
(* class, mixed with unittest's own decorators), attr + WithAttributes,     *)
(* clone_test_with_new_id.                                                  *)
(*                                                                         *)
(* Documented sentences formalised:                                         *)
(*  D1 skip: "A decorator to skip unit tests.  This is just syntactic sugar *)
(*     so users don't have to change any of their unit tests in order to    *)
(*     migrate to python 2.7, which provides the @unittest.skip decorator." *)
(*     skipIf: "A decorator to skip a test if the condition is true."       *)
(*     skipUnless: "A decorator to skip a test unless the condition is      *)
(*     true."                                          Applies, SkipMeaning *)
(*  D2 NEWS 2.5.0: "The skip, skipIf, and skipUnless decorators can now be  *)
(*     used as class decorators as well as test method decorators, just as  *)
(*     they can in unittest."  (unittest: a skipped class skips every test  *)
(*     of it, subclasses included; the decorators stack)        SkipMeaning *)
(*  D3 NEWS 1.2.0: "Fix an issue where tests skipped with the skip* family  *)
(*     of decorators would still have their setUp and tearDown functions    *)
(*     called."; comment in skip(): "the entire test must be skipped -      *)
(*     including setUp and tearDown.  This makes us compatible with         *)
(*     [unittest's] skip* functions, which set the same attributes."        *)
(*                                                   SkipMeaning, NothingRuns *)
(*  D4 for-test-authors.rst "Skipping tests": "reported as a skipped test,  *)
(*     rather than a success, error or failure" (one addSkip carrying the   *)
(*     reason between startTest and stopTest); a test that is not skipped   *)
(*     by a decorator runs normally: setUp, the method, tearDown, cleanups, *)
(*     one outcome                                              RunsNormally *)
(*  D5 attr: "Decorator for adding attributes to WithAttributes. :return: A *)
(*     callable that when applied to a WithAttributes will alter its id to  *)
(*     enumerate the added attributes."  WithAttributes: "A mix-in class    *)
(*     for modifying test id by attributes ... MyTest('test_bar').id() ->   *)
(*     ...test_bar[foo]"; for-test-authors.rst "Test attributes": "marking  *)
(*     up test methods with attributes, which are then exposed in the test  *)
(*     id and can be used when filtering tests by id" with the stacked      *)
(*     example @attr('or') @attr('stacked'); the ids are deterministic:     *)
(*     the names sorted, comma separated, in brackets            IdMeaning  *)
(*  D6 clone_test_with_new_id: "Copy a TestCase, and give the copied test a *)
(*     new id."                                       IdMeaning (clone = T) *)
(*                                                                         *)
(* A behaviour: Init chooses a description (decorators on the method, on    *)
(* the class, on its base class, in order of application; what the method   *)
(* body does; whether a clone is run).  MECHANISM: the decorators are       *)
(* applied one by one to a function object / class object carrying the      *)
(* marker attributes (functools.wraps copies the wrapped function's         *)
(* attribute dictionary), then RunTest._run_core's steps.  MEANING: sets    *)
(* over the description only.                                               *)
(***************************************************************************)
EXTENDS Naturals, Sequences, FiniteSets, TLC, Json

CONSTANTS
    MDecs,        \* set of decorator sequences for the method (application order: innermost first)
    CDecs,        \* set of decorator sequences for the test's own class
    BDecs,        \* set of decorator sequences for its base class
    Bodies,       \* subset of {"pass", "fail", "skips"}: what the method body does
    Clones,       \* subset of BOOLEAN: run a clone_test_with_new_id copy instead of the test itself
    WrapsCopies   \* TRUE = as coded (functools.wraps carries attributes over); FALSE = spec mutation

None == "none"

\* decorator: [t, lib, cond, args]
\*   t "skip" | "skipIf" | "skipUnless" (lib "tt" = testtools, "ut" = unittest; cond "True" | "False" | "truthy" | "falsy")
\*   t "attr" (args = set of attribute names; names are naturals ordered like the concrete strings)
Skipper(lib, t, cond) == [t |-> t, lib |-> lib, cond |-> cond, args |-> {}]
Attr(S) == [t |-> "attr", lib |-> "tt", cond |-> "-", args |-> S]
Truth(c) == c \in {"True", "truthy"}

\* the reason given to the i-th decorator of a place: all reasons of a behaviour are distinct
ReasonOf(place, i) ==
    CASE place = "m" -> (CASE i = 1 -> "m1" [] i = 2 -> "m2" [] i = 3 -> "m3" [] OTHER -> "m4")
      [] place = "c" -> (CASE i = 1 -> "c1" [] OTHER -> "c2")
      [] OTHER -> (CASE i = 1 -> "b1" [] OTHER -> "b2")

VARIABLES
    desc,      \* [mdecs, cdecs, bdecs, body, clone]                                     (input, constant)
    pc,
    i,         \* decorator index
    fn,        \* the (possibly wrapped) function: [flag, why, attrs, wrappers]           (mechanism)
    cls,       \* marker attributes in the class's own dict: [flag, why]                  (mechanism)
    base,      \* ... in the base class's dict                                            (mechanism)
    tid,       \* observed id: [new, attrs]                                               (mechanism)
    events,    \* what the result and the test's own log saw, in order
    hist

vars == <<desc, pc, i, fn, cls, base, tid, events, hist>>

-----------------------------------------------------------------------------
(* Mechanism *)

Plain == [flag |-> FALSE, why |-> None]

\* skip(reason)(item) for a function: functools.wraps(test_item)(skip_wrapper) copies __dict__, then the markers are set
WrapFn(f, reason) ==
    [flag |-> TRUE, why |-> reason, attrs |-> IF WrapsCopies THEN f.attrs ELSE {}, wrappers |-> f.wrappers + 1]

Fires(d) ==
    CASE d.t = "skip" -> TRUE
      [] d.t = "skipIf" -> Truth(d.cond)            \* if condition: return skip(reason)
      [] d.t = "skipUnless" -> ~Truth(d.cond)       \* if not condition: return skip(reason)
      [] OTHER -> FALSE

ApplyFn(f, d, reason) ==
    IF d.t = "attr" THEN [f EXCEPT !.attrs = @ \cup d.args]       \* fn.__testtools_attrs.update(args)
    ELSE IF Fires(d) THEN WrapFn(f, reason) ELSE f                \* _id

ApplyCls(c, d, reason) == IF Fires(d) THEN [flag |-> TRUE, why |-> reason] ELSE c

\* getattr(self.case, "__unittest_skip__", False): own class first, then the base class
CaseFlag == cls.flag \/ base.flag
CaseWhy == IF cls.flag THEN cls.why ELSE base.why

RECURSIVE InsertNat(_, _)
InsertNat(s, x) == IF s = <<>> THEN <<x>> ELSE IF x < Head(s) THEN <<x>> \o s ELSE <<Head(s)>> \o InsertNat(Tail(s), x)
RECURSIVE SortSet(_)
SortSet(S) == IF S = {} THEN <<>> ELSE LET x == CHOOSE y \in S : TRUE IN InsertNat(SortSet(S \ {x}), x)

-----------------------------------------------------------------------------
(* MEANING, part 1: what the description asks for (sets over desc only; also exported with the behaviour) *)

\* D1: which decorators ask for a skip
Applies(d) ==
    \/ d.t = "skip"
    \/ d.t = "skipIf" /\ d.cond \in {"True", "truthy"}
    \/ d.t = "skipUnless" /\ d.cond \in {"False", "falsy"}

ReasonsAt(place, q) == {ReasonOf(place, j) : j \in {x \in DOMAIN q : Applies(q[x])}}
\* D2: on the method, on the class, on a class it inherits from
Reasons == ReasonsAt("m", desc.mdecs) \cup ReasonsAt("c", desc.cdecs) \cup ReasonsAt("b", desc.bdecs)
Skipped == Reasons # {}

AllAttrs == UNION {desc.mdecs[j].args : j \in {x \in DOMAIN desc.mdecs : desc.mdecs[x].t = "attr"}}

-----------------------------------------------------------------------------
(* Mechanism, continued: the actions *)

Ev(k, arg) == [k |-> k, arg |-> arg]
Log(a, arg) == hist' = Append(hist, [a |-> a, arg |-> arg, events |-> events', id |-> tid'])

Init ==
    /\ \E m \in MDecs, c \in CDecs, b \in BDecs, bd \in Bodies, cl \in Clones :
          desc = [mdecs |-> m, cdecs |-> c, bdecs |-> b, body |-> bd, clone |-> cl]
    /\ pc = "method" /\ i = 1
    /\ fn = [flag |-> FALSE, why |-> None, attrs |-> {}, wrappers |-> 0]
    /\ cls = Plain /\ base = Plain
    /\ tid = [new |-> FALSE, attrs |-> <<>>]
    /\ events = <<>>
    /\ hist = <<[a |-> "init", arg |-> desc, reasons |-> Reasons, attrs |-> AllAttrs]>>

DecorateMethod ==
    /\ pc = "method" /\ i <= Len(desc.mdecs)
    /\ fn' = ApplyFn(fn, desc.mdecs[i], ReasonOf("m", i))
    /\ i' = i + 1
    /\ UNCHANGED <<desc, pc, cls, base, tid, events>>
    /\ Log("decorate-method", desc.mdecs[i])

MethodDone ==
    /\ pc = "method" /\ i > Len(desc.mdecs)
    /\ pc' = "base" /\ i' = 1
    /\ UNCHANGED <<desc, fn, cls, base, tid, events>>
    /\ Log("class-body", None)

DecorateBase ==
    /\ pc = "base" /\ i <= Len(desc.bdecs)
    /\ base' = ApplyCls(base, desc.bdecs[i], ReasonOf("b", i))
    /\ i' = i + 1
    /\ UNCHANGED <<desc, pc, fn, cls, tid, events>>
    /\ Log("decorate-base", desc.bdecs[i])

BaseDone ==
    /\ pc = "base" /\ i > Len(desc.bdecs)
    /\ pc' = "class" /\ i' = 1
    /\ UNCHANGED <<desc, fn, cls, base, tid, events>>
    /\ Log("subclass", None)

DecorateClass ==
    /\ pc = "class" /\ i <= Len(desc.cdecs)
    /\ cls' = ApplyCls(cls, desc.cdecs[i], ReasonOf("c", i))
    /\ i' = i + 1
    /\ UNCHANGED <<desc, pc, fn, base, tid, events>>
    /\ Log("decorate-class", desc.cdecs[i])

\* Class("test_m") - and clone_test_with_new_id(test, "new id") when asked for
Construct ==
    /\ pc = "class" /\ i > Len(desc.cdecs)
    /\ pc' = "id"
    /\ UNCHANGED <<desc, i, fn, cls, base, tid, events>>
    /\ Log(IF desc.clone THEN "construct-clone" ELSE "construct", None)

\* test.id(): the clone's id attribute shadows WithAttributes.id
GetId ==
    /\ pc = "id"
    /\ tid' = IF desc.clone THEN [new |-> TRUE, attrs |-> <<>>] ELSE [new |-> FALSE, attrs |-> SortSet(fn.attrs)]
    /\ pc' = "start"
    /\ UNCHANGED <<desc, i, fn, cls, base, events>>
    /\ Log("id", None)

StartTest ==
    /\ pc = "start"
    /\ events' = Append(events, Ev("startTest", None))
    /\ pc' = "check"
    /\ UNCHANGED <<desc, i, fn, cls, base, tid>>
    /\ Log("startTest", None)

\* _run_core: skip_case = getattr(case, "__unittest_skip__", False); if skip_case or getattr(method, ...): addSkip; return
CheckSkip ==
    /\ pc = "check"
    /\ IF CaseFlag \/ fn.flag
       THEN /\ events' = Append(events, Ev("addSkip", IF CaseFlag THEN CaseWhy ELSE fn.why))
            /\ pc' = "stop"
       ELSE /\ events' = Append(events, Ev("setUp", None))
            /\ pc' = "body"
    /\ UNCHANGED <<desc, i, fn, cls, base, tid>>
    /\ Log("check-skip", None)

\* the method is called; a wrapper would raise skipException, but an un-flagged function never has one
Body ==
    /\ pc = "body"
    /\ Assert(fn.wrappers = 0 \/ fn.flag, "a wrapped function without the marker")
    /\ events' = Append(events, Ev("body", None))
    /\ pc' = "teardown"
    /\ UNCHANGED <<desc, i, fn, cls, base, tid>>
    /\ Log("body", desc.body)

TearDown ==
    /\ pc = "teardown"
    /\ events' = events \o <<Ev("tearDown", None), Ev("cleanup", None)>>
    /\ pc' = "outcome"
    /\ UNCHANGED <<desc, i, fn, cls, base, tid>>
    /\ Log("tearDown+cleanups", None)

Outcome ==
    /\ pc = "outcome"
    /\ events' = Append(events, CASE desc.body = "pass" -> Ev("addSuccess", None)
                                  [] desc.body = "fail" -> Ev("addFailure", None)
                                  [] OTHER -> Ev("addSkip", "body"))
    /\ pc' = "stop"
    /\ UNCHANGED <<desc, i, fn, cls, base, tid>>
    /\ Log("outcome", None)

StopTest ==
    /\ pc = "stop"
    /\ events' = Append(events, Ev("stopTest", None))
    /\ pc' = "done"
    /\ UNCHANGED <<desc, i, fn, cls, base, tid>>
    /\ Log("stopTest", None)

Next == DecorateMethod \/ MethodDone \/ DecorateBase \/ BaseDone \/ DecorateClass \/ Construct \/ GetId
        \/ StartTest \/ CheckSkip \/ Body \/ TearDown \/ Outcome \/ StopTest

Spec == Init /\ [][Next]_vars

-----------------------------------------------------------------------------
(* MEANING, part 2: the invariants *)

Kinds(q) == [j \in DOMAIN q |-> q[j].k]
Done == pc = "done"

\* D3/D4: exactly one skip with one of the reasons given, nothing else
SkipMeaning ==
    (Done /\ Skipped) =>
        /\ Kinds(events) = <<"startTest", "addSkip", "stopTest">>
        /\ events[2].arg \in Reasons

\* D3, at every step: no part of a decorator-skipped test ever runs
NothingRuns ==
    Skipped => \A j \in DOMAIN events : events[j].k \notin {"setUp", "body", "tearDown", "cleanup"}

\* D4: everything else runs normally
RunsNormally ==
    (Done /\ ~Skipped) =>
        /\ Kinds(SubSeq(events, 1, 5)) = <<"startTest", "setUp", "body", "tearDown", "cleanup">>
        /\ Len(events) = 7 /\ events[7].k = "stopTest"
        /\ events[6] = (CASE desc.body = "pass" -> Ev("addSuccess", None)
                          [] desc.body = "fail" -> Ev("addFailure", None)
                          [] OTHER -> Ev("addSkip", "body"))

\* D5/D6
IdMeaning ==
    (pc \notin {"method", "base", "class", "id"}) =>
        IF desc.clone THEN tid.new /\ tid.attrs = <<>>
        ELSE /\ ~tid.new
             /\ {tid.attrs[j] : j \in DOMAIN tid.attrs} = AllAttrs
             /\ \A j1, j2 \in DOMAIN tid.attrs : j1 < j2 => tid.attrs[j1] < tid.attrs[j2]

\* the order of application does not matter: verdict and id depend on the decorators as sets only
\* (SkipMeaning / RunsNormally / IdMeaning are written over sets; this states it for the mechanism's markers)
MarkersMeaning ==
    (pc \notin {"method", "base", "class"}) =>
        /\ (CaseFlag \/ fn.flag) <=> Skipped
        /\ fn.attrs = AllAttrs

TypeOK ==
    /\ pc \in {"method", "base", "class", "id", "start", "check", "body", "teardown", "outcome", "stop", "done"}
    /\ Len(events) <= 7

-----------------------------------------------------------------------------
Terminal == pc = "done"
ExportC == Terminal => PrintT(<<"EXPORT", ToJson(hist)>>)
ViewNoHist == <<desc, pc, i, fn, cls, base, tid, events>>
=============================================================================
