SPECIFICATION Spec
CONSTANTS
  Cases <- CasesQuick
  Letters <- LettersAB
  Leftmost = TRUE
CONSTRAINT ExportC
INVARIANT TypeOK
INVARIANT NlRule
INVARIANT NormMeaning
INVARIANT LoopMeaning
INVARIANT VerdictMeaning
INVARIANT BlankLineReading
INVARIANT IdenticalAlwaysMatch
CHECK_DEADLOCK FALSE
