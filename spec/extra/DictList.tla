------------------------------ MODULE DictList ------------------------------
(***************************************************************************)
(* X16 (part 2) - the pure helpers of testtools.helpers: map_values,        *)
(* filter_values, dict_subtract, list_subtract  (try_import is X07).        *)
(*                                                                         *)
(* Documented sentences formalised (testtools/helpers.py docstrings):       *)
(*  D1 map_values: "Map function across the values of dictionary.           *)
(*     :return: A dict with the same keys as dictionary, where the value of *)
(*     each key k is function(dictionary[k])."                  MapMeaning  *)
(*  D2 filter_values: "Filter dictionary by its values using function."     *)
(*     (filter, as the builtin: exactly the items whose value the function  *)
(*     accepts)                                               FilterMeaning *)
(*  D3 dict_subtract: "Return the part of a that's not in b."   SubMeaning  *)
(*  D4 list_subtract: "Return a list a without the elements of b.  If a     *)
(*     particular value is in a twice and b once then the returned list     *)
(*     then that value will appear once in the returned list."              *)
(*     (the result is a with some elements taken out - a subsequence - and  *)
(*     every value occurs count_a - count_b times, never less than 0)       *)
(*                                                             LSubMeaning  *)
(*  D5 each of them RETURNS a dict / list: the arguments are left as they   *)
(*     are (registers not assigned by an action are unchanged)              *)
(*                                                                         *)
(* A behaviour: two dict registers dA, dB and two list registers lA, lB     *)
(* (chosen by Init), then a sequence of calls, each storing its result in   *)
(* a register.  MECHANISM: the comprehensions / loops of the code as folds  *)
(* over the iteration order.  MEANING: set / function algebra over graphs   *)
(* and occurrence counts; Laws states the algebra the definitions imply     *)
(* (composition, commutation, partition, idempotence), checked in every     *)
(* state for every function and predicate of the alphabets.                 *)
(***************************************************************************)
EXTENDS Naturals, Sequences, FiniteSets, TLC, Json

CONSTANTS
    Keys,         \* dictionary keys
    Elems,        \* list elements
    InitD,        \* set of <<dA, dB>> initial dict registers (functions from subsets of Keys to 0..2)
    InitL,        \* set of <<lA, lB>> initial list registers
    Ops,          \* subset of {"map", "filter", "sub", "subrev", "lsub", "lsubrev"}
    MaxSteps,
    RemoveFirstOnly   \* TRUE = as coded (list.remove takes out ONE occurrence); FALSE = spec mutation

Fns == {"id", "inc", "zero", "dbl"}
F(f, v) == CASE f = "id" -> v [] f = "inc" -> (v + 1) % 3 [] f = "zero" -> 0 [] OTHER -> (2 * v) % 3
Preds == {"truthy", "lt2", "is1", "none", "all"}
P(p, v) == CASE p = "truthy" -> v # 0 [] p = "lt2" -> v < 2 [] p = "is1" -> v = 1 [] p = "none" -> FALSE [] OTHER -> TRUE

VARIABLES dA, dB, lA, lB, n, hist
vars == <<dA, dB, lA, lB, n, hist>>

Empty == <<>>      \* the empty function = the empty dict = the empty list

-----------------------------------------------------------------------------
(* Mechanism *)

RECURSIVE SetToOrder(_)
\* an iteration order of a set of keys (dict order for the comprehensions; arbitrary for a set)
SetToOrder(S) == IF S = {} THEN <<>> ELSE LET x == CHOOSE y \in S : TRUE IN <<x>> \o SetToOrder(S \ {x})

RECURSIVE MapLoop(_, _, _, _)
\* {k: function(dictionary[k]) for k in dictionary}
MapLoop(Fn(_), d, ks, r) == IF ks = <<>> THEN r ELSE MapLoop(Fn, d, Tail(ks), r @@ (Head(ks) :> Fn(d[Head(ks)])))
MapMech(Fn(_), d) == MapLoop(Fn, d, SetToOrder(DOMAIN d), Empty)

RECURSIVE FilterLoop(_, _, _, _)
\* {k: v for k, v in dictionary.items() if function(v)}
FilterLoop(Pr(_), d, ks, r) ==
    IF ks = <<>> THEN r
    ELSE FilterLoop(Pr, d, Tail(ks), IF Pr(d[Head(ks)]) THEN r @@ (Head(ks) :> d[Head(ks)]) ELSE r)
FilterMech(Pr(_), d) == FilterLoop(Pr, d, SetToOrder(DOMAIN d), Empty)

RECURSIVE SubLoop(_, _, _)
\* {k: a[k] for k in set(a) - set(b)}
SubLoop(a, ks, r) == IF ks = <<>> THEN r ELSE SubLoop(a, Tail(ks), r @@ (Head(ks) :> a[Head(ks)]))
SubMech(a, b) == SubLoop(a, SetToOrder(DOMAIN a \ DOMAIN b), Empty)

RECURSIVE RemoveFirst(_, _)
\* list.remove(x): take out the first element equal to x
RemoveFirst(s, x) == IF s = <<>> THEN <<>> ELSE IF Head(s) = x THEN Tail(s) ELSE <<Head(s)>> \o RemoveFirst(Tail(s), x)
RemoveAll(s, x) == SelectSeq(s, LAMBDA e : e # x)
Has(s, x) == \E i \in DOMAIN s : s[i] = x

RECURSIVE LSubLoop(_, _)
\* a_only = list(a); for x in b: if x in a_only: a_only.remove(x)
LSubLoop(r, b) ==
    IF b = <<>> THEN r
    ELSE LSubLoop(IF Has(r, Head(b)) THEN (IF RemoveFirstOnly THEN RemoveFirst(r, Head(b)) ELSE RemoveAll(r, Head(b))) ELSE r,
                  Tail(b))
LSubMech(a, b) == LSubLoop(a, b)

-----------------------------------------------------------------------------
Log(a, arg) == hist' = Append(hist, [a |-> a, arg |-> arg, dA |-> dA', dB |-> dB', lA |-> lA', lB |-> lB'])

Init ==
    /\ \E p \in InitD : dA = p[1] /\ dB = p[2]
    /\ \E p \in InitL : lA = p[1] /\ lB = p[2]
    /\ n = 0
    /\ hist = <<[a |-> "init", arg |-> "none", dA |-> dA, dB |-> dB, lA |-> lA, lB |-> lB]>>

MapValues(f) ==
    /\ "map" \in Ops /\ n < MaxSteps
    /\ dA' = MapMech(LAMBDA v : F(f, v), dA)
    /\ UNCHANGED <<dB, lA, lB>> /\ n' = n + 1 /\ Log("map", f)

FilterValues(p) ==
    /\ "filter" \in Ops /\ n < MaxSteps
    /\ dA' = FilterMech(LAMBDA v : P(p, v), dA)
    /\ UNCHANGED <<dB, lA, lB>> /\ n' = n + 1 /\ Log("filter", p)

\* dA = dict_subtract(dA, dB)
DictSubtract ==
    /\ "sub" \in Ops /\ n < MaxSteps
    /\ dA' = SubMech(dA, dB)
    /\ UNCHANGED <<dB, lA, lB>> /\ n' = n + 1 /\ Log("sub", "none")

\* dB = dict_subtract(dB, dA)
DictSubtractRev ==
    /\ "subrev" \in Ops /\ n < MaxSteps
    /\ dB' = SubMech(dB, dA)
    /\ UNCHANGED <<dA, lA, lB>> /\ n' = n + 1 /\ Log("subrev", "none")

\* lA = list_subtract(lA, lB)
ListSubtract ==
    /\ "lsub" \in Ops /\ n < MaxSteps
    /\ lA' = LSubMech(lA, lB)
    /\ UNCHANGED <<dA, dB, lB>> /\ n' = n + 1 /\ Log("lsub", "none")

\* lB = list_subtract(lB, lA)
ListSubtractRev ==
    /\ "lsubrev" \in Ops /\ n < MaxSteps
    /\ lB' = LSubMech(lB, lA)
    /\ UNCHANGED <<dA, dB, lA>> /\ n' = n + 1 /\ Log("lsubrev", "none")

Next ==
    \/ \E f \in Fns : MapValues(f)
    \/ \E p \in Preds : FilterValues(p)
    \/ DictSubtract \/ DictSubtractRev \/ ListSubtract \/ ListSubtractRev

Spec == Init /\ [][Next]_vars

-----------------------------------------------------------------------------
(* MEANING: graphs and occurrence counts *)

Graph(d) == {<<k, d[k]>> : k \in DOMAIN d}
Count(s, e) == Cardinality({i \in DOMAIN s : s[i] = e})
Monus(x, y) == IF x >= y THEN x - y ELSE 0

RECURSIVE IsSubseq(_, _)
IsSubseq(r, a) ==
    IF r = <<>> THEN TRUE ELSE IF a = <<>> THEN FALSE
    ELSE IF Head(r) = Head(a) THEN IsSubseq(Tail(r), Tail(a)) ELSE IsSubseq(r, Tail(a))

IsMap(r, f, d) == DOMAIN r = DOMAIN d /\ \A k \in DOMAIN d : r[k] = F(f, d[k])
IsFilter(r, p, d) == Graph(r) = {kv \in Graph(d) : P(p, kv[2])}
IsSub(r, a, b) ==
    /\ Graph(r) \subseteq Graph(a)                          \* a part of a
    /\ DOMAIN r \cap DOMAIN b = {}                          \* that is not in b
    /\ \A k \in DOMAIN a \ DOMAIN b : k \in DOMAIN r        \* all of it
IsLSub(r, a, b) ==
    /\ IsSubseq(r, a)
    /\ \A e \in Elems : Count(r, e) = Monus(Count(a, e), Count(b, e))

Did(a) == Len(hist') = Len(hist) + 1 /\ hist'[Len(hist')].a = a
LastH == hist'[Len(hist')]

MapMeaning == [][Did("map") => IsMap(dA', LastH.arg, dA)]_vars
FilterMeaning == [][Did("filter") => IsFilter(dA', LastH.arg, dA)]_vars
SubMeaning == [][(Did("sub") => IsSub(dA', dA, dB)) /\ (Did("subrev") => IsSub(dB', dB, dA))]_vars
LSubMeaning == [][(Did("lsub") => IsLSub(lA', lA, lB)) /\ (Did("lsubrev") => IsLSub(lB', lB, lA))]_vars

\* the algebra these definitions imply, for the registers of every reachable state
Compose(f, g, v) == F(f, F(g, v))
Laws ==
    LET sub == SubMech(dA, dB) IN
    /\ \A f \in Fns, g \in Fns :                                               \* map is a functor
          MapMech(LAMBDA v : F(f, v), MapMech(LAMBDA v : F(g, v), dA)) = MapMech(LAMBDA v : Compose(f, g, v), dA)
    /\ MapMech(LAMBDA v : F("id", v), dA) = dA
    /\ \A p \in Preds, q \in Preds :                                           \* filters commute and conjoin
          /\ FilterMech(LAMBDA v : P(p, v), FilterMech(LAMBDA v : P(q, v), dA))
                = FilterMech(LAMBDA v : P(p, v) /\ P(q, v), dA)
    /\ \A p \in Preds :                                                        \* partition
          Graph(FilterMech(LAMBDA v : P(p, v), dA)) \cup Graph(FilterMech(LAMBDA v : ~P(p, v), dA)) = Graph(dA)
    /\ \A p \in Preds, f \in Fns :                                             \* filter after map = map after filter
          FilterMech(LAMBDA v : P(p, v), MapMech(LAMBDA v : F(f, v), dA))
                = MapMech(LAMBDA v : F(f, v), FilterMech(LAMBDA v : P(p, F(f, v)), dA))
    /\ SubMech(sub, dB) = sub /\ SubMech(dA, dA) = Empty /\ SubMech(dA, Empty) = dA
    /\ DOMAIN sub \cap DOMAIN SubMech(dB, dA) = {}
    /\ Graph(sub) \cup {kv \in Graph(dA) : kv[1] \in DOMAIN dB} = Graph(dA)
    /\ LSubMech(lA, <<>>) = lA /\ LSubMech(lA, lA) = <<>> /\ LSubMech(<<>>, lB) = <<>>
    /\ LSubMech(LSubMech(lA, lB), lB) = LSubMech(lA, lB \o lB)
    /\ Len(LSubMech(lA, lB)) + Len(LSubMech(lB, lA)) + 2 * (Len(lA) - Len(LSubMech(lA, lB))) = Len(lA) + Len(lB)

TypeOK ==
    /\ DOMAIN dA \subseteq Keys /\ DOMAIN dB \subseteq Keys
    /\ \A k \in DOMAIN dA : dA[k] \in 0..2
    /\ \A i \in DOMAIN lA : lA[i] \in Elems

-----------------------------------------------------------------------------
Terminal == n = MaxSteps
ExportC == Terminal => PrintT(<<"EXPORT", ToJson(hist)>>)
ViewNoHist == <<dA, dB, lA, lB, n>>
=============================================================================
