SPECIFICATION Spec
CONSTANTS
  MDecs <- MDecsS2
  CDecs <- NoDecs
  BDecs <- NoDecs
  Bodies <- BodiesF
  Clones <- NoClone
  WrapsCopies = FALSE
VIEW ViewNoHist
INVARIANT TypeOK
INVARIANT SkipMeaning
INVARIANT NothingRuns
INVARIANT RunsNormally
INVARIANT IdMeaning
INVARIANT MarkersMeaning
CHECK_DEADLOCK FALSE
