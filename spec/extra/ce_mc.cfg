SPECIFICATION Spec
CONSTANTS
  Classes <- ClassesB
  Methods <- MethodsA
  NewIds <- NewIdsA
  Extras <- ExtrasA
  MaxObjs = 4
  MaxSteps = 5
  CopyKeepsId = FALSE
VIEW ViewNoHist
INVARIANT EqEquivalence
INVARIANT EqIffSameAttributes
INVARIANT HashOK
INVARIANT EqualTestsSameId
PROPERTY CloneMeaning
PROPERTY RunMeaning
PROPERTY CopyMeaning
PROPERTY IdsStable
CHECK_DEADLOCK FALSE
