SPECIFICATION Spec
CONSTANTS
  MDecs <- MDecsS2
  CDecs <- CDecsAll
  BDecs <- BDecsAll
  Bodies <- BodiesAll
  Clones <- ClonesAll
  WrapsCopies = TRUE
VIEW ViewNoHist
INVARIANT TypeOK
INVARIANT SkipMeaning
INVARIANT NothingRuns
INVARIANT RunsNormally
INVARIANT IdMeaning
INVARIANT MarkersMeaning
CHECK_DEADLOCK FALSE
