---------------------------- MODULE MCAssertFails ----------------------------
EXTENDS AssertFails
EndingsAll == {[k |-> "succ", v |-> "r1"], [k |-> "succ", v |-> "None"]}
                 \cup {[k |-> "fail", v |-> c] : c \in {"E", "Sub", "U", "KI"}}
TypesAll == {<<"E">>, <<"Sub">>, <<"U">>, <<"E", "U">>, <<"U", "Sub">>, <<"KI">>}
FExcAll == {"default", "custom"}
=============================================================================
