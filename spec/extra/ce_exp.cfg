SPECIFICATION Spec
CONSTANTS
  Classes <- ClassesA
  Methods <- MethodsA
  NewIds <- NewIdsA
  Extras <- ExtrasB
  MaxObjs = 3
  MaxSteps = 4
  CopyKeepsId = FALSE
CONSTRAINT ExportC
INVARIANT EqEquivalence
INVARIANT EqIffSameAttributes
INVARIANT HashOK
INVARIANT EqualTestsSameId
PROPERTY CloneMeaning
PROPERTY RunMeaning
PROPERTY CopyMeaning
PROPERTY IdsStable
CHECK_DEADLOCK FALSE
