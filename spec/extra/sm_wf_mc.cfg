SPECIFICATION Spec
CONSTANTS
  Cases <- AllCases
  AlwaysFilter = TRUE
INVARIANT TypeOK
INVARIANT W_CapturesAll
INVARIANT W_ElementMeaning
INVARIANT W_VerdictMeaning
INVARIANT SP_ResolvedCanonical
INVARIANT SP_VerdictMeaning
INVARIANT HP_FourDigits
INVARIANT HP_VerdictMeaning
INVARIANT TB_SortedLists
INVARIANT TB_VerdictMeaning
INVARIANT PP_OwnParams
INVARIANT PP_VerdictMeaning
INVARIANT PP_DescMeaning
VIEW NoHist
CHECK_DEADLOCK FALSE
