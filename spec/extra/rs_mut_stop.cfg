SPECIFICATION Spec
CONSTANTS
  Resources <- ResB
  Tests <- TestsB
  Outcomes <- OutcomesB
  Times <- TimesB
  MaxLen = 3
  MaxRuns = 1
  StopStatus = "inprogress"
VIEW ViewNoHist
INVARIANT TypeOK
INVARIANT OneEventPerStage
INVARIANT ResourceEvents
INVARIANT OrdinaryUnaffected
INVARIANT SummaryMeaning
INVARIANT ResourceStagesCounted
CHECK_DEADLOCK FALSE
