SPECIFICATION Spec
CONSTANTS
  Prefixes <- PrefTwo
  MaxSteps = 7
  MaxRuns = 3
  Stages = FALSE
  ResetOnRun = TRUE
CONSTRAINT ExportC
INVARIANT IntsDistinctIncreasing
INVARIANT StringsDistinct
INVARIANT ResetStartsOver
INVARIANT EpochPerRun
PROPERTY StringShape
CHECK_DEADLOCK FALSE
