SPECIFICATION Spec
CONSTANTS
  Tests <- TestsA
  Kinds <- KindsAll
  Ticks <- TicksA
  Supplied <- SuppliedA
  Clock0 <- C0
  MaxLen = 3
  MaxRuns = 1
  CountUxs = TRUE
CONSTRAINT ExportC
INVARIANT TypeOK
INVARIANT QuietInRun
INVARIANT GrammarMeaning
INVARIANT CeilMeaning
CHECK_DEADLOCK FALSE
