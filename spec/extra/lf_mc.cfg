SPECIFICATION Spec
CONSTANTS
  Bases <- BasesAll
  FixKinds <- FixSmall
  Events <- EventsSmall
  FlushTypes <- FlushSmall
  ErrObs <- ErrObs1
  MaxDepth = 3
  MaxSteps = 4
  MaxCaps = 2
  LegacyAware = TRUE
VIEW ViewNoHist
INVARIANT TypeOK
INVARIANT ObserversAreVisible
INVARIANT LegacyAgrees
INVARIANT DeliveryMeaning
INVARIANT ErrorsPartition
PROPERTY FlushMeaning
CHECK_DEADLOCK FALSE
