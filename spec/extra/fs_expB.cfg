SPECIFICATION Spec
CONSTANTS
  Ids <- Ids3
  InitTests <- ShapesB
  Kinds <- AllKinds
  FixKinds <- AllFix
  PreStop <- BOOLEAN
  MaxOps = 1
  FilterSets <- SomeSubsets
  CleanInFinally = TRUE
CONSTRAINT ExportC
INVARIANT TypeOK
INVARIANT LeavesMeaning
INVARIANT SortMeaning
INVARIANT Bracketed
INVARIANT RunMeaning
CHECK_DEADLOCK FALSE
