SPECIFICATION Spec
CONSTANTS
  Streams <- StreamsAll
  Texts <- TextsAll
  MaxWrites = 2
  UtfShortcut = TRUE
CONSTRAINT ExportC
INVARIANT NeverRaises
INVARIANT UnchangedMeaning
INVARIANT ReplacementMeaning
INVARIANT UnspecifiedOnlyForNarrowTextIO
CHECK_DEADLOCK FALSE
