---------------------------- MODULE MonkeyPatch ----------------------------
(***************************************************************************)
(* X01 - testtools.monkey: MonkeyPatcher.add_patch / patch / restore /      *)
(* run_with_patches and the module-level patch().                           *)
(*                                                                         *)
(* Documented sentences formalised (testtools/monkey.py docstrings,         *)
(* doc/for-test-authors.rst "TestCase.patch"):                              *)
(*  D1 add_patch: "The attribute name on obj will be assigned to value when *)
(*     patch is called or during run_with_patches."            PatchAssigns *)
(*  D2 restore: "Restore all original values to any patched objects.  If    *)
(*     the patched attribute did not exist on an object before it was       *)
(*     patched, restore will delete the attribute so as to return the       *)
(*     object to its original state."        RestoreMeaning, WouldRestore   *)
(*  D3 run_with_patches: "Run f ... with all patches applied.  Restores all *)
(*     objects to their original state when finished."  (also when f        *)
(*     raises - try/finally; the value of f is returned)       RunMeaning   *)
(*  D4 patch(): "Set obj.attribute to value and return a callable to        *)
(*     restore obj.  If attribute is not set on obj already, then the       *)
(*     returned callable will delete the attribute when called."            *)
(*     (same invariants, patcher ids 1..MaxFn)                              *)
(*  D5 the repository's own test names "restoring an already-restored       *)
(*     monkey patch is a no-op"                          RestoreIdempotent  *)
(*                                                                         *)
(* MECHANISM (code-shaped): per patcher a list of pending patches and a     *)
(* LIFO list of saved (slot, value-or-Absent) pairs; patch() appends one    *)
(* pair per pending patch and assigns, restore() pops and assigns/deletes.  *)
(* MEANING (independent of the list): per patcher the ghost snapshot        *)
(* pre[p][s] = value slot s had just before p first patched it since p's    *)
(* last restore, and touched[p] = the slots p patched since then.           *)
(***************************************************************************)
EXTENDS Naturals, Sequences, FiniteSets, TLC, Json

CONSTANTS
    Slots,        \* set of (object.attribute) names
    Attrs0,       \* initial value of each slot (Absent for a missing attribute, "None" for None)
    Patches,      \* alphabet of <<slot, value>> patches explored
    InitPend,     \* set of initial patch lists handed to MonkeyPatcher(*patches)
    MaxSteps,     \* bound on the number of calls
    MaxPend,      \* bound on the number of pending patches of the MonkeyPatcher
    MaxOrig,      \* bound on the saved-originals list (repeated patch() without restore())
    MaxFn,        \* bound on the number of module-level patch() calls
    FKinds,       \* what f does in run_with_patches: subset of {"ret", "exc", "base"}
    LifoRestore   \* TRUE = as required/coded; FALSE = spec mutation (restore in FIFO order)

Absent == "absent"
Main == 0                      \* the MonkeyPatcher instance; 1..MaxFn = patchers made by patch()
Patchers == 0..MaxFn

VARIABLES
    attrs,      \* [Slots -> value | Absent]                         (the patched objects)
    pend,       \* [Patchers -> Seq(<<slot, value>>)]                (mechanism: _patches_to_apply)
    orig,       \* [Patchers -> Seq(<<slot, value | Absent>>)]       (mechanism: _originals)
    nfn,        \* number of module-level patch() calls so far
    pre,        \* [Patchers -> [Slots -> value | Absent]]           (meaning: pre-patch snapshot)
    touched,    \* [Patchers -> SUBSET Slots]                        (meaning: slots patched since last restore)
    n,          \* calls so far
    hist        \* observation log (export / action properties)

vars == <<attrs, pend, orig, nfn, pre, touched, n, hist>>

-----------------------------------------------------------------------------
(* Mechanism *)

RECURSIVE ApplyPatches(_, _, _)
\* MonkeyPatcher.patch: for obj, name, value in _patches_to_apply: save getattr(.., _NO_SUCH_ATTRIBUTE); setattr
ApplyPatches(a, o, ps) ==
    IF ps = <<>> THEN <<a, o>>
    ELSE LET s == ps[1][1]
             v == ps[1][2]
         IN ApplyPatches([a EXCEPT ![s] = v], Append(o, <<s, a[s]>>), Tail(ps))

RECURSIVE UndoAll(_, _)
\* MonkeyPatcher.restore: while _originals: pop(); delattr if marker else setattr
UndoAll(a, o) ==
    IF o = <<>> THEN a
    ELSE LET i == IF LifoRestore THEN Len(o) ELSE 1
             rest == IF LifoRestore THEN SubSeq(o, 1, Len(o) - 1) ELSE Tail(o)
         IN UndoAll([a EXCEPT ![o[i][1]] = o[i][2]], rest)

SlotsOf(ps) == {ps[i][1] : i \in DOMAIN ps}

-----------------------------------------------------------------------------
Log(a, arg, out) ==
    hist' = Append(hist, [a |-> a, arg |-> arg, out |-> out, obs |-> attrs'])

Init ==
    /\ attrs = Attrs0
    /\ \E ps \in InitPend : pend = [p \in Patchers |-> IF p = Main THEN ps ELSE <<>>]
    /\ orig = [p \in Patchers |-> <<>>]
    /\ nfn = 0
    /\ pre = [p \in Patchers |-> Attrs0]
    /\ touched = [p \in Patchers |-> {}]
    /\ n = 0
    /\ hist = <<[a |-> "init", arg |-> pend[Main], out |-> "none", obs |-> attrs]>>

\* ghost bookkeeping for a patch() of patcher p (reads the unprimed state)
GhostPatched(p) ==
    /\ pre' = [pre EXCEPT ![p] = [s \in Slots |-> IF s \in touched[p] THEN pre[p][s] ELSE attrs[s]]]
    /\ touched' = [touched EXCEPT ![p] = @ \cup SlotsOf(pend'[p])]

AddPatch(pt) ==
    /\ n < MaxSteps /\ Len(pend[Main]) < MaxPend
    /\ pend' = [pend EXCEPT ![Main] = Append(@, pt)]
    /\ UNCHANGED <<attrs, orig, nfn, pre, touched>>
    /\ n' = n + 1
    /\ Log("add_patch", pt, "none")

Patch ==
    /\ n < MaxSteps /\ Len(orig[Main]) + Len(pend[Main]) <= MaxOrig
    /\ LET r == ApplyPatches(attrs, orig[Main], pend[Main])
       IN attrs' = r[1] /\ orig' = [orig EXCEPT ![Main] = r[2]]
    /\ UNCHANGED <<pend, nfn>>
    /\ GhostPatched(Main)
    /\ n' = n + 1
    /\ Log("patch", "none", "none")

\* restore() of the MonkeyPatcher (p = Main) or the callable returned by the p-th patch() call
Restore(p) ==
    /\ n < MaxSteps /\ p <= nfn
    /\ attrs' = UndoAll(attrs, orig[p])
    /\ orig' = [orig EXCEPT ![p] = <<>>]
    /\ touched' = [touched EXCEPT ![p] = {}]
    /\ pre' = [pre EXCEPT ![p] = Attrs0]          \* irrelevant while nothing is patched: canonical value
    /\ UNCHANGED <<pend, nfn>>
    /\ n' = n + 1
    /\ Log("restore", p, "none")

\* run_with_patches(f): patch(); try: return f() finally: restore().  f observes the patched world.
Run(kind) ==
    /\ n < MaxSteps /\ Len(orig[Main]) + Len(pend[Main]) <= MaxOrig
    /\ LET r == ApplyPatches(attrs, orig[Main], pend[Main])
       IN /\ attrs' = UndoAll(r[1], r[2])
          /\ Log("run", kind, [kind |-> kind, saw |-> r[1]])
    /\ orig' = [orig EXCEPT ![Main] = <<>>]
    /\ touched' = [touched EXCEPT ![Main] = {}]
    /\ pre' = [pre EXCEPT ![Main] = Attrs0]
    /\ UNCHANGED <<pend, nfn>>
    /\ n' = n + 1

\* module-level patch(obj, attribute, value): a fresh MonkeyPatcher with one patch, patched at once
FnPatch(pt) ==
    /\ n < MaxSteps /\ nfn < MaxFn
    /\ nfn' = nfn + 1
    /\ pend' = [pend EXCEPT ![nfn + 1] = <<pt>>]
    /\ LET r == ApplyPatches(attrs, <<>>, <<pt>>)
       IN attrs' = r[1] /\ orig' = [orig EXCEPT ![nfn + 1] = r[2]]
    /\ GhostPatched(nfn + 1)
    /\ n' = n + 1
    /\ Log("fn_patch", pt, nfn + 1)

Next ==
    \/ \E pt \in Patches : AddPatch(pt) \/ FnPatch(pt)
    \/ Patch
    \/ \E p \in Patchers : Restore(p)
    \/ \E k \in FKinds : Run(k)

Spec == Init /\ [][Next]_vars

-----------------------------------------------------------------------------
(* MEANING *)

RECURSIVE LastFor(_, _, _)
\* value the LAST pending patch for slot s assigns (dflt when no patch names s)
LastFor(ps, s, dflt) ==
    IF ps = <<>> THEN dflt
    ELSE LET j == Len(ps) IN
         IF ps[j][1] = s THEN ps[j][2] ELSE LastFor(SubSeq(ps, 1, j - 1), s, dflt)

Did(a) == Len(hist') = Len(hist) + 1 /\ hist'[Len(hist')].a = a
LastH == hist'[Len(hist')]

\* D2 as a state invariant: whatever happened so far, a restore() issued NOW by patcher p would give
\* every slot p patched its pre-patch value (or remove it again) and leave every other slot alone.
WouldRestore ==
    \A p \in Patchers :
        LET a == UndoAll(attrs, orig[p]) IN
        /\ \A s \in touched[p] : a[s] = pre[p][s]
        /\ \A s \in Slots \ touched[p] : a[s] = attrs[s]

\* the saved list is empty exactly when nothing is patched (so restore() has nothing left to do)
SavedIffTouched == \A p \in Patchers : (orig[p] = <<>>) <=> (touched[p] = {})

\* D2 on the restore() step itself
RestoreMeaning ==
    [][Did("restore") =>
          LET p == LastH.arg IN
          /\ \A s \in touched[p] : attrs'[s] = pre[p][s]
          /\ \A s \in Slots \ touched[p] : attrs'[s] = attrs[s]
          /\ touched'[p] = {} /\ orig'[p] = <<>>]_vars

\* D5: restore() with nothing patched changes nothing
RestoreIdempotent ==
    [][(Did("restore") /\ touched[LastH.arg] = {}) => attrs' = attrs]_vars

\* D1/D4: after patch() every slot named by a pending patch holds the value of the LAST such patch;
\* all other slots are unchanged
PatchAssigns ==
    [][(Did("patch") \/ Did("fn_patch")) =>
          LET p == IF Did("patch") THEN Main ELSE LastH.out IN
          \A s \in Slots : attrs'[s] = LastFor(pend'[p], s, attrs[s])]_vars

\* D3: f runs in the patched world, afterwards everything the patcher touched (now or by an earlier
\* un-restored patch()) is back to its pre-patch value, for every way f ends
RunMeaning ==
    [][Did("run") =>
          /\ \A s \in Slots : LastH.out.saw[s] = LastFor(pend[Main], s, attrs[s])
          /\ \A s \in touched[Main] \cup SlotsOf(pend[Main]) :
                attrs'[s] = (IF s \in touched[Main] THEN pre[Main][s] ELSE attrs[s])
          /\ \A s \in Slots \ (touched[Main] \cup SlotsOf(pend[Main])) : attrs'[s] = attrs[s]
          /\ orig'[Main] = <<>>]_vars

\* add_patch alone never touches an object
AddPatchIsLazy == [][Did("add_patch") => attrs' = attrs]_vars

TypeOK ==
    /\ DOMAIN attrs = Slots
    /\ \A p \in Patchers : Len(orig[p]) <= MaxOrig + 1

-----------------------------------------------------------------------------
Terminal == n = MaxSteps
ExportC == Terminal => PrintT(<<"EXPORT", ToJson(hist)>>)
ViewNoHist == <<attrs, pend, orig, nfn, pre, touched, n>>
=============================================================================
