SPECIFICATION Spec
CONSTANTS
  Names <- MNames
  InstsOf <- MInsts
  AlphaOf <- MAlpha
  DepthOf <- MDepth
  Py27UxsStops = TRUE
  ExtResetsOk = FALSE
  ShareGivenLog = TRUE
  PushOnStartTest = TRUE

INVARIANT LogMeaning
INVARIANT OkMeaning
INVARIANT StopMeaning
INVARIANT RunsMeaning
INVARIANT TagsMeaning
PROPERTY OneEventPerCall
CHECK_DEADLOCK FALSE
