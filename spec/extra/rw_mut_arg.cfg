SPECIFICATION Spec
CONSTANTS
  ArgAlpha <- ArgE
  DecAlpha <- DecE
  BaseAlpha <- BaseE
  SubAlpha <- SubE
  LateAlpha <- LateE
  OldShape <- Old
  MaxInst = 2
  MaxSteps = 3
  ArgFirst = FALSE
VIEW ViewNoHist
INVARIANT TypeOK
INVARIANT Precedence
INVARIANT ArgOverrides
PROPERTY DecidedAtInit
PROPERTY FreshEachRun
CHECK_DEADLOCK FALSE
