SPECIFICATION Spec
CONSTANTS
  Prefixes <- PrefTwo
  MaxSteps = 5
  MaxRuns = 2
  Stages = FALSE
  ResetOnRun = FALSE
VIEW ViewNoHist
INVARIANT IntsDistinctIncreasing
INVARIANT StringsDistinct
INVARIANT ResetStartsOver
INVARIANT EpochPerRun
PROPERTY StringShape
CHECK_DEADLOCK FALSE
