SPECIFICATION Spec
CONSTANTS
  Names <- NamesAll
  NodeKind <- TreeKind
  AltKinds <- AltAll
  CbKinds <- CbAll
  MaxCalls = 2
  CallbackOnce = TRUE
CONSTRAINT ExportC
INVARIANT Denotation
INVARIANT CallbackRule
INVARIANT NoSwallowing
INVARIANT LoopRule
INVARIANT TreeSane
CHECK_DEADLOCK FALSE
