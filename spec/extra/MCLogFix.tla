------------------------------ MODULE MCLogFix ------------------------------
(* Model-checking instances of LogFix: initial registrations, fixture / event / flush alphabets. *)
EXTENDS LogFix

R(o, l) == [obs |-> o, legacy |-> l]
\* a: a legacy observer (log.addObserver) that fixtures may register again; m: a modern observer (globalLogPublisher.addObserver)
BasesAll == {<<>>, <<R("a", TRUE)>>, <<R("m", FALSE)>>, <<R("a", TRUE), R("m", FALSE)>>, <<R("m", FALSE), R("a", TRUE)>>}
BasesTwo == {<<>>, <<R("a", TRUE), R("m", FALSE)>>}
\* no observer is ever registered twice: the instance in which the tree as it stands is compared with the documented behaviour
BasesM == {<<>>, <<R("m", FALSE)>>}

F(ft, os) == [ft |-> ft, obs |-> os]
\* obsfail: a _TwistedLogObservers whose observers iterable raises after yielding these
FixAll == {F("noobs", <<>>), F("obs", <<"a">>), F("obs", <<"a", "b">>), F("obs", <<"b">>), F("obsfail", <<"a">>),
           F("obsfail", <<"b", "a">>), F("err", <<"eo1">>), F("err", <<"eoG">>), F("cap", <<>>)}
FixSmall == {F("noobs", <<>>), F("obs", <<"a">>), F("obsfail", <<"a">>), F("err", <<"eo1">>), F("cap", <<>>)}

EventsAll == {"msg", "E", "Sub", "U"}
EventsSmall == {"msg", "Sub", "U"}
FlushAll == {<<>>, <<"E">>, <<"Sub">>, <<"U">>, <<"E", "U">>}
FlushSmall == {<<>>, <<"E">>}
ErrObsAll == {"eo1", "eoG"}
ErrObs1 == {"eo1"}
=============================================================================
