SPECIFICATION Spec
CONSTANTS
  Prefixes <- PrefAll
  MaxSteps = 16
  MaxRuns = 5
  Stages = TRUE
  ResetOnRun = TRUE
CONSTRAINT ExportC
INVARIANT IntsDistinctIncreasing
INVARIANT StringsDistinct
INVARIANT ResetStartsOver
INVARIANT EpochPerRun
PROPERTY StringShape
CHECK_DEADLOCK FALSE
