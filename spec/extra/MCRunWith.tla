------------------------------ MODULE MCRunWith ------------------------------
(* Model-checking instances of RunWith: factory alphabets, decorations, bounds.                              *)
(* Factory names: N* take (case, handlers=None, last_resort=None, **kw); O* take (case, handlers=None, **kw). *)
(* Keyword sets: k0 = {}, k1 = {timeout: 42}, k2 = {extra_arg: 42, foo: 'whatever'} (see harness/x19.py).   *)
(* wrap: none = @run_test_with alone; wraps = a functools.wraps decorator on top of it; inner = a plain       *)
(* decorator beneath it (run_test_with top-most); hidden = a decorator on top that copies nothing.          *)
EXTENDS RunWith

Dc(f, kw, w) == [f |-> f, kw |-> kw, wrap |-> w]

ArgE == {"N3", "O1"}
BaseE == {"N1", "O1"}
SubE == {"N2"}
LateE == {"N4"}
Old == {"O1", "O2"}

DecE == {NoDec, Dc("N2", "k0", "none"), Dc("N4", "k1", "none"), Dc("O1", "k2", "wraps"),
         Dc("N4", "k2", "inner"), Dc("N4", "k1", "hidden")}

\* exhaustive model checking: old and new factories at every source, every keyword set, every wrapping
BaseM == {"N1", "O1", "O2"}
SubM == {"N2", "O2"}
ArgM == {"N3", "O1", "O2"}
LateM == {"N4", "O1"}
DecAll == {NoDec} \cup {Dc(f, kw, w) : f \in {"N2", "N4", "O1"}, kw \in {"k0", "k1", "k2"}, w \in {"none", "wraps", "inner", "hidden"}}
=============================================================================
