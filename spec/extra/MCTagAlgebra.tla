---------------------------- MODULE MCTagAlgebra ----------------------------
(* Model-checking instances of TagAlgebra: tag alphabets, delta alphabets, bounds. *)
EXTENDS TagAlgebra

D(nw, gn) == [new |-> nw, gone |-> gn]

Tags2 == {"a", "b"}
Tags3 == {"a", "b", "c"}

\* every delta over the tags with disjoint new / gone (3^|Tags| of them)
AllDeltas(T) == {D(nw, gn) : nw \in SUBSET T, gn \in SUBSET T} \cap {d \in [new : SUBSET T, gone : SUBSET T] : d.new \cap d.gone = {}}
Deltas2 == AllDeltas(Tags2)
Deltas3 == AllDeltas(Tags3)

\* export alphabet: add, remove, add one + remove another, add two, the empty delta, remove a tag never added
DeltasE == {D({"a"}, {}), D({}, {"a"}), D({"b"}, {"a"}), D({"a", "b"}, {}), D({}, {}), D({}, {"b"})}
=============================================================================
