SPECIFICATION Spec
CONSTANTS
  Bases <- BasesAll
  FixKinds <- FixAll
  Events <- EventsAll
  FlushTypes <- FlushAll
  ErrObs <- ErrObsAll
  MaxDepth = 4
  MaxSteps = 9
  MaxCaps = 2
  LegacyAware = TRUE
CONSTRAINT ExportC
INVARIANT TypeOK
INVARIANT ObserversAreVisible
INVARIANT LegacyAgrees
INVARIANT DeliveryMeaning
INVARIANT ErrorsPartition
PROPERTY FlushMeaning
CHECK_DEADLOCK FALSE
