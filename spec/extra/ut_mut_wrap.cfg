SPECIFICATION Spec
CONSTANTS
  Radix = 256
  Gens <- OneGen
  MaxIdx = 700
  KeepOut = TRUE
  WrapAt = 256
VIEW ViewNoHist
INVARIANT NoRepeat
INVARIANT Decodes
INVARIANT Canonical
CHECK_DEADLOCK FALSE
