--------------------------- MODULE MCDocTestMatch ---------------------------
(* Model-checking instances of DocTestMatch: the (want, got, flags) alphabets. *)
EXTENDS DocTestMatch

UpTo(S, n) == UNION {[1..k -> S] : k \in 0..n}
AllFlags == SUBSET {"E", "N"}

\* ellipsis over two letters: every pattern of up to 4 tokens against every text of up to 4 letters
CasesEll == UpTo({"a", "b", Ell}, 4) \X UpTo({"a", "b"}, 4) \X {{"E"}}
\* five-token patterns over one letter (the 'aa...aa' against 'aaa' family of the comment in _ellipsis_match)
CasesEll5 == [1..5 -> {"a", Ell}] \X UpTo({"a", "b"}, 5) \X {{"E"}}
\* whitespace: blanks, newlines, a letter and the marker, under every flag combination
CasesWs == UpTo({"a", SPc, NLc, Ell}, 3) \X UpTo({"a", SPc, NLc}, 3) \X AllFlags
\* the marker occurring literally in the actual output
CasesLit == UpTo({"a", Ell}, 3) \X UpTo({"a", Ell}, 3) \X AllFlags
\* longer whitespace texts against a few patterns
WsPatterns == {<<"a", SPc, "a">>, <<"a", NLc, "a">>, <<"a", Ell, "a">>, <<"a", SPc, Ell, SPc, "a">>, <<SPc, "a">>,
               <<"a", NLc, NLc, "a">>, <<Ell, NLc, "a">>, <<"a", SPc, Ell>>}
CasesWs5 == WsPatterns \X [1..5 -> {"a", SPc, NLc}] \X {{}, {"N"}, {"E", "N"}}

CasesQuick == CasesEll \cup CasesEll5 \cup CasesWs \cup CasesLit \cup CasesWs5

\* a small instance without export (spec mutations)
CasesSmall == CasesEll \cup CasesLit \cup (UpTo({"a", SPc, NLc}, 2) \X UpTo({"a", SPc, NLc}, 3) \X AllFlags)

\* thorough tier (no export): longer patterns and texts
CasesBig == (UpTo({"a", "b", Ell}, 5) \X UpTo({"a", "b"}, 6) \X {{"E"}})
              \cup (UpTo({"a", SPc, NLc, Ell}, 4) \X UpTo({"a", SPc, NLc}, 4) \X AllFlags)

LettersAB == {"a", "b"}
=============================================================================
