----------------------------- MODULE DetailsText -----------------------------
(***************************************************************************)
(* X11 (part 1) - testtools.testresult.real._details_to_str(details,        *)
(* special) / _format_text_attachment / TestResult._err_details_to_string:  *)
(* the text a details dict is rendered to.                                  *)
(*                                                                         *)
(* Documented sentences formalised:                                         *)
(*  D1 docstring: "Convert a details dict to a string. ... :return: A       *)
(*     formatted string that can be included in text test results."; every  *)
(*     expectation of testtools.tests.test_testresult.TestDetailsToStr is   *)
(*     empty or ends with a newline and names every detail exactly once     *)
(*                                            WellFormed, EveryDetailOnce   *)
(*  D2 TestDetailsToStr.test_binary_content / test_empty_attachment /       *)
(*     test_lots_of_different_attachments: "Binary content:" followed by    *)
(*     one "  <name> (<type>/<subtype>)" line per non-text detail, then     *)
(*     "Empty attachments:" followed by one "  <name>" line per text detail *)
(*     without text, then an empty line, then the text attachments          *)
(*                                                          SectionOrder    *)
(*  D3 test_single_line_content / test_multi_line_text_content /            *)
(*     for-test-authors.rst "arbitrary-color-name: {{{blue}}}": a text      *)
(*     detail is shown under its name, "<name>: {{{<text>}}}" on one line   *)
(*     or "<name>: {{{" / the lines / "}}}" when the text has several       *)
(*     lines                                               RenderMeaning    *)
(*  D4 docstring: ":param special: If specified, an attachment that should  *)
(*     have special attention drawn to it.  The primary attachment.         *)
(*     Normally it's the traceback that caused the test to fail."; comment: *)
(*     "We want the 'special' attachment to be at the bottom.";             *)
(*     test_special_text_content: the special detail is shown bare (its     *)
(*     text and a newline, no header); for-test-authors.rst shows it behind *)
(*     an empty line after the other attachments, a traceback (which ends   *)
(*     with a newline) being followed by no empty line                      *)
(*                                             SpecialLast, SpecialBare     *)
(*  D5 comment: "sorted is for testing, may want to remove that and use a   *)
(*     dict subclass with defined order for items instead" - the items of   *)
(*     every section come in the order of their names, whatever the order   *)
(*     of insertion into the dict                           SortedSections  *)
(*  D6 test_multiple_text_content / test_lots_of_different_attachments:     *)
(*     one-line attachments follow each other directly, a several-line      *)
(*     attachment is followed by an empty line, the special one is preceded *)
(*     by an empty line                            RenderMeaning (Blank)    *)
(*     (shown by tests and one "something like this" example only: the      *)
(*     driver reports a rendering that differs in empty lines ONLY as DRIFT)*)
(*  D7 Content.iter_text: "This is only valid for text MIME types, and will *)
(*     use ISO-8859-1 if no charset parameter is present in the MIME type"; *)
(*     ":raises ValueError: If the content type is not "text/*"" - only     *)
(*     details whose primary type is "text" are decoded, with the charset   *)
(*     of their type                          RaisesOnlyUndecodable, Decode *)
(*  D8 TestResult._err_details_to_string: "Convert an error in exc_info     *)
(*     form or a contents dict to a string." - for a details dict this is   *)
(*     the rendering with special = "traceback" (replay, api = "err")       *)
(*                                                                         *)
(* Not documented, hence modelled (MECHANISM) but not judged (Judged =      *)
(* FALSE, a divergence of the code is reported as DRIFT only): text with    *)
(* leading / trailing white space other than one newline ending the special *)
(* detail, text made of white space only, text that cannot be decoded with  *)
(* the charset of its content type (the code lets UnicodeDecodeError out).  *)
(*                                                                         *)
(* MECHANISM: the loop over sorted(details.items()) as action Step (one     *)
(* iteration each: the if-chain filling binary_attachments /                *)
(* empty_attachments / special_content / text_attachments), then the tail   *)
(* of the function as operator Emit (pad entry, special appended, lines     *)
(* list, "\n".join) producing ATOMS: complete lines, fragments without a    *)
(* newline and "nl".  MEANING: written over whole LINES: a classification   *)
(* of the details, sections sorted by name, and a decision table saying     *)
(* between which neighbours an empty line stands.  Norm turns atoms into    *)
(* lines.  Every state is the function applied to the dict of the items     *)
(* seen so far, so every invariant is evaluated after every iteration.      *)
(* Text is a sequence of tokens: "w1" "w2" words, "bad" two bytes that are  *)
(* not UTF-8, "nl" newline, "sp" space.                                     *)
(***************************************************************************)
EXTENDS Naturals, Sequences, FiniteSets, TLC, Json

CONSTANTS
    NameOrder,    \* the detail names, as the sequence Python's sorted() puts them in
    Kinds,        \* content kinds: records [ct, raw]
    Modes,        \* pairs <<api, special>>: api "fn" = _details_to_str(details, special) with special None or a name,
                  \* api "err" = TestResult._err_details_to_string(test, None, details) & co (special is "traceback")
    PadLast       \* TRUE = as coded; FALSE = spec mutation (no "" entry appended after a last one-line attachment)

None == "none"
Names == {NameOrder[j] : j \in DOMAIN NameOrder}
BinaryTypes == {"jpeg", "json"}                 \* primary type is not "text"
Utf8Types == {"utf8", "tb"}                     \* text/plain; charset=utf8 and text/x-traceback; ...; charset=utf8
                                                \* "latin1": text/plain without charset parameter
WS == {"nl", "sp"}

VARIABLES
    details,      \* function: subset of Names -> Kinds
    special, api,
    pc,           \* "loop" | "done" | "raised"
    i,            \* number of items the loop has dealt with
    bin,          \* binary_attachments: sequence of <<name, ct>>                            (mechanism)
    empty,        \* empty_attachments: sequence of names                                    (mechanism)
    texts,        \* text_attachments: sequence of pieces (a piece = sequence of atoms)      (mechanism)
    spc,          \* special_content: a piece, <<>> while None                               (mechanism)
    hist

vars == <<details, special, api, pc, i, bin, empty, texts, spc, hist>>

-----------------------------------------------------------------------------
(* Mechanism *)

A(k, name, ct, txt) == [k |-> k, name |-> name, ct |-> ct, txt |-> txt]
NL == A("nl", None, None, <<>>)
LineKinds == {"binhead", "binitem", "emptyhead", "emptyitem"}     \* atoms that are complete lines
FragKinds == {"inline", "block", "plain"}                         \* atoms without trailing newline

\* sorted(details.items())
Items == SelectSeq(NameOrder, LAMBDA n : n \in DOMAIN details)

\* str.strip()
RECURSIVE LStrip(_)
LStrip(q) == IF q # <<>> /\ Head(q) \in WS THEN LStrip(Tail(q)) ELSE q
RECURSIVE RStrip(_)
RStrip(q) == IF q # <<>> /\ q[Len(q)] \in WS THEN RStrip(SubSeq(q, 1, Len(q) - 1)) ELSE q
Strip(q) == RStrip(LStrip(q))

\* content.as_text(): the incremental decoder of the charset (ISO-8859-1 decodes every byte)
DecodeFails(c) == c.ct \in Utf8Types /\ \E j \in DOMAIN c.raw : c.raw[j] = "bad"

\* _format_text_attachment(name, text)
FormatTextAttachment(name, text) ==
    IF \E j \in DOMAIN text : text[j] = "nl"
    THEN <<A("block", name, None, text), NL>>       \* f"{name}: {{{{{{\n{text}\n}}}}}}\n"
    ELSE <<A("inline", name, None, text)>>          \* f"{name}: {{{{{{{text}}}}}}}"

EndsNL(piece) == piece # <<>> /\ piece[Len(piece)].k = "nl"

RECURSIVE Join(_)                                   \* "\n".join(pieces)
Join(ps) == IF ps = <<>> THEN <<>>
            ELSE IF Len(ps) = 1 THEN ps[1]
            ELSE ps[1] \o <<NL>> \o Join(Tail(ps))

\* the function from the end of the loop to the return, on the lists as they stand
Emit(b, e, t, s) ==
    LET t1 == IF PadLast /\ t # <<>> /\ ~EndsNL(t[Len(t)]) THEN Append(t, <<>>) ELSE t
        t2 == IF s # <<>> THEN Append(t1, s) ELSE t1
        l1 == IF b # <<>>
              THEN <<A("binhead", None, None, <<>>)>> \o [j \in DOMAIN b |-> A("binitem", b[j][1], b[j][2], <<>>)]
              ELSE <<>>
        l2 == IF e # <<>>
              THEN <<A("emptyhead", None, None, <<>>)>> \o [j \in DOMAIN e |-> A("emptyitem", e[j], None, <<>>)]
              ELSE <<>>
        l3 == IF (b # <<>> \/ e # <<>>) /\ t2 # <<>> THEN <<NL>> ELSE <<>>
    IN l1 \o l2 \o l3 \o Join(t2)

Out == IF pc = "raised" THEN <<>> ELSE Emit(bin, empty, texts, spc)

-----------------------------------------------------------------------------
(* MEANING: over the details seen so far *)

Seen == {Items[j] : j \in 1..i}
Rank(n) == CHOOSE j \in DOMAIN NameOrder : NameOrder[j] = n

\* the text without the white space around it
Core(q) ==
    LET solid == {j \in DOMAIN q : q[j] \notin WS} IN
    IF solid = {} THEN <<>>
    ELSE LET lo == CHOOSE j \in solid : \A m \in solid : j <= m
             hi == CHOOSE j \in solid : \A m \in solid : m <= j
         IN [m \in 1..(hi - lo + 1) |-> q[lo + m - 1]]

Undecodable(n) == details[n].ct \notin BinaryTypes /\ details[n].ct # "latin1" /\ "bad" \in {details[n].raw[j] : j \in DOMAIN details[n].raw}

Class(n) ==
    CASE details[n].ct \in BinaryTypes -> "binary"
      [] Core(details[n].raw) = <<>> -> "empty"
      [] n = special -> "special"
      [] OTHER -> "text"

Of(cls) == {n \in Seen : Class(n) = cls}
\* D5: the members of S in the order of their names
InOrder(S) == [j \in 1..Cardinality(S) |-> CHOOSE n \in S : Cardinality({m \in S : Rank(m) < Rank(n)}) = j - 1]

SeveralLines(n) == "nl" \in {Core(details[n].raw)[j] : j \in DOMAIN Core(details[n].raw)}

\* groups of lines; a group is [g, lines]
HeaderLines ==
    LET bs == InOrder(Of("binary"))
        es == InOrder(Of("empty"))
    IN (IF bs = <<>> THEN <<>>
        ELSE <<A("binhead", None, None, <<>>)>> \o [j \in DOMAIN bs |-> A("binitem", bs[j], details[bs[j]].ct, <<>>)])
       \o
       (IF es = <<>> THEN <<>>
        ELSE <<A("emptyhead", None, None, <<>>)>> \o [j \in DOMAIN es |-> A("emptyitem", es[j], None, <<>>)])

TextGroup(n) ==
    IF SeveralLines(n) THEN [g |-> "block", lines |-> <<A("block", n, None, Core(details[n].raw))>>]
    ELSE [g |-> "inline", lines |-> <<A("inline", n, None, Core(details[n].raw))>>]

Groups ==
    LET hl == HeaderLines
        ts == InOrder(Of("text"))
    IN
    (IF hl = <<>> THEN <<>> ELSE <<[g |-> "header", lines |-> hl]>>)
    \o [j \in DOMAIN ts |-> TextGroup(ts[j])]
    \o (IF Of("special") = {} THEN <<>>
        ELSE <<[g |-> "special", lines |-> <<A("plain", special, None, Core(details[special].raw))>>]>>)

\* D2 / D4 / D6: the decision table - is there an empty line between neighbouring groups x, y
Blank(x, y) == x.g = "header" \/ x.g = "block" \/ y.g = "special"
BlankLine == A("blank", None, None, <<>>)

RECURSIVE Flatten(_)
Flatten(gs) ==
    IF gs = <<>> THEN <<>>
    ELSE IF Len(gs) = 1 THEN gs[1].lines
    ELSE gs[1].lines \o (IF Blank(gs[1], gs[2]) THEN <<BlankLine>> ELSE <<>>) \o Flatten(Tail(gs))

Expected == Flatten(Groups)

\* atoms -> lines: a fragment followed by "nl" is a line, a lone "nl" an empty line; anything else is malformed
Malformed == A("malformed", None, None, <<>>)
RECURSIVE NormFrom(_, _, _)
NormFrom(q, j, pend) ==
    IF j > Len(q) THEN (IF pend = <<>> THEN <<>> ELSE <<Malformed>>)
    ELSE IF q[j].k = "nl" THEN <<IF pend = <<>> THEN BlankLine ELSE pend[1]>> \o NormFrom(q, j + 1, <<>>)
    ELSE IF q[j].k \in LineKinds THEN (IF pend = <<>> THEN <<>> ELSE <<Malformed>>) \o <<q[j]>> \o NormFrom(q, j + 1, <<>>)
    ELSE (IF pend = <<>> THEN <<>> ELSE <<Malformed>>) \o NormFrom(q, j + 1, <<q[j]>>)
Norm(q) == NormFrom(q, 1, <<>>)

Lines == Norm(Out)
Raised == pc = "raised"

\* what the documentation speaks about (see header); everything else is executed but not judged
DocumentedKind(n) ==
    \/ details[n].ct \in BinaryTypes
    \/ /\ ~Undecodable(n)
       /\ \/ details[n].raw = Core(details[n].raw)
          \/ n = special /\ details[n].raw = Core(details[n].raw) \o <<"nl">>
Judged == \A n \in Seen : DocumentedKind(n)

-----------------------------------------------------------------------------
(* Actions *)

\* atoms as <<kind, name, content type, text>> (keeps the export small)
Compact(q) == [j \in DOMAIN q |-> <<q[j].k, q[j].name, q[j].ct, q[j].txt>>]
Log(a) ==
    hist' = Append(hist, [a |-> a, n |-> i', pc |-> pc', judged |-> Judged', out |-> Compact(Out')])

Init ==
    /\ \E S \in SUBSET Names : details \in [S -> Kinds]
    /\ \E m \in Modes : api = m[1] /\ special = m[2]
    /\ pc = "loop" /\ i = 0
    /\ bin = <<>> /\ empty = <<>> /\ texts = <<>> /\ spc = <<>>
    /\ hist = <<[a |-> "init", details |-> [n \in DOMAIN details |-> details[n]], names |-> Items,
                 special |-> special, api |-> api, out |-> <<>>, judged |-> TRUE, pc |-> "loop", n |-> 0]>>

\* one iteration of `for key, content in sorted(details.items())`
Step ==
    /\ pc = "loop" /\ i < Len(Items)
    /\ i' = i + 1
    /\ LET key == Items[i + 1]
           c == details[key]
       IN IF c.ct \in BinaryTypes                                     \* content.content_type.type != "text"
          THEN /\ bin' = Append(bin, <<key, c.ct>>)
               /\ UNCHANGED <<empty, texts, spc, pc>>
          ELSE IF DecodeFails(c)                                      \* content.as_text() raises
          THEN /\ pc' = "raised"
               /\ UNCHANGED <<bin, empty, texts, spc>>
          ELSE LET text == Strip(c.raw) IN
               IF text = <<>>                                         \* if not text
               THEN /\ empty' = Append(empty, key)
                    /\ UNCHANGED <<bin, texts, spc, pc>>
               ELSE IF key = special
               THEN /\ spc' = <<A("plain", key, None, text), NL>>     \* f"{text}\n"
                    /\ UNCHANGED <<bin, empty, texts, pc>>
               ELSE /\ texts' = Append(texts, FormatTextAttachment(key, text))
                    /\ UNCHANGED <<bin, empty, spc, pc>>
    /\ UNCHANGED <<details, special, api>>
    /\ Log("step")

\* the loop is over: the rest of the function runs and the string is returned
Return ==
    /\ pc = "loop" /\ i = Len(Items)
    /\ pc' = "done"
    /\ UNCHANGED <<details, special, api, i, bin, empty, texts, spc>>
    /\ Log("return")

Next == Step \/ Return
Spec == Init /\ [][Next]_vars

-----------------------------------------------------------------------------
(* Invariants *)

TypeOK ==
    /\ pc \in {"loop", "done", "raised"} /\ i \in 0..Len(Items)
    /\ Len(bin) + Len(empty) + Len(texts) + (IF spc = <<>> THEN 0 ELSE 1) = (IF Raised THEN i - 1 ELSE i)

\* D7: an exception leaves exactly when a text detail cannot be decoded with its charset
RaisesOnlyUndecodable == Raised <=> \E n \in Seen : Undecodable(n)

\* D1: the result is empty or ends with a newline, and is made of whole lines
WellFormed ==
    LET L == Lines IN
    ~Raised => (\A j \in DOMAIN L : L[j].k # "malformed") /\ (Out = <<>> <=> Seen = {})

\* D1: every detail is named exactly once (the special one shown bare counts as named)
EveryDetailOnce ==
    LET L == Lines IN
    ~Raised => \A n \in Seen : Cardinality({j \in DOMAIN L : L[j].name = n}) = 1

SecRank(k) == CASE k \in {"binhead", "binitem"} -> 1 [] k \in {"emptyhead", "emptyitem"} -> 2
                [] k \in {"inline", "block"} -> 3 [] k = "plain" -> 4 [] OTHER -> 0
\* D2: binary listing, then empty listing, then text attachments (then the special one)
SectionOrder ==
    LET L == Lines IN
    ~Raised => \A a, b \in DOMAIN L :
                  (a < b /\ SecRank(L[a].k) > 0 /\ SecRank(L[b].k) > 0) => SecRank(L[a].k) <= SecRank(L[b].k)

\* D2: each listing has its heading, first, exactly when it has members; binary items show their type only
Headings ==
    LET L == Lines IN
    ~Raised =>
        /\ Cardinality({j \in DOMAIN L : L[j].k = "binhead"}) = (IF Of("binary") = {} THEN 0 ELSE 1)
        /\ Cardinality({j \in DOMAIN L : L[j].k = "emptyhead"}) = (IF Of("empty") = {} THEN 0 ELSE 1)
        /\ \A j \in DOMAIN L : L[j].k = "binitem" => (\E h \in 1..(j - 1) : L[h].k = "binhead") /\ L[j].ct = details[L[j].name].ct
        /\ \A j \in DOMAIN L : L[j].k = "emptyitem" => \E h \in 1..(j - 1) : L[h].k = "emptyhead"

\* D5: within a section, names ascend
SortedSections ==
    LET L == Lines IN
    ~Raised => \A a, b \in DOMAIN L :
                  (a < b /\ L[a].name # None /\ L[b].name # None /\ SecRank(L[a].k) = SecRank(L[b].k))
                      => Rank(L[a].name) < Rank(L[b].name)

\* D4: the special detail, when it has text, is the last thing shown
SpecialLast ==
    LET L == Lines IN
    (~Raised /\ Of("special") # {}) => (L # <<>> /\ L[Len(L)].k = "plain" /\ L[Len(L)].name = special)

\* D4: ... bare: when it is the only detail the result is its text and a newline; no other detail is ever shown bare
SpecialBare ==
    LET L == Lines IN
    ~Raised =>
        /\ (Seen = Of("special") /\ Seen # {}) => Out = <<A("plain", special, None, Core(details[special].raw)), NL>>
        /\ \A j \in DOMAIN L : L[j].k = "plain" => L[j].name = special

\* D3 / D6 / D7: the whole text, line by line
RenderMeaning == ~Raised => Lines = Expected

-----------------------------------------------------------------------------
Terminal == pc \in {"done", "raised"}
ExportC == Terminal => PrintT(<<"EXPORT", ToJson(hist)>>)
ViewNoHist == <<details, special, api, pc, i, bin, empty, texts, spc>>
=============================================================================
