SPECIFICATION Spec
CONSTANTS
  Tags <- Tags3
  Deltas <- Deltas3
  MaxCtx = 3
  MaxSteps = 4
  CopyOnGet = TRUE
  GoneMinusNew = TRUE
VIEW ViewNoHist
INVARIANT TypeOK
INVARIANT TagsMeaning
INVARIANT MergeMeaning
INVARIANT MergeDisjoint
PROPERTY ReturnedIsCurrent
PROPERTY OthersAlone
PROPERTY MutateHarmless
PROPERTY NewMeaning
CHECK_DEADLOCK FALSE
