----------------------------- MODULE UniqueVals -----------------------------
(***************************************************************************)
(* X02 (part 1) - TestCase.getUniqueInteger / getUniqueString / _reset      *)
(* (testtools/testcase.py).                                                 *)
(*                                                                         *)
(* Documented sentences formalised:                                         *)
(*  D1 getUniqueInteger: "Returns an integer that is guaranteed to be       *)
(*     unique to this instance."  doc/for-test-authors.rst: "They return    *)
(*     strings and integers that are unique within the context of the       *)
(*     test".  The repository's own test: "returns an integer that          *)
(*     increments each time you call it".             IntsDistinctIncreasing *)
(*  D2 getUniqueString: "Returns a string that is guaranteed to be unique   *)
(*     to this instance ... :param prefix: The prefix of the string. If not *)
(*     provided, defaults to the id of the tests. :return: A bytestring of  *)
(*     '<prefix>-<unique_int>'."               StringsDistinct, StringShape *)
(*  D3 _reset: "Reset the test case as if it had never been run."; run()    *)
(*     calls _reset first: a run of an instance hands out what a new        *)
(*     instance would.                                    ResetStartsOver   *)
(*                                                                         *)
(* MECHANISM: one counter (itertools.count(1)) consumed by both calls and   *)
(* replaced by _reset.  MEANING: predicates over the list `calls` of values *)
(* handed out since the last reset, and over `all`, the values of every     *)
(* epoch, none of which mention the counter.                                *)
(***************************************************************************)
EXTENDS Naturals, Sequences, FiniteSets, TLC, Json

CONSTANTS
    Prefixes,     \* prefix arguments explored: "none" (argument omitted), "" (empty string), other strings
    MaxSteps,     \* bound on the number of actions
    MaxRuns,      \* bound on run() calls of the one instance
    Stages,       \* TRUE: calls inside run() are spread over setUp / test method / cleanup
    ResetOnRun    \* TRUE = as required; FALSE = spec mutation (run() keeps the old counter)

FirstInt == 1     \* what a new instance hands out first
TestId == "id"    \* the test's id()

VARIABLES
    gen,      \* next integer of the counter                                        (mechanism)
    phase,    \* "new" (constructed, never run) | "in" (inside run()) | "out" (after a run)
    stage,    \* 1 = setUp, 2 = test method, 3 = cleanup (inside run())
    runs,     \* run() calls so far
    calls,    \* values handed out since the last reset: [k, n] or [k, pre, n]      (history)
    all,      \* sequence of the `calls` of every finished epoch                    (history)
    steps,
    hist

vars == <<gen, phase, stage, runs, calls, all, steps, hist>>

Shown(p) == IF p = "none" THEN TestId ELSE p

Log(a, arg, out) == hist' = Append(hist, [a |-> a, arg |-> arg, out |-> out, pos |-> Len(calls'), stage |-> stage', ep |-> Len(all')])

Init ==
    /\ gen = FirstInt /\ phase = "new" /\ stage = 1 /\ runs = 0
    /\ calls = <<>> /\ all = <<>> /\ steps = 0 /\ hist = <<>>

\* getUniqueInteger: return next(self._unique_id_gen)
GetInt ==
    /\ steps < MaxSteps
    /\ calls' = Append(calls, [k |-> "int", n |-> gen])
    /\ gen' = gen + 1
    /\ UNCHANGED <<phase, stage, runs, all>>
    /\ steps' = steps + 1
    /\ Log("int", "none", gen)

\* getUniqueString(prefix): "%s-%d" % (prefix or self.id(), self.getUniqueInteger())
GetStr(p) ==
    /\ steps < MaxSteps
    /\ calls' = Append(calls, [k |-> "str", pre |-> Shown(p), n |-> gen])
    /\ gen' = gen + 1
    /\ UNCHANGED <<phase, stage, runs, all>>
    /\ steps' = steps + 1
    /\ Log("str", p, <<Shown(p), gen>>)

\* run(): self._reset() first, then the RunTest drives setUp / test / cleanups
BeginRun ==
    /\ steps < MaxSteps /\ phase # "in" /\ runs < MaxRuns
    /\ phase' = "in" /\ stage' = 1 /\ runs' = runs + 1
    /\ gen' = IF ResetOnRun THEN FirstInt ELSE gen
    /\ all' = Append(all, calls) /\ calls' = <<>>
    /\ steps' = steps + 1
    /\ Log("begin_run", "none", "none")

NextStage ==
    /\ Stages /\ steps < MaxSteps /\ phase = "in" /\ stage < 3
    /\ stage' = stage + 1
    /\ UNCHANGED <<gen, phase, runs, calls, all>>
    /\ steps' = steps + 1
    /\ Log("next_stage", "none", "none")

EndRun ==
    /\ steps < MaxSteps /\ phase = "in"
    /\ phase' = "out" /\ stage' = 1
    /\ UNCHANGED <<gen, runs, calls, all>>
    /\ steps' = steps + 1
    /\ Log("end_run", "none", "none")

Next == GetInt \/ (\E p \in Prefixes : GetStr(p)) \/ BeginRun \/ NextStage \/ EndRun

Spec == Init /\ [][Next]_vars

-----------------------------------------------------------------------------
(* MEANING *)

\* D1: within one epoch all integers (also those inside strings) are distinct and increase call by call
IntsDistinctIncreasing == \A i, j \in DOMAIN calls : i < j => calls[i].n < calls[j].n

\* D2: the strings of one epoch are pairwise different
StrOf(c) == <<c.pre, c.n>>       \* "<prefix>-<int>": the last '-' splits it uniquely because ints hold no '-'
StringsDistinct ==
    \A i, j \in DOMAIN calls : (i # j /\ calls[i].k = "str" /\ calls[j].k = "str") => StrOf(calls[i]) # StrOf(calls[j])

\* D2: the string shows the prefix given (also the empty one), the test id when none was given
StringShape ==
    [][(Len(hist') = Len(hist) + 1 /\ hist'[Len(hist')].a = "str") =>
          LET h == hist'[Len(hist')] IN
          h.out[1] = (IF h.arg = "none" THEN TestId ELSE h.arg)]_vars

\* D3: every epoch - the one of the new instance and the one of every run - hands out the same values at the
\* same positions: what a never-run instance hands out
Fresh(i) == FirstInt + (i - 1)
ResetStartsOver ==
    /\ \A i \in DOMAIN calls : calls[i].n = Fresh(i)
    /\ \A e \in DOMAIN all : \A i \in DOMAIN all[e] : all[e][i].n = Fresh(i)

\* the epoch list restarts exactly at run()
EpochPerRun == Len(all) = runs

-----------------------------------------------------------------------------
Terminal == steps = MaxSteps
ExportC == Terminal => PrintT(<<"EXPORT", ToJson(hist)>>)
ViewNoHist == <<gen, phase, stage, runs, calls, all, steps>>
=============================================================================
