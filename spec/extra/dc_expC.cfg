SPECIFICATION Spec
CONSTANTS
  Inits <- InitsAll
  RunArgs <- RunsFour
  OwnSets <- OwnSetsFew
  FwdNames <- NoNames
  FwdVals <- Vals1
  GetNames <- NoNames
  MaxSteps = 3
  AfterInFinally = TRUE
  OwnTuple <- OwnFull
CONSTRAINT ExportC
INVARIANT CalloutOnce
INVARIANT CaseGetsAltered
INVARIANT NoEarlyCase
INVARIANT BeforePrecedes
INVARIANT AfterFollows
INVARIANT ForwardedView
INVARIANT OwnStaysOwn
PROPERTY ReadYourWrite
CHECK_DEADLOCK FALSE
