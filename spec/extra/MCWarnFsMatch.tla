--------------------------- MODULE MCWarnFsMatch ---------------------------
(* Model-checking instances of WarnFsMatch: the case alphabets. *)
EXTENDS WarnFsMatch

UpTo(S, n) == UNION {[1..k -> S] : k \in 0..n}

(* warnings *)
Warn(c, m, f, l) == [cat |-> c, msg |-> m, file |-> f, line |-> l]
WarnAlpha == {Warn(c, m, "f1", 1) : c \in {"Dep", "Sub", "User", "Pend"}, m \in {"foo", "bar"}}
               \cup {Warn("Dep", "foo", "f2", 1), Warn("Dep", "foo", "f1", 2), Warn("User", "foo", "f2", 2)}
EmitLists == UpTo(WarnAlpha, 2)
               \cup {<<Warn("Dep", "foo", "f1", 1), Warn("Dep", "foo", "f1", 1), Warn("Dep", "foo", "f1", 1)>>,
                     <<Warn("User", "bar", "f1", 1), Warn("Dep", "foo", "f1", 1), Warn("User", "bar", "f1", 1)>>,
                     <<Warn("Dep", "foo", "f1", 1), Warn("Sub", "foo", "f1", 1), Warn("Pend", "bar", "f1", 1)>>}
WM(c, m, f, l) == [cat |-> c, msg |-> m, file |-> f, line |-> l]
FieldCombos == {<<"*", "*", 0>>, <<"foo", "*", 0>>, <<"bar", "*", 0>>, <<"*", "f1", 0>>, <<"*", "f2", 0>>,
                <<"*", "*", 1>>, <<"*", "*", 2>>, <<"foo", "f1", 1>>, <<"foo", "f2", 2>>}
OneSpec == {WM(c, t[1], t[2], t[3]) : c \in {"Dep", "Sub", "User", "Pend"}, t \in FieldCombos}
PairSpec == {WM(c, m, "*", 0) : c \in {"Dep", "User"}, m \in {"*", "foo"}}
WMatchers == {[k |-> "any"]} \cup {[k |-> "len", n |-> n] : n \in 0..2}
               \cup {[k |-> "dep", msg |-> m] : m \in {"*", "foo", "bar"}}
               \cup {[k |-> "list", specs |-> <<>>]}
               \cup {[k |-> "list", specs |-> <<s>>] : s \in OneSpec}
               \cup {[k |-> "list", specs |-> <<s, t>>] : s \in PairSpec, t \in PairSpec}
WCases == {[kind |-> "W", m |-> m, emits |-> e] : m \in WMatchers, e \in EmitLists}

(* paths: what each expression refers to in the directory of the replay *)
P(abs, comps, node) == [abs |-> abs, comps |-> comps, node |-> node]
RelPaths == {
    P(FALSE, <<"f">>, "F"), P(FALSE, <<".", "f">>, "F"), P(FALSE, <<"l">>, "F"), P(FALSE, <<"la">>, "F"),
    P(FALSE, <<"d", "..", "f">>, "F"), P(FALSE, <<"d", "e", "..", "..", "f">>, "F"), P(FALSE, <<"ld", "..", "..", "f">>, "F"),
    P(FALSE, <<"h">>, "H0"), P(FALSE, <<"d", "lu">>, "H0"), P(FALSE, <<"ld", "..", "lu">>, "H0"),
    P(FALSE, <<"d", "h">>, "H1"), P(FALSE, <<"ld", "..", "h">>, "H1"),
    P(FALSE, <<"d">>, "D"), P(FALSE, <<"d", ".">>, "D"), P(FALSE, <<"ld", "..">>, "D"),
    P(FALSE, <<"ld">>, "E"), P(FALSE, <<"d", "e">>, "E"),
    P(FALSE, <<"ld", "g">>, "G"), P(FALSE, <<"d", "e", "g">>, "G"),
    P(FALSE, <<"n">>, "M:R/n"), P(FALSE, <<"d", "..", "n">>, "M:R/n"),
    P(FALSE, <<"d", "n">>, "M:D/n"), P(FALSE, <<"ld", "..", "n">>, "M:D/n"),
    P(FALSE, <<"ld", "n">>, "M:E/n"), P(FALSE, <<"d", "e", "n">>, "M:E/n"),
    P(FALSE, <<"d", "f">>, "M:D/f") }
AbsPaths == {P(TRUE, <<"f">>, "F"), P(TRUE, <<"l">>, "F"), P(TRUE, <<"ld", "..", "h">>, "H1"), P(TRUE, <<"h">>, "H0"),
             P(TRUE, <<"n">>, "M:R/n"), P(TRUE, <<"d", "e">>, "E")}
Paths == RelPaths \cup AbsPaths
SPCases == {[kind |-> "SP", p |-> p, q |-> q] : p \in Paths, q \in Paths}

(* permissions: st_mode values (octal in the comment) *)
Modes == {33188 (*100644*), 33152 (*100600*), 33261 (*100755*), 32768 (*100000*), 33060 (*100444*), 35309 (*104755*),
          34212 (*102644*), 16877 (*40755*), 17407 (*41777*), 17901 (*42755*), 16832 (*40700*)}
Perms == {<<"0", "6", "4", "4">>, <<"0", "6", "0", "0">>, <<"0", "7", "5", "5">>, <<"0", "0", "0", "0">>,
          <<"0", "4", "4", "4">>, <<"4", "7", "5", "5">>, <<"2", "6", "4", "4">>, <<"1", "7", "7", "7">>,
          <<"2", "7", "5", "5">>, <<"0", "7", "0", "0">>, <<"0", "7", "7", "7">>}
HPCases == {[kind |-> "HP", mode |-> m, perm |-> p] : m \in Modes, p \in Perms}

(* tarballs: member names in archive order, given paths in the order given; no name twice *)
Names == {NameOrder[i] : i \in DOMAIN NameOrder}
Inj(n) == {s \in UpTo(Names, n) : \A i, j \in DOMAIN s : i # j => s[i] # s[j]}
TBCases == {[kind |-> "TB", members |-> m, paths |-> p] : m \in Inj(3), p \in Inj(3)}

(* predicates with parameters *)
Lit(s) == [t |-> "lit", s |-> s]
Pos(i) == [t |-> "pos", i |-> i]
Kw(n) == [t |-> "kw", n |-> n]
TmplDiv == <<Pos(0), Lit(" is not divisible by "), Pos(1)>>
TmplPos == <<Pos(0), Lit(" is not between "), Pos(1), Lit(" and "), Pos(2)>>
TmplKw == <<Pos(0), Lit(" is not between "), Pos(1), Lit(" and "), Kw("hi")>>
TmplOne == <<Lit("not above "), Pos(1), Lit(": "), Pos(0)>>
C(args, kw) == [args |-> args, kw |-> kw]
OneOrTwo(S) == {<<s>> : s \in S} \cup {<<s, t>> : s \in S, t \in S}
PPC(pred, ret, named, tmpl, cons, x) == [kind |-> "PP", pred |-> pred, ret |-> ret, named |-> named, tmpl |-> tmpl, cons |-> cons, x |-> x]
PPCases ==
    {PPC("div", r, nm, TmplDiv, cs, x) : r \in {"bool", "int", "str"}, nm \in BOOLEAN,
                                         cs \in OneOrTwo({C(<<k>>, {}) : k \in 1..3}), x \in 0..6}
    \cup {PPC("btw", "bool", FALSE, TmplPos, cs, x) : cs \in OneOrTwo({C(<<lo, hi>>, {}) : lo \in {1, 2}, hi \in {4, 6}}), x \in 0..6}
    \cup {PPC("btw", "bool", TRUE, TmplKw, cs, x) : cs \in OneOrTwo({C(<<lo>>, {<<"hi", hi>>}) : lo \in {1, 2}, hi \in {3, 6}}), x \in 0..6}
    \cup {PPC("btw", "int", FALSE, TmplOne, cs, x) : cs \in OneOrTwo({C(<<lo>>, {}) : lo \in {1, 2}}), x \in 0..6}

AllCases == WCases \cup SPCases \cup HPCases \cup TBCases \cup PPCases
=============================================================================
