------------------------------- MODULE DebugTw -------------------------------
(***************************************************************************)
(* X18 (part 3) - testtools.twistedsupport._deferreddebug.DebugTwisted.     *)
(*                                                                         *)
(* Documented: class docstring "Set debug options for Twisted." (debug=True *)
(* by default); it is a Fixture, and fixtures' Fixture.cleanUp "will free   *)
(* all resources managed by the Fixture, restoring it (and any external     *)
(* facilities ...) to their original state".  The options are               *)
(* twisted.internet.defer.Deferred.debug and                                *)
(* twisted.internet.base.DelayedCall.debug.                                 *)
(*   -> while fixtures are active both options have the value the innermost *)
(*      one asked for; when none is active they have their initial values   *)
(*                                              ValueIsInnermost, Restored  *)
(* MECHANISM: each setUp saves the two current values and assigns           *)
(* (fixtures.MonkeyPatch), each cleanUp assigns the saved ones back.        *)
(* MEANING: a function of the stack of requested settings.                  *)
(***************************************************************************)
EXTENDS Naturals, Sequences, TLC, Json

CONSTANTS MaxDepth, MaxSteps,
          RestoreBoth   \* TRUE = as coded; FALSE = spec mutation (DelayedCall.debug is not restored)

VARIABLES dd, dc,     \* Deferred.debug, DelayedCall.debug                   (mechanism)
          saved,      \* stack of <<old dd, old dc>>                         (mechanism)
          asked,      \* stack of requested settings                         (meaning)
          init0,      \* initial <<dd, dc>>
          n, hist
vars == <<dd, dc, saved, asked, init0, n, hist>>

Init ==
    /\ dd \in BOOLEAN /\ dc \in BOOLEAN /\ init0 = <<dd, dc>>
    /\ saved = <<>> /\ asked = <<>> /\ n = 0
    /\ hist = <<[a |-> "init", arg |-> init0, dd |-> dd, dc |-> dc]>>

Enter(v) ==
    /\ n < MaxSteps /\ Len(saved) < MaxDepth
    /\ saved' = Append(saved, <<dd, dc>>) /\ asked' = Append(asked, v)
    /\ dd' = v /\ dc' = v /\ n' = n + 1 /\ UNCHANGED init0
    /\ hist' = Append(hist, [a |-> "enter", arg |-> v, dd |-> dd', dc |-> dc'])

Leave ==
    /\ n < MaxSteps /\ saved # <<>>
    /\ dd' = saved[Len(saved)][1]
    /\ dc' = IF RestoreBoth THEN saved[Len(saved)][2] ELSE dc
    /\ saved' = SubSeq(saved, 1, Len(saved) - 1) /\ asked' = SubSeq(asked, 1, Len(asked) - 1)
    /\ n' = n + 1 /\ UNCHANGED init0
    /\ hist' = Append(hist, [a |-> "leave", arg |-> "none", dd |-> dd', dc |-> dc'])

Next == Leave \/ \E v \in BOOLEAN : Enter(v)
Spec == Init /\ [][Next]_vars

ValueIsInnermost == asked # <<>> => (dd = asked[Len(asked)] /\ dc = asked[Len(asked)])
Restored == asked = <<>> => <<dd, dc>> = init0

Terminal == n = MaxSteps
ExportC == Terminal => PrintT(<<"EXPORT", ToJson(hist)>>)
=============================================================================
