SPECIFICATION Spec
CONSTANTS
  Names <- NamesE
  MaxSteps = 4
  Loop = FALSE
VIEW ViewNoHist
INVARIANT TypeOK
PROPERTY GrowsByOne
PROPERTY KeepsOld
PROPERTY NameIfFree
PROPERTY ModifiedName
PROPERTY AddMeaning
CHECK_DEADLOCK FALSE
