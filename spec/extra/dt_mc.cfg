SPECIFICATION Spec
CONSTANTS
  NameOrder <- Names4
  Kinds <- KindsMc
  Modes <- ModesAll
  PadLast = TRUE
VIEW ViewNoHist
INVARIANT TypeOK
INVARIANT RaisesOnlyUndecodable
INVARIANT WellFormed
INVARIANT EveryDetailOnce
INVARIANT SectionOrder
INVARIANT Headings
INVARIANT SortedSections
INVARIANT SpecialLast
INVARIANT SpecialBare
INVARIANT RenderMeaning
CHECK_DEADLOCK FALSE
