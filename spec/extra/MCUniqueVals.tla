---------------------------- MODULE MCUniqueVals ----------------------------
(* Model-checking instances of UniqueVals: prefix alphabets. *)
EXTENDS UniqueVals
PrefAll == {"none", "", "p", "q"}
PrefTwo == {"none", "p"}
PrefThree == {"none", "", "p"}
=============================================================================
