------------------------------- MODULE RunCmd -------------------------------
(***************************************************************************)
(* X09 - the testtools.run command line: testtools.run.TestProgram,         *)
(* TestToolsTestRunner, list_test.                                          *)
(*                                                                         *)
(* Documented sentences formalised:                                         *)
(*  D1 --list help: "List tests rather than executing them"; NEWS 0.9.16    *)
(*     "-l to list tests rather than executing them"; list_test docstring:  *)
(*     "Return the test ids that would be run if test() was run.  When      *)
(*     things fail to import they can be represented as well";              *)
(*     TestToolsTestRunner.list: "List the tests that would be run if       *)
(*     test() was run."  The repository's own test of a failed import       *)
(*     expects the import error text on stdout and SystemExit(2).           *)
(*                                            ListMeaning, ImportErrorNonZero *)
(*  D2 --load-list help: "Specifies a file containing test ids, only tests  *)
(*     matching those ids are executed"; NEWS: "takes a file containing     *)
(*     test ids, one per line, and intersects those ids with the tests      *)
(*     found."                                   LoadListRestricts, Selected *)
(*  D3 NEWS 0.9.24: "testtools.run discover will now sort the tests it      *)
(*     discovered"; for-framework-folk.rst: "In order to deliver consistent *)
(*     test orders when using test discovery ... testtools flattens and     *)
(*     sorts tests that have the standard TestSuite" (sorted_tests sorts by *)
(*     test id)                                       SortedWhenDiscovered  *)
(*  D4 TestToolsTestRunner: ":param failfast: Stop running tests at the     *)
(*     first failure."; NEWS 0.9.23 "testtools.run now supports the -f or   *)
(*     --failfast parameter"                      RunMeaning, FailfastStops *)
(*  D5 runTests: sys.exit(not self.result.wasSuccessful()); unittest.main   *)
(*     documentation: "calls sys.exit() with an exit code indicating        *)
(*     success (0) or failure (1) of the tests run"; TestResult             *)
(*     .wasSuccessful: "If there have been any errors, failures or          *)
(*     unexpected successes, return False" (skips do not count)  ExitMeaning *)
(*  D6 for-test-authors.rst "Running your tests": "python -m testtools.run  *)
(*     exampletest ... where 'exampletest' is a module that contains unit   *)
(*     tests.  By default, testtools.run will *not* recursively search the  *)
(*     module or package" -> the tests of the named things, in the order    *)
(*     named (unittest loads names in order); for-framework-folk.rst:       *)
(*     "represents import failures that occur during test discovery as      *)
(*     tests" -> a failed import is one test (kind "imperr") that errors    *)
(*     when run                                     RunMeaning, ListMeaning *)
(*                                                                         *)
(* A behaviour is one invocation: Init chooses the command line, the        *)
(* MECHANISM performs the steps of TestProgram.__init__ / parseArgs /       *)
(* createTests / _do_discovery / runTests as actions (Parse, LoadName* |     *)
(* Discover + SortTests, Filter, ListTests | StartRun RunOne* StopRun).      *)
(* The MEANING is written over the command line and the world tables only:  *)
(* the set of test OCCURRENCES found, those selected by the id file, their  *)
(* order (as named / by id), the shortest prefix ending at the first        *)
(* failing test.  Test ids are naturals whose order is the lexicographic    *)
(* order of the concrete ids the driver uses.                               *)
(***************************************************************************)
EXTENDS Naturals, Sequences, FiniteSets, TLC, Json, SequencesExt

CONSTANTS
    Specs,          \* names that can be given on the command line (module, module.Class, module.Class.method, module.callable)
    Load,           \* [Specs -> Seq([id, kind])]: what unittest's loader makes of the name, in loader order
    SpecErr,        \* [Specs -> 0..1]: loader errors (failed imports) the name causes
    Files,          \* module names of the package in file-name order (unittest discovery order)
    ModLoad,        \* [module -> Seq([id, kind])]: what discovery loads from the module (load_tests honoured)
    ModErr,         \* [module -> 0..1]
    Patterns,       \* names of the discovery patterns explored
    Match,          \* [Patterns -> SUBSET modules]
    LoadLists,      \* contents of the --load-list file: sets of ids (besides NoLL)
    Modes,          \* subset of {<<list, failfast>>}: flag combinations explored
    MaxNames,       \* bound on the number of names
    SortOnDiscover  \* TRUE = as documented/coded; FALSE = spec mutation (_do_discovery does not sort)

NoLL == {0}                 \* no --load-list option (ids are >= 1)
NoExit == 99                \* TestProgram returned without SystemExit
Bad == {"fail", "error", "imperr"}

VARIABLES
    cmd,      \* the command line: [mode, names, pat, list, ff, ll]                         (input, constant)
    pc,       \* "parse", "load", "sort", "filter", "go", "run", "done"
    opts,     \* parsed options: [list, ff, ll]                                             (mechanism)
    test,     \* self.test, flattened: Seq([id, kind])                                      (mechanism)
    nerr,     \* len(loader.errors)                                                         (mechanism)
    k,        \* loop index (names / tests)
    out,      \* ids written by --list
    ran,      \* tests run so far, in order
    nbad,     \* len(result.errors) + len(result.failures)
    stop,     \* result.shouldStop
    exit,     \* SystemExit code or NoExit
    hist

vars == <<cmd, pc, opts, test, nerr, k, out, ran, nbad, stop, exit, hist>>

Ids(q) == [j \in DOMAIN q |-> q[j].id]

-----------------------------------------------------------------------------
(* Mechanism *)

\* sorted_tests: sort by id (insertion sort)
RECURSIVE InsertById(_, _)
InsertById(s, x) ==
    IF s = <<>> THEN <<x>>
    ELSE IF x.id < Head(s).id THEN <<x>> \o s
    ELSE <<Head(s)>> \o InsertById(Tail(s), x)
RECURSIVE SortById(_)
SortById(s) == IF s = <<>> THEN <<>> ELSE InsertById(SortById(SubSeq(s, 1, Len(s) - 1)), s[Len(s)])

\* loader.discover: walk the files in name order, load those matching the pattern
RECURSIVE Walk(_, _)
Walk(fs, ms) ==
    IF fs = <<>> THEN [tests |-> <<>>, errs |-> 0]
    ELSE LET r == Walk(Tail(fs), ms)
             m == Head(fs)
         IN IF m \in ms THEN [tests |-> ModLoad[m] \o r.tests, errs |-> ModErr[m] + r.errs] ELSE r

Log(a, arg) ==
    hist' = Append(hist, [a |-> a, arg |-> arg, test |-> Ids(test'), nerr |-> nerr',
                          out |-> out', ran |-> Ids(ran'), nbad |-> nbad', exit |-> exit'])

Cmd(mode, names, pat, md, ll) == [mode |-> mode, names |-> names, pat |-> pat, list |-> md[1], ff |-> md[2], ll |-> ll]

NameSeqs == UNION {[1..n -> Specs] : n \in 1..MaxNames}

Init ==
    /\ \E md \in Modes, ll \in LoadLists \cup {NoLL} :
          \/ \E ns \in NameSeqs : cmd = Cmd("names", ns, "none", md, ll)
          \/ \E p \in Patterns : cmd = Cmd("discover", <<>>, p, md, ll)
    /\ pc = "parse"
    /\ opts = [list |-> FALSE, ff |-> FALSE, ll |-> NoLL]      \* class defaults: listtests = False, load_list = None
    /\ test = <<>> /\ nerr = 0 /\ k = 0 /\ out = <<>> /\ ran = <<>> /\ nbad = 0 /\ stop = FALSE /\ exit = NoExit
    /\ hist = <<[a |-> "init", arg |-> cmd]>>

\* parseArgs: argparse fills listtests / load_list / failfast (and the names or discovery arguments)
Parse ==
    /\ pc = "parse"
    /\ opts' = [list |-> cmd.list, ff |-> cmd.ff, ll |-> cmd.ll]
    /\ pc' = "load" /\ k' = 1
    /\ UNCHANGED <<cmd, test, nerr, out, ran, nbad, stop, exit>>
    /\ Log("parse", "none")

\* createTests: loadTestsFromNames - one name after the other, each appended as a sub-suite
LoadName ==
    /\ pc = "load" /\ cmd.mode = "names" /\ k <= Len(cmd.names)
    /\ test' = test \o Load[cmd.names[k]]
    /\ nerr' = nerr + SpecErr[cmd.names[k]]
    /\ k' = k + 1
    /\ pc' = IF k = Len(cmd.names) THEN "filter" ELSE "load"
    /\ UNCHANGED <<cmd, opts, out, ran, nbad, stop, exit>>
    /\ Log("load", cmd.names[k])

\* createTests(from_discovery=True): loader.discover(start, pattern, top)
Discover ==
    /\ pc = "load" /\ cmd.mode = "discover"
    /\ LET r == Walk(Files, Match[cmd.pat]) IN test' = r.tests /\ nerr' = r.errs
    /\ pc' = "sort"
    /\ UNCHANGED <<cmd, opts, k, out, ran, nbad, stop, exit>>
    /\ Log("discover", cmd.pat)

\* _do_discovery: self.test = sorted_tests(self.test)
SortTests ==
    /\ pc = "sort"
    /\ test' = IF SortOnDiscover THEN SortById(test) ELSE test
    /\ pc' = "filter"
    /\ UNCHANGED <<cmd, opts, nerr, k, out, ran, nbad, stop, exit>>
    /\ Log("sort", "none")

\* if self.load_list: self.test = filter_by_ids(self.test, test_ids)
Filter ==
    /\ pc = "filter"
    /\ test' = IF opts.ll = NoLL THEN test ELSE SelectSeq(test, LAMBDA t : t.id \in opts.ll)
    /\ pc' = "go"
    /\ UNCHANGED <<cmd, opts, nerr, k, out, ran, nbad, stop, exit>>
    /\ Log("filter", "none")

\* runner.list(self.test, loader=self.testLoader): the ids, then loader.errors and sys.exit(2) when there are any
ListTests ==
    /\ pc = "go" /\ opts.list
    /\ out' = Ids(test)
    /\ exit' = IF nerr > 0 THEN 2 ELSE NoExit
    /\ pc' = "done"
    /\ UNCHANGED <<cmd, opts, test, nerr, k, ran, nbad, stop>>
    /\ Log("list", "none")

\* runTests -> TestToolsTestRunner.run: result.startTestRun(); test.run(result)
StartRun ==
    /\ pc = "go" /\ ~opts.list
    /\ pc' = "run" /\ k' = 1
    /\ UNCHANGED <<cmd, opts, test, nerr, out, ran, nbad, stop, exit>>
    /\ Log("start", "none")

\* TestSuite.run: for test in self: if result.shouldStop: break; test(result)
\* TestResult.addError / addFailure: if self.failfast: self.stop()
RunOne ==
    /\ pc = "run" /\ k <= Len(test) /\ ~stop
    /\ ran' = Append(ran, test[k])
    /\ nbad' = nbad + (IF test[k].kind \in Bad THEN 1 ELSE 0)
    /\ stop' = (opts.ff /\ test[k].kind \in Bad)
    /\ k' = k + 1
    /\ UNCHANGED <<cmd, pc, opts, test, nerr, out, exit>>
    /\ Log("run1", test[k])

\* result.stopTestRun(); sys.exit(not self.result.wasSuccessful())
StopRun ==
    /\ pc = "run" /\ (k > Len(test) \/ stop)
    /\ exit' = IF nbad > 0 THEN 1 ELSE 0
    /\ pc' = "done"
    /\ UNCHANGED <<cmd, opts, test, nerr, k, out, ran, nbad, stop>>
    /\ Log("exit", "none")

Next == Parse \/ LoadName \/ Discover \/ SortTests \/ Filter \/ ListTests \/ StartRun \/ RunOne \/ StopRun

Spec == Init /\ [][Next]_vars

-----------------------------------------------------------------------------
(* MEANING: over the command line and the world tables only *)

MaxPer == 8     \* more tests than any name / module has
\* a test OCCURRENCE found: <<i, j>> = the j-th test of the i-th name (resp. of the i-th file)
Occ ==
    IF cmd.mode = "names"
    THEN {o \in (DOMAIN cmd.names) \X (1..MaxPer) : o[2] \in DOMAIN Load[cmd.names[o[1]]]}
    ELSE {o \in (DOMAIN Files) \X (1..MaxPer) : Files[o[1]] \in Match[cmd.pat] /\ o[2] \in DOMAIN ModLoad[Files[o[1]]]}
Item(o) == IF cmd.mode = "names" THEN Load[cmd.names[o[1]]][o[2]] ELSE ModLoad[Files[o[1]]][o[2]]

\* D6: import failures among what was named / discovered
ImportErrors ==
    IF cmd.mode = "names" THEN Cardinality({i \in DOMAIN cmd.names : SpecErr[cmd.names[i]] > 0})
    ELSE Cardinality({i \in DOMAIN Files : Files[i] \in Match[cmd.pat] /\ ModErr[Files[i]] > 0})

\* D2: "intersects those ids with the tests found"
Selected == {o \in Occ : cmd.ll = NoLL \/ Item(o).id \in cmd.ll}

\* D6 / D3: as named (name by name, loader order within a name) resp. by id
Before(o1, o2) ==
    IF cmd.mode = "names" THEN o1[1] < o2[1] \/ (o1[1] = o2[1] /\ o1[2] < o2[2])
    ELSE Item(o1).id < Item(o2).id
Expected == LET s == SetToSortSeq(Selected, Before) IN [j \in DOMAIN s |-> Item(s[j])]

\* D4: "Stop running tests at the first failure"
BadAt == {j \in DOMAIN Expected : Expected[j].kind \in Bad}
MinOf(S) == CHOOSE x \in S : \A y \in S : x <= y
ExpectedRan == IF cmd.ff /\ BadAt # {} THEN SubSeq(Expected, 1, MinOf(BadAt)) ELSE Expected

Done == pc = "done"

\* D1: the ids that would be run, nothing is run; import errors are reported and give exit status 2
ListMeaning ==
    (Done /\ cmd.list) =>
        /\ out = Ids(Expected)
        /\ ran = <<>>
        /\ nerr = ImportErrors
        /\ exit = (IF ImportErrors > 0 THEN 2 ELSE NoExit)

\* D4/D6: which tests run and in which order
RunMeaning == (Done /\ ~cmd.list) => (ran = ExpectedRan /\ out = <<>>)

\* D5: 0 iff successful
ExitMeaning ==
    (Done /\ ~cmd.list) =>
        /\ exit \in {0, 1}
        /\ (exit = 0) <=> (\A j \in DOMAIN ExpectedRan : ExpectedRan[j].kind \notin Bad)

\* D3: whatever is listed or run after discovery is in id order
SortedWhenDiscovered ==
    (cmd.mode = "discover" /\ pc \in {"filter", "go", "run", "done"}) =>
        \A i, j \in DOMAIN test : i < j => test[i].id < test[j].id

\* D2: only tests matching those ids, and all of them
CountIn(q, i) == Cardinality({j \in DOMAIN q : q[j].id = i})
LoadListRestricts ==
    (pc \in {"go", "run", "done"} /\ cmd.ll # NoLL) =>
        /\ \A j \in DOMAIN test : test[j].id \in cmd.ll
        /\ \A i \in cmd.ll : CountIn(test, i) = Cardinality({o \in Occ : Item(o).id = i})

\* D1/D6: a failed import never goes unnoticed: listing exits non-zero, so does a run of everything found
ImportErrorNonZero ==
    (Done /\ ImportErrors > 0 /\ (cmd.list \/ cmd.ll = NoLL)) => exit \notin {0, NoExit}

\* D4, derived: under failfast at most one failing test runs, and it is the last one
FailfastStops ==
    (Done /\ ~cmd.list /\ cmd.ff) =>
        \A j \in DOMAIN ran : ran[j].kind \in Bad => j = Len(ran)

TypeOK ==
    /\ pc \in {"parse", "load", "sort", "filter", "go", "run", "done"}
    /\ nbad <= Len(ran) /\ exit \in {0, 1, 2, NoExit}
    /\ (pc # "done") => exit = NoExit

-----------------------------------------------------------------------------
Terminal == pc = "done"
ExportC == Terminal => PrintT(<<"EXPORT", ToJson(hist)>>)
ViewNoHist == <<cmd, pc, opts, test, nerr, k, out, ran, nbad, stop, exit>>
=============================================================================
