SPECIFICATION Spec
CONSTANTS
  Stacks <- Stacks4
  Chains <- AllChains
  CStacks <- CStacks2
  Apis <- AllApis
  MaxSteps = 3
  SkipLeading = TRUE
VIEW ViewNoHist
INVARIANT TypeOK
INVARIANT UserFramesShown
INVARIANT RunnerLevelsHidden
INVARIANT FullStackWhenNotHiding
INVARIANT EndsWithException
INVARIANT ChainMeaning
INVARIANT LocalsMeaning
INVARIANT HeaderMeaning
INVARIANT StackMeaning
CHECK_DEADLOCK FALSE
