SPECIFICATION Spec
CONSTANTS
  Slots <- Slots4
  Attrs0 <- Attrs4
  Patches <- PatchesS
  InitPend <- NoInit
  MaxSteps = 4
  MaxPend = 2
  MaxOrig = 4
  MaxFn = 1
  FKinds <- AllKinds
  LifoRestore = TRUE
CONSTRAINT ExportC
INVARIANT TypeOK
INVARIANT WouldRestore
INVARIANT SavedIffTouched
PROPERTY RestoreMeaning
PROPERTY RestoreIdempotent
PROPERTY PatchAssigns
PROPERTY RunMeaning
PROPERTY AddPatchIsLazy
CHECK_DEADLOCK FALSE
