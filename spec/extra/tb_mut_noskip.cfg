SPECIFICATION Spec
CONSTANTS
  Stacks <- Stacks3
  Chains <- AllChains
  CStacks <- CStacksE
  Apis <- AllApis
  MaxSteps = 1
  SkipLeading = FALSE
VIEW ViewNoHist
INVARIANT TypeOK
INVARIANT UserFramesShown
INVARIANT RunnerLevelsHidden
INVARIANT FullStackWhenNotHiding
INVARIANT EndsWithException
INVARIANT ChainMeaning
INVARIANT LocalsMeaning
INVARIANT HeaderMeaning
INVARIANT StackMeaning
CHECK_DEADLOCK FALSE
