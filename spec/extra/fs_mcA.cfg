SPECIFICATION Spec
CONSTANTS
  Ids <- Ids3
  InitTests <- Shapes
  Kinds <- AllPass
  FixKinds <- OkFix
  PreStop <- NoPreStop
  MaxOps = 4
  FilterSets <- AllSubsets
  CleanInFinally = TRUE
VIEW ViewNoHist
INVARIANT TypeOK
INVARIANT LeavesMeaning
INVARIANT SortMeaning
INVARIANT Bracketed
INVARIANT RunMeaning
CHECK_DEADLOCK FALSE
