---------------------------- MODULE MCDetailsFile ----------------------------
(* Model-checking instances of DetailsFile: file contents, sizes, bounds. *)
EXTENDS DetailsFile

\* "e" an empty file, "s" b"some data", "big" 4100 bytes (one byte more than 4096 + 3)
SizeOf(v) == CASE v = "e" -> 0 [] v = "s" -> 9 [] v = "big" -> 4100 [] OTHER -> 0
VersionsA == {"s", "big"}
VersionsS == {"e", "s", "big"}
InitA == {Absent, "e"}
InitS == {Absent, "s"}
Path == <<"sub.dir", "server.log">>
ChunksA == {1000}
ChunksS == {4, 1000}
=============================================================================
