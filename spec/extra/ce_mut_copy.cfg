SPECIFICATION Spec
CONSTANTS
  Classes <- ClassesB
  Methods <- MethodsA
  NewIds <- NewIdsB
  Extras <- ExtrasB
  MaxObjs = 3
  MaxSteps = 3
  CopyKeepsId = TRUE
VIEW ViewNoHist
INVARIANT EqEquivalence
INVARIANT EqIffSameAttributes
INVARIANT HashOK
INVARIANT EqualTestsSameId
PROPERTY CloneMeaning
PROPERTY RunMeaning
PROPERTY CopyMeaning
PROPERTY IdsStable
CHECK_DEADLOCK FALSE
