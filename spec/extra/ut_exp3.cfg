SPECIFICATION Spec
CONSTANTS
  Radix = 3
  Gens <- TwoGens
  MaxIdx = 5
  KeepOut = TRUE
  WrapAt = 0
CONSTRAINT ExportC
INVARIANT NoRepeat
INVARIANT Decodes
INVARIANT Canonical
CHECK_DEADLOCK FALSE
