SPECIFICATION Spec
CONSTANTS
  Tags <- Tags2
  Deltas <- DeltasE
  MaxCtx = 3
  MaxSteps = 5
  CopyOnGet = TRUE
  GoneMinusNew = TRUE
CONSTRAINT ExportC
INVARIANT TypeOK
INVARIANT TagsMeaning
INVARIANT MergeMeaning
INVARIANT MergeDisjoint
PROPERTY ReturnedIsCurrent
PROPERTY OthersAlone
PROPERTY MutateHarmless
PROPERTY NewMeaning
CHECK_DEADLOCK FALSE
