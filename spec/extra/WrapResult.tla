----------------------------- MODULE WrapResult -----------------------------
(***************************************************************************)
(* X13 (part 2) - testtools.ConcurrentTestSuite(suite, make_tests,          *)
(* wrap_result): which result object each worker reports to.                *)
(*                                                                         *)
(* Documented sentences formalised (ConcurrentTestSuite docstrings, NEWS):  *)
(*  D1 __init__: ":param wrap_result: An optional function that takes a     *)
(*     thread-safe result and a thread number and must return a TestResult  *)
(*     object. If not provided, then ConcurrentTestSuite will just use a    *)
(*     ThreadsafeForwardingResult wrapped around the result passed to       *)
(*     run()."  _wrap_result: "Wrap a thread-safe result before sending it  *)
(*     test results."  NEWS 0.9.12: "ConcurrentTestSuite now takes an       *)
(*     optional wrap_result parameter that can be used to wrap the          *)
(*     ThreadsafeForwardingResults created by the suite."                   *)
(*                            WrapOncePerWorker, WorkerReportsToWrapped     *)
(*  D2 make_tests: "must take a suite, and return an iterable of TestCase-  *)
(*     like object, each of which must have a run(result) method"; run():   *)
(*     "This calls out to the provided make_tests helper, and then          *)
(*     serialises the results so that result only sees activity from one    *)
(*     TestCase at a time."                                  TargetSeesAll  *)
(*  D3 run(): "it is up to the make_tests to honour the shouldStop          *)
(*     attribute on the result object they are run with, which will be set  *)
(*     if an exception is raised in the thread which ConcurrentTestSuite.   *)
(*     run is called in."                                     AbortMeaning  *)
(*                                                                         *)
(* MECHANISM (code-shaped): the loop "for i, test in enumerate(tests):      *)
(* process_result = self._wrap_result(ThreadsafeForwardingResult(result,    *)
(* semaphore), i); start a thread running test.run(process_result)", the    *)
(* worker threads (each test of a worker reaches first the object the wrap  *)
(* returned, then - as one block under the semaphore - the result given to  *)
(* run()), the except clause calling process_result.stop() for every        *)
(* started worker.  TLC interleaves the main thread and the workers.        *)
(* MEANING: per worker the sequence of its own tests (input) - what its     *)
(* wrapped result and the final result must have seen of it.                *)
(***************************************************************************)
EXTENDS Naturals, Sequences, FiniteSets, TLC, Json

CONSTANTS
    Plans,        \* set of plans: sequences (one entry per worker, in make_tests order) of sequences of test ids
    WrapKinds,    \* subset of {"default", "decorate", "identity"}: no wrap_result / a new decorator / the same object
    Aborts,       \* subset of 0..2: 0 = no fault; j = the wrap_result call for the j-th worker raises
    WrapEach,     \* TRUE = as coded (one wrap call per worker); FALSE = spec mutation (one wrap shared by all)
    JoinInOrder   \* TRUE: explore only the joins in worker order (the order of the joins is not observable)

None == "none"

VARIABLES
    plan, wrapk, abortAt,     \* inputs (constant)
    mpc,        \* main thread: "spawn" | "join" | "done" | "raised"
    nxt,        \* next worker to spawn
    wrapcalls,  \* per worker: <<thread numbers the wrap function was called with for it>>      (mechanism)
    obj,        \* per worker: identity of the object its tests are run with: <<"wrapped", w>> or <<"tfr", w>> (mechanism)
    wst,        \* per worker: "unborn" | "running" | "exited" | "joined"
    pos,        \* per worker: tests run so far
    seen,       \* per worker: test ids its process_result has seen, in order                  (mechanism)
    target,     \* what the result given to run() has seen: sequence of <<worker, id>>          (mechanism)
    stops,      \* per worker: stop() calls received by its process_result
    tstop,      \* target.shouldStop
    hist

vars == <<plan, wrapk, abortAt, mpc, nxt, wrapcalls, obj, wst, pos, seen, target, stops, tstop, hist>>

NW == Len(plan)
W == 1..NW

Log(a, w, arg) ==
    hist' = Append(hist, [a |-> a, w |-> w, arg |-> arg, seen |-> seen', target |-> target', wrapcalls |-> wrapcalls',
                          stops |-> stops', tstop |-> tstop', mpc |-> mpc'])

Init ==
    /\ plan \in Plans /\ wrapk \in WrapKinds /\ abortAt \in Aborts
    /\ abortAt <= Len(plan) /\ (abortAt > 0 => wrapk # "default")
    /\ mpc = "spawn" /\ nxt = 1
    /\ wrapcalls = [w \in W |-> <<>>]
    /\ obj = [w \in W |-> <<"none", 0>>]
    /\ wst = [w \in W |-> "unborn"]
    /\ pos = [w \in W |-> 0]
    /\ seen = [w \in W |-> <<>>]
    /\ target = <<>>
    /\ stops = [w \in W |-> 0]
    /\ tstop = FALSE
    /\ hist = <<[a |-> "init", w |-> 0, arg |-> [plan |-> plan, wrap |-> wrapk, abort |-> abortAt]]>>

\* for i, test in enumerate(tests): process_result = self._wrap_result(TFR(result, semaphore), i); thread.start()
Spawn ==
    /\ mpc = "spawn" /\ nxt <= NW /\ abortAt # nxt
    /\ LET w == nxt
           shared == ~WrapEach /\ w > 1
       IN /\ wrapcalls' = IF wrapk = "default" \/ shared THEN wrapcalls ELSE [wrapcalls EXCEPT ![w] = Append(@, w - 1)]
          /\ obj' = [obj EXCEPT ![w] = IF shared THEN obj[1] ELSE IF wrapk = "decorate" THEN <<"wrapped", w>> ELSE <<"tfr", w>>]
          /\ wst' = [wst EXCEPT ![w] = "running"]
          /\ nxt' = nxt + 1
          /\ mpc' = IF nxt = NW THEN "join" ELSE "spawn"
          /\ UNCHANGED <<plan, wrapk, abortAt, pos, seen, target, stops, tstop>>
          /\ Log("spawn", w, None)

\* the wrap_result call for worker nxt raises: except: for thread, process_result in threads.values(): process_result.stop(); raise
Abort ==
    /\ mpc = "spawn" /\ nxt <= NW /\ abortAt = nxt
    /\ wrapcalls' = [wrapcalls EXCEPT ![nxt] = Append(@, nxt - 1)]
    /\ stops' = [w \in W |-> IF wst[w] # "unborn" THEN stops[w] + 1 ELSE stops[w]]
    /\ tstop' = (tstop \/ \E w \in W : wst[w] # "unborn")
    /\ mpc' = "raised"
    /\ UNCHANGED <<plan, wrapk, abortAt, nxt, obj, wst, pos, seen, target>>
    /\ Log("abort", nxt, None)

\* a worker runs its next test with its process_result; the result given to run() gets the test as one block
WorkerTest(w) ==
    /\ wst[w] = "running" /\ pos[w] < Len(plan[w]) /\ ~tstop
    /\ LET t == plan[w][pos[w] + 1]
           owner == IF obj[w][1] = "none" THEN w ELSE obj[w][2]
       IN /\ seen' = [seen EXCEPT ![owner] = Append(@, t)]
          /\ target' = Append(target, <<w, t>>)
          /\ pos' = [pos EXCEPT ![w] = @ + 1]
          /\ UNCHANGED <<plan, wrapk, abortAt, mpc, nxt, wrapcalls, obj, wst, stops, tstop>>
          /\ Log("test", w, t)

\* test.run(process_result) returns (nothing left, or the result asks to stop): queue.put(test)
WorkerExit(w) ==
    /\ wst[w] = "running" /\ (pos[w] = Len(plan[w]) \/ tstop)
    /\ wst' = [wst EXCEPT ![w] = "exited"]
    /\ UNCHANGED <<plan, wrapk, abortAt, mpc, nxt, wrapcalls, obj, pos, seen, target, stops, tstop>>
    /\ Log("exit", w, tstop)

\* while threads: finished_test = queue.get(); join; del
Join(w) ==
    /\ mpc = "join" /\ wst[w] = "exited"
    /\ JoinInOrder => \A v \in W : v < w => wst[v] = "joined"
    /\ wst' = [wst EXCEPT ![w] = "joined"]
    /\ mpc' = IF \A v \in W : v = w \/ wst[v] = "joined" THEN "done" ELSE "join"
    /\ UNCHANGED <<plan, wrapk, abortAt, nxt, wrapcalls, obj, pos, seen, target, stops, tstop>>
    /\ Log("join", w, None)

\* make_tests returned nothing
NoWorkers ==
    /\ mpc = "spawn" /\ NW = 0
    /\ mpc' = "done"
    /\ UNCHANGED <<plan, wrapk, abortAt, nxt, wrapcalls, obj, wst, pos, seen, target, stops, tstop>>
    /\ Log("join", 0, None)

Next == Spawn \/ Abort \/ NoWorkers \/ \E w \in W : WorkerTest(w) \/ WorkerExit(w) \/ Join(w)

Spec == Init /\ [][Next]_vars

-----------------------------------------------------------------------------
(* MEANING *)

IsPrefix(p, s) == Len(p) <= Len(s) /\ \A i \in DOMAIN p : p[i] = s[i]
Proj(w) == LET q == SelectSeq(target, LAMBDA e : e[1] = w) IN [j \in DOMAIN q |-> q[j][2]]
Started(w) == wst[w] # "unborn"

\* D1: the wrap function is called exactly once for every worker that is started, with that worker's number (0-based,
\* in make_tests order), never for another; not at all when no wrap_result was given
WrapOncePerWorker ==
    \A w \in W :
        /\ (Started(w) /\ wrapk # "default") => wrapcalls[w] = <<w - 1>>
        /\ (~Started(w) /\ abortAt # w) => wrapcalls[w] = <<>>
        /\ wrapk = "default" => wrapcalls[w] = <<>>

\* D1: what a worker's wrapped result sees is that worker's own tests, in order - nothing of another worker
WorkerReportsToWrapped ==
    \A w \in W : IsPrefix(seen[w], plan[w]) /\ Len(seen[w]) = pos[w]

\* D2: everything a worker's wrapped result saw reached the result given to run(), and nothing else did
TargetSeesAll == \A w \in W : Proj(w) = seen[w]

\* run() returns only when every worker has run all its tests
DoneMeaning == mpc = "done" => \A w \in W : seen[w] = plan[w] /\ wst[w] = "joined"

\* D3: when the main thread fails, every worker started so far has its process_result told to stop - once -
\* and a worker honouring shouldStop runs nothing more
AbortMeaning ==
    mpc = "raised" =>
        /\ \A w \in W : stops[w] = (IF w < abortAt THEN 1 ELSE 0)
        /\ (abortAt > 1 => tstop)
NoTestAfterStop == [][tstop => target' = target]_vars

TypeOK ==
    /\ mpc \in {"spawn", "join", "done", "raised"}
    /\ \A w \in W : pos[w] <= Len(plan[w])

-----------------------------------------------------------------------------
Quiet == \A w \in W : wst[w] \in {"unborn", "joined"} \/ (mpc = "raised" /\ wst[w] = "exited")
Terminal == mpc \in {"done", "raised"} /\ Quiet
ExportC == Terminal => PrintT(<<"EXPORT", ToJson(hist)>>)
ViewNoHist == <<plan, wrapk, abortAt, mpc, nxt, wrapcalls, obj, wst, pos, seen, target, stops, tstop>>
=============================================================================
