SPECIFICATION Spec
CONSTANTS
  Endings <- EndingsAll
  TypeTuples <- TypesAll
  FExcs <- FExcAll
  SubclassAware = TRUE
CONSTRAINT ExportC
INVARIANT Verdict
INVARIANT NothingBeforeFire
CHECK_DEADLOCK FALSE
