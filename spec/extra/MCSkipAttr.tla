----------------------------- MODULE MCSkipAttr -----------------------------
(* Model-checking instances of SkipAttr: decorator alphabets.
   attribute names (rank = lexicographic rank of the concrete name): 1 "a", 2 "b2", 3 "more" *)
EXTENDS SkipAttr

Conds == {"True", "False", "truthy", "falsy"}
\* testtools' decorators with bool and non-bool conditions; unittest's own with bools
Skippers == {Skipper("tt", "skip", "-"), Skipper("ut", "skip", "-")}
            \cup {Skipper("tt", t, c) : t \in {"skipIf", "skipUnless"}, c \in Conds}
            \cup {Skipper("ut", t, c) : t \in {"skipIf", "skipUnless"}, c \in {"True", "False"}}
Attrs == {Attr({1}), Attr({2, 3}), Attr({1, 3})}
DM == Skippers \cup Attrs
\* a smaller alphabet for three stacked method decorators
DS == {Skipper("tt", "skip", "-"), Skipper("tt", "skipIf", "truthy"), Skipper("tt", "skipIf", "falsy"),
       Skipper("tt", "skipUnless", "False"), Skipper("ut", "skip", "-"), Skipper("ut", "skipIf", "False"),
       Attr({1}), Attr({2, 3})}

SeqsUpTo(S, n) == UNION {[1..m -> S] : m \in 0..n}

MDecs2 == SeqsUpTo(DM, 2)
MDecs1 == SeqsUpTo(DM, 1)
MDecsS3 == SeqsUpTo(DS, 3)
MDecsS2 == SeqsUpTo(DS, 2)

NoDecs == {<<>>}
CDecsAll == SeqsUpTo(Skippers, 1)
              \cup {<<Skipper("tt", "skipIf", "False"), Skipper("tt", "skip", "-")>>,
                    <<Skipper("ut", "skip", "-"), Skipper("tt", "skip", "-")>>}
\* class decorators that do not fire (for exploring the base class)
CDecsQuiet == {<<>>, <<Skipper("tt", "skipIf", "False")>>, <<Skipper("tt", "skipUnless", "truthy")>>, <<Skipper("ut", "skipIf", "False")>>}
CDecs3 == {<<>>, <<Skipper("tt", "skipIf", "True")>>, <<Skipper("tt", "skipUnless", "truthy")>>}
BDecsAll == {<<>>, <<Skipper("tt", "skip", "-")>>, <<Skipper("tt", "skipIf", "falsy")>>, <<Skipper("ut", "skip", "-")>>,
             <<Skipper("tt", "skipUnless", "falsy")>>}
BDecs2 == {<<>>, <<Skipper("tt", "skipUnless", "False")>>}

BodiesAll == {"pass", "fail", "skips"}
BodiesPF == {"pass", "fail"}
BodiesF == {"fail"}
ClonesAll == {FALSE, TRUE}
NoClone == {FALSE}
=============================================================================
