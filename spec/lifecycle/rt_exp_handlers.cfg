SPECIFICATION Spec
CONSTANTS
  Kinds = {"custom", "custom2", "custom3", "custom4", "fail"}
  CleanupIds = {"c1"}
  DetailNames <- NamesNone
  Mismatches = {}
  Attrs = {}
  Fixtures = {}
  MaxFaults = 2
  MaxSteps = 2
  MaxTotalSteps = 1
  MaxRuns = 1
  AllowDecor = FALSE
  OnExcChoices = {TRUE, FALSE}
  PreForceChoices = {FALSE}
  XfDecChoices = {FALSE}
  StepOps = {"addCleanup"}
  AllowMulti = FALSE
  Variant = "asRequired"
  UndoOf <- MCUndoOf
  GatherOf <- MCGatherOf
  CleanOf <- MCCleanOf
  FixtureSetUpFails <- MCFixtureSetUpFails
  FixtureFailKinds <- MCFixtureFailKinds
  FixtureCleanKind <- MCFixtureCleanKind
  FixtureGatherRaises <- MCFixtureGatherRaises
  FixtureDetails <- MCFixtureDetails
  MismatchDetails <- MCMismatchDetails
INVARIANT Bracketed
INVARIANT BaseExcSurvives
INVARIANT StageOrder
INVARIANT Undone
INVARIANT RerunSame
INVARIANT OutcomeSound
INVARIANT SuccessOnlyIfClean
INVARIANT DetailsComplete
INVARIANT HandlersCalled
PROPERTY LifoStep
CHECK_DEADLOCK FALSE
CONSTRAINT ExportC
