------------------------------- MODULE RunTest -------------------------------
(***************************************************************************)
(* The test-run lifecycle of testtools (runtest.py RunTest, testcase.py    *)
(* TestCase.run / addCleanup / addDetail / expectThat / patch /            *)
(* useFixture), as an interpreter with NONDETERMINISTIC USER CODE.         *)
(*                                                                         *)
(* Framework side: one action per code block of RunTest._run_prepared_     *)
(* result / _run_core / _run_cleanups (StartTest, EnterUnit, ExitUnit,     *)
(* PopCleanup, ForceFail, Report, StopTest, Finish, Rerun).                *)
(* User side: while a unit (setUp, body, tearDown, a cleanup) executes,    *)
(* Step may perform anything a test author can do; every step taken is     *)
(* recorded in `script`, which makes (a) the second run of the same        *)
(* instance and (b) validation of executions recorded from the real code   *)
(* a matter of FOLLOWING a script with the same actions.                   *)
(*                                                                         *)
(* Serves C01 (Bracketed, BaseExcSurvives), C02 (StageOrder, Undone,       *)
(* RerunSame), C03 (OutcomeSound), C05 (DetailsComplete, HandlersCalled).  *)
(***************************************************************************)
EXTENDS Naturals, Sequences, FiniteSets, TLC, Json, SequencesExt, RunTestDefs

CONSTANTS
    Kinds,         \* exception kinds user code may raise (subset of AllKinds)
    CleanupIds,    \* names of user cleanup functions that may be registered
    DetailNames,   \* names user code may pass to addDetail (records [b, n])
    Mismatches,    \* ids of mismatches expectThat may produce
    Attrs,         \* attributes patch() may be applied to
    Fixtures,      \* ids of fixtures useFixture() may be given
    MaxFaults,     \* bound: units that end by raising, per run
    MaxSteps,      \* bound: non-final user steps per unit
    MaxTotalSteps, \* bound: non-final user steps per run
    MaxRuns,       \* 1 or 2: runs of the same TestCase instance
    AllowDecor,    \* explore the skip-decorated variant
    AllowMulti,    \* explore MultipleExceptions ends
    OnExcChoices,  \* subset of BOOLEAN: with / without an addOnException handler
    PreForceChoices, \* subset of BOOLEAN: force_failure already set on the instance before run()
    XfDecChoices,    \* subset of BOOLEAN: the test method carries unittest.expectedFailure
    StepOps,       \* non-final user operations explored in free mode
    Variant        \* "asRequired" | "asCoded": how Report selects the outcome

StageUnits == {"setUp", "body", "tearDown"}
SysUnit(u) == u \notin StageUnits /\ u \notin CleanupIds
\* system cleanups pushed by patch()/useFixture(): records, user units: strings -> keep all as strings:
\*   "undo:<attr>", "fxgather:<f>", "fxclean:<f>"  (built by the MC module through these operators)
CONSTANTS UndoOf(_), GatherOf(_), CleanOf(_),     \* attr / fixture id -> system cleanup id
          FixtureSetUpFails(_),                   \* fixture id -> BOOLEAN
          FixtureFailKinds(_),                    \* fixture id -> kinds its failing setUp raises: MultipleExceptions(original, SetupError)
                                                  \*   (nested when a CHILD fixture fails: original, SetupError, SetupError), or a single
                                                  \*   KeyboardInterrupt from a classic fixture that overrides setUp()
          FixtureCleanKind(_),                    \* fixture id -> kind raised by cleanUp, or None
          FixtureGatherRaises(_),                 \* fixture id -> BOOLEAN: reading its details raises when they are gathered
          FixtureDetails(_),                      \* fixture id -> set of detail names it carries
          MismatchDetails(_)                      \* mismatch id -> set of detail names it carries

Units == StageUnits \cup CleanupIds

VARIABLES
    pc,          \* framework control state
    run,         \* 1..MaxRuns
    mode,        \* "free": user steps chosen nondeterministically and recorded; "follow": replayed from script
    decor,       \* TRUE: the test method carries a skip decorator
    onexc,       \* TRUE: an addOnException handler was registered before the run
    script,      \* unit -> Seq(step): what user code does in each unit (recorded in run 1)
    cur,         \* unit being executed (None outside units)
    pos,         \* steps of the current unit already executed
    upcalled,    \* current setUp/tearDown unit has made its upcall
    stack,       \* cleanup stack (last = next to run)
    registered,  \* cleanup ids registered so far in this run, in registration order
    ran,         \* execution log: sequence of unit ids in the order they started
    seen,        \* what each started unit saw: the patched attributes' state at that moment
    raised,      \* exceptions raised by user code so far: Seq([kind, unit]) (MultipleExceptions flattened)
    setupOk,     \* setUp returned normally
    force,       \* force_failure set (expectThat mismatch, or set on the instance beforehand)
    force0,      \* force_failure as it was before the first run (part of the program)
    xfdec,       \* TRUE: the test method carries the unittest.expectedFailure decorator (part of the program)
    details,     \* Name -> [origin, cid]: the test's details dict
    tbNext,      \* next traceback number (TestCase._traceback_id_gens)
    added,       \* set of [origin, cid, base] ever added (nothing is ever removed)
    hcalls,      \* addOnException handler invocations so far
    attrs,       \* attr -> "orig" | "absent" | "patched"
    rlog,        \* result events: Seq([ev, outcome])
    outcomeHcalls, \* hcalls at the moment the outcome was reported
    propagated,  \* None | kind that propagated out of run()
    nfaults,     \* units that ended by raising in this run
    nsteps,      \* non-final user steps in this run
    prev         \* <<summary of the previous run of this instance>> (<<>> for run 1)

vars == <<pc, run, mode, decor, onexc, force0, xfdec, script, cur, pos, upcalled, stack, registered, ran, seen, raised, setupOk,
          force, details, tbNext, added, hcalls, attrs, rlog, outcomeHcalls, propagated, nfaults, nsteps, prev>>

-----------------------------------------------------------------------------
(* Steps user code can take                                                 *)
St(op, a, b) == [op |-> op, a |-> a, b |-> b]
EndOps == {"ret", "retnoup", "raise", "raise2", "raise2n", "raise0", "failfixture"}
IsEnd(s) == s.op \in EndOps

Name(b, n) == [b |-> b, n |-> n]
InitAttr(a) == IF a = "a_missing" THEN "absent" ELSE "orig"

\* smallest-free-suffix renaming used by addDetailUniqueName and gather_details
RECURSIVE FreeFrom(_, _, _)
FreeFrom(b, n, dom) == IF Name(b, n) \in dom THEN FreeFrom(b, n + 1, dom) ELSE Name(b, n)
Unique(nm, dom) == IF nm \in dom THEN FreeFrom(nm.b, nm.n + 1, dom) ELSE nm

\* add a set of (name -> entry) pairs one by one, each under a non-clobbering name
\* content ids are strings: <prefix><name>
NameStr(nm) == IF nm.n = 0 THEN nm.b ELSE nm.b \o "-" \o ToString(nm.n)
RECURSIVE AddUnique(_, _, _, _)
AddUnique(d, names, origin, pre) ==
    IF names = {} THEN d
    ELSE LET nm == CHOOSE x \in names : TRUE
             at == Unique(nm, DOMAIN d)
             d2 == [x \in DOMAIN d \cup {at} |-> IF x = at THEN [origin |-> origin, cid |-> pre \o NameStr(nm)] ELSE d[x]]
         IN AddUnique(d2, names \ {nm}, origin, pre)

AddedOf(names, origin, pre) == {[origin |-> origin, cid |-> pre \o NameStr(nm), base |-> nm.b] : nm \in names}

\* position of the i-th collected exception among those of its own unit (markers are per unit)
UIdx(rs, i) == Cardinality({j \in 1..i : rs[j].unit = rs[i].unit})

\* _report_traceback: per-label counter, skipping names already present
RECURSIVE TbName(_, _)
TbName(n, dom) == IF Name("traceback", n) \in dom THEN TbName(n + 1, dom) ELSE n

\* effect of ONE exception of kind k raised in unit u reaching _got_user_exception:
\* onException adds a traceback (unless exactly skip / uxs / xfail) and calls each handler once.
\* (the xfail's assertion traceback is attached by expectFailure itself, before the raise)
TbAddedBy(k) == k \notin {"skip", "skipobj", "uxs", "xfaild", "uxsd"}
\* The program's "user customisation" flag `onexc` stands for both documented per-instance hooks: an
\* addOnException handler is registered AND the user's handlers are inserted into this instance's
\* exception_handlers.  Without it the instance is pristine: its handler list is the default one, so the custom
\* exception classes are plain Exceptions (errors) - whatever other instances of the same class inserted.
Eff(k) == IF ~onexc /\ k \in {"custom", "custom3", "custom4"} THEN "custom2" ELSE k
RECURSIVE Caught(_, _, _, _, _, _)
\* returns <<details, tbNext, added, raised>> after processing the kinds in ks (a sequence)
Caught(ks, u, d, tn, ad, rs) ==
    IF ks = <<>> THEN <<d, tn, ad, rs>>
    ELSE LET k  == Eff(Head(ks))
             i  == Cardinality({j \in DOMAIN rs : rs[j].unit = u}) + 1     \* index among the exceptions of unit u
             n  == TbName(tn, DOMAIN d)
             nm == Name("traceback", n)
             cid == "tb:" \o u \o ":" \o ToString(i)
             d2 == IF TbAddedBy(k)
                   THEN [x \in DOMAIN d \cup {nm} |-> IF x = nm THEN [origin |-> "traceback", cid |-> cid] ELSE d[x]]
                   ELSE d
             tn2 == IF TbAddedBy(k) THEN n + 1 ELSE tn
             \* only failures/errors (and the xfail's assertion) are REQUIRED to carry a traceback
             ad2 == IF NeedsTb(k) THEN ad \cup {[origin |-> "traceback", cid |-> cid, base |-> "traceback"]} ELSE ad
             ad3 == IF k \in {"xfail", "uxs"} THEN ad2 \cup {[origin |-> "reason", cid |-> cid, base |-> "reason"]} ELSE ad2
             \* the addOnException handler is called with this exception (before the outcome) and attaches a detail
             hn  == Name("hx", Cardinality({x \in DOMAIN d2 : x.b = "hx"}))
             hc  == "hx:" \o u \o ":" \o ToString(i)
             d3  == IF onexc
                    THEN [x \in DOMAIN d2 \cup {hn} |-> IF x = hn THEN [origin |-> "handler", cid |-> hc] ELSE d2[x]]
                    ELSE d2
             ad4 == IF onexc THEN ad3 \cup {[origin |-> "handler", cid |-> hc, base |-> "hx"]} ELSE ad3
         IN Caught(Tail(ks), u, d3, tn2, ad4, Append(rs, [kind |-> k, unit |-> u]))

-----------------------------------------------------------------------------
Init ==
    /\ pc = "idle" /\ run = 1 /\ mode = "free"
    /\ decor \in (IF AllowDecor THEN BOOLEAN ELSE {FALSE})
    /\ onexc \in OnExcChoices
    /\ xfdec \in XfDecChoices /\ ~(decor /\ xfdec)
    /\ script = [u \in Units |-> <<>>]
    /\ cur = None /\ pos = 0 /\ upcalled = FALSE
    /\ stack = <<>> /\ registered = <<>> /\ ran = <<>> /\ seen = <<>> /\ raised = <<>>
    /\ setupOk = FALSE /\ force \in PreForceChoices /\ force0 = force
    /\ details = <<>> /\ tbNext = 0 /\ added = {} /\ hcalls = 0
    /\ attrs = [a \in Attrs |-> InitAttr(a)]
    /\ rlog = <<>> /\ outcomeHcalls = 0 /\ propagated = None
    /\ nfaults = 0 /\ nsteps = 0 /\ prev = <<>>

Ev(e, o) == [ev |-> e, outcome |-> o]

\* result.startTest(case)
StartTest ==
    /\ pc = "idle"
    /\ rlog' = Append(rlog, Ev("startTest", None))
    /\ pc' = IF decor THEN "decorskip" ELSE "enter"
    /\ cur' = IF decor THEN None ELSE "setUp"
    /\ UNCHANGED <<run, mode, decor, onexc, force0, xfdec, script, pos, upcalled, stack, registered, ran, seen, raised, setupOk, force,
                   details, tbNext, added, hcalls, attrs, outcomeHcalls, propagated, nfaults, nsteps, prev>>

\* _run_core: skip decorator => addSkip, no stage runs
DecoratedSkip ==
    /\ pc = "decorskip"
    /\ rlog' = Append(rlog, Ev("outcome", "skip"))
    /\ outcomeHcalls' = hcalls
    /\ pc' = "stop"
    /\ UNCHANGED <<run, mode, decor, onexc, force0, xfdec, script, cur, pos, upcalled, stack, registered, ran, seen, raised, setupOk,
                   force, details, tbNext, added, hcalls, attrs, propagated, nfaults, nsteps, prev>>

\* the framework calls into a unit of user code
EnterUnit ==
    /\ pc = "enter"
    /\ ran' = Append(ran, cur) /\ seen' = Append(seen, attrs)
    /\ pos' = 0 /\ upcalled' = FALSE
    /\ pc' = "unit"
    /\ UNCHANGED <<run, mode, decor, onexc, force0, xfdec, script, cur, stack, registered, raised, setupOk, force, details,
                   tbNext, added, hcalls, attrs, rlog, outcomeHcalls, propagated, nfaults, nsteps, prev>>

-----------------------------------------------------------------------------
(* User steps.  Do(s) is the effect of step s in the current unit; Step     *)
(* chooses s freely (recording it) or takes the next one from the script.   *)

UserCid(nm) == "user:" \o nm.b \o "-" \o ToString(nm.n)

DoAddCleanup(c) ==
    /\ c \in CleanupIds /\ c \notin Range(registered)
    /\ stack' = Append(stack, c) /\ registered' = Append(registered, c)
    /\ UNCHANGED <<details, added, force, attrs, raised, tbNext, hcalls>>

\* domain note (i): the name is absent from the details at the time of the call
DoAddDetail(nm) ==
    /\ nm \in DetailNames /\ nm \notin DOMAIN details
    /\ details' = [x \in DOMAIN details \cup {nm} |-> IF x = nm THEN [origin |-> "user", cid |-> UserCid(nm)] ELSE details[x]]
    /\ added' = added \cup {[origin |-> "user", cid |-> UserCid(nm), base |-> nm.b]}
    /\ UNCHANGED <<stack, registered, force, attrs, raised, tbNext, hcalls>>

\* expectThat with a mismatching matcher: mismatch details + "Failed expectation" under fresh names; force_failure
DoExpect(m) ==
    /\ m \in Mismatches
    /\ LET pre == "mm:" \o m \o ":"
           d1 == AddUnique(details, MismatchDetails(m), "mismatch", pre)
           fe == Unique(Name("Failed expectation", 0), DOMAIN d1)
       IN /\ details' = [x \in DOMAIN d1 \cup {fe} |-> IF x = fe THEN [origin |-> "expectation", cid |-> "fe:" \o m] ELSE d1[x]]
          /\ added' = added \cup AddedOf(MismatchDetails(m), "mismatch", pre)
                            \cup {[origin |-> "expectation", cid |-> "fe:" \o m, base |-> "Failed expectation"]}
    /\ force' = TRUE
    /\ UNCHANGED <<stack, registered, attrs, raised, tbNext, hcalls>>

\* self.patch(obj, attr, value)
DoPatch(a) ==
    /\ a \in Attrs /\ UndoOf(a) \notin Range(stack)
    /\ attrs' = [attrs EXCEPT ![a] = "patched"]
    /\ stack' = Append(stack, UndoOf(a))
    /\ UNCHANGED <<registered, details, added, force, raised, tbNext, hcalls>>

\* useFixture(f) whose setUp succeeds: cleanUp and gather_details registered (in that order)
DoUseFixtureOk(f) ==
    /\ f \in Fixtures /\ ~FixtureSetUpFails(f) /\ CleanOf(f) \notin Range(stack)
    /\ stack' = stack \o <<CleanOf(f), GatherOf(f)>>
    /\ UNCHANGED <<registered, details, added, force, attrs, raised, tbNext, hcalls>>

Do(s) ==
    CASE s.op = "upcall"     -> /\ cur \in {"setUp", "tearDown"} /\ ~upcalled
                                /\ UNCHANGED <<stack, registered, details, added, force, attrs, raised, tbNext, hcalls>>
      [] s.op = "addCleanup" -> DoAddCleanup(s.a)
      [] s.op = "addDetail"  -> DoAddDetail(Name(s.a, s.b))
      [] s.op = "expect"     -> DoExpect(s.a)
      \* an expectThat that MATCHES: no detail, and force_failure stays as it is (it is never cleared)
      [] s.op = "expectok"   -> UNCHANGED <<stack, registered, details, added, force, attrs, raised, tbNext, hcalls>>
      \* user code runs a SIBLING of this test (clone_test_with_new_id: a shallow copy of the constructed test, e.g. a
      \* scenario clone) to completion against a result of its own while this test is in the middle of a stage: every
      \* run starts from a fresh per-instance state (_reset), so nothing of THIS test - its cleanup stack least of all -
      \* is touched (C02: each registered cleanup still runs exactly once, LIFO)
      [] s.op = "sibling"    -> UNCHANGED <<stack, registered, details, added, force, attrs, raised, tbNext, hcalls>>
      [] s.op = "patch"      -> DoPatch(s.a)
      [] s.op = "useFixture" -> DoUseFixtureOk(s.a)
      [] OTHER -> FALSE

FreeSteps ==
    {St("upcall", None, 0)}
    \cup {St("addCleanup", c, 0) : c \in CleanupIds}
    \cup {St("addDetail", nm.b, nm.n) : nm \in DetailNames}
    \cup {St("expect", m, 0) : m \in Mismatches}
    \cup {St("expectok", None, 0)}
    \cup {St("sibling", None, 0)}
    \cup {St("patch", a, 0) : a \in Attrs}
    \cup {St("useFixture", f, 0) : f \in {x \in Fixtures : ~FixtureSetUpFails(x)}}

\* what a unit can end with
EndKinds == Kinds
FreeEnds ==
    {St("ret", None, None), St("retnoup", None, None)}
    \cup {St("raise", k, None) : k \in EndKinds}
    \cup (IF AllowMulti THEN {St(op, k1, k2) : op \in {"raise2", "raise2n"}, k1 \in {"fail", "err"},
                                               k2 \in {"err", "skip", "ki"} \cap Kinds}
                              \cup {St("raise0", None, None)} ELSE {})
    \cup {St("failfixture", f, None) : f \in {x \in Fixtures : FixtureSetUpFails(x)}}

NextStep == IF mode = "follow"
            THEN IF pos < Len(script[cur]) THEN {script[cur][pos + 1]} ELSE {}
            ELSE {s \in FreeSteps : s.op \in StepOps} \cup FreeEnds

\* a non-final user step
Step ==
    /\ pc = "unit" /\ ~SysUnit(cur)
    /\ \E s \in NextStep :
          /\ s.op \notin EndOps
          /\ mode = "free" => pos < MaxSteps /\ nsteps < MaxTotalSteps
          /\ Do(s)
          /\ upcalled' = (upcalled \/ s.op = "upcall")
          /\ pos' = pos + 1 /\ nsteps' = nsteps + 1
          /\ script' = IF mode = "free" THEN [script EXCEPT ![cur] = Append(@, s)] ELSE script
    /\ UNCHANGED <<pc, run, mode, decor, onexc, force0, xfdec, cur, ran, seen, setupOk, rlog, outcomeHcalls, propagated, nfaults, prev>>

\* where control goes after unit u finished (ok = returned normally)
After(u, ok) ==
    CASE u = "setUp"    -> IF ok THEN <<"enter", "body">> ELSE <<"cleanups", None>>
      [] u = "body"     -> <<"enter", "tearDown">>
      [] u = "tearDown" -> <<"cleanups", None>>
      [] OTHER          -> <<"cleanups", None>>

\* kinds a final step raises, in order (MultipleExceptions flattened).
RaisedBy(s) ==
    CASE s.op = "ret"    -> <<>>          \* (upcalls on the way out if it has not yet)
      [] s.op = "retnoup" -> <<"err">>    \* forgot the upcall: the framework raises ValueError
      [] s.op = "raise"  -> <<s.a>>
      [] s.op = "raise2" -> <<s.a, s.b>>
      [] s.op = "raise2n" -> <<s.a, s.b>>   \* MultipleExceptions nested in a MultipleExceptions
      [] s.op = "raise0" -> <<"err">>       \* MultipleExceptions with no constituents: an error in its own right
      [] s.op = "failfixture" -> FixtureFailKinds(s.a)

\* unittest.expectedFailure wraps the test method: a normal return becomes _UnexpectedSuccess, any Exception
\* (also a skip, also a MultipleExceptions object as a whole) becomes _ExpectedFailure; a non-Exception passes
XfWrap(s, ks) ==
    IF ~(xfdec /\ cur = "body") THEN ks
    ELSE IF ks = <<>> THEN <<"uxsd">>
    \* a single non-Exception leaves the method as it is (a raise, or a classic fixture interrupted in setUp)
    ELSE IF s.op \in {"raise", "failfixture"} /\ Len(ks) = 1 /\ ks[1] \in BaseKinds THEN ks
    ELSE <<"xfaild">>

\* the unit ends: returns or raises; exceptions go through _got_user_exception
EndUnit ==
    /\ pc = "unit" /\ ~SysUnit(cur)
    /\ \E s \in NextStep :
          /\ s.op \in EndOps
          /\ s.op = "retnoup" => cur \in {"setUp", "tearDown"} /\ ~upcalled
          /\ LET ks == XfWrap(s, RaisedBy(s))
                 \* a fixture whose setUp fails: its details are gathered into the test's first
                 fxd == IF s.op = "failfixture" THEN FixtureDetails(s.a) ELSE {}
                 pre == "fx:" \o s.a \o ":"
                 d0 == AddUnique(details, fxd, "fixture", pre)
                 a0 == added \cup AddedOf(fxd, "fixture", pre)
                 \* expectFailure attaches the assertion's traceback before raising _ExpectedFailure
                 res == Caught(ks, cur, d0, tbNext, a0, raised)
             IN /\ mode = "free" => (ks # <<>> => nfaults < MaxFaults)
                /\ details' = res[1] /\ tbNext' = res[2] /\ added' = res[3] /\ raised' = res[4]
                /\ hcalls' = hcalls + (IF onexc THEN Len(ks) ELSE 0)
                /\ nfaults' = nfaults + (IF ks # <<>> THEN 1 ELSE 0)
                /\ setupOk' = (IF cur = "setUp" THEN ks = <<>> ELSE setupOk)
                /\ pc' = After(cur, ks = <<>>)[1]
                /\ cur' = After(cur, ks = <<>>)[2]
          /\ script' = IF mode = "free" THEN [script EXCEPT ![cur] = Append(@, s)] ELSE script
    /\ pos' = 0 /\ upcalled' = FALSE
    /\ UNCHANGED <<run, mode, decor, onexc, force0, xfdec, stack, registered, ran, seen, force, attrs, rlog, outcomeHcalls, propagated,
                   nsteps, prev>>

-----------------------------------------------------------------------------
(* _run_cleanups: pop LIFO, run, continue whatever it raised                *)
PopCleanup ==
    /\ pc = "cleanups" /\ stack # <<>>
    /\ cur' = Last(stack)
    /\ stack' = Front(stack)
    /\ pc' = "enter"
    /\ UNCHANGED <<run, mode, decor, onexc, force0, xfdec, script, pos, upcalled, registered, ran, seen, raised, setupOk, force, details,
                   tbNext, added, hcalls, attrs, rlog, outcomeHcalls, propagated, nfaults, nsteps, prev>>

CleanupsDone ==
    /\ pc = "cleanups" /\ stack = <<>>
    /\ pc' = "force" /\ cur' = None
    /\ UNCHANGED <<run, mode, decor, onexc, force0, xfdec, script, pos, upcalled, stack, registered, ran, seen, raised, setupOk, force,
                   details, tbNext, added, hcalls, attrs, rlog, outcomeHcalls, propagated, nfaults, nsteps, prev>>

\* system cleanups: patch undo, fixture gather_details, fixture cleanUp
IsUndo(u) == \E a \in Attrs : u = UndoOf(a)
IsGather(u) == \E f \in Fixtures : u = GatherOf(f)
IsClean(u) == \E f \in Fixtures : u = CleanOf(f)
SysCleanup ==
    /\ pc = "unit" /\ SysUnit(cur)
    /\ IF IsUndo(cur)
       THEN LET a == CHOOSE x \in Attrs : cur = UndoOf(x) IN
            /\ attrs' = [attrs EXCEPT ![a] = InitAttr(a)]
            /\ UNCHANGED <<details, added, raised, tbNext, hcalls, nfaults>>
       ELSE IF IsGather(cur)
       THEN LET f == CHOOSE x \in Fixtures : cur = GatherOf(x)
                pre == "fx:" \o f \o ":" IN
            IF FixtureGatherRaises(f)
            THEN LET res == Caught(<<"err">>, cur, details, tbNext, added, raised) IN
                 /\ details' = res[1] /\ tbNext' = res[2] /\ added' = res[3] /\ raised' = res[4]
                 /\ hcalls' = hcalls + (IF onexc THEN 1 ELSE 0)
                 /\ UNCHANGED <<attrs, nfaults>>
            ELSE /\ details' = AddUnique(details, FixtureDetails(f), "fixture", pre)
                 /\ added' = added \cup AddedOf(FixtureDetails(f), "fixture", pre)
                 /\ UNCHANGED <<attrs, raised, tbNext, hcalls, nfaults>>
       ELSE LET f == CHOOSE x \in Fixtures : cur = CleanOf(x)
                ks == IF FixtureCleanKind(f) = None THEN <<>> ELSE <<FixtureCleanKind(f)>>
                res == Caught(ks, cur, details, tbNext, added, raised) IN
            /\ details' = res[1] /\ tbNext' = res[2] /\ added' = res[3] /\ raised' = res[4]
            /\ hcalls' = hcalls + (IF onexc THEN Len(ks) ELSE 0)
            /\ nfaults' = nfaults
            /\ UNCHANGED attrs
    /\ pc' = "cleanups" /\ cur' = None
    /\ UNCHANGED <<run, mode, decor, onexc, force0, xfdec, script, pos, upcalled, stack, registered, ran, seen, setupOk, force, rlog,
                   outcomeHcalls, propagated, nsteps, prev>>

\* force_failure => _run_user(_raise_force_fail_error): one more "fail" from the framework's own unit
ForceFail ==
    /\ pc = "force"
    /\ IF force /\ setupOk
       THEN LET res == Caught(<<"fail">>, "force", details, tbNext, added, raised) IN
            /\ details' = res[1] /\ tbNext' = res[2] /\ added' = res[3] /\ raised' = res[4]
            /\ hcalls' = hcalls + (IF onexc THEN 1 ELSE 0)
       ELSE UNCHANGED <<details, tbNext, added, raised, hcalls>>
    /\ pc' = "report"
    /\ UNCHANGED <<run, mode, decor, onexc, force0, xfdec, script, cur, pos, upcalled, stack, registered, ran, seen, setupOk, force,
                   attrs, rlog, outcomeHcalls, propagated, nfaults, nsteps, prev>>

-----------------------------------------------------------------------------
\* what the code does today: the LAST collected exception selects handler and propagation
CodedOutcome(rs) == Map(rs[Len(rs)].kind)
CodedPropagates(rs) == IF rs[Len(rs)].kind \in BaseKinds THEN {rs[Len(rs)].kind} ELSE {None}

\* the handler of the selected exception reports outcome o; p is what propagates out of run()
ReportWith(o, p) ==
    /\ pc = "report"
    /\ rlog' = Append(rlog, Ev("outcome", o))
    /\ propagated' = p
    /\ added' = IF o = "skip" /\ raised # <<>>
                THEN added \cup {[origin |-> "reason", cid |-> "skipreason", base |-> "reason"]} ELSE added
    /\ outcomeHcalls' = hcalls
    /\ pc' = "stop"
    /\ UNCHANGED <<run, mode, decor, onexc, force0, xfdec, script, cur, pos, upcalled, stack, registered, ran, seen, raised, setupOk,
                   force, details, tbNext, hcalls, attrs, nfaults, nsteps, prev>>

Report ==
    \E o \in (IF Variant = "asCoded" /\ raised # <<>> THEN {CodedOutcome(raised)} ELSE Allowed(raised)) :
    \E p \in (IF raised = <<>> THEN {None}
              ELSE IF Variant = "asCoded" THEN CodedPropagates(raised)
              ELSE IF MayPropagate(raised) = {} THEN {None} ELSE MayPropagate(raised)) :
        \* the selection is a fixed (if unspecified) function of what was raised: a second run of the
        \* same program selects what the first one did
        /\ (prev # <<>> /\ prev[1].raised = raised) => (o = prev[1].outcome /\ p = prev[1].propagated)
        /\ ReportWith(o, p)

\* finally: result.stopTest(case)
StopTest ==
    /\ pc = "stop"
    /\ rlog' = Append(rlog, Ev("stopTest", None))
    /\ pc' = "done"
    /\ UNCHANGED <<run, mode, decor, onexc, force0, xfdec, script, cur, pos, upcalled, stack, registered, ran, seen, raised, setupOk,
                   force, details, tbNext, added, hcalls, attrs, outcomeHcalls, propagated, nfaults, nsteps, prev>>

OutcomeOf(l) == IF \E i \in DOMAIN l : l[i].ev = "outcome"
                THEN l[CHOOSE i \in DOMAIN l : l[i].ev = "outcome"].outcome ELSE None
Summary == [ran |-> ran, seen |-> seen, raised |-> raised, outcome |-> OutcomeOf(rlog), propagated |-> propagated,
            events |-> [i \in DOMAIN rlog |-> rlog[i].ev], registered |-> registered]

\* TestCase.run() again on the same instance: _reset(), same user code
Rerun ==
    /\ pc = "done" /\ run < MaxRuns
    /\ run' = run + 1 /\ mode' = "follow" /\ prev' = <<Summary>>
    /\ pc' = "idle" /\ cur' = None /\ pos' = 0 /\ upcalled' = FALSE
    /\ stack' = <<>> /\ registered' = <<>> /\ ran' = <<>> /\ seen' = <<>> /\ raised' = <<>>
    /\ setupOk' = FALSE
    /\ details' = <<>> /\ tbNext' = 0 /\ added' = {} /\ hcalls' = 0
    /\ rlog' = <<>> /\ outcomeHcalls' = 0 /\ propagated' = None /\ nfaults' = 0 /\ nsteps' = 0
    /\ UNCHANGED <<decor, onexc, force0, xfdec, script, force, attrs>>

Next == StartTest \/ DecoratedSkip \/ EnterUnit \/ Step \/ EndUnit \/ PopCleanup \/ CleanupsDone
        \/ SysCleanup \/ ForceFail \/ Report \/ StopTest \/ Rerun

Spec == Init /\ [][Next]_vars

-----------------------------------------------------------------------------
(* Property predicates, parameterised so that the trace specification can   *)
(* evaluate the very same predicates on OBSERVED values.                    *)

EventNames(l) == [i \in DOMAIN l |-> l[i].ev]
IsPrefixOf(s, t) == Len(s) <= Len(t) /\ \A i \in DOMAIN s : s[i] = t[i]

\* C01
BracketedP(names, done) == IsPrefixOf(names, Bracket) /\ (done => names = Bracket)
BaseExcSurvivesP(rs, outcome, prop, names) ==
    LET base == {rs[i].kind : i \in DOMAIN rs} \cap BaseKinds IN
    /\ (prop # None) <=> (base # {})
    /\ prop # None => prop \in base
    /\ base # {} => outcome = "error"
    /\ prop # None => names = Bracket
\* C02: stage order and LIFO cleanups, from the execution log alone (meaning, not mechanism):
\*  regs = cleanup ids in registration order with the position (index in ran) of the unit that registered them
StageOrderP(rn, sOk, dec) ==
    IF dec THEN rn = <<>>
    ELSE /\ rn # <<>> /\ rn[1] = "setUp"
         /\ Cardinality({i \in DOMAIN rn : rn[i] = "setUp"}) = 1
         /\ (sOk => Len(rn) >= 3 /\ rn[2] = "body" /\ rn[3] = "tearDown")
         /\ (~sOk => \A i \in DOMAIN rn : rn[i] \notin {"body", "tearDown"})
         /\ \A i \in DOMAIN rn : i > 3 => rn[i] \notin StageUnits
\* every registered cleanup ran exactly once; any two cleanups that were both registered before either ran
\* run in reverse registration order
CleanupsOnceP(rn, regs) ==
    /\ \A c \in Range(regs) : Cardinality({i \in DOMAIN rn : rn[i] = c}) = 1
    /\ \A i \in DOMAIN rn : (rn[i] \notin StageUnits) => rn[i] \in Range(regs)
C03P(outcome, rs) == outcome \in Allowed(rs)

Bracketed == BracketedP(EventNames(rlog), pc = "done")
BaseExcSurvives == pc = "done" => BaseExcSurvivesP(raised, OutcomeOf(rlog), propagated, EventNames(rlog))
UserRan == SelectSeq(ran, LAMBDA u : ~SysUnit(u))
StageOrder == pc = "done" => /\ StageOrderP(UserRan, setupOk, decor)
                             /\ CleanupsOnceP(UserRan, registered)
\* LIFO: stack discipline as an action property: a cleanup is entered only from the top of the stack
LifoStep == [][pc = "cleanups" /\ pc' = "enter" => cur' = Last(stack) /\ stack' = Front(stack)]_vars
Undone == pc = "done" => stack = <<>> /\ \A a \in Attrs : attrs[a] = InitAttr(a)
RerunSame == (pc = "done" /\ prev # <<>>) => Summary = prev[1]
OutcomeSound == pc \in {"stop", "done"} => IF decor THEN OutcomeOf(rlog) = "skip" ELSE C03P(OutcomeOf(rlog), raised)
SuccessOnlyIfClean == (pc \in {"stop", "done"} /\ OutcomeOf(rlog) = "success") => ~decor /\ raised = <<>> /\ ~(force /\ setupOk)

\* C05: everything ever added is in the details handed to the outcome (nothing dropped or overwritten),
\* one traceback per failure/error (distinct), handlers called once per exception and before the outcome
InDetails(x, d) == \E nm \in DOMAIN d : d[nm].origin = x.origin /\ d[nm].cid = x.cid /\ nm.b = x.base
DetailsComplete == pc \in {"stop", "done"} /\ ~decor =>
    /\ \A x \in added : x.origin # "reason" => InDetails(x, details)
    /\ \A i \in DOMAIN raised : NeedsTb(raised[i].kind) /\ raised[i].kind # "xfail" =>
          \E nm \in DOMAIN details : details[nm].origin = "traceback" /\ details[nm].cid = "tb:" \o raised[i].unit \o ":" \o ToString(UIdx(raised, i))
HandlersCalled == pc \in {"stop", "done"} =>
    /\ hcalls = (IF onexc THEN Len(raised) ELSE 0)
    /\ outcomeHcalls = hcalls

-----------------------------------------------------------------------------
(* Export: one program (script + flags) per complete first run              *)
Program == [decor |-> decor, onexc |-> onexc, preforce |-> force0, xfdec |-> xfdec, script |-> script]
Expected == [ran |-> ran, seen |-> seen, raised |-> raised, setupOk |-> setupOk, registered |-> registered,
             allowed |-> Allowed(raised), mayprop |-> MayPropagate(raised),
             nadded |-> Cardinality(added), force |-> force]
ExportC == (pc = "done" /\ run = 1) => PrintT(<<"EXPORT", ToJson([prog |-> Program, exp |-> Expected])>>)
=============================================================================
