SPECIFICATION TraceSpec
CONSTANTS
  Kinds <- KindsAll
  CleanupIds = {"c1", "c2", "c3"}
  DetailNames <- NamesAll
  Mismatches = {"m0", "m1", "m2", "m3"}
  Attrs = {"a_exist", "a_missing", "a_none"}
  Fixtures = {"f_ok", "f_tb", "f_two", "f_bad", "f_cr", "f_gr", "f_nest", "f_nestbad", "f_nestcr", "f_classic"}
  MaxFaults = 99
  MaxSteps = 99
  MaxTotalSteps = 99
  MaxRuns = 1
  AllowDecor = TRUE
  OnExcChoices = {TRUE, FALSE}
  PreForceChoices = {TRUE, FALSE}
  XfDecChoices = {TRUE, FALSE}
  StepOps = {"upcall", "addCleanup", "addDetail", "expect", "patch", "useFixture"}
  AllowMulti = TRUE
  Variant = "asRequired"
  UndoOf <- MCUndoOf
  GatherOf <- MCGatherOf
  CleanOf <- MCCleanOf
  FixtureSetUpFails <- MCFixtureSetUpFails
  FixtureFailKinds <- MCFixtureFailKinds
  FixtureCleanKind <- MCFixtureCleanKind
  FixtureGatherRaises <- MCFixtureGatherRaises
  FixtureDetails <- MCFixtureDetails
  MismatchDetails <- MCMismatchDetails
CONSTRAINT VerdictC
CHECK_DEADLOCK FALSE
