----------------------------- MODULE RunTestObs -----------------------------
(***************************************************************************)
(* Validation of executions of RunTest recorded by the TESTTOOLS_VERIF      *)
(* hooks while the repository's OWN test suite runs (thousands of tests    *)
(* written by the testtools authors, none of them built by this harness).  *)
(*                                                                         *)
(* One trace = the events of one RunTest._run_prepared_result call:        *)
(*   result:<startTest|stopTest|add*>  (from ExtendedToOriginalDecorator)  *)
(*   unit:<function name>              (RunTest._run_user entered)         *)
(*   caught:<kind>                     (_got_user_exception)               *)
(*   select / propagate / end                                              *)
(* The observer automaton below is the control skeleton of RunTest.tla     *)
(* (same phases, same order); an event that the skeleton does not enable   *)
(* stops the trace (clause "order").  At the end the property predicates   *)
(* of RunTest.tla are evaluated on what was observed.                      *)
(***************************************************************************)
EXTENDS RunTestDefs, TLC, Json, IOUtils

OTraces == JsonDeserialize(IOEnv.TRACE_FILE)

VARIABLES otid, l, phase, oraised, setupFailed, names, outcome, oprop, stuck, ncleanupUnits
ovars == <<otid, l, phase, oraised, setupFailed, names, outcome, oprop, stuck, ncleanupUnits>>

OT == OTraces[otid]
E == OT.events[l]

KindOfObs(k) == CASE k = "base" -> "ki" [] k = "unhandled" -> "ki" [] k = "custom" -> "custom" [] OTHER -> k
OutcomeName(n) == CASE n = "addSuccess" -> "success" [] n = "addFailure" -> "failure" [] n = "addError" -> "error"
                    [] n = "addSkip" -> "skip" [] n = "addExpectedFailure" -> "xfail"
                    [] n = "addUnexpectedSuccess" -> "uxsuccess" [] OTHER -> n

OInit ==
    /\ otid \in DOMAIN OTraces
    /\ l = 1 /\ phase = "idle" /\ oraised = <<>> /\ setupFailed = FALSE
    /\ names = <<>> /\ outcome = None /\ oprop = FALSE /\ stuck = 0 /\ ncleanupUnits = 0

More == l <= Len(OT.events) /\ stuck = 0
Adv == l' = l + 1
Keep == UNCHANGED otid

\* result.startTest(case)
OStart == /\ More /\ E.ev = "result" /\ E.name = "startTest" /\ phase = "idle"
          /\ phase' = "started" /\ names' = Append(names, "startTest") /\ Adv /\ Keep
          /\ UNCHANGED <<oraised, setupFailed, outcome, oprop, stuck, ncleanupUnits>>

\* the stages, in the order _run_core calls them (only checked for the plain RunTest runner)
OUnit ==
    /\ More /\ E.ev = "unit"
    /\ IF ~OT.plain THEN UNCHANGED <<phase, setupFailed, ncleanupUnits>>
       ELSE CASE E.name = "_run_setup" -> phase = "started" /\ phase' = "setUp" /\ UNCHANGED <<setupFailed, ncleanupUnits>>
              [] E.name = "_run_test_method" -> phase = "setUp" /\ oraised = <<>> /\ phase' = "body"
                                                /\ UNCHANGED <<setupFailed, ncleanupUnits>>
              [] E.name = "_run_teardown" -> phase = "body" /\ phase' = "tearDown" /\ UNCHANGED <<setupFailed, ncleanupUnits>>
              [] E.name = "_run_cleanups" ->
                    /\ phase \in {"setUp", "tearDown"}
                    /\ (phase = "setUp" => oraised # <<>>)       \* straight from setUp only if it failed
                    /\ phase' = "cleanups" /\ setupFailed' = (phase = "setUp") /\ UNCHANGED ncleanupUnits
              [] E.name = "_raise_force_fail_error" -> phase = "cleanups" /\ UNCHANGED <<phase, setupFailed, ncleanupUnits>>
              [] OTHER -> \* a cleanup function popped by _run_cleanups (which _run_core calls directly,
                          \* not through _run_user, when setUp failed)
                    /\ phase = "cleanups" \/ (phase = "setUp" /\ oraised # <<>>)
                    /\ phase' = "cleanups" /\ setupFailed' = (setupFailed \/ phase = "setUp")
                    /\ ncleanupUnits' = ncleanupUnits + 1
    /\ Adv /\ Keep /\ UNCHANGED <<oraised, names, outcome, oprop, stuck>>

OCaught == /\ More /\ E.ev = "caught"
           /\ phase \notin {"idle", "reported", "stopped"}
           /\ oraised' = Append(oraised, [kind |-> KindOfObs(E.kind), unit |-> phase])
           /\ Adv /\ Keep /\ UNCHANGED <<phase, setupFailed, names, outcome, oprop, stuck, ncleanupUnits>>

OSelect == /\ More /\ E.ev = "select" /\ oraised # <<>>
           /\ Adv /\ Keep /\ UNCHANGED <<phase, oraised, setupFailed, names, outcome, oprop, stuck, ncleanupUnits>>

OOutcome == /\ More /\ E.ev = "result" /\ E.name \notin {"startTest", "stopTest"}
            /\ phase \notin {"idle"}
            /\ names' = Append(names, "outcome")
            /\ outcome' = OutcomeName(E.name)
            /\ phase' = "reported"
            /\ Adv /\ Keep /\ UNCHANGED <<oraised, setupFailed, oprop, stuck, ncleanupUnits>>

OStop == /\ More /\ E.ev = "result" /\ E.name = "stopTest" /\ phase # "idle"
         /\ names' = Append(names, "stopTest") /\ phase' = "stopped"
         /\ Adv /\ Keep /\ UNCHANGED <<oraised, setupFailed, outcome, oprop, stuck, ncleanupUnits>>

OProp == /\ More /\ E.ev = "propagate"
         /\ oprop' = TRUE
         /\ Adv /\ Keep /\ UNCHANGED <<phase, oraised, setupFailed, names, outcome, stuck, ncleanupUnits>>

OEnd == /\ More /\ E.ev = "end" /\ Adv /\ Keep
        /\ UNCHANGED <<phase, oraised, setupFailed, names, outcome, oprop, stuck, ncleanupUnits>>

Enabled1 == ENABLED OStart \/ ENABLED OUnit \/ ENABLED OCaught \/ ENABLED OSelect \/ ENABLED OOutcome
            \/ ENABLED OStop \/ ENABLED OProp \/ ENABLED OEnd
\* no rule of the skeleton accepts the next event
OStuck == /\ More /\ ~Enabled1 /\ stuck' = l /\ Keep
          /\ UNCHANGED <<l, phase, oraised, setupFailed, names, outcome, oprop, ncleanupUnits>>

ONext == OStart \/ OUnit \/ OCaught \/ OSelect \/ OOutcome \/ OStop \/ OProp \/ OEnd \/ OStuck
OSpec == OInit /\ [][ONext]_ovars

\* custom handlers may report anything: only "not a success" can be demanded
HasCustom == \E i \in DOMAIN oraised : oraised[i].kind = "custom"
OAllowed == IF HasCustom THEN {"success", "failure", "error", "skip", "xfail", "uxsuccess"} \ {"success"}
            ELSE Allowed(oraised)
BaseSeen == \E i \in DOMAIN oraised : oraised[i].kind \in BaseKinds

OVerdict ==
  [ order      |-> stuck = 0,
    c01_bracket|-> names = Bracket,
    c01_base   |-> /\ (oprop <=> BaseSeen)
                   /\ (BaseSeen => outcome = "error"),
    c03_sound  |-> \/ outcome \in OAllowed
                   \/ (oraised = <<>> /\ outcome = "skip" /\ phase = "stopped" /\ ~OT.sawUnits),   \* skip decorator
    nraised    |-> Len(oraised),
    stuckAt    |-> stuck ]

ODone == l > Len(OT.events) \/ stuck # 0
OVerdictC == ODone => PrintT(<<"VERDICT", otid, ToJson(OVerdict)>>)
=============================================================================
