SPECIFICATION Spec
CONSTANTS
  Kinds = {"fail"}
  CleanupIds = {"c1", "c2", "c3"}
  DetailNames <- NamesNone
  Mismatches = {}
  Attrs = {}
  Fixtures = {}
  MaxFaults = 1
  MaxSteps = 2
  MaxTotalSteps = 3
  MaxRuns = 1
  AllowDecor = FALSE
  OnExcChoices = {FALSE}
  PreForceChoices = {FALSE}
  XfDecChoices = {FALSE}
  StepOps = {"addCleanup", "sibling"}
  AllowMulti = FALSE
  Variant = "asRequired"
  UndoOf <- MCUndoOf
  GatherOf <- MCGatherOf
  CleanOf <- MCCleanOf
  FixtureSetUpFails <- MCFixtureSetUpFails
  FixtureFailKinds <- MCFixtureFailKinds
  FixtureCleanKind <- MCFixtureCleanKind
  FixtureGatherRaises <- MCFixtureGatherRaises
  FixtureDetails <- MCFixtureDetails
  MismatchDetails <- MCMismatchDetails
INVARIANT Bracketed
INVARIANT BaseExcSurvives
INVARIANT StageOrder
INVARIANT Undone
INVARIANT RerunSame
INVARIANT OutcomeSound
INVARIANT SuccessOnlyIfClean
INVARIANT DetailsComplete
INVARIANT HandlersCalled
PROPERTY LifoStep
CHECK_DEADLOCK FALSE
CONSTRAINT ExportC
