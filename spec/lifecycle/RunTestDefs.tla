---------------------------- MODULE RunTestDefs ----------------------------
(* Constant-level vocabulary of the lifecycle specification (no variables),  *)
(* shared by RunTest.tla, RunTestTrace.tla and RunTestObs.tla.               *)
EXTENDS Naturals, Sequences, FiniteSets

None == "none"

AllKinds == {"fail", "err", "skip", "xfail", "uxs", "ki", "exit",
             "custom", "custom2", "custom3", "custom4", "subfail", "subskip", "subki", "skipobj", "abort",
             "xfaild", "uxsd"}
BaseKinds == {"ki", "exit", "subki", "abort"}   \* do not derive from Exception (abort: a user BaseException subclass)

\* The documented handler table (testcase.py:248-254), user-inserted handler first:
\*   custom  = Exception subclass whose handler was inserted at the FRONT (reports a failure)
\*   custom2 = Exception subclass whose handler was appended BEHIND (Exception, error): never fires
\*   custom3 = class Sub3(Base3) with user handlers inserted as [(Base3, failure), (Sub3, skip)]: list order decides
\*   custom4 = Exception subclass whose (failure) handler is inserted into exception_handlers by setUp, i.e. during the run
\*   xfaild / uxsd = what a method decorated with unittest.expectedFailure turns an Exception / a normal return into
Map(k) == CASE k \in {"fail", "subfail", "custom", "custom3", "custom4"} -> "failure"
            [] k \in {"err", "custom2"} -> "error"
            [] k \in {"skip", "subskip", "skipobj"} -> "skip"     \* skipobj: skipTest(reason) with a non-str reason
            [] k \in {"xfail", "xfaild"} -> "xfail"
            [] k \in {"uxs", "uxsd"} -> "uxsuccess"
            [] k \in BaseKinds -> "error"

Unsuccessful == {"failure", "error", "uxsuccess"}

\* kinds for which the framework must attach a traceback detail (failures and errors; the
\* assertion behind an expected failure).  skip / unexpected success: not required.
NeedsTb(k) == Map(k) \in {"failure", "error"} \/ k = "xfail"


(* C03: the outcome-selection RELATION                                      *)
Allowed(rs) ==
    LET kinds == {rs[i].kind : i \in DOMAIN rs}
        cands == {Map(k) : k \in kinds}
    IN IF rs = <<>> THEN {"success"}
       ELSE IF kinds \cap BaseKinds # {} THEN {"error"}
       ELSE IF cands \cap {"failure", "error"} # {} THEN cands \cap Unsuccessful
       ELSE cands

MayPropagate(rs) == {rs[i].kind : i \in DOMAIN rs} \cap BaseKinds


Bracket == <<"startTest", "outcome", "stopTest">>

=============================================================================
