SPECIFICATION OSpec
CONSTRAINT OVerdictC
CHECK_DEADLOCK FALSE
