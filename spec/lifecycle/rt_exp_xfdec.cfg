SPECIFICATION Spec
CONSTANTS
  Kinds <- KindsXf
  CleanupIds = {"c1"}
  DetailNames <- NamesNone
  Mismatches = {}
  Attrs = {}
  Fixtures = {"f_classic", "f_bad"}
  MaxFaults = 2
  MaxSteps = 1
  MaxTotalSteps = 1
  MaxRuns = 1
  AllowDecor = FALSE
  OnExcChoices = {TRUE}
  PreForceChoices = {FALSE}
  XfDecChoices = {TRUE}
  StepOps = {"addCleanup"}
  AllowMulti = TRUE
  Variant = "asRequired"
  UndoOf <- MCUndoOf
  GatherOf <- MCGatherOf
  CleanOf <- MCCleanOf
  FixtureSetUpFails <- MCFixtureSetUpFails
  FixtureFailKinds <- MCFixtureFailKinds
  FixtureCleanKind <- MCFixtureCleanKind
  FixtureGatherRaises <- MCFixtureGatherRaises
  FixtureDetails <- MCFixtureDetails
  MismatchDetails <- MCMismatchDetails
INVARIANT Bracketed
INVARIANT BaseExcSurvives
INVARIANT StageOrder
INVARIANT Undone
INVARIANT RerunSame
INVARIANT OutcomeSound
INVARIANT SuccessOnlyIfClean
INVARIANT DetailsComplete
INVARIANT HandlersCalled
PROPERTY LifoStep
CHECK_DEADLOCK FALSE
CONSTRAINT ExportC
