------------------------------ MODULE MCRunTest ------------------------------
EXTENDS RunTest

MCUndoOf(a) == "undo:" \o a
MCGatherOf(f) == "fxgather:" \o f
MCCleanOf(f) == "fxclean:" \o f
\* nested: f_nest (parent + child, fine), f_nestbad (the CHILD's setUp fails), f_nestcr (the child's cleanUp raises)
\* fixtures: f_ok (detail "fxd"), f_tb (detail named "traceback": collides with generated names),
\*           f_bad (setUp fails after adding detail "fxd"), f_cr (cleanUp raises an error)
MCFixtureSetUpFails(f) == f \in {"f_bad", "f_nestbad", "f_classic"}
\* f_classic: a classic fixture (overrides setUp) that attaches a detail and is then interrupted by KeyboardInterrupt
MCFixtureFailKinds(f) == CASE f = "f_nestbad" -> <<"err", "err", "err">>
                           [] f = "f_classic" -> <<"ki">>
                           [] OTHER -> <<"err", "err">>
MCFixtureGatherRaises(f) == f = "f_gr"
MCFixtureCleanKind(f) == IF f \in {"f_cr", "f_nestcr"} THEN "err" ELSE None
MCFixtureDetails(f) == CASE f = "f_tb" -> {Name("traceback", 0)}
                         [] f = "f_two" -> {Name("traceback", 0), Name("traceback", 1)}
                         \* a fixture that uses a child fixture: its details are its own + the child's (renamed)
                         [] f \in {"f_nest", "f_nestbad", "f_nestcr"} -> {Name("fxd", 0), Name("fxd", 1)}
                         [] OTHER -> {Name("fxd", 0)}
\* mismatches: m0 carries no details, m1 a detail "diff", m2 details named "traceback" and "Failed expectation"
MCMismatchDetails(m) == CASE m = "m0" -> {}
                          [] m = "m1" -> {Name("diff", 0)}
                          [] m = "m2" -> {Name("traceback", 0), Name("Failed expectation", 0)}
                          \* a mismatch whose own details leave a GAP in the numbering ("traceback-2" and "traceback",
                          \* handed over in that order): with a user detail "traceback" already there the second one must
                          \* still get a free name - a renaming rule that counts instead of probing overwrites the first
                          [] m = "m3" -> {Name("traceback", 2), Name("traceback", 0)}

KindsCore == {"fail", "err", "skip", "xfail", "uxs", "ki"}
KindsAll == AllKinds \ {"xfaild", "uxsd"}     \* (those two only arise through the expectedFailure decorator)
NamesNone == {}
NamesTb == {Name("traceback", 0)}
Kinds6 == {"fail", "err", "skip", "xfail", "ki", "custom"}
KindsXf == {"fail", "skip", "ki", "err", "xfail"}
KindsTriple == {"ki", "err", "skip", "fail", "xfail"}
Kinds4 == {"fail", "skip", "xfail", "ki"}
KindsTwo == {"fail", "skip"}
NamesMid == {Name("traceback", 0), Name("traceback", 1), Name("Failed expectation", 0), Name("empty", 0)}
Kinds8 == {"fail", "err", "skip", "xfail", "uxs", "ki", "exit", "custom"}
KindsFew == {"fail", "skip", "xfail"}
NamesSmall == {Name("foo", 0), Name("traceback", 1)}
NamesAll == {Name("empty", 0), Name("foo", 0), Name("traceback", 0), Name("traceback", 1), Name("Failed expectation", 0), Name("fxd", 0)}
=============================================================================
