SPECIFICATION Spec
CONSTANTS
  Kinds <- KindsCore
  CleanupIds = {"c1", "c2"}
  DetailNames <- NamesSmall
  Mismatches = {"m1"}
  Attrs = {"a_exist"}
  Fixtures = {"f_ok"}
  MaxFaults = 2
  MaxSteps = 2
  MaxTotalSteps = 1
  MaxRuns = 1
  AllowDecor = TRUE
  OnExcChoices = {TRUE, FALSE}
  PreForceChoices = {FALSE}
  XfDecChoices = {FALSE}
  StepOps = {"upcall", "addCleanup", "addDetail", "expect", "patch", "useFixture"}
  AllowMulti = FALSE
  Variant = "asCoded"
  UndoOf <- MCUndoOf
  GatherOf <- MCGatherOf
  CleanOf <- MCCleanOf
  FixtureSetUpFails <- MCFixtureSetUpFails
  FixtureFailKinds <- MCFixtureFailKinds
  FixtureCleanKind <- MCFixtureCleanKind
  FixtureGatherRaises <- MCFixtureGatherRaises
  FixtureDetails <- MCFixtureDetails
  MismatchDetails <- MCMismatchDetails
INVARIANT Bracketed
INVARIANT BaseExcSurvives
INVARIANT StageOrder
INVARIANT Undone
INVARIANT RerunSame
INVARIANT OutcomeSound
INVARIANT SuccessOnlyIfClean
INVARIANT DetailsComplete
INVARIANT HandlersCalled
PROPERTY LifoStep
CHECK_DEADLOCK FALSE
