SPECIFICATION Spec
CONSTANTS
  Kinds <- Kinds4
  CleanupIds = {"c1"}
  DetailNames <- NamesSmall
  Mismatches = {"m1"}
  Attrs = {"a_exist"}
  Fixtures = {"f_ok"}
  MaxFaults = 2
  MaxSteps = 2
  MaxTotalSteps = 1
  MaxRuns = 2
  AllowDecor = FALSE
  OnExcChoices = {TRUE, FALSE}
  PreForceChoices = {TRUE, FALSE}
  XfDecChoices = {TRUE}
  StepOps = {"upcall", "addCleanup", "addDetail", "expect", "patch", "useFixture"}
  AllowMulti = FALSE
  Variant = "asRequired"
  UndoOf <- MCUndoOf
  GatherOf <- MCGatherOf
  CleanOf <- MCCleanOf
  FixtureSetUpFails <- MCFixtureSetUpFails
  FixtureFailKinds <- MCFixtureFailKinds
  FixtureCleanKind <- MCFixtureCleanKind
  FixtureGatherRaises <- MCFixtureGatherRaises
  FixtureDetails <- MCFixtureDetails
  MismatchDetails <- MCMismatchDetails
INVARIANT Bracketed
INVARIANT BaseExcSurvives
INVARIANT StageOrder
INVARIANT Undone
INVARIANT RerunSame
INVARIANT OutcomeSound
INVARIANT SuccessOnlyIfClean
INVARIANT DetailsComplete
INVARIANT HandlersCalled
PROPERTY LifoStep
CHECK_DEADLOCK FALSE
