SPECIFICATION Spec
CONSTANTS
  Kinds <- KindsAll
  CleanupIds = {"c1", "c2"}
  DetailNames <- NamesNone
  Mismatches = {}
  Attrs = {}
  Fixtures = {}
  MaxFaults = 1
  MaxSteps = 2
  MaxTotalSteps = 2
  MaxRuns = 1
  AllowDecor = TRUE
  OnExcChoices = {TRUE}
  PreForceChoices = {FALSE}
  XfDecChoices = {FALSE}
  StepOps = {"addCleanup", "upcall"}
  AllowMulti = TRUE
  Variant = "asRequired"
  UndoOf <- MCUndoOf
  GatherOf <- MCGatherOf
  CleanOf <- MCCleanOf
  FixtureSetUpFails <- MCFixtureSetUpFails
  FixtureFailKinds <- MCFixtureFailKinds
  FixtureCleanKind <- MCFixtureCleanKind
  FixtureGatherRaises <- MCFixtureGatherRaises
  FixtureDetails <- MCFixtureDetails
  MismatchDetails <- MCMismatchDetails
INVARIANT Bracketed
INVARIANT BaseExcSurvives
INVARIANT StageOrder
INVARIANT Undone
INVARIANT RerunSame
INVARIANT OutcomeSound
INVARIANT SuccessOnlyIfClean
INVARIANT DetailsComplete
INVARIANT HandlersCalled
PROPERTY LifoStep
CHECK_DEADLOCK FALSE
CONSTRAINT ExportC
