SPECIFICATION Spec
CONSTANTS
  Kinds <- KindsFew
  CleanupIds = {"c1"}
  DetailNames <- NamesAll
  Mismatches = {"m1", "m2", "m3"}
  Attrs = {"a_exist", "a_missing", "a_none"}
  Fixtures = {"f_ok", "f_tb", "f_two", "f_bad", "f_cr", "f_gr", "f_nest", "f_nestbad", "f_nestcr", "f_classic"}
  MaxFaults = 1
  MaxSteps = 2
  MaxTotalSteps = 2
  MaxRuns = 1
  AllowDecor = FALSE
  OnExcChoices = {FALSE}
  PreForceChoices = {FALSE}
  XfDecChoices = {FALSE}
  StepOps = {"addCleanup", "addDetail", "expect", "patch", "useFixture"}
  AllowMulti = FALSE
  Variant = "asRequired"
  UndoOf <- MCUndoOf
  GatherOf <- MCGatherOf
  CleanOf <- MCCleanOf
  FixtureSetUpFails <- MCFixtureSetUpFails
  FixtureFailKinds <- MCFixtureFailKinds
  FixtureCleanKind <- MCFixtureCleanKind
  FixtureGatherRaises <- MCFixtureGatherRaises
  FixtureDetails <- MCFixtureDetails
  MismatchDetails <- MCMismatchDetails
INVARIANT Bracketed
INVARIANT BaseExcSurvives
INVARIANT StageOrder
INVARIANT Undone
INVARIANT RerunSame
INVARIANT OutcomeSound
INVARIANT SuccessOnlyIfClean
INVARIANT DetailsComplete
INVARIANT HandlersCalled
PROPERTY LifoStep
CHECK_DEADLOCK FALSE
CONSTRAINT ExportC
