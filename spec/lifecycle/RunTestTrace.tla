---------------------------- MODULE RunTestTrace ----------------------------
(***************************************************************************)
(* Validation of executions recorded from the real testtools code against  *)
(* RunTest.tla.  Each trace = one synthesised TestCase (its program) plus   *)
(* what was observed when it ran against the result flavours.  The model    *)
(* FOLLOWS the program with the framework actions of RunTest.tla; the       *)
(* outcome and propagation are taken from the observation (ReportWith), so  *)
(* that every property predicate is evaluated on what the code really did   *)
(* and the failing clause is named.  One VERDICT line per trace.            *)
(***************************************************************************)
EXTENDS MCRunTest, IOUtils

Traces == JsonDeserialize(IOEnv.TRACE_FILE)

VARIABLE tid
tvars == <<vars, tid>>

T == Traces[tid]
Obs == T.obs
Ext == Obs.flav[1]          \* the extended-result flavour comes first

TraceInit ==
    /\ tid \in DOMAIN Traces
    /\ pc = "idle" /\ run = 1 /\ mode = "follow"
    /\ decor = Traces[tid].prog.decor
    /\ onexc = Traces[tid].prog.onexc
    /\ xfdec = Traces[tid].prog.xfdec
    /\ script = Traces[tid].prog.script
    /\ cur = None /\ pos = 0 /\ upcalled = FALSE
    /\ stack = <<>> /\ registered = <<>> /\ ran = <<>> /\ seen = <<>> /\ raised = <<>>
    /\ setupOk = FALSE /\ force = Traces[tid].prog.preforce /\ force0 = force
    /\ details = <<>> /\ tbNext = 0 /\ added = {} /\ hcalls = 0
    /\ attrs = [a \in Attrs |-> InitAttr(a)]
    /\ rlog = <<>> /\ outcomeHcalls = 0 /\ propagated = None
    /\ nfaults = 0 /\ nsteps = 0 /\ prev = <<>>

TraceReport == ReportWith(Ext.outcome, Ext.prop)

TraceNext ==
    /\ (StartTest \/ DecoratedSkip \/ EnterUnit \/ Step \/ EndUnit \/ PopCleanup \/ CleanupsDone
        \/ SysCleanup \/ ForceFail \/ TraceReport \/ StopTest)
    /\ UNCHANGED tid

TraceSpec == TraceInit /\ [][TraceNext]_tvars

-----------------------------------------------------------------------------
ErrorLike(o) == o \in {"error", "fail*"}
FlavBracket(f) == IF f.hasStop THEN f.names = Bracket ELSE f.names = <<"startTest", "outcome">>
FlavBase(f) ==
    LET base == {raised[i].kind : i \in DOMAIN raised} \cap BaseKinds IN
    /\ (f.prop # None) <=> (base # {})
    /\ f.prop # None => f.prop \in base
    /\ base # {} => ErrorLike(f.outcome)

Instrumented(u) == ~IsUndo(u) /\ ~IsGather(u)
TbCids(d) == {c \in Range(d.cids) : \E i \in DOMAIN raised : c = "tb:" \o raised[i].unit \o ":" \o ToString(UIdx(raised, i))}
SkipCids == {"skipreason:" \o raised[i].unit \o ":" \o ToString(UIdx(raised, i)) : i \in {j \in DOMAIN raised : Map(raised[j].kind) = "skip"}}

Verdict ==
  [ c01_bracket |-> \A i \in DOMAIN Obs.flav : FlavBracket(Obs.flav[i]),
    c01_base    |-> \A i \in DOMAIN Obs.flav : FlavBase(Obs.flav[i]),
    \* the generated code logs user units and fixture cleanUps (not patch undo / gather_details)
    c02_order   |-> LET idx == SelectSeq([i \in DOMAIN ran |-> i], LAMBDA i : Instrumented(ran[i])) IN
                    /\ Obs.ran = [j \in DOMAIN idx |-> ran[idx[j]]]
                    /\ Obs.seen = [j \in DOMAIN idx |-> seen[idx[j]]],
    c02_undone  |-> Obs.left = 0 /\ Obs.attrsAfter = [a \in Attrs |-> InitAttr(a)],
    c02_rerun   |-> Obs.run2 = [ran |-> Obs.ran, seen |-> Obs.seen, names |-> Ext.names,
                                outcome |-> Ext.outcome, prop |-> Ext.prop],
    \* every outcome the extended result received (not only the last one) must be an allowed one:
    \* "reported as a success only if no stage raised" also when a second outcome follows
    c03_sound   |-> /\ IF decor THEN Ext.outcome = "skip" ELSE Ext.outcome \in Allowed(raised)
                    /\ \A k \in DOMAIN Ext.outs :
                          IF decor THEN Ext.outs[k] = "skip" ELSE Ext.outs[k] \in Allowed(raised),
    c03_verdict |-> \A i \in DOMAIN Obs.flav : Obs.flav[i].ok # "na" =>
                        ((Obs.flav[i].ok = "true") <=> (Ext.outcome \notin Unsuccessful)),
    c05_details |-> decor \/
                    /\ \A x \in added : x.origin # "reason" =>
                          \E j \in DOMAIN Obs.details : Obs.details[j].b = x.base /\ x.cid \in Range(Obs.details[j].cids)
                    /\ \A j \in DOMAIN Obs.details : Cardinality(TbCids(Obs.details[j])) <= 1
                    /\ (Ext.outcome = "skip" =>
                          \E j \in DOMAIN Obs.details : Obs.details[j].b = "reason" /\ Obs.details[j].n = 0
                                                        /\ Range(Obs.details[j].cids) \cap SkipCids # {}),
    c05_bytes   |-> \A j \in DOMAIN Obs.details :
                        Obs.details[j].epoch \in {0, Len(SelectSeq(ran, Instrumented))},
    c05_handlers|-> Obs.hcalls = (IF onexc THEN Len(raised) ELSE 0) /\ Obs.hbefore = Obs.hcalls,
    anomalies   |-> Obs.anomalies = 0,
    nraised     |-> Len(raised),
    allowed     |-> Allowed(raised) ]

VerdictC == (pc = "done") => PrintT(<<"VERDICT", tid, ToJson(Verdict)>>)
=============================================================================
