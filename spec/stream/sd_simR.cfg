SPECIFICATION Spec
CONSTANTS
  Trees <- TreesR
  Events <- EventsC
  MaxLen = 4
  MaxRuns = 2
  Export = TRUE
  Variant = "asRequired"
CONSTRAINT ExportC
INVARIANT ForwardOnce
INVARIANT OnlyOwnField
INVARIANT Independent
INVARIANT CallerUntouched
CHECK_DEADLOCK FALSE
