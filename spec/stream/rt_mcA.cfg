SPECIFICATION Spec
CONSTANTS
  Sinks = {"s1", "s2", "s3"}
  Fallbacks = {"fb", "none"}
  FbStartStop = {TRUE, FALSE}
  Rules <- RulesAll
  Events <- EventsB
  BadRules <- BadNone
  MaxRejected = 0
  MaxRules = 2
  MaxStatus = 1
  MaxRuns = 1
  MaxReent = 0
  RulesInRun = TRUE
  Export = FALSE
  Variant = "asRequired"
VIEW ViewNoHist
INVARIANT OneDestination
INVARIANT PushPopInverse
INVARIANT StartStopExact
CHECK_DEADLOCK FALSE
