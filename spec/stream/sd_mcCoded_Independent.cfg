SPECIFICATION Spec
CONSTANTS
  Trees <- TreesB
  Events <- EventsB
  MaxLen = 2
  MaxRuns = 1
  Export = FALSE
  Variant = "asCoded"
VIEW ViewNoHist
INVARIANT Independent
CHECK_DEADLOCK FALSE
