SPECIFICATION Spec
CONSTANTS
  Events <- EventsB
  MaxLen = 3
  MaxRuns = 2
  DropExists = FALSE
VIEW ViewNoHist
INVARIANT OncePerIncarnation
INVARIANT ReportedFields
INVARIANT TableIsOpenSet
INVARIANT SummarySound
PROPERTY NoIdIgnored
CHECK_DEADLOCK FALSE
