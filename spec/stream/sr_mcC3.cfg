SPECIFICATION Spec
CONSTANTS
  Events <- EventsC
  MaxLen = 2
  MaxRuns = 1
  DropExists = FALSE
VIEW ViewNoHist
INVARIANT OncePerIncarnation
INVARIANT ReportedFields
INVARIANT TableIsOpenSet
INVARIANT SummarySound
PROPERTY NoIdIgnored
CHECK_DEADLOCK FALSE
