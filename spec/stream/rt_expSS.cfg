SPECIFICATION Spec
CONSTANTS
  Sinks = {"s1", "s2", "s3"}
  Fallbacks = {"fb", "none"}
  FbStartStop = {TRUE, FALSE}
  Rules <- RulesSS
  Events <- EventsS
  BadRules <- BadNone
  MaxRejected = 0
  MaxRules = 3
  MaxStatus = 0
  MaxRuns = 2
  MaxReent = 0
  RulesInRun = TRUE
  Export = TRUE
  Variant = "asRequired"
CONSTRAINT ExportC
INVARIANT OneDestination
INVARIANT PushPopInverse
INVARIANT StartStopExact
CHECK_DEADLOCK FALSE
