SPECIFICATION Spec
CONSTANTS
  Trees <- TreesD3
  Events <- EventsB
  MaxLen = 2
  MaxRuns = 1
  Export = TRUE
  Variant = "asRequired"
CONSTRAINT ExportC
INVARIANT ForwardOnce
INVARIANT OnlyOwnField
INVARIANT Independent
INVARIANT CallerUntouched
CHECK_DEADLOCK FALSE
