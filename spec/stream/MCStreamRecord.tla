--------------------------- MODULE MCStreamRecord ---------------------------
(* Model-checking instances of StreamRecord: event alphabets and bounds.    *)
EXTENDS StreamRecord

Ev(i, r, s, t, fn, fb, m, ts) ==
    [id |-> i, route |-> r, status |-> s, tags |-> t, fname |-> fn, fbytes |-> fb, mime |-> m, ts |-> ts]

\* payload profiles: <<tags, fname, fbytes, mime, ts>>
P1 == <<NoTags, None, None, None, None>>
P2 == <<{"a"}, None, None, None, "1">>
P3 == <<{}, "f", "x", "text/plain", "2">>
P4 == <<NoTags, "f", "", "application/x-b", None>>
P5 == <<{"b"}, "g", "y", "application/x-b", "1">>
P6 == <<NoTags, "f", "z", "application/x-b", "2">>
ProfilesA == {P1, P2, P3, P4, P5, P6}

Mk(i, r, s, p) == Ev(i, r, s, p[1], p[2], p[3], p[4], p[5])

\* quick exhaustive alphabet: 3 ids x 2 routes x 6 statuses x 6 profiles = 216 events
EventsA == { Mk(i, r, s, p) : i \in {"t1", "t2", None}, r \in {None, "r"},
                              s \in {None, "inprogress", "success", "fail", "exists", "skip"},
                              p \in ProfilesA }

\* small alphabet for longer sequences and two runs
ProfilesB == { <<NoTags, None, None, None, None>>,
               <<{"a"}, "f", "x", "text/plain", "1">>,
               <<NoTags, "f", "y", "application/x-b", "2">> }
EventsB == { Mk(i, r, s, p) : i \in {"t1", "t2"}, r \in {None},
                              s \in {None, "inprogress", "success", "fail"}, p \in ProfilesB }
              \cup { Mk("t1", "r", s, <<NoTags, None, None, None, "1">>) : s \in {"inprogress", "xfail"} }
              \cup { Mk(None, None, None, <<NoTags, "f", "x", "text/plain", None>>) }

\* alphabet for the DropExists (StreamToExtendedDecorator) instance
EventsX == { Mk(i, r, s, p) : i \in {"t1", "t2"}, r \in {None, "r"},
                              s \in {None, "inprogress", "success", "fail", "exists", "skip", "xfail", "uxsuccess"},
                              p \in {P1, P2, P3, P5} }

\* events WITHOUT a test id for the DropExists (StreamToExtendedDecorator) instance: "events without a test id are
\* ignored" whatever else they carry (file name with / without bytes, mime type, tags, timestamp, route code) -
\* nothing may be reported for them, also not when stopTestRun flushes; a few events with an id to interleave
EventsXN == { Mk(None, r, s, p) : r \in {None, "r"}, s \in {None, "inprogress", "success", "fail", "exists"},
                                  p \in {P1, P2, P3, P4, P5, P6} }
             \cup { Mk("t1", None, s, p) : s \in {"inprogress", "success", "fail"}, p \in {P1, P3} }
EventsXS == EventsX \cup EventsXN

\* all nine statuses, for the thorough tier / simulation
EventsC == { Mk(i, r, s, p) : i \in {"t1", "t2", None}, r \in {None, "r"},
                              s \in {None, "inprogress", "success", "fail", "exists", "skip",
                                     "xfail", "uxsuccess", "unknown"},
                              p \in ProfilesA }
=============================================================================
