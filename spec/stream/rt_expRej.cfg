SPECIFICATION Spec
CONSTANTS
  Sinks = {"s1", "s2", "s3"}
  Fallbacks = {"fb", "none"}
  FbStartStop = {TRUE}
  Rules <- RulesRej
  Events <- EventsRej
  BadRules <- BadOne
  MaxRejected = 1
  MaxRules = 1
  MaxStatus = 1
  MaxRuns = 2
  MaxReent = 0
  RulesInRun = TRUE
  Export = TRUE
  Variant = "asRequired"
CONSTRAINT ExportC
INVARIANT OneDestination
INVARIANT PushPopInverse
INVARIANT StartStopExact
CHECK_DEADLOCK FALSE
