---------------------------- MODULE MCStreamDecor ----------------------------
(* Model-checking instances of StreamDecor: tree sets, event alphabets.      *)
EXTENDS StreamDecor

N(k, kids, add, disc, code) == [k |-> k, kids |-> kids, add |-> add, disc |-> disc, code |-> code]
Sink      == N("sink", <<>>, {}, {}, None)
FF        == N("ff", <<>>, {}, {}, None)
Q(c)      == N("queue", <<>>, {}, {}, c)
Copy(ks)  == N("copy", ks, {}, {}, None)
Tag(a, d, ks) == N("tagger", ks, a, d, None)
Stamp(kid) == N("stamp", <<kid>>, {}, {}, None)

SeqsUpTo(S, n) == UNION {[1..k -> S] : k \in 1..n}

\* all one-level wrappings of subtrees from S: Copy / Tagger variants with fan-out 1..fan, Stamp
Wrap(S, fan, TV) == {Copy(ks) : ks \in SeqsUpTo(S, fan)}
                    \cup {Tag(v[1], v[2], ks) : v \in TV, ks \in SeqsUpTo(S, fan)}
                    \cup {Stamp(kid) : kid \in S}

\* tagger parameterisations <<add, discard>>
TV3 == { <<{"a"}, {}>>, <<{}, {"x"}>>, <<{"b"}, {"a"}>> }
TV2 == { <<{"a"}, {}>>, <<{"b"}, {"a", "x"}>> }
TV1 == { <<{"b"}, {"a"}>> }

Leaves == {Sink, FF, Q("c")}

\* depth 1, fan-out <= 2, every leaf kind: 51 trees (+ the two leaf decorators on their own)
D1 == Wrap(Leaves, 2, TV3) \cup {FF, Q("c")}
\* depth <= 2, fan-out <= 2; inner subtrees over plain sinks
D2s == Wrap({Sink} \cup Wrap({Sink}, 2, TV2), 2, TV2)
\* depth <= 2, fan-out <= 2, inner subtrees over every leaf kind but one tagger variant at the inner level
D2m == Wrap(Leaves \cup Wrap(Leaves, 2, TV1), 2, TV2)
\* depth <= 2, fan-out <= 2, everything
D2full == Wrap(Leaves \cup Wrap(Leaves, 2, TV3), 2, TV3)

TreesQ == D1 \cup D2s                 \* quick export
TreesM == D1 \cup D2m                 \* quick exhaustive
TreesF == D1 \cup D2full              \* thorough exhaustive

\* fan-out 3 at depth 1 and 2 over sinks
D1f3 == Wrap(Leaves, 3, TV2)
D2f3 == Wrap({Sink} \cup Wrap({Sink}, 3, TV1), 3, TV1)

\* selected depth-3 / fan-out-3 trees
TA == Tag({"a"}, {}, <<Sink>>)
TB == Tag({"b"}, {"a"}, <<Sink, Sink>>)
TX == Tag({}, {"x"}, <<Sink>>)
Sel3 == {
    Copy(<<Tag({"a"}, {}, <<Copy(<<TB, Sink>>), Sink>>), Sink, Q("c")>>),
    Tag({"a"}, {}, <<Copy(<<Stamp(Sink), TB, Sink>>), Stamp(TX), FF>>),
    Stamp(Copy(<<Tag({"b"}, {"a"}, <<Sink, Q("c")>>), TA, Stamp(Sink)>>)),
    Copy(<<Copy(<<Copy(<<Sink, TA>>), TX>>), Copy(<<TB>>), Sink>>),
    Tag({"b"}, {}, <<Tag({"a"}, {"b"}, <<Tag({}, {"a"}, <<Sink, Sink>>), Sink>>), Sink>>),
    Copy(<<Stamp(Stamp(Stamp(Sink))), Stamp(Copy(<<Q("c"), Q("d")>>)), FF>>),
    Tag({}, {"x"}, <<Copy(<<TA, TA, TA>>), Copy(<<Sink, TX, Sink>>), Copy(<<TB, FF, Sink>>)>>),
    Copy(<<Sink, Tag({"a"}, {}, <<Sink, Copy(<<Sink, TX>>), Sink>>), Sink>>)
}
\* depth-3: Sel3 plus every one-level wrapping (fan-out <= 2) of the fan-out-2 depth-2 sink trees
TreesD3 == Sel3 \cup Wrap(D2s, 1, TV1) \cup {Copy(<<t, Sink>>) : t \in D2s} \cup {Copy(<<Sink, t>>) : t \in D2s}

TreesB == D1 \cup Sel3               \* two-call export: depth 1 plus the selected depth-3 trees
TreesF3 == D1f3 \cup D2f3            \* fan-out 3

\* random trees of depth <= 3, fan-out <= 3 (TLC's RandomElement; -seed makes them reproducible)
RECURSIVE RandTree(_, _)
RandTree(d, salt) ==
    LET leaf == RandomElement({Sink, FF, Q("c"), Q("d")})
        kind == RandomElement(IF d = 0 THEN {"leaf"} ELSE {"copy", "tagger", "stamp", "copy2", "tagger2", "leaf"})
        fan  == RandomElement(1..3)
        tv   == RandomElement(TV3 \cup { <<{"a", "b"}, {}>>, <<{}, {"a", "x"}>>, <<{"a", "b"}, {"a"}>>, <<{"x"}, {"x"}>> })
    IN CASE kind = "leaf" -> leaf
         [] kind = "stamp" -> Stamp(RandTree(d - 1, salt))
         [] kind \in {"copy", "copy2"} -> Copy([i \in 1..fan |-> RandTree(d - 1, salt + i)])
         [] OTHER -> Tag(tv[1], tv[2], [i \in 1..fan |-> RandTree(d - 1, salt + i)])
IsDecor(t) == t.k # "sink"
TreesR == {t \in {RandTree(3, i) : i \in 1..400} : IsDecor(t)}

-----------------------------------------------------------------------------
Ev(i, s, tk, tv, r, ts, rest) == [id |-> i, status |-> s, tk |-> tk, tv |-> tv, route |-> r, ts |-> ts, rest |-> rest]

\* tags as supplied by the caller: None, set, frozenset (empty and not)
TagsA == { <<"none", {}>>, <<"set", {}>>, <<"set", {"x"}>>, <<"set", {"a", "x"}>>,
           <<"fset", {}>>, <<"fset", {"a"}>> }
\* the other fields: <<id, status, route, ts, rest>>
OthersA == { <<"t1", None, <<>>, None, "plain">>,
             <<"t1", "fail", <<"r">>, "1", "file">>,
             <<None, "uxsuccess", <<"r", "s">>, None, "plain">>,
             <<"t2", "success", <<>>, "1", "eof">>,
             <<"t2", "inprogress", <<"c">>, None, "file">>,
             <<"t1", "success", <<"e">>, None, "plain">> }      \* "e": an EMPTY route-code string (not None)
EventsA == { Ev(o[1], o[2], t[1], t[2], o[3], o[4], o[5]) : t \in TagsA, o \in OthersA }

\* every tag form x two payload profiles, for the larger exhaustive tree set
EventsM == { Ev(o[1], o[2], t[1], t[2], o[3], o[4], o[5]) : t \in TagsA,
             o \in { <<"t1", "fail", <<"r">>, "1", "file">>, <<None, "uxsuccess", <<"r", "s">>, None, "plain">> } }

\* small alphabet for sequences of two and three calls
EventsB == { Ev("t1", "inprogress", "none", {}, <<>>, None, "plain"),
             Ev("t1", "fail", "set", {"x"}, <<"r">>, "1", "file"),
             Ev("t2", "uxsuccess", "set", {"a", "x"}, <<>>, None, "plain"),
             Ev("t2", "success", "fset", {"a"}, <<"c">>, "1", "eof"),
             Ev(None, None, "set", {}, <<"r", "s">>, None, "file"),
             Ev("t1", "unknown", "fset", {}, <<>>, "1", "plain"),
             Ev("t2", "skip", "none", {}, <<"e">>, None, "plain"),
             Ev("t1", "inprogress", "none", {}, <<>>, "9", "plain") }     \* ts "9": AHEAD of the clock ("1": behind)

\* all statuses x all tag forms, for simulation / random trees
EventsC == { Ev(i, s, t[1], t[2], r, ts, "plain") :
               i \in {"t1", None}, s \in {None, "inprogress", "success", "fail", "uxsuccess", "xfail", "skip", "exists", "unknown"},
               t \in TagsA \cup { <<"set", {"b"}>>, <<"fset", {"x", "b"}>> },
               r \in { <<>>, <<"c">>, <<"r", "s">> }, ts \in {None, "1", "9", "2", "3"} }

\* Taggers whose add and discard sets OVERLAP: the outgoing set is (tags \cup add) \ discard, so a tag that is
\* both added and discarded does NOT reach the targets (discard wins), whether or not the event carried it.
TreesO == { Tag({"a", "b"}, {"a"}, <<Sink>>),
            Copy(<<Tag({"a", "b"}, {"a"}, <<Sink, Q("c")>>), Sink>>),
            Tag({"a"}, {"a"}, <<Tag({"x", "b"}, {"x"}, <<Sink>>), Stamp(Sink)>>) }

\* Histories on ONE TimestampingStreamResult: supplied timestamps behind ("1") and ahead ("9") of the clock
\* followed by unstamped events (keyword absent: "plain" with no route; explicit None: with a route).  Filling
\* in is stateless - OwnField depends on the event alone - so the filled value must be the clock at THAT call.
TreesT == { Stamp(Sink), Stamp(Copy(<<Sink, Sink>>)), Copy(<<Stamp(Sink), Sink>>), Stamp(Stamp(Sink)),
            Tag({"a"}, {}, <<Stamp(Sink), Stamp(Q("c"))>>) } \cup TreesO
\* Supplied timestamps are forwarded UNCHANGED whatever they look like: "1" aware UTC behind the clock, "9" aware
\* UTC ahead of it, "2" timezone-NAIVE, "3" aware at a non-UTC offset (the driver compares value and tzinfo).
\* Tags: None, empty, containing "a" (which the overlapping taggers of TreesO both add and discard), not containing it.
EventsT == { Ev("t1", "inprogress", "none", {}, <<>>, "9", "plain"),
             Ev("t1", "inprogress", "set", {"a", "x"}, <<"r">>, "1", "plain"),
             Ev("t1", "success", "none", {}, <<>>, None, "plain"),
             Ev("t2", "inprogress", "set", {}, <<"r">>, None, "plain"),
             Ev("t2", "success", "fset", {"x"}, <<>>, "2", "plain"),
             Ev("t2", "fail", "set", {"a"}, <<"c">>, "3", "plain") }
=============================================================================
