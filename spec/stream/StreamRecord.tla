---------------------------- MODULE StreamRecord ----------------------------
(***************************************************************************)
(* Stream consumers (testtools.testresult.real):                          *)
(*   _StreamToTestRecord  -> StreamToDict, StreamSummary,                  *)
(*                           StreamToExtendedDecorator                     *)
(*                                                                         *)
(* The MECHANISM is the in-progress table of the code (real.py:807-911):  *)
(* ensure key, update fields, pop + report on a final status, flush the    *)
(* rest at stopTestRun.  The MEANING (property C10) is written             *)
(* independently as folds over the input history `evs`: a test             *)
(* "incarnation" is a maximal run of events of one (id, route) key ending  *)
(* at a final status (or at the end of the run).  The invariants relate    *)
(* the two after every call.                                               *)
(***************************************************************************)
EXTENDS Naturals, Sequences, FiniteSets, TLC, Json, SequencesExt, Functions

CONSTANTS
    Events,      \* the alphabet of status() events explored (set of records)
    MaxLen,      \* bound on the number of status() calls per run
    MaxRuns,     \* bound on startTestRun/stopTestRun brackets
    DropExists   \* TRUE: the consumer ignores 'exists' events altogether (StreamToExtendedDecorator.status)

None == "none"
NoTags == {"~"}   \* test_tags=None (TLC cannot compare a set with a string)

Final   == {"exists","xfail","uxsuccess","success","fail","skip","unknown"}
Interim == {None, "inprogress"}

\* event fields: id, route, status, tags (NoTags or a set), fname, fbytes, mime, ts
KeyOf(e) == <<e.id, e.route>>

VARIABLES
    running,     \* between startTestRun and stopTestRun
    runs,        \* completed startTestRun calls
    inprog,      \* function: key -> record, domain = keys in progress   (mechanism)
    order,       \* sequence of keys in table insertion order            (mechanism; dict order)
    reported,    \* sequence of reported records, each tagged why \in {"final","flush"}
    evs,         \* events of the current run, in arrival order          (history, for the meaning)
    closedAt,    \* for each reported "final" record, index in evs of its final event
    nstatus,     \* status() calls in this run (bound)
    hist         \* observation: action log for export / trace validation

vars == <<running, runs, inprog, order, reported, evs, closedAt, nstatus, hist>>

-----------------------------------------------------------------------------
(* Mechanism: _TestRecord.create / _update_case                             *)

NewRec(e) == [id |-> e.id, route |-> e.route, status |-> "unknown", tags |-> {},
              first |-> e.ts, last |-> None, files |-> <<>>]

\* files: sequence of [name, mime, chunks] in first-seen order
FileIdx(fs, n) == IF \E i \in DOMAIN fs : fs[i].name = n
                  THEN CHOOSE i \in DOMAIN fs : fs[i].name = n ELSE 0

GotFile(fs, e) ==
    LET i == FileIdx(fs, e.fname) IN
    IF i = 0 THEN Append(fs, [name |-> e.fname, mime |-> e.mime, chunks |-> <<e.fbytes>>])
    ELSE [fs EXCEPT ![i].chunks = Append(@, e.fbytes)]

Update(r, e) ==
    LET r1 == IF e.status # None THEN [r EXCEPT !.status = e.status] ELSE r
        r2 == [r1 EXCEPT !.last = e.ts]
        r3 == IF e.fname # None /\ e.fbytes # "" THEN [r2 EXCEPT !.files = GotFile(@, e)] ELSE r2
        r4 == IF e.tags # NoTags THEN [r3 EXCEPT !.tags = e.tags] ELSE r3
    IN r4

Rep(r, why) == [id |-> r.id, route |-> r.route, status |-> r.status, tags |-> r.tags,
                first |-> r.first, last |-> r.last, files |-> r.files, why |-> why]

-----------------------------------------------------------------------------
(* Observation written to hist after each action: what a consumer callback  *)
(* has been given so far (projection shared with the Python driver).        *)

(* Summary layer (StreamSummary._gather_test): derived from `reported`      *)

Bucket(st) == CASE st \in {"fail", "inprogress", "unknown"} -> "errors"
                [] st = "skip" -> "skipped"
                [] st = "xfail" -> "expectedFailures"
                [] st = "uxsuccess" -> "unexpectedSuccesses"
                [] OTHER -> None
TestsRun == Cardinality({j \in DOMAIN reported : reported[j].status # "exists"})
InBucket(b) == SelectSeq(reported, LAMBDA r : Bucket(r.status) = b)
WasSuccessful == InBucket("errors") = <<>>

IdsOf(q) == [j \in DOMAIN q |-> q[j].id]
Summary == [testsRun |-> TestsRun, errors |-> IdsOf(InBucket("errors")), skipped |-> IdsOf(InBucket("skipped")),
            xfails |-> IdsOf(InBucket("expectedFailures")), uxs |-> IdsOf(InBucket("unexpectedSuccesses")),
            ok |-> WasSuccessful]

Log(a, e) == hist' = Append(hist, [a |-> a, e |-> e,
                   new |-> IF a = "startTestRun" THEN <<>>
                           ELSE SubSeq(reported', Len(reported) + 1, Len(reported')),
                   nin |-> Cardinality(DOMAIN inprog'), sum |-> Summary'])

-----------------------------------------------------------------------------
Init ==
    /\ running = FALSE /\ runs = 0
    /\ inprog = <<>> /\ order = <<>> /\ reported = <<>> /\ evs = <<>> /\ closedAt = <<>>
    /\ hist = <<>> /\ nstatus = 0

StartTestRun ==
    /\ ~running /\ runs < MaxRuns
    /\ running' = TRUE /\ runs' = runs + 1
    /\ inprog' = <<>> /\ order' = <<>> /\ reported' = <<>> /\ evs' = <<>> /\ closedAt' = <<>>
    /\ nstatus' = 0
    /\ Log("startTestRun", None)

Status(e) ==
    /\ running /\ nstatus < MaxLen
    /\ evs' = IF DropExists /\ e.status = "exists" THEN evs ELSE Append(evs, e)
    /\ nstatus' = nstatus + 1
    /\ IF e.id = None \/ (DropExists /\ e.status = "exists")
       THEN UNCHANGED <<inprog, order, reported, closedAt>>
       ELSE LET k   == KeyOf(e)
                old == IF k \in DOMAIN inprog THEN inprog[k] ELSE NewRec(e)
                new == Update(old, e)
                ord1 == IF k \in DOMAIN inprog THEN order ELSE Append(order, k)
            IN IF e.status \in Interim
               THEN /\ inprog' = [x \in (DOMAIN inprog) \cup {k} |-> IF x = k THEN new ELSE inprog[x]]
                    /\ order' = ord1
                    /\ UNCHANGED <<reported, closedAt>>
               ELSE /\ inprog' = [x \in (DOMAIN inprog) \ {k} |-> inprog[x]]
                    /\ order' = SelectSeq(ord1, LAMBDA x : x # k)
                    /\ reported' = Append(reported, Rep(new, "final"))
                    /\ closedAt' = Append(closedAt, Len(evs'))
    /\ UNCHANGED <<running, runs>>
    /\ Log("status", e)

\* stopTestRun: flush what is left, timestamps[1] := None.  dict.popitem() pops in reverse
\* insertion order; the property does not fix the order, the driver compares flushes as a set.
StopTestRun ==
    /\ running
    /\ running' = FALSE
    /\ reported' = reported \o [i \in 1..Len(order) |->
                        Rep([inprog[order[Len(order) + 1 - i]] EXCEPT !.last = None], "flush")]
    /\ closedAt' = closedAt \o [i \in 1..Len(order) |-> 0]
    /\ inprog' = <<>> /\ order' = <<>>
    /\ UNCHANGED <<runs, evs, nstatus>>
    /\ Log("stopTestRun", None)

Next == StartTestRun \/ StopTestRun \/ \E e \in Events : Status(e)

Spec == Init /\ [][Next]_vars

-----------------------------------------------------------------------------
(* MEANING (independent of the table): folds over evs                       *)

\* indices of evs belonging to key k
Idx(k) == {i \in DOMAIN evs : evs[i].id # None /\ KeyOf(evs[i]) = k}
IsFinalAt(i) == evs[i].status \notin Interim

\* The incarnation that event index i belongs to is identified by its FIRST index:
\* the smallest j <= i of the same key such that no final of that key lies in [j, i-1].
StartOf(i) ==
    LET k == KeyOf(evs[i])
        prevFinals == {j \in Idx(k) : j < i /\ IsFinalAt(j)}
        lo == IF prevFinals = {} THEN 0 ELSE CHOOSE j \in prevFinals : \A j2 \in prevFinals : j2 <= j
    IN CHOOSE j \in Idx(k) : j > lo /\ \A j2 \in Idx(k) : j2 > lo => j <= j2

Incarnations == {StartOf(i) : i \in {j \in DOMAIN evs : evs[j].id # None}}
Members(s) == {i \in DOMAIN evs : evs[i].id # None /\ KeyOf(evs[i]) = KeyOf(evs[s]) /\ StartOf(i) = s}
Closed(s) == \E i \in Members(s) : IsFinalAt(i)
MaxOf(S) == CHOOSE x \in S : \A y \in S : y <= x

\* sorted sequence of a finite set of naturals
SortedSeq(S) == SetToSortSeq(S, LAMBDA a, b : a < b)

LastWhere(s, P(_), dflt, F(_)) ==
    LET c == {i \in Members(s) : P(evs[i])} IN IF c = {} THEN dflt ELSE F(evs[MaxOf(c)])

MeaningStatus(s) == LastWhere(s, LAMBDA e : e.status # None, "unknown", LAMBDA e : e.status)
MeaningTags(s)   == LastWhere(s, LAMBDA e : e.tags # NoTags, {}, LAMBDA e : e.tags)
MeaningFirst(s)  == evs[s].ts
MeaningLast(s)   == evs[MaxOf(Members(s))].ts
\* bytes of file n = concatenation (here: sequence) of non-empty chunks in arrival order
MeaningChunks(s, n) ==
    LET idx == SortedSeq({i \in Members(s) : evs[i].fname = n /\ evs[i].fbytes # ""})
    IN [j \in DOMAIN idx |-> evs[idx[j]].fbytes]
FileNames(r) == {r.files[i].name : i \in DOMAIN r.files}
ChunksOf(r, n) == r.files[FileIdx(r.files, n)].chunks
MimeOf(r, n) == r.files[FileIdx(r.files, n)].mime
MeaningMime(s, n) ==
    LET idx == {i \in Members(s) : evs[i].fname = n /\ evs[i].fbytes # ""} IN
    evs[CHOOSE i \in idx : \A j \in idx : i <= j].mime
MeaningFiles(s) == {evs[i].fname : i \in {j \in Members(s) : evs[j].fname # None /\ evs[j].fbytes # ""}}

\* reported record r describes incarnation s correctly
Describes(r, s, why) ==
    /\ r.id = evs[s].id /\ r.route = evs[s].route
    /\ r.status = MeaningStatus(s)
    /\ r.tags = MeaningTags(s)
    /\ r.first = MeaningFirst(s)
    /\ r.last = (IF why = "final" THEN MeaningLast(s) ELSE None)
    /\ r.why = why
    /\ FileNames(r) = MeaningFiles(s)
    /\ \A n \in FileNames(r) : ChunksOf(r, n) = MeaningChunks(s, n) /\ MimeOf(r, n) = MeaningMime(s, n)

-----------------------------------------------------------------------------
(* C10 invariants                                                           *)

\* every closed incarnation is reported exactly once, at the moment its final status arrived,
\* in order of closure; open ones are reported exactly once as incomplete when the run stops.
OncePerIncarnation ==
    LET closed == {s \in Incarnations : Closed(s)}
        open   == Incarnations \ closed
        finals == SelectSeq(reported, LAMBDA r : r.why = "final")
        flushes == SelectSeq(reported, LAMBDA r : r.why = "flush")
    IN /\ Len(finals) = Cardinality(closed)
       /\ \A j \in DOMAIN finals : closedAt[j] \in DOMAIN evs /\ IsFinalAt(closedAt[j])
                                   /\ evs[closedAt[j]].id # None
       /\ \A j1, j2 \in DOMAIN finals : j1 < j2 => closedAt[j1] < closedAt[j2]
       /\ {closedAt[j] : j \in DOMAIN finals} = {MaxOf(Members(s)) : s \in closed}
       /\ IF running THEN flushes = <<>> /\ Cardinality(DOMAIN inprog) = Cardinality(open)
          ELSE /\ Len(flushes) = Cardinality(open)
               /\ \A s \in open : Cardinality({j \in DOMAIN flushes :
                        flushes[j].id = evs[s].id /\ flushes[j].route = evs[s].route}) = 1

ReportedFields ==
    /\ \A j \in DOMAIN reported :
          reported[j].why = "final" => Describes(reported[j], StartOf(closedAt[j]), "final")
    /\ ~running => \A s \in Incarnations : ~Closed(s) =>
          \E j \in DOMAIN reported : reported[j].why = "flush" /\ Describes(reported[j], s, "flush")

\* the table holds exactly the open incarnations while running
TableIsOpenSet ==
    running => DOMAIN inprog = {KeyOf(evs[s]) : s \in {x \in Incarnations : ~Closed(x)}}

\* events without a test id change nothing
NoIdIgnored ==
    [][(Len(evs') = Len(evs) + 1 /\ evs'[Len(evs')].id = None)
          => UNCHANGED <<inprog, order, reported>>]_vars

-----------------------------------------------------------------------------
(* Summary layer invariant                                                *)

SummarySound ==
    /\ TestsRun <= Len(reported)
    /\ (\E j \in DOMAIN reported : reported[j].status = "fail" \/ reported[j].why = "flush")
          => ~WasSuccessful
    /\ \A j \in DOMAIN reported : reported[j].why = "flush" => reported[j].status \in {"inprogress", "unknown"}

-----------------------------------------------------------------------------
(* Export of behaviours for replay into the real consumers                  *)
Terminal == ~running /\ runs > 0
ExportC == (Terminal /\ runs = MaxRuns) => PrintT(<<"EXPORT", ToJson(hist)>>)
ViewNoHist == <<running, runs, inprog, order, reported, evs, closedAt, nstatus>>
=============================================================================
