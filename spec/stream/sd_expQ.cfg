SPECIFICATION Spec
CONSTANTS
  Trees <- TreesQ
  Events <- EventsA
  MaxLen = 1
  MaxRuns = 1
  Export = TRUE
  Variant = "asRequired"
CONSTRAINT ExportC
INVARIANT ForwardOnce
INVARIANT OnlyOwnField
INVARIANT Independent
INVARIANT CallerUntouched
CHECK_DEADLOCK FALSE
