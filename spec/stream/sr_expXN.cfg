SPECIFICATION Spec
CONSTANTS
  Events <- EventsXN
  MaxLen = 2
  MaxRuns = 1
  DropExists = TRUE
CONSTRAINT ExportC
INVARIANT OncePerIncarnation
INVARIANT ReportedFields
INVARIANT TableIsOpenSet
INVARIANT SummarySound
PROPERTY NoIdIgnored
CHECK_DEADLOCK FALSE
