SPECIFICATION Spec
CONSTANTS
  Sinks = {"s1", "s2", "s3"}
  Fallbacks = {"fb", "none"}
  FbStartStop = {TRUE}
  Rules <- RulesRoute
  Events <- EventsA
  BadRules <- BadNone
  MaxRejected = 0
  MaxRules = 3
  MaxStatus = 1
  MaxRuns = 1
  MaxReent = 0
  RulesInRun = FALSE
  Export = TRUE
  Variant = "asRequired"
CONSTRAINT ExportC
INVARIANT OneDestination
INVARIANT PushPopInverse
INVARIANT StartStopExact
CHECK_DEADLOCK FALSE
