SPECIFICATION Spec
CONSTANTS
  Trees <- TreesT
  Events <- EventsT
  MaxLen = 3
  MaxRuns = 1
  Export = TRUE
  Variant = "asRequired"
CONSTRAINT ExportC
INVARIANT ForwardOnce
INVARIANT OnlyOwnField
INVARIANT Independent
INVARIANT CallerUntouched
CHECK_DEADLOCK FALSE
