SPECIFICATION Spec
CONSTANTS
  Events <- EventsC
  MaxLen = 8
  MaxRuns = 2
  DropExists = FALSE
CONSTRAINT ExportC
INVARIANT OncePerIncarnation
INVARIANT ReportedFields
INVARIANT TableIsOpenSet
INVARIANT SummarySound
PROPERTY NoIdIgnored
CHECK_DEADLOCK FALSE
