SPECIFICATION Spec
CONSTANTS
  Sinks = {"s1", "s2", "s3"}
  Fallbacks = {"fb", "none"}
  FbStartStop = {TRUE, FALSE}
  Rules <- RulesAll
  Events <- EventsA
  BadRules <- BadAll
  MaxRejected = 2
  MaxRules = 5
  MaxStatus = 6
  MaxRuns = 3
  MaxReent = 0
  RulesInRun = TRUE
  Export = TRUE
  Variant = "asRequired"
CONSTRAINT ExportC
INVARIANT OneDestination
INVARIANT PushPopInverse
INVARIANT StartStopExact
CHECK_DEADLOCK FALSE
