SPECIFICATION Spec
CONSTANTS
  Events <- EventsA
  MaxLen = 2
  MaxRuns = 1
  DropExists = FALSE
CONSTRAINT ExportC
INVARIANT OncePerIncarnation
INVARIANT ReportedFields
INVARIANT TableIsOpenSet
INVARIANT SummarySound
PROPERTY NoIdIgnored
CHECK_DEADLOCK FALSE
