SPECIFICATION Spec
CONSTANTS
  Events <- EventsXS
  MaxLen = 8
  MaxRuns = 2
  DropExists = TRUE
CONSTRAINT ExportC
INVARIANT OncePerIncarnation
INVARIANT ReportedFields
INVARIANT TableIsOpenSet
INVARIANT SummarySound
PROPERTY NoIdIgnored
CHECK_DEADLOCK FALSE
