SPECIFICATION Spec
CONSTANTS
  Sinks = {"s1", "s2", "s3"}
  Fallbacks = {"fb", "none"}
  FbStartStop = {TRUE, FALSE}
  Rules <- RulesMix
  Events <- EventsS
  BadRules <- BadNone
  MaxRejected = 0
  MaxRules = 2
  MaxStatus = 2
  MaxRuns = 1
  MaxReent = 0
  RulesInRun = TRUE
  Export = TRUE
  Variant = "asRequired"
CONSTRAINT ExportC
INVARIANT OneDestination
INVARIANT PushPopInverse
INVARIANT StartStopExact
CHECK_DEADLOCK FALSE
