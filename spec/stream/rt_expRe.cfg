SPECIFICATION Spec
CONSTANTS
  Sinks = {"s1", "s2", "s3"}
  Fallbacks = {"fb", "none"}
  FbStartStop = {TRUE, FALSE}
  Rules <- RulesRe
  Events <- EventsS
  BadRules <- BadNone
  MaxRejected = 0
  MaxRules = 1
  MaxStatus = 0
  MaxRuns = 2
  MaxReent = 2
  RulesInRun = TRUE
  Export = TRUE
  Variant = "asRequired"
CONSTRAINT ExportC
INVARIANT OneDestination
INVARIANT PushPopInverse
INVARIANT StartStopBalanced
CHECK_DEADLOCK FALSE
