----------------------------- MODULE StreamDecor -----------------------------
(***************************************************************************)
(* Stream decorators (testtools.testresult.real):                         *)
(*   CopyStreamResult, StreamTagger, TimestampingStreamResult,             *)
(*   StreamFailFast, StreamToQueue          -- property C11                *)
(*                                                                         *)
(* A configuration is a TREE of decorators over recording sinks.  A node   *)
(* is a record [k, kids, add, disc, code]; k is one of                     *)
(*   "copy"   CopyStreamResult(kids)                                       *)
(*   "tagger" StreamTagger(kids, add, disc)                                *)
(*   "stamp"  TimestampingStreamResult(kids[1])                            *)
(*   "sink"   a recording StreamResult                (leaf)               *)
(*   "ff"     StreamFailFast(callback)                (leaf, log = calls   *)
(*            of the callback)                                             *)
(*   "queue"  StreamToQueue(queue, code)              (leaf, log = items   *)
(*            put on the queue)                                            *)
(* A leaf is identified by its PATH (child indices from the root).         *)
(*                                                                         *)
(* The MECHANISM is the code: a call walks the tree, every node hands the  *)
(* call to its targets in list order (real.py:462-464, _strict_map), and   *)
(* the objects passed along are Python OBJECTS WITH IDENTITY: tag sets     *)
(* live in `heap`, events carry a reference, so that a decorator that      *)
(* updates a set in place (Variant = "asCoded", real.py:635-640) changes   *)
(* what the caller and every other holder of that reference see.           *)
(*                                                                         *)
(* The MEANING (property C11) is written without the walk and without the  *)
(* heap: what leaf p must receive for the i-th call is the fold of the     *)
(* own-field functions of the nodes on the path to p over the VALUE the    *)
(* caller supplied - a function of the path only, hence independent of     *)
(* siblings.  The invariants relate the two after every call.              *)
(***************************************************************************)
EXTENDS Naturals, Sequences, FiniteSets, TLC, Json, SequencesExt

CONSTANTS
    Trees,       \* the decorator trees explored (set of node records)
    Events,      \* the alphabet of status() events explored (set of records)
    MaxLen,      \* bound on status() calls per run
    MaxRuns,     \* bound on startTestRun/stopTestRun brackets
    Export,      \* TRUE: keep the action log `hist` (export configs); FALSE: hist stays empty (exhaustive configs)
    Variant      \* "asRequired": StreamTagger builds a new set; "asCoded": it updates the incoming set in place

None == "none"
NoTags == {"~"}            \* test_tags=None (TLC cannot compare a set with a string)
FailSet == {"fail", "uxsuccess"}
Leaf == {"sink", "ff", "queue"}

\* caller event: id, status, tk ("none" | "set" | "fset"), tv (set of tags), route (Seq of segments,
\* <<>> = None), ts (None or a time), rest (token for runnable/file_name/file_bytes/eof/mime_type)
NoEvent == [id |-> None, status |-> None, tk |-> "none", tv |-> {}, route |-> <<>>, ts |-> None, rest |-> None]

VARIABLES
    tree,        \* the configuration (chosen in Init, then constant)
    running, runs, nstatus,
    calls,       \* history of calls made on the root: [a, e, ref, raised]           (for the meaning)
    heap,        \* Seq of set objects [v: set of tags, fz: frozenset?]; index = identity  (mechanism)
    logs,        \* leaf path -> Seq of [a, ci, e (message, tags by reference), snap (tags value on receipt)]
    hist         \* observation: action log for export

vars == <<tree, running, runs, nstatus, calls, heap, logs, hist>>

-----------------------------------------------------------------------------
(* Tree helpers                                                             *)

RECURSIVE NodeAt(_, _)
NodeAt(n, p) == IF p = <<>> THEN n ELSE NodeAt(n.kids[Head(p)], Tail(p))

RECURSIVE LeafPaths(_, _)
LeafPaths(n, p) ==
    IF n.k \in Leaf THEN <<p>>
    ELSE FoldLeft(LAMBDA acc, i : acc \o LeafPaths(n.kids[i], Append(p, i)), <<>>,
                  [i \in 1..Len(n.kids) |-> i])

LeafSeq == LeafPaths(tree, <<>>)                      \* leaves in target-list (depth-first) order
LeafSet == {LeafSeq[j] : j \in DOMAIN LeafSeq}
\* nodes from the root down to (and including) the leaf at p
PathNodes(p) == [i \in 1..(Len(p) + 1) |-> NodeAt(tree, SubSeq(p, 1, i - 1))]

-----------------------------------------------------------------------------
(* Mechanism: one call walking the tree.  st = [heap, logs, raised]          *)

Msg(e, ref) == [id |-> e.id, status |-> e.status, ref |-> ref, route |-> e.route, ts |-> e.ts, rest |-> e.rest]
NoMsg == Msg(NoEvent, 0)
Deref(h, ref) == IF ref = 0 THEN NoTags ELSE h[ref].v

Put(st, p, m) == [st EXCEPT !.logs[p] = Append(@, [a |-> m.a, ci |-> m.ci, e |-> m.e,
                                                   snap |-> Deref(st.heap, m.e.ref)])]

\* StreamTagger.status (real.py:635-640): the outgoing tag set
TagStep(var, n, ref, h) ==
    LET cur == IF ref = 0 THEN {} ELSE h[ref].v
        new == (cur \cup n.add) \ n.disc
    IN IF var = "asRequired"
       THEN \* a new set object; the incoming one is left alone
            IF new = {} THEN [heap |-> h, ref |-> 0, raised |-> FALSE]
            ELSE [heap |-> Append(h, [v |-> new, fz |-> FALSE]), ref |-> Len(h) + 1, raised |-> FALSE]
       ELSE \* test_tags = kwargs.get("test_tags") or set(); test_tags.update(add); .difference_update(discard)
            IF cur = {}                        \* None or an empty (falsy) set: a fresh set() is used
            THEN IF new = {} THEN [heap |-> h, ref |-> 0, raised |-> FALSE]
                 ELSE [heap |-> Append(h, [v |-> new, fz |-> FALSE]), ref |-> Len(h) + 1, raised |-> FALSE]
            ELSE IF h[ref].fz THEN [heap |-> h, ref |-> ref, raised |-> TRUE]   \* frozenset has no update()
            ELSE [heap |-> [h EXCEPT ![ref].v = new], ref |-> IF new = {} THEN 0 ELSE ref, raised |-> FALSE]

\* The walk takes the variant as its first argument: the state follows Deliver(Variant, ...); the export
\* additionally evaluates Deliver("asCoded", ...) for the same call (operator Alt below).
RECURSIVE Deliver(_, _, _, _, _), ToKids(_, _, _, _, _, _)

\* _strict_map(methodcaller(...), targets): in list order; an exception ends the whole call
ToKids(var, n, p, m, st, i) ==
    IF i > Len(n.kids) \/ st.raised THEN st
    ELSE ToKids(var, n, p, m, Deliver(var, n.kids[i], Append(p, i), m, st), i + 1)

Deliver(var, n, p, m, st) ==
    CASE n.k = "sink"  -> Put(st, p, m)
      [] n.k = "queue" -> IF m.a = "status"
                          THEN Put(st, p, [m EXCEPT !.e.route = <<n.code>> \o @])
                          ELSE Put(st, p, m)
      [] n.k = "ff"    -> IF m.a = "status" /\ m.e.status \in FailSet
                          THEN Put(st, p, [a |-> "cb", ci |-> m.ci, e |-> NoMsg])
                          ELSE st
      [] n.k = "copy"  -> ToKids(var, n, p, m, st, 1)
      [] n.k = "stamp" -> IF m.a = "status" /\ m.e.ts = None
                          THEN ToKids(var, n, p, [m EXCEPT !.e.ts = "NOW"], st, 1)
                          ELSE ToKids(var, n, p, m, st, 1)
      [] n.k = "tagger" -> IF m.a # "status" THEN ToKids(var, n, p, m, st, 1)
                           ELSE LET r == TagStep(var, n, m.e.ref, st.heap) IN
                                IF r.raised THEN [st EXCEPT !.raised = TRUE]
                                ELSE ToKids(var, n, p, [m EXCEPT !.e.ref = r.ref], [st EXCEPT !.heap = r.heap], 1)

-----------------------------------------------------------------------------
(* Observation written to hist: what each leaf got in this call (by value,  *)
(* as seen at the time of receipt).  Shared with the Python driver.         *)

ValOf(en) == [id |-> en.e.id, status |-> en.e.status, tags |-> en.snap, route |-> en.e.route,
              ts |-> en.e.ts, rest |-> en.e.rest]

Obs == [j \in DOMAIN LeafSeq |->
          LET p == LeafSeq[j] IN
          [p |-> p, k |-> NodeAt(tree, p).k,
           new |-> [x \in 1..(Len(logs'[p]) - Len(logs[p])) |->
                      LET en == logs'[p][Len(logs[p]) + x] IN [a |-> en.a, v |-> ValOf(en)]]]]

\* What the same call does when StreamTagger updates the incoming set in place (the "asCoded" walk, started
\* from the same caller objects): per leaf the entries with their tags on receipt and when the call is over,
\* the caller's set afterwards, and whether the call raised.  It is exported next to the required outcome so
\* that the driver can tell "the code behaves like the in-place variant" (one defect, one signature) from any
\* other deviation.  It plays no part in the state or in the invariants.
Alt(m, h0) ==
    LET st == Deliver("asCoded", tree, <<>>, m, [heap |-> h0, logs |-> [p \in LeafSet |-> <<>>], raised |-> FALSE])
    IN [raised |-> st.raised, caller |-> Deref(st.heap, m.e.ref),
        leaves |-> [j \in DOMAIN LeafSeq |->
                      [x \in DOMAIN st.logs[LeafSeq[j]] |->
                         LET en == st.logs[LeafSeq[j]][x] IN
                         [a |-> en.a, v |-> ValOf(en), endtags |-> Deref(st.heap, en.e.ref)]]]]

Log(a, e, m, h0) == hist' = IF ~Export THEN hist ELSE Append(hist, [a |-> a, e |-> e, obs |-> Obs, raised |-> calls'[Len(calls')].raised,
                                           alt |-> Alt(m, h0)])

-----------------------------------------------------------------------------
Init ==
    /\ tree \in Trees
    /\ running = FALSE /\ runs = 0 /\ nstatus = 0
    /\ calls = <<>> /\ heap = <<>> /\ hist = <<>>
    /\ logs = [p \in LeafSet |-> <<>>]

Call(a, e, h0, ref) ==
    LET m  == [a |-> a, ci |-> Len(calls) + 1, e |-> Msg(e, ref)]
        st == Deliver(Variant, tree, <<>>, m, [heap |-> h0, logs |-> logs, raised |-> FALSE])
    IN /\ heap' = st.heap /\ logs' = st.logs
       /\ calls' = Append(calls, [a |-> a, e |-> e, ref |-> ref, raised |-> st.raised])
       /\ Log(a, e, m, h0)

StartTestRun ==
    /\ ~running /\ runs < MaxRuns
    /\ running' = TRUE /\ runs' = runs + 1 /\ nstatus' = 0
    /\ Call("startTestRun", NoEvent, heap, 0)
    /\ UNCHANGED tree

\* the caller builds its argument objects (a set or frozenset of tags, or None) and calls status()
Status(e) ==
    /\ running /\ nstatus < MaxLen
    /\ nstatus' = nstatus + 1
    /\ IF e.tk = "none" THEN Call("status", e, heap, 0)
       ELSE Call("status", e, Append(heap, [v |-> e.tv, fz |-> (e.tk = "fset")]), Len(heap) + 1)
    /\ UNCHANGED <<tree, running, runs>>

StopTestRun ==
    /\ running
    /\ running' = FALSE
    /\ Call("stopTestRun", NoEvent, heap, 0)
    /\ UNCHANGED <<tree, runs, nstatus>>

Next == StartTestRun \/ StopTestRun \/ \E e \in Events : Status(e)

Spec == Init /\ [][Next]_vars

-----------------------------------------------------------------------------
(* MEANING: what the leaf at path p must receive, as a function of the      *)
(* path and of the value the caller supplied - nothing else.                *)

CallVal(e) == [id |-> e.id, status |-> e.status, tags |-> IF e.tk = "none" THEN NoTags ELSE e.tv,
               route |-> e.route, ts |-> e.ts, rest |-> e.rest]

OwnField(v, n) ==
    CASE n.k = "tagger" -> LET s == ((IF v.tags = NoTags THEN {} ELSE v.tags) \cup n.add) \ n.disc
                           IN [v EXCEPT !.tags = IF s = {} THEN NoTags ELSE s]
      [] n.k = "stamp"  -> [v EXCEPT !.ts = IF @ = None THEN "NOW" ELSE @]
      [] n.k = "queue"  -> [v EXCEPT !.route = <<n.code>> \o @]
      [] OTHER          -> v

Received(p, e) == FoldLeft(OwnField, CallVal(e), PathNodes(p))

SortedSeq(S) == SetToSortSeq(S, LAMBDA a, b : a < b)
FailCalls == {i \in DOMAIN calls : calls[i].a = "status" /\ calls[i].e.status \in FailSet}

-----------------------------------------------------------------------------
(* C11 invariants                                                           *)

\* every startTestRun / stopTestRun / status call reaches every sink and queue exactly once, in order,
\* and no call is lost to an exception; the fail-fast callback fires once per 'fail'/'uxsuccess' and
\* for nothing else
ForwardOnce ==
    /\ \A i \in DOMAIN calls : ~calls[i].raised
    /\ \A p \in LeafSet :
         IF NodeAt(tree, p).k = "ff"
         THEN /\ [j \in DOMAIN logs[p] |-> logs[p][j].ci] = SortedSeq(FailCalls)
              /\ \A j \in DOMAIN logs[p] : logs[p][j].a = "cb"
         ELSE /\ Len(logs[p]) = Len(calls)
              /\ \A i \in DOMAIN calls : logs[p][i].ci = i /\ logs[p][i].a = calls[i].a

\* what a leaf received differs from what the caller supplied only in the fields owned by the
\* decorators on its path
OnlyOwnField ==
    \A p \in LeafSet : \A j \in DOMAIN logs[p] :
        logs[p][j].a = "status" => ValOf(logs[p][j]) = Received(p, calls[logs[p][j].ci].e)

\* nothing a leaf has been given changes afterwards (no aliasing with a sibling that mutates it);
\* together with OnlyOwnField (Received depends on the path only) this is independence of siblings
Independent ==
    \A p \in LeafSet : \A j \in DOMAIN logs[p] :
        logs[p][j].snap = Deref(heap, logs[p][j].e.ref)

\* the caller's argument objects are never mutated
CallerUntouched ==
    \A i \in DOMAIN calls : calls[i].ref # 0 =>
        heap[calls[i].ref] = [v |-> calls[i].e.tv, fz |-> (calls[i].e.tk = "fset")]

-----------------------------------------------------------------------------
(* Export of behaviours for replay into the real decorators                 *)
Terminal == ~running /\ runs = MaxRuns
ExportC == Terminal => PrintT(<<"EXPORT", ToJson([tree |-> tree, hist |-> hist])>>)
ViewNoHist == <<tree, running, runs, nstatus, calls, heap, logs>>
=============================================================================
