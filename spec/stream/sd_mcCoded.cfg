SPECIFICATION Spec
CONSTANTS
  Trees <- TreesB
  Events <- EventsB
  MaxLen = 2
  MaxRuns = 1
  Export = FALSE
  Variant = "asCoded"
VIEW ViewNoHist
INVARIANT ForwardOnce
INVARIANT OnlyOwnField
INVARIANT Independent
INVARIANT CallerUntouched
CHECK_DEADLOCK FALSE
