SPECIFICATION Spec
CONSTANTS
  Trees <- TreesF
  Events <- EventsM
  MaxLen = 1
  MaxRuns = 1
  Export = FALSE
  Variant = "asRequired"
VIEW ViewNoHist
INVARIANT ForwardOnce
INVARIANT OnlyOwnField
INVARIANT Independent
INVARIANT CallerUntouched
CHECK_DEADLOCK FALSE
