------------------------------ MODULE MCRouter ------------------------------
(* Model-checking instances of Router: rule and event alphabets.            *)
EXTENDS Router

PR(key, sink, consume, dss) == [kind |-> "prefix", key |-> key, sink |-> sink, consume |-> consume, dss |-> dss]
IR(key, sink, dss) == [kind |-> "id", key |-> key, sink |-> sink, consume |-> FALSE, dss |-> dss]
E(via, route, id, rest) == [via |-> via, route |-> route, id |-> id, rest |-> rest]

\* routing: rules without start/stop registration; 2 prefixes, ids t1 / None, 2 sinks
RulesRoute == {PR(k, s, c, FALSE) : k \in {"a", "b"}, s \in {"s1", "s2"}, c \in BOOLEAN}
              \cup {IR(k, s, FALSE) : k \in {"t1", None}, s \in {"s1", "s2"}}

\* start/stop: one consuming prefix rule key, one plain prefix key, one id key; do_start_stop_run on and off
RulesSS == {PR("a", s, TRUE, d) : s \in {"s1", "s2"}, d \in BOOLEAN}
           \cup {PR("b", s, FALSE, d) : s \in {"s1", "s2"}, d \in BOOLEAN}
           \cup {IR("t1", s, d) : s \in {"s1", "s2"}, d \in BOOLEAN}

\* a small mixed alphabet for free interleavings of add_rule, status and start/stop
RulesMix == {PR("a", "s1", TRUE, FALSE), PR("a", "s2", FALSE, TRUE), PR("b", "s2", TRUE, TRUE),
             IR("t1", "s1", FALSE), IR("t1", "s3", TRUE), IR(None, "s2", FALSE)}

\* re-entrant add_rule (a sink adds a rule from inside its own startTestRun / stopTestRun): three rules that register
\* their sink for start/stop (two of them the same sink: only one can be added), one that does not
RulesRe == {PR("a", "s1", TRUE, TRUE), PR("b", "s2", FALSE, TRUE), IR("t1", "s2", TRUE), IR(None, "s3", FALSE)}

\* rejected add_rule calls: every reason x two sinks x do_start_stop_run on / off
BR(why, sink, dss) == [why |-> why, sink |-> sink, dss |-> dss]
BadAll == {BR(w, s, d) : w \in {"slash", "unknown-policy", "bad-keyword"}, s \in {"s1", "s2"}, d \in BOOLEAN}
BadNone == {}
\* valid rules to combine with rejected calls (same sink retried, other sink, with / without start-stop)
RulesRej == {PR("a", "s1", TRUE, TRUE), PR("a", "s1", FALSE, FALSE), PR("b", "s2", FALSE, TRUE), IR("t1", "s1", TRUE)}
EventsRej == {E(<<>>, <<"a", "x">>, "t1", "plain")}
\* for the exported instance: one sink, every reason, do_start_stop_run on / off
BadOne == {BR(w, "s1", d) : w \in {"slash", "unknown-policy", "bad-keyword"}, d \in BOOLEAN}

\* everything: 2 prefixes x 3 sinks x consume x dss + 3 ids (incl. None) x 3 sinks x dss
RulesAll == {PR(k, s, c, d) : k \in {"a", "b"}, s \in {"s1", "s2", "s3"}, c \in BOOLEAN, d \in BOOLEAN}
            \cup {IR(k, s, d) : k \in {"t1", "t2", None}, s \in {"s1", "s2", "s3"}, d \in BOOLEAN}

\* route codes of 0..4 segments: rule prefixes first, in the middle, repeated; "x" never has a rule
RoutesA == { <<>>, <<"a">>, <<"b">>, <<"x">>, <<"a", "x">>, <<"a", "a">>, <<"b", "a">>, <<"x", "a">>,
             <<"a", "b", "x">>, <<"a", "a", "b", "x">>, <<"x", "b", "a", "a">> }
\* direct events: every route x ids t1 (rule possible), t3 (never a rule), None
EventsDirect == {E(<<>>, r, i, "plain") : r \in RoutesA, i \in {"t1", "t3", None}}
                \cup {E(<<>>, r, "t1", "file") : r \in { <<>>, <<"a", "x">> }}
\* events that come through one or two StreamToQueue stages (total route code <= 4 segments)
EventsVia == {E(v, r, i, "file") : v \in { <<"a">>, <<"x">>, <<"a", "b">>, <<"b", "a">>, <<"a", "a">> },
                                    r \in { <<>>, <<"a">>, <<"b", "x">> }, i \in {"t1"}}
EventsA == EventsDirect \cup EventsVia

\* small alphabets for longer behaviours
EventsS == {E(<<>>, <<>>, "t1", "plain"), E(<<>>, <<"a", "x">>, None, "plain"), E(<<"a">>, <<"x">>, "t3", "file"),
            E(<<"b">>, <<>>, "t1", "plain")}
EventsB == {E(<<>>, r, i, "plain") : r \in { <<>>, <<"a">>, <<"b", "a">>, <<"x">> }, i \in {"t1", "t3", None}}
           \cup {E(v, r, "t1", "file") : v \in { <<"a">>, <<"a", "b">> }, r \in { <<>>, <<"a", "x">> }}
=============================================================================
