SPECIFICATION Spec
CONSTANTS
  Trees <- TreesQ
  Events <- EventsB
  MaxLen = 2
  MaxRuns = 1
  Export = FALSE
  Variant = "asRequired"
VIEW ViewNoHist
INVARIANT ForwardOnce
INVARIANT OnlyOwnField
INVARIANT Independent
INVARIANT CallerUntouched
CHECK_DEADLOCK FALSE
