------------------------------- MODULE Router -------------------------------
(***************************************************************************)
(* StreamResultRouter (testtools.testresult.real:496-617) with an optional *)
(* front end of StreamToQueue(code) stages (real.py:1878-1957) whose       *)
(* dequeued events are handed to the router       -- property C18          *)
(*                                                                         *)
(* The MECHANISM is the code: two dictionaries (route-code prefix -> sink, *)
(* consume flag; test id -> sink), a fallback, the list of sinks that get  *)
(* startTestRun/stopTestRun, the _in_run flag; status() looks up the first *)
(* route segment, then the test id, then the fallback.                     *)
(*                                                                         *)
(* The MEANING (property C18) is written over the history of calls only:   *)
(* which rules had been added before a status call decides its one         *)
(* destination; which sinks had been registered for start/stop, and        *)
(* whether a run was in progress, decides who sees startTestRun and        *)
(* stopTestRun.  The invariants relate the sink logs to that history.      *)
(***************************************************************************)
EXTENDS Naturals, Sequences, FiniteSets, TLC, Json, SequencesExt

CONSTANTS
    Sinks,       \* sinks that rules may name (strings)
    Fallbacks,   \* configurations of the fallback: subset of {"fb", "none"}
    FbStartStop, \* values explored for the router's own do_start_stop_run argument (subset of BOOLEAN)
    Rules,       \* alphabet of add_rule calls: [kind, key, sink, consume, dss]
    Events,      \* alphabet of status events: [via, route, id, rest]
    BadRules,    \* alphabet of add_rule calls that must be REJECTED: [why, sink, dss], why \in
                 \*   "slash" (route_prefix with a "/": TypeError), "unknown-policy" (ValueError),
                 \*   "bad-keyword" (misspelt policy argument: TypeError)
    MaxRules, MaxStatus, MaxRuns, MaxRejected,
    MaxReent,    \* 0: startTestRun / stopTestRun are one atomic action each (the instances of rounds 1-7);
                 \* > 0: they are modelled at the grain of the code - a loop over the LIVE _sinks list
                 \*      (BeginStart / StartSink / EndStart, BeginStop / StopSink / EndStop) - and a sink that has just
                 \*      been given startTestRun / stopTestRun may re-entrantly call add_rule (ReAdd), at most MaxReent times
    RulesInRun,  \* FALSE: this instance adds rules only outside a run (keeps routing-only instances small)
    Export,      \* TRUE: keep the action log `hist`
    Variant      \* "snapshot" (the start / stop loops run over a copy of _sinks taken when the loop begins) |
                 \* "asRequired" | "asCoded" (add_rule in a run starts the sink whatever do_start_stop_run says)
                 \* | "registerFirst" (add_rule registers / starts the sink before the policy validates the rule)

None == "none"
NoRule == [kind |-> None, key |-> None, sink |-> None, consume |-> FALSE, dss |-> FALSE]
NoEvent == [via |-> <<>>, route |-> <<>>, id |-> None, rest |-> None]
AllSinks == Sinks \cup {"fb"}

VARIABLES
    fallback,    \* "fb" or None (configuration, chosen in Init)
    fbss,        \* the router's do_start_stop_run argument (configuration)
    prefixRules, \* function: first route segment -> [sink, consume]        (_route_code_prefixes)
    idRules,     \* function: test id (or None) -> sink                      (_test_ids)
    startStop,   \* set of sinks that get startTestRun / stopTestRun         (_sinks)
    inRun,       \* _in_run
    runs, nrules, nstatus, nrej,
    sinkList,    \* _sinks as the list it is (order of registration); startStop is its range
    phase,       \* "idle" | "starting" | "stopping": inside the router's own startTestRun / stopTestRun loop
    pos,         \* number of list entries the running loop has visited
    lim,         \* Variant "snapshot" only: length of the list when the loop began
    nre,         \* re-entrant add_rule calls so far
    done,        \* history: number of runs whose stopTestRun has returned
    regAt,       \* history: sink -> value of `done` when it was registered for start/stop
    calls,       \* history: [a, r, e, raised]                               (for the meaning)
    logs,        \* sink -> Seq of [a, ci, route, id, rest]
    hist

loopVars == <<sinkList, phase, pos, lim, nre>>
vars == <<fallback, fbss, prefixRules, idRules, startStop, inRun, runs, nrules, nstatus, nrej, calls, logs, hist,
          sinkList, phase, pos, lim, nre, done, regAt>>

-----------------------------------------------------------------------------
\* StreamToQueue.route_code: push a code in front of the route code
Push(c, route) == <<c>> \o route
\* the event as it leaves the front-end chain: via[1] is applied first (innermost), via[Len] last
Full(e) == FoldLeft(LAMBDA r, c : Push(c, r), e.route, e.via)

Entry(a, route, id, rest) == [a |-> a, ci |-> Len(calls) + 1, route |-> route, id |-> id, rest |-> rest]
Give(lg, S, a) == [s \in AllSinks |-> IF s \in S THEN Append(lg[s], Entry(a, <<>>, None, None)) ELSE lg[s]]

Obs == [s \in AllSinks |-> SubSeq(logs'[s], Len(logs[s]) + 1, Len(logs'[s]))]
\* info: for a status call, how the spec chose the destination (exported for the driver's diagnosis only)
NoInfo == [by |-> None, consume |-> FALSE, pp |-> FALSE]
Log(a, r, e, raised, info) ==
    /\ calls' = Append(calls, [a |-> a, r |-> r, e |-> e, raised |-> raised])
    /\ hist' = IF ~Export THEN hist
               ELSE Append(hist, [a |-> a, r |-> r, e |-> e, new |-> Obs, raised |-> raised, info |-> info,
                                  inrun |-> inRun])

-----------------------------------------------------------------------------
Init ==
    /\ fallback \in Fallbacks
    /\ fbss \in FbStartStop
    /\ (fallback = None => fbss)          \* without a fallback the argument has no effect: one representative
    /\ prefixRules = <<>> /\ idRules = <<>>
    /\ startStop = IF fbss /\ fallback # None THEN {fallback} ELSE {}
    /\ sinkList = IF fbss /\ fallback # None THEN <<fallback>> ELSE <<>>
    /\ phase = "idle" /\ pos = 0 /\ lim = 0 /\ nre = 0 /\ done = 0
    /\ regAt = [s \in AllSinks |-> 0]
    /\ inRun = FALSE /\ runs = 0 /\ nrules = 0 /\ nstatus = 0 /\ nrej = 0
    /\ calls = <<>> /\ hist = <<>>
    /\ logs = [s \in AllSinks |-> <<>>]

\* add_rule(sink, policy, do_start_stop_run, **policy_args)   (real.py:578-617)
\* the body of add_rule, shared by the top-level call (AddRule) and the re-entrant one (ReAdd)
DoAddRule(r) ==
    /\ IF r.kind = "prefix" THEN r.key \notin DOMAIN prefixRules ELSE r.key \notin DOMAIN idRules
                                                     \* two rules for one key are ambiguous (undefined by the docs)
    /\ r.dss => r.sink \notin startStop              \* a sink is registered for start/stop at most once
    /\ IF r.kind = "prefix"
       THEN /\ prefixRules' = [k \in DOMAIN prefixRules \cup {r.key} |->
                                 IF k = r.key THEN [sink |-> r.sink, consume |-> r.consume] ELSE prefixRules[k]]
            /\ UNCHANGED idRules
       ELSE /\ idRules' = [k \in DOMAIN idRules \cup {r.key} |-> IF k = r.key THEN r.sink ELSE idRules[k]]
            /\ UNCHANGED prefixRules
    /\ startStop' = IF r.dss THEN startStop \cup {r.sink} ELSE startStop
    /\ sinkList' = IF r.dss THEN Append(sinkList, r.sink) ELSE sinkList
    /\ regAt' = IF r.dss THEN [regAt EXCEPT ![r.sink] = done] ELSE regAt
    /\ logs' = IF inRun /\ (r.dss \/ Variant = "asCoded")
               THEN Give(logs, {r.sink}, "startTestRun") ELSE logs

AddRule(r) ==
    /\ phase = "idle"
    /\ nrules < MaxRules
    /\ inRun \/ runs < MaxRuns                       \* nothing observable after the last run
    /\ RulesInRun \/ ~inRun
    /\ DoAddRule(r)
    /\ nrules' = nrules + 1
    /\ Log("addRule", r, NoEvent, FALSE, NoInfo)
    /\ UNCHANGED <<fallback, fbss, inRun, runs, nstatus, nrej, phase, pos, lim, nre, done>>

\* a sink that the running loop has just given startTestRun / stopTestRun calls router.add_rule(...) from inside
\* that method.  The code: during the start loop _in_run is still False (the new sink is NOT started by add_rule;
\* the loop over the live list reaches it), during the stop loop _in_run is still True (add_rule starts it at
\* once; the loop over the live list then stops it).
ReAdd(r) ==
    /\ phase # "idle" /\ pos >= 1
    /\ nre < MaxReent
    /\ DoAddRule(r)
    /\ nre' = nre + 1
    /\ Log("reAdd", r, NoEvent, FALSE, NoInfo)
    /\ UNCHANGED <<fallback, fbss, inRun, runs, nrules, nstatus, nrej, phase, pos, lim, done>>

\* add_rule(...) with arguments the router must reject: the call raises (unknown policy: ValueError before
\* anything else; "/" in route_prefix or a misspelt policy keyword: TypeError from the policy method) and NOTHING
\* else happens - no rule, no start/stop registration, no startTestRun.  A later valid add_rule for the same sink
\* is an ordinary AddRule.  (Variant "registerFirst": the sink is registered / started before the policy method
\* gets to validate, real.py add_rule with the two statements swapped.)
AddRuleRejected(b) ==
    /\ phase = "idle"
    /\ nrej < MaxRejected
    /\ inRun \/ runs < MaxRuns
    /\ nrej' = nrej + 1
    /\ LET early == Variant = "registerFirst" /\ b.dss /\ b.why # "unknown-policy" IN
       /\ startStop' = IF early THEN startStop \cup {b.sink} ELSE startStop
       /\ sinkList' = IF early THEN Append(sinkList, b.sink) ELSE sinkList
       /\ regAt' = IF early THEN [regAt EXCEPT ![b.sink] = done] ELSE regAt
       /\ logs' = IF early /\ inRun THEN Give(logs, {b.sink}, "startTestRun") ELSE logs
    /\ Log("addRuleRejected", [kind |-> b.why, key |-> None, sink |-> b.sink, consume |-> FALSE, dss |-> b.dss],
           NoEvent, TRUE, NoInfo)
    /\ UNCHANGED <<fallback, fbss, prefixRules, idRules, inRun, runs, nrules, nstatus, phase, pos, lim, nre, done>>

StartTestRun ==
    /\ MaxReent = 0
    /\ ~inRun /\ runs < MaxRuns
    /\ inRun' = TRUE /\ runs' = runs + 1
    /\ logs' = Give(logs, startStop, "startTestRun")
    /\ Log("startTestRun", NoRule, NoEvent, FALSE, NoInfo)
    /\ UNCHANGED <<fallback, fbss, prefixRules, idRules, startStop, nrules, nstatus, nrej, loopVars, done, regAt>>

StopTestRun ==
    /\ MaxReent = 0
    /\ inRun
    /\ inRun' = FALSE /\ done' = done + 1
    /\ logs' = Give(logs, startStop, "stopTestRun")
    /\ Log("stopTestRun", NoRule, NoEvent, FALSE, NoInfo)
    /\ UNCHANGED <<fallback, fbss, prefixRules, idRules, startStop, runs, nrules, nstatus, nrej, loopVars, regAt>>

\* ---- startTestRun / stopTestRun at the grain of the code (real.py:547-557): `for sink in self._sinks:` over the
\* live list (a Python list iterator re-reads the length at every step, so entries appended meanwhile are visited),
\* then the _in_run assignment.
SinkOnly(s) == [NoRule EXCEPT !.sink = s]
LoopEnd == IF Variant = "snapshot" THEN lim ELSE Len(sinkList)
LoopKeep == <<fallback, fbss, prefixRules, idRules, startStop, sinkList, nrules, nstatus, nrej, nre, regAt>>

BeginStart ==
    /\ MaxReent > 0 /\ phase = "idle"
    /\ ~inRun /\ runs < MaxRuns
    /\ phase' = "starting" /\ pos' = 0 /\ lim' = Len(sinkList) /\ runs' = runs + 1
    /\ logs' = logs
    /\ Log("beginStart", NoRule, NoEvent, FALSE, NoInfo)
    /\ UNCHANGED <<LoopKeep, inRun, done>>

StartSink ==
    /\ phase = "starting" /\ pos < LoopEnd
    /\ pos' = pos + 1
    /\ logs' = Give(logs, {sinkList[pos + 1]}, "startTestRun")
    /\ Log("startSink", SinkOnly(sinkList[pos + 1]), NoEvent, FALSE, NoInfo)
    /\ UNCHANGED <<LoopKeep, inRun, runs, phase, lim, done>>

EndStart ==
    /\ phase = "starting" /\ pos = LoopEnd
    /\ phase' = "idle" /\ inRun' = TRUE
    /\ logs' = logs
    /\ Log("endStart", NoRule, NoEvent, FALSE, NoInfo)
    /\ UNCHANGED <<LoopKeep, runs, pos, lim, done>>

BeginStop ==
    /\ MaxReent > 0 /\ phase = "idle"
    /\ inRun
    /\ phase' = "stopping" /\ pos' = 0 /\ lim' = Len(sinkList)
    /\ logs' = logs
    /\ Log("beginStop", NoRule, NoEvent, FALSE, NoInfo)
    /\ UNCHANGED <<LoopKeep, inRun, runs, done>>

StopSink ==
    /\ phase = "stopping" /\ pos < LoopEnd
    /\ pos' = pos + 1
    /\ logs' = Give(logs, {sinkList[pos + 1]}, "stopTestRun")
    /\ Log("stopSink", SinkOnly(sinkList[pos + 1]), NoEvent, FALSE, NoInfo)
    /\ UNCHANGED <<LoopKeep, inRun, runs, phase, lim, done>>

EndStop ==
    /\ phase = "stopping" /\ pos = LoopEnd
    /\ phase' = "idle" /\ inRun' = FALSE /\ done' = done + 1
    /\ logs' = logs
    /\ Log("endStop", NoRule, NoEvent, FALSE, NoInfo)
    /\ UNCHANGED <<LoopKeep, runs, pos, lim>>

\* status(**kwargs)   (real.py:558-576), fed with the event that left the StreamToQueue chain e.via
Status(e) ==
    /\ phase = "idle"
    /\ inRun /\ nstatus < MaxStatus
    /\ nstatus' = nstatus + 1
    /\ LET route  == Full(e)
           byPfx  == route # <<>> /\ Head(route) \in DOMAIN prefixRules
           target == IF byPfx THEN prefixRules[Head(route)].sink
                     ELSE IF e.id \in DOMAIN idRules THEN idRules[e.id]
                     ELSE fallback
           cons   == byPfx /\ prefixRules[Head(route)].consume
           out    == IF cons THEN Tail(route) ELSE route
           info   == [by |-> IF byPfx THEN "prefix" ELSE IF e.id \in DOMAIN idRules THEN "id"
                             ELSE IF fallback # None THEN "fallback" ELSE None,
                      consume |-> cons, pp |-> cons /\ e.via # <<>>]
       IN IF target = None
          THEN /\ logs' = logs                       \* None.status(...): AttributeError, nothing delivered
               /\ Log("status", NoRule, e, TRUE, info)
          ELSE /\ logs' = [logs EXCEPT ![target] = Append(@, Entry("status", out, e.id, e.rest))]
               /\ Log("status", NoRule, e, FALSE, info)
    /\ UNCHANGED <<fallback, fbss, prefixRules, idRules, startStop, inRun, runs, nrules, nrej, loopVars, done, regAt>>

Next == StartTestRun \/ StopTestRun \/ (\E r \in Rules : AddRule(r)) \/ (\E e \in Events : Status(e))
        \/ (\E b \in BadRules : AddRuleRejected(b))
        \/ BeginStart \/ StartSink \/ EndStart \/ BeginStop \/ StopSink \/ EndStop \/ (\E r \in Rules : ReAdd(r))

Spec == Init /\ [][Next]_vars

-----------------------------------------------------------------------------
(* MEANING, from the history of calls                                       *)

RulesBefore(i) == {calls[j].r : j \in {k \in 1..(i - 1) : calls[k].a = "addRule"}}
PrefixRule(i, seg) == {r \in RulesBefore(i) : r.kind = "prefix" /\ r.key = seg}
IdRule(i, id) == {r \in RulesBefore(i) : r.kind = "id" /\ r.key = id}
TheOne(S) == CHOOSE x \in S : TRUE

\* the one destination of status call i and the route code it must arrive with
Dest(i) ==
    LET e == calls[i].e  route == Full(e) IN
    IF route # <<>> /\ PrefixRule(i, Head(route)) # {}
    THEN LET r == TheOne(PrefixRule(i, Head(route))) IN
         [sink |-> r.sink, route |-> IF r.consume THEN Tail(route) ELSE route]
    ELSE IF IdRule(i, e.id) # {} THEN [sink |-> TheOne(IdRule(i, e.id)).sink, route |-> route]
    ELSE [sink |-> fallback, route |-> route]

Deliveries(i) == {<<s, j>> \in AllSinks \X (1..Len(calls)) : j \in DOMAIN logs[s] /\ logs[s][j].ci = i
                                                              /\ logs[s][j].a = "status"}

StatusCalls == {i \in DOMAIN calls : calls[i].a = "status"}

\* every status event goes to exactly one sink - first-segment rule, else test-id rule, else fallback
\* (raising when there is none) - with every other field unchanged; a consuming rule strips exactly
\* the leading segment
OneDestination ==
    \A i \in StatusCalls :
        LET d == Dest(i) IN
        IF d.sink = None THEN calls[i].raised /\ Deliveries(i) = {}
        ELSE /\ ~calls[i].raised
             /\ Cardinality(Deliveries(i)) = 1
             /\ \A sj \in Deliveries(i) :
                   /\ sj[1] = d.sink
                   /\ logs[sj[1]][sj[2]].route = d.route
                   /\ logs[sj[1]][sj[2]].id = calls[i].e.id
                   /\ logs[sj[1]][sj[2]].rest = calls[i].e.rest

\* push (StreamToQueue(c)) then pop (a consuming rule for c) is the identity on the route code:
\* the event arrives with the route code it had before the last StreamToQueue stage
PushPopInverse ==
    \A i \in StatusCalls :
        LET e == calls[i].e IN
        (e.via # <<>> /\ \E r \in PrefixRule(i, e.via[Len(e.via)]) : r.consume) =>
            \A sj \in Deliveries(i) :
                logs[sj[1]][sj[2]].route = Full([e EXCEPT !.via = SubSeq(e.via, 1, Len(e.via) - 1)])

\* startTestRun/stopTestRun reach exactly the sinks registered for them, once per run, immediately for
\* a rule added (with do_start_stop_run) while a run is in progress
RegBefore(i) == (IF fbss /\ fallback # None THEN {fallback} ELSE {})
                \cup {r.sink : r \in {x \in RulesBefore(i) : x.dss}}
InRunBefore(i) ==
    LET ss == {j \in 1..(i - 1) : calls[j].a \in {"startTestRun", "stopTestRun"}} IN
    ss # {} /\ calls[CHOOSE j \in ss : \A k \in ss : k <= j].a = "startTestRun"
\* the calls after which sink s must have been given startTestRun / stopTestRun
StartsDue(s) == {i \in DOMAIN calls :
                   \/ calls[i].a = "startTestRun" /\ s \in RegBefore(i)
                   \/ calls[i].a = "addRule" /\ calls[i].r.sink = s /\ calls[i].r.dss /\ InRunBefore(i)}
StopsDue(s) == {i \in DOMAIN calls : calls[i].a = "stopTestRun" /\ s \in RegBefore(i)}
SortedSeq(S) == SetToSortSeq(S, LAMBDA a, b : a < b)
Seen(s, a) == LET q == SelectSeq(logs[s], LAMBDA en : en.a = a) IN [j \in DOMAIN q |-> q[j].ci]

StartStopExact ==
    \A s \in AllSinks :
        /\ Seen(s, "startTestRun") = SortedSeq(StartsDue(s))
        /\ Seen(s, "stopTestRun") = SortedSeq(StopsDue(s))
        /\ ~inRun => Len(Seen(s, "startTestRun")) = Len(Seen(s, "stopTestRun"))

\* The same clause at the grain of the loops, written over what each sink RECEIVED (its log) and the two history
\* counters only: a sink registered for start/stop sees startTestRun, stopTestRun, startTestRun, ... strictly
\* alternating, beginning with a start (never a stop without a start before it, never two starts in a row); whenever
\* the router is outside its own startTestRun / stopTestRun it has seen one start (and, out of a run, one stop) for
\* every run that had not yet finished stopping when it was registered - "once per run", with the start caught up
\* for a sink registered while the run is under way; a sink never registered sees neither.
SS(s) == LET q == SelectSeq(logs[s], LAMBDA en : en.a \in {"startTestRun", "stopTestRun"}) IN [j \in DOMAIN q |-> q[j].a]
StartStopBalanced ==
    \A s \in AllSinks :
        LET ev == SS(s) IN
        /\ s \notin startStop => ev = <<>>
        /\ \A j \in DOMAIN ev : ev[j] = IF j % 2 = 1 THEN "startTestRun" ELSE "stopTestRun"
        /\ (s \in startStop /\ phase = "idle") =>
               Len(ev) = 2 * (done - regAt[s]) + (IF inRun THEN 1 ELSE 0)

-----------------------------------------------------------------------------
Terminal == ~inRun /\ runs = MaxRuns /\ phase = "idle"
ExportC == Terminal => PrintT(<<"EXPORT", ToJson([fallback |-> fallback, fbss |-> fbss, hist |-> hist])>>)
ViewNoHist == <<fallback, fbss, prefixRules, idRules, startStop, inRun, runs, nrules, nstatus, nrej, calls, logs,
                sinkList, phase, pos, lim, nre, done, regAt>>
=============================================================================
