------------------------------- MODULE Router -------------------------------
(***************************************************************************)
(* StreamResultRouter (testtools.testresult.real:496-617) with an optional *)
(* front end of StreamToQueue(code) stages (real.py:1878-1957) whose       *)
(* dequeued events are handed to the router       -- property C18          *)
(*                                                                         *)
(* The MECHANISM is the code: two dictionaries (route-code prefix -> sink, *)
(* consume flag; test id -> sink), a fallback, the list of sinks that get  *)
(* startTestRun/stopTestRun, the _in_run flag; status() looks up the first *)
(* route segment, then the test id, then the fallback.                     *)
(*                                                                         *)
(* The MEANING (property C18) is written over the history of calls only:   *)
(* which rules had been added before a status call decides its one         *)
(* destination; which sinks had been registered for start/stop, and        *)
(* whether a run was in progress, decides who sees startTestRun and        *)
(* stopTestRun.  The invariants relate the sink logs to that history.      *)
(***************************************************************************)
EXTENDS Naturals, Sequences, FiniteSets, TLC, Json, SequencesExt

CONSTANTS
    Sinks,       \* sinks that rules may name (strings)
    Fallbacks,   \* configurations of the fallback: subset of {"fb", "none"}
    FbStartStop, \* values explored for the router's own do_start_stop_run argument (subset of BOOLEAN)
    Rules,       \* alphabet of add_rule calls: [kind, key, sink, consume, dss]
    Events,      \* alphabet of status events: [via, route, id, rest]
    BadRules,    \* alphabet of add_rule calls that must be REJECTED: [why, sink, dss], why \in
                 \*   "slash" (route_prefix with a "/": TypeError), "unknown-policy" (ValueError),
                 \*   "bad-keyword" (misspelt policy argument: TypeError)
    MaxRules, MaxStatus, MaxRuns, MaxRejected,
    RulesInRun,  \* FALSE: this instance adds rules only outside a run (keeps routing-only instances small)
    Export,      \* TRUE: keep the action log `hist`
    Variant      \* "asRequired" | "asCoded" (add_rule in a run starts the sink whatever do_start_stop_run says)
                 \* | "registerFirst" (add_rule registers / starts the sink before the policy validates the rule)

None == "none"
NoRule == [kind |-> None, key |-> None, sink |-> None, consume |-> FALSE, dss |-> FALSE]
NoEvent == [via |-> <<>>, route |-> <<>>, id |-> None, rest |-> None]
AllSinks == Sinks \cup {"fb"}

VARIABLES
    fallback,    \* "fb" or None (configuration, chosen in Init)
    fbss,        \* the router's do_start_stop_run argument (configuration)
    prefixRules, \* function: first route segment -> [sink, consume]        (_route_code_prefixes)
    idRules,     \* function: test id (or None) -> sink                      (_test_ids)
    startStop,   \* set of sinks that get startTestRun / stopTestRun         (_sinks)
    inRun,       \* _in_run
    runs, nrules, nstatus, nrej,
    calls,       \* history: [a, r, e, raised]                               (for the meaning)
    logs,        \* sink -> Seq of [a, ci, route, id, rest]
    hist

vars == <<fallback, fbss, prefixRules, idRules, startStop, inRun, runs, nrules, nstatus, nrej, calls, logs, hist>>

-----------------------------------------------------------------------------
\* StreamToQueue.route_code: push a code in front of the route code
Push(c, route) == <<c>> \o route
\* the event as it leaves the front-end chain: via[1] is applied first (innermost), via[Len] last
Full(e) == FoldLeft(LAMBDA r, c : Push(c, r), e.route, e.via)

Entry(a, route, id, rest) == [a |-> a, ci |-> Len(calls) + 1, route |-> route, id |-> id, rest |-> rest]
Give(lg, S, a) == [s \in AllSinks |-> IF s \in S THEN Append(lg[s], Entry(a, <<>>, None, None)) ELSE lg[s]]

Obs == [s \in AllSinks |-> SubSeq(logs'[s], Len(logs[s]) + 1, Len(logs'[s]))]
\* info: for a status call, how the spec chose the destination (exported for the driver's diagnosis only)
NoInfo == [by |-> None, consume |-> FALSE, pp |-> FALSE]
Log(a, r, e, raised, info) ==
    /\ calls' = Append(calls, [a |-> a, r |-> r, e |-> e, raised |-> raised])
    /\ hist' = IF ~Export THEN hist
               ELSE Append(hist, [a |-> a, r |-> r, e |-> e, new |-> Obs, raised |-> raised, info |-> info,
                                  inrun |-> inRun])

-----------------------------------------------------------------------------
Init ==
    /\ fallback \in Fallbacks
    /\ fbss \in FbStartStop
    /\ (fallback = None => fbss)          \* without a fallback the argument has no effect: one representative
    /\ prefixRules = <<>> /\ idRules = <<>>
    /\ startStop = IF fbss /\ fallback # None THEN {fallback} ELSE {}
    /\ inRun = FALSE /\ runs = 0 /\ nrules = 0 /\ nstatus = 0 /\ nrej = 0
    /\ calls = <<>> /\ hist = <<>>
    /\ logs = [s \in AllSinks |-> <<>>]

\* add_rule(sink, policy, do_start_stop_run, **policy_args)   (real.py:578-617)
AddRule(r) ==
    /\ nrules < MaxRules
    /\ inRun \/ runs < MaxRuns                       \* nothing observable after the last run
    /\ RulesInRun \/ ~inRun
    /\ IF r.kind = "prefix" THEN r.key \notin DOMAIN prefixRules ELSE r.key \notin DOMAIN idRules
                                                     \* two rules for one key are ambiguous (undefined by the docs)
    /\ r.dss => r.sink \notin startStop              \* a sink is registered for start/stop at most once
    /\ nrules' = nrules + 1
    /\ IF r.kind = "prefix"
       THEN /\ prefixRules' = [k \in DOMAIN prefixRules \cup {r.key} |->
                                 IF k = r.key THEN [sink |-> r.sink, consume |-> r.consume] ELSE prefixRules[k]]
            /\ UNCHANGED idRules
       ELSE /\ idRules' = [k \in DOMAIN idRules \cup {r.key} |-> IF k = r.key THEN r.sink ELSE idRules[k]]
            /\ UNCHANGED prefixRules
    /\ startStop' = IF r.dss THEN startStop \cup {r.sink} ELSE startStop
    /\ logs' = IF inRun /\ (r.dss \/ Variant = "asCoded")
               THEN Give(logs, {r.sink}, "startTestRun") ELSE logs
    /\ Log("addRule", r, NoEvent, FALSE, NoInfo)
    /\ UNCHANGED <<fallback, fbss, inRun, runs, nstatus, nrej>>

\* add_rule(...) with arguments the router must reject: the call raises (unknown policy: ValueError before
\* anything else; "/" in route_prefix or a misspelt policy keyword: TypeError from the policy method) and NOTHING
\* else happens - no rule, no start/stop registration, no startTestRun.  A later valid add_rule for the same sink
\* is an ordinary AddRule.  (Variant "registerFirst": the sink is registered / started before the policy method
\* gets to validate, real.py add_rule with the two statements swapped.)
AddRuleRejected(b) ==
    /\ nrej < MaxRejected
    /\ inRun \/ runs < MaxRuns
    /\ nrej' = nrej + 1
    /\ LET early == Variant = "registerFirst" /\ b.dss /\ b.why # "unknown-policy" IN
       /\ startStop' = IF early THEN startStop \cup {b.sink} ELSE startStop
       /\ logs' = IF early /\ inRun THEN Give(logs, {b.sink}, "startTestRun") ELSE logs
    /\ Log("addRuleRejected", [kind |-> b.why, key |-> None, sink |-> b.sink, consume |-> FALSE, dss |-> b.dss],
           NoEvent, TRUE, NoInfo)
    /\ UNCHANGED <<fallback, fbss, prefixRules, idRules, inRun, runs, nrules, nstatus>>

StartTestRun ==
    /\ ~inRun /\ runs < MaxRuns
    /\ inRun' = TRUE /\ runs' = runs + 1
    /\ logs' = Give(logs, startStop, "startTestRun")
    /\ Log("startTestRun", NoRule, NoEvent, FALSE, NoInfo)
    /\ UNCHANGED <<fallback, fbss, prefixRules, idRules, startStop, nrules, nstatus, nrej>>

StopTestRun ==
    /\ inRun
    /\ inRun' = FALSE
    /\ logs' = Give(logs, startStop, "stopTestRun")
    /\ Log("stopTestRun", NoRule, NoEvent, FALSE, NoInfo)
    /\ UNCHANGED <<fallback, fbss, prefixRules, idRules, startStop, runs, nrules, nstatus, nrej>>

\* status(**kwargs)   (real.py:558-576), fed with the event that left the StreamToQueue chain e.via
Status(e) ==
    /\ inRun /\ nstatus < MaxStatus
    /\ nstatus' = nstatus + 1
    /\ LET route  == Full(e)
           byPfx  == route # <<>> /\ Head(route) \in DOMAIN prefixRules
           target == IF byPfx THEN prefixRules[Head(route)].sink
                     ELSE IF e.id \in DOMAIN idRules THEN idRules[e.id]
                     ELSE fallback
           cons   == byPfx /\ prefixRules[Head(route)].consume
           out    == IF cons THEN Tail(route) ELSE route
           info   == [by |-> IF byPfx THEN "prefix" ELSE IF e.id \in DOMAIN idRules THEN "id"
                             ELSE IF fallback # None THEN "fallback" ELSE None,
                      consume |-> cons, pp |-> cons /\ e.via # <<>>]
       IN IF target = None
          THEN /\ logs' = logs                       \* None.status(...): AttributeError, nothing delivered
               /\ Log("status", NoRule, e, TRUE, info)
          ELSE /\ logs' = [logs EXCEPT ![target] = Append(@, Entry("status", out, e.id, e.rest))]
               /\ Log("status", NoRule, e, FALSE, info)
    /\ UNCHANGED <<fallback, fbss, prefixRules, idRules, startStop, inRun, runs, nrules, nrej>>

Next == StartTestRun \/ StopTestRun \/ (\E r \in Rules : AddRule(r)) \/ (\E e \in Events : Status(e))
        \/ (\E b \in BadRules : AddRuleRejected(b))

Spec == Init /\ [][Next]_vars

-----------------------------------------------------------------------------
(* MEANING, from the history of calls                                       *)

RulesBefore(i) == {calls[j].r : j \in {k \in 1..(i - 1) : calls[k].a = "addRule"}}
PrefixRule(i, seg) == {r \in RulesBefore(i) : r.kind = "prefix" /\ r.key = seg}
IdRule(i, id) == {r \in RulesBefore(i) : r.kind = "id" /\ r.key = id}
TheOne(S) == CHOOSE x \in S : TRUE

\* the one destination of status call i and the route code it must arrive with
Dest(i) ==
    LET e == calls[i].e  route == Full(e) IN
    IF route # <<>> /\ PrefixRule(i, Head(route)) # {}
    THEN LET r == TheOne(PrefixRule(i, Head(route))) IN
         [sink |-> r.sink, route |-> IF r.consume THEN Tail(route) ELSE route]
    ELSE IF IdRule(i, e.id) # {} THEN [sink |-> TheOne(IdRule(i, e.id)).sink, route |-> route]
    ELSE [sink |-> fallback, route |-> route]

Deliveries(i) == {<<s, j>> \in AllSinks \X (1..Len(calls)) : j \in DOMAIN logs[s] /\ logs[s][j].ci = i
                                                              /\ logs[s][j].a = "status"}

StatusCalls == {i \in DOMAIN calls : calls[i].a = "status"}

\* every status event goes to exactly one sink - first-segment rule, else test-id rule, else fallback
\* (raising when there is none) - with every other field unchanged; a consuming rule strips exactly
\* the leading segment
OneDestination ==
    \A i \in StatusCalls :
        LET d == Dest(i) IN
        IF d.sink = None THEN calls[i].raised /\ Deliveries(i) = {}
        ELSE /\ ~calls[i].raised
             /\ Cardinality(Deliveries(i)) = 1
             /\ \A sj \in Deliveries(i) :
                   /\ sj[1] = d.sink
                   /\ logs[sj[1]][sj[2]].route = d.route
                   /\ logs[sj[1]][sj[2]].id = calls[i].e.id
                   /\ logs[sj[1]][sj[2]].rest = calls[i].e.rest

\* push (StreamToQueue(c)) then pop (a consuming rule for c) is the identity on the route code:
\* the event arrives with the route code it had before the last StreamToQueue stage
PushPopInverse ==
    \A i \in StatusCalls :
        LET e == calls[i].e IN
        (e.via # <<>> /\ \E r \in PrefixRule(i, e.via[Len(e.via)]) : r.consume) =>
            \A sj \in Deliveries(i) :
                logs[sj[1]][sj[2]].route = Full([e EXCEPT !.via = SubSeq(e.via, 1, Len(e.via) - 1)])

\* startTestRun/stopTestRun reach exactly the sinks registered for them, once per run, immediately for
\* a rule added (with do_start_stop_run) while a run is in progress
RegBefore(i) == (IF fbss /\ fallback # None THEN {fallback} ELSE {})
                \cup {r.sink : r \in {x \in RulesBefore(i) : x.dss}}
InRunBefore(i) ==
    LET ss == {j \in 1..(i - 1) : calls[j].a \in {"startTestRun", "stopTestRun"}} IN
    ss # {} /\ calls[CHOOSE j \in ss : \A k \in ss : k <= j].a = "startTestRun"
\* the calls after which sink s must have been given startTestRun / stopTestRun
StartsDue(s) == {i \in DOMAIN calls :
                   \/ calls[i].a = "startTestRun" /\ s \in RegBefore(i)
                   \/ calls[i].a = "addRule" /\ calls[i].r.sink = s /\ calls[i].r.dss /\ InRunBefore(i)}
StopsDue(s) == {i \in DOMAIN calls : calls[i].a = "stopTestRun" /\ s \in RegBefore(i)}
SortedSeq(S) == SetToSortSeq(S, LAMBDA a, b : a < b)
Seen(s, a) == LET q == SelectSeq(logs[s], LAMBDA en : en.a = a) IN [j \in DOMAIN q |-> q[j].ci]

StartStopExact ==
    \A s \in AllSinks :
        /\ Seen(s, "startTestRun") = SortedSeq(StartsDue(s))
        /\ Seen(s, "stopTestRun") = SortedSeq(StopsDue(s))
        /\ ~inRun => Len(Seen(s, "startTestRun")) = Len(Seen(s, "stopTestRun"))

-----------------------------------------------------------------------------
Terminal == ~inRun /\ runs = MaxRuns
ExportC == Terminal => PrintT(<<"EXPORT", ToJson([fallback |-> fallback, fbss |-> fbss, hist |-> hist])>>)
ViewNoHist == <<fallback, fbss, prefixRules, idRules, startStop, inRun, runs, nrules, nstatus, nrej, calls, logs>>
=============================================================================
