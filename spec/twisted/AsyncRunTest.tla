---------------------------- MODULE AsyncRunTest ----------------------------
(***************************************************************************)
(* AsynchronousDeferredRunTest (twistedsupport/_runtest.py:217-463) over a *)
(* virtual-time reactor.                                                   *)
(*                                                                         *)
(* A SCENARIO (chosen in Init) says, for each unit of user code - setUp,   *)
(* the test method, tearDown and up to two cleanups registered by setUp -  *)
(* how it behaves: return / raise kind k / return a Deferred that fires or *)
(* fails after a delay / never fires, plus one optional side effect (leave *)
(* a delayed call behind, log an error to Twisted, drop a failed           *)
(* Deferred; a mismatching expectThat; log errors of two types and flush   *)
(* one type / all of them with flush_logged_errors), the runner's timeout  *)
(* T and the instant at which the reactor is asked to stop (interrupt).    *)
(*                                                                         *)
(* MECHANISM: the callback chain of _run_deferred as actions (Begin a      *)
(* unit, Advance virtual time to the next reactor event: the awaited       *)
(* Deferred, the spinner's timeout call, the interrupt), then the          *)
(* accounting of _run_core (logged errors, unhandled failures, junk).      *)
(* MEANING (C14): folds over the scenario, independent of the chain.       *)
(***************************************************************************)
EXTENDS Naturals, Sequences, FiniteSets, TLC, Json

CONSTANTS
    Delays,        \* delays a Deferred may take to fire (even numbers: no ties with T / interrupt)
    Timeouts,      \* runner timeouts explored (odd numbers)
    Interrupts,    \* interrupt instants explored (odd numbers), and NoIntr
    Faults,        \* the non-"return" behaviours explored (subset of Behaviours)
    SideChoices,   \* the [unit, what] side effects explored (besides none)
    MaxFaulty,     \* at most this many units behave other than "return"
    CleanupCounts, \* numbers of cleanups registered by setUp explored (subset of 0..2)
    Variants       \* runner variants: "plain", "broken" (ForBrokenTwisted)

None == "none"
NoIntr == 999
Never == 998
FarFuture == 500        \* delay of a delayed call that is left behind

Stages == <<"setUp", "body", "tearDown">>
CleanupIds == <<"c1", "c2">>

Beh(b, k, d) == [b |-> b, k |-> k, d |-> d]
Ret == Beh("ret", None, 0)
\* "ki": KeyboardInterrupt - not an Exception: recorded like any other, the later units still run, and the run is
\* not a success.  Raised by setUp / the test / tearDown it is recorded at once by the machinery shared with RunTest:
\* reported as an error and re-raised by run() after stopTest.  Raised by a cleanup it only counts if it is the
\* last exception of the cleanup loop (_run_cleanups keeps one): C14 does not say more, so the model records it as
\* "kic" - not a success, and it may or may not leave run().
AllKinds == {"fail", "err", "skip", "ki"}
Behaviours ==
    {Ret} \cup {Beh("raise", k, 0) : k \in AllKinds}
          \cup {Beh("dfire", None, d) : d \in Delays}
          \* an ALREADY FIRED Deferred whose callback chain is paused on an inner Deferred firing after d:
          \* `called` is true, yet the stage is not over before the inner one fires
          \cup {Beh("dpause", None, d) : d \in Delays}
          \cup {Beh("dfail", k, d) : k \in AllKinds, d \in Delays}
          \cup {Beh("never", None, Never)}
ASSUME Faults \subseteq Behaviours \ {Ret}

VARIABLES
    \* scenario
    beh,         \* unit -> behaviour
    side,        \* [unit, what]: one optional side effect, performed when `unit` starts
    ncl,         \* number of cleanups registered by setUp (c1 first, then c2)
    T,           \* the runner's timeout
    intr,        \* instant at which reactor.stop() is requested (NoIntr: never)
    variant,
    \* mechanism
    pc, now, cur, todo,      \* todo: units still to run, in order
    waitUntil,               \* completion time of the Deferred being awaited
    ran,                     \* Seq([u, at]): units started, with virtual start time
    raised,                  \* Seq(kind): exceptions collected
    failsSeen,               \* some unit raised / failed (the `fails` list of _run_deferred)
    pending,                 \* set of [at, what]: delayed calls in the reactor
    logged, unhandled,       \* errors logged to Twisted / failed Deferreds dropped, not yet accounted
    timedOut, interrupted, stopCalled,
    setupOk,
    forced,                  \* a failed expectThat set force_failure: raised when the chain ends
    rlog                     \* result events

vars == <<beh, side, ncl, T, intr, variant, pc, now, cur, todo, waitUntil, ran, raised, failsSeen, pending,
          logged, unhandled, timedOut, interrupted, stopCalled, setupOk, forced, rlog>>

AllUnits == {"setUp", "body", "tearDown", "c1", "c2"}
UnitsOf(n) == {"setUp", "body", "tearDown"} \cup {CleanupIds[i] : i \in 1..n}
CleanupOrder(n) == [i \in 1..n |-> CleanupIds[n + 1 - i]]      \* LIFO

Init ==
    /\ ncl \in CleanupCounts
    /\ \E faulty \in SUBSET UnitsOf(ncl) :
          /\ Cardinality(faulty) <= MaxFaulty
          /\ \E f \in [faulty -> Faults] :
                beh = [u \in AllUnits |-> IF u \in faulty THEN f[u] ELSE Ret]
    /\ side \in {[unit |-> None, what |-> None]} \cup {s \in SideChoices : s.unit \in UnitsOf(ncl)}
    /\ T \in Timeouts /\ intr \in Interrupts /\ variant \in Variants
    /\ pc = "idle" /\ now = 0 /\ cur = None /\ todo = <<>> /\ waitUntil = 0
    /\ ran = <<>> /\ raised = <<>> /\ failsSeen = FALSE
    /\ pending = {} /\ logged = 0 /\ unhandled = 0
    /\ timedOut = FALSE /\ interrupted = FALSE /\ stopCalled = FALSE /\ setupOk = FALSE
    /\ forced = FALSE
    /\ rlog = <<>>

Scen == <<beh, side, ncl, T, intr, variant>>

\* result.startTest; spinner.run schedules its timeout; the chain starts with setUp at t = 0
StartTest ==
    /\ pc = "idle"
    /\ rlog' = Append(rlog, "startTest")
    /\ pending' = {[at |-> T, what |-> "timeout"]} \cup (IF intr = NoIntr THEN {} ELSE {[at |-> intr, what |-> "intr"]})
    /\ todo' = <<"setUp">> /\ pc' = "next"
    /\ UNCHANGED <<Scen, now, cur, waitUntil, ran, raised, failsSeen, logged, unhandled, timedOut, interrupted,
                   stopCalled, setupOk, forced>>

\* the chain calls the next unit (only once the previous unit's Deferred has fired: Sequenced)
Begin ==
    /\ pc = "next" /\ todo # <<>>
    /\ LET u == Head(todo) IN
       /\ cur' = u
       /\ ran' = Append(ran, [u |-> u, at |-> now])
       \* "leave": a delayed call far in the future; "chain0": a call due now which, when it runs (during
       \* the run or during the spinner's post-run reactor iterations), schedules another far-future call
       /\ pending' = IF side.unit = u /\ side.what \in {"leave", "chain0"}
                     THEN pending \cup {[at |-> now + FarFuture, what |-> "junk"]} ELSE pending
       \* "logflush": errors of two types are logged and flush_logged_errors(<one type>) is called: one stays;
       \* "flushall": the same two errors, then flush_logged_errors(): none stays
       /\ logged' = IF side.unit = u /\ side.what \in {"logerr", "logflush"} THEN logged + 1 ELSE logged
       /\ forced' = (forced \/ (side.unit = u /\ side.what = "expect"))
       /\ unhandled' = IF side.unit = u /\ side.what = "drop" THEN unhandled + 1 ELSE unhandled
       /\ waitUntil' = IF beh[u].b \in {"ret", "raise"} THEN now
                       ELSE IF beh[u].b = "never" THEN Never ELSE now + beh[u].d
       /\ todo' = Tail(todo)
    /\ pc' = "wait"
    /\ UNCHANGED <<Scen, now, raised, failsSeen, timedOut, interrupted, stopCalled, setupOk, rlog>>

\* which units follow unit u, given whether it completed without exception
Follow(u, ok) ==
    IF u = "setUp" THEN (IF ok THEN <<"body", "tearDown">> ELSE <<>>) \o CleanupOrder(ncl)
    ELSE <<>>

\* the earliest reactor event among: the awaited Deferred, the timeout call, the interrupt
EarliestOther == LET S == {c.at : c \in {x \in pending : x.what \in {"timeout", "intr"}}} IN
                 IF S = {} THEN Never + 1 ELSE CHOOSE m \in S : \A x \in S : m <= x

\* the awaited Deferred fires (or the unit returned / raised synchronously): callback chain continues
Complete ==
    /\ pc = "wait" /\ waitUntil < EarliestOther
    /\ now' = waitUntil
    /\ LET u == cur
           ok == beh[u].b \in {"ret", "dfire", "dpause"} IN
       /\ raised' = IF ok THEN raised
                     ELSE Append(raised, IF beh[u].k = "ki" /\ u \in {"c1", "c2"} THEN "kic" ELSE beh[u].k)
       /\ failsSeen' = (failsSeen \/ ~ok)
       /\ setupOk' = IF u = "setUp" THEN ok ELSE setupOk
       /\ todo' = Follow(u, ok) \o todo
    /\ pc' = "next"
    /\ UNCHANGED <<Scen, cur, waitUntil, ran, pending, logged, unhandled, timedOut, interrupted, stopCalled, forced, rlog>>

\* Spinner._timed_out: TimeoutError, reactor crashed, the rest of the chain never runs
TimeoutFires ==
    /\ pc = "wait" /\ EarliestOther <= waitUntil
    /\ [at |-> EarliestOther, what |-> "timeout"] \in pending
    /\ now' = EarliestOther
    /\ timedOut' = TRUE
    /\ pending' = pending \ {[at |-> EarliestOther, what |-> "timeout"]}
    /\ raised' = Append(raised, "err")          \* _log_user_exception(TimeoutError)
    /\ pc' = "post"
    /\ UNCHANGED <<Scen, cur, todo, waitUntil, ran, failsSeen, logged, unhandled, interrupted, stopCalled, setupOk, forced, rlog>>

\* reactor.stop() requested (patched to crash): NoResultError, result.stop()
InterruptFires ==
    /\ pc = "wait" /\ EarliestOther <= waitUntil
    /\ [at |-> EarliestOther, what |-> "intr"] \in pending
    /\ now' = EarliestOther
    /\ interrupted' = TRUE /\ stopCalled' = TRUE
    /\ pending' = pending \ {[at |-> EarliestOther, what |-> "intr"]}
    /\ raised' = Append(raised, "err")          \* NoResultError through _got_user_exception
    /\ pc' = "post"
    /\ UNCHANGED <<Scen, cur, todo, waitUntil, ran, failsSeen, logged, unhandled, timedOut, setupOk, forced, rlog>>

\* the chain is exhausted: the Deferred of _run_deferred fires, the spinner cancels its timeout and stops
ChainDone ==
    /\ pc = "next" /\ todo = <<>>
    /\ pending' = {c \in pending : c.what # "timeout"}
    \* the last link of the chain: a failed expectation fails the test now that every stage is over
    /\ raised' = IF forced THEN Append(raised, "fail") ELSE raised
    /\ pc' = "post"
    /\ UNCHANGED <<Scen, now, cur, todo, waitUntil, ran, failsSeen, logged, unhandled, timedOut, interrupted,
                   stopCalled, setupOk, forced, rlog>>

\* _run_core after the spinner returned: logged errors, unhandled failures, junk left in the reactor
RECURSIVE Errs(_)
Errs(n) == IF n = 0 THEN <<>> ELSE <<"err">> \o Errs(n - 1)
Account ==
    /\ pc = "post"
    /\ raised' = raised \o Errs(logged) \o Errs(unhandled) \o (IF pending # {} THEN <<"err">> ELSE <<>>)
    /\ pending' = {} /\ logged' = 0 /\ unhandled' = 0
    /\ pc' = "report"
    /\ UNCHANGED <<Scen, now, cur, todo, waitUntil, ran, failsSeen, timedOut, interrupted, stopCalled, setupOk, forced, rlog>>

Outcomes == {"success", "failure", "error", "skip", "xfail", "uxsuccess"}
\* C14 fixes the outcome only as far as: success iff nothing went wrong; timeout / interrupt => error
HasKi(rs) == \E i \in DOMAIN rs : rs[i] = "ki"
AllowedOutcomes(rs, to, ir) ==
    IF rs = <<>> THEN {"success"}
    ELSE IF to \/ ir \/ HasKi(rs) THEN {"error"}
    ELSE Outcomes \ {"success"}

Report ==
    /\ pc = "report"
    /\ \E o \in AllowedOutcomes(raised, timedOut, interrupted) : rlog' = Append(rlog, o)
    /\ pc' = "stop"
    /\ UNCHANGED <<Scen, now, cur, todo, waitUntil, ran, raised, failsSeen, pending, logged, unhandled, timedOut,
                   interrupted, stopCalled, setupOk, forced>>

StopTest ==
    /\ pc = "stop"
    /\ rlog' = Append(rlog, "stopTest")
    /\ pc' = "done"
    /\ UNCHANGED <<Scen, now, cur, todo, waitUntil, ran, raised, failsSeen, pending, logged, unhandled, timedOut,
                   interrupted, stopCalled, setupOk, forced>>

Next == StartTest \/ Begin \/ Complete \/ TimeoutFires \/ InterruptFires \/ ChainDone \/ Account \/ Report \/ StopTest
Spec == Init /\ [][Next]_vars

-----------------------------------------------------------------------------
(* MEANING, from the scenario alone                                         *)

\* the planned order of units if nothing stopped the reactor
Plan == LET ok == beh["setUp"].b \in {"ret", "dfire", "dpause"} IN
        <<"setUp">> \o (IF ok THEN <<"body", "tearDown">> ELSE <<>>) \o CleanupOrder(ncl)
RECURSIVE StartAt(_)       \* virtual start time of the i-th planned unit
StartAt(i) == IF i = 1 THEN 0 ELSE StartAt(i - 1) + beh[Plan[i - 1]].d
EndAt(i) == IF beh[Plan[i]].b = "never" THEN Never ELSE StartAt(i) + beh[Plan[i]].d
Deadline == IF T < intr THEN T ELSE intr
\* units that actually start: those whose start time precedes the timeout / interrupt and all of whose
\* predecessors completed before it
Started == {i \in DOMAIN Plan : \A j \in 1..(i - 1) : beh[Plan[j]].b # "never" /\ EndAt(j) < Deadline}
Finished == \A i \in DOMAIN Plan : beh[Plan[i]].b # "never" /\ EndAt(i) < Deadline
CleanRun ==
    /\ Finished
    /\ \A i \in DOMAIN Plan : beh[Plan[i]].b \in {"ret", "dfire", "dpause"}
    \* "flushall" leaves nothing behind; every other side effect (incl. a failed expectation, C07) spoils the run
    /\ side.what \in {None, "flushall"} \/ side.unit \notin {Plan[i] : i \in DOMAIN Plan}
    /\ intr = NoIntr                       \* a pending stop request is itself a delayed call left behind

-----------------------------------------------------------------------------
(* C14 invariants                                                           *)
Bracket == <<"startTest", "outcome", "stopTest">>
Names == [i \in DOMAIN rlog |-> IF rlog[i] \in Outcomes THEN "outcome" ELSE rlog[i]]
OneOutcome == /\ Len(Names) <= 3 /\ \A i \in DOMAIN Names : Names[i] = Bracket[i]
              /\ pc = "done" => Names = Bracket
Sequenced == pc = "done" =>
    /\ Len(ran) = Cardinality(Started)
    /\ \A i \in DOMAIN ran : ran[i].u = Plan[i] /\ ran[i].at = StartAt(i)
SuccessIff == pc = "done" => ((rlog[2] = "success") <=> CleanRun)
TimeoutIsError == pc = "done" /\ ~Finished /\ T < intr => rlog[2] = "error" /\ timedOut
InterruptIsError == pc = "done" /\ ~Finished /\ intr < T => rlog[2] = "error" /\ stopCalled
AfterRun == pc = "done" => pending = {} /\ logged = 0 /\ unhandled = 0
\* a KeyboardInterrupt raised (or carried by the Deferred) of any unit that completed is re-raised by run()
KiUnits == {i \in DOMAIN Plan : i \in Started /\ beh[Plan[i]].k = "ki" /\ EndAt(i) < Deadline
                                 /\ Plan[i] \in {"setUp", "body", "tearDown"}}
BaseSurvives == pc = "done" => (HasKi(raised) <=> KiUnits # {}) /\ (HasKi(raised) => rlog[2] = "error")

-----------------------------------------------------------------------------
Expected == [ran |-> ran, allowed |-> AllowedOutcomes(raised, timedOut, interrupted), stop |-> stopCalled,
             prop |-> IF HasKi(raised) THEN "must" ELSE IF \E i \in DOMAIN raised : raised[i] = "kic" THEN "may" ELSE "no",
             timedOut |-> timedOut, interrupted |-> interrupted]
Scenario == [beh |-> beh, side |-> side, ncl |-> ncl, T |-> T, intr |-> intr, variant |-> variant]
\* one export per scenario: Report is the only nondeterministic action, export before it
ExportC == (pc = "report") => PrintT(<<"EXPORT", ToJson([scen |-> Scenario, exp |-> Expected])>>)
=============================================================================
