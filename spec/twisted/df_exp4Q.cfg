SPECIFICATION Spec
CONSTANTS
  Values <- ValuesQ4
  Excs <- ExcsF
  CbKinds <- CbF
  SuccInner <- SuccQ4
  FailInner <- FailQ4
  WithNoResult = TRUE
  WithExtract = TRUE
  MaxPause = 0
  MaxChain = 0
  InnerValues <- NoInner
  InnerExcs <- NoInner
  MaxLen = 4
CONSTRAINT ExportC
INVARIANT Trichotomy
INVARIANT InnerApplied
INVARIANT ExtractRight
INVARIANT CapsTransparent
INVARIANT HandledIffNotErr
PROPERTY NeverFires
PROPERTY Preserved
PROPERTY HandledAfter
CHECK_DEADLOCK FALSE
