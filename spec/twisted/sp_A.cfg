SPECIFICATION Spec
CONSTANTS
  Scen1 <- ScenA
  ScenBusy <- ScenC
  Scen2 <- JustNo
  ClearChoices = {FALSE}
  Installs = {TRUE}
  ResetsResult = TRUE
  RunBound = TRUE
  LateIgnored = TRUE
CONSTRAINT ExportC
INVARIANT ResultRight
INVARIANT Guards
INVARIANT ReactorClean
INVARIANT Restored
INVARIANT SecondRun
INVARIANT NeverStuck
INVARIANT SpinnerIdle
CHECK_DEADLOCK FALSE
