------------------------------ MODULE SyncRun ------------------------------
(***************************************************************************)
(* Last clause of C20: SynchronousDeferredRunTest reports a test whose     *)
(* units (setUp, test method, tearDown, a cleanup) return already-fired    *)
(* Deferreds as if they had returned or raised directly.                   *)
(*                                                                         *)
(* A row (chosen in Init) says what each unit does.  `Direct` is           *)
(* RunTest._run_user (try: return fn() / except: handler); `Sync` is       *)
(* SynchronousDeferredRunTest._run_user (_runtest.py:77-81):               *)
(* maybeDeferred(fn), addErrback(_got_user_failure), extract_result - over *)
(* the Deferred states of DeferredM.  The stage logic around the units     *)
(* (RunTest._run_core) is the same code for both runners, so the clause is *)
(* the unit-level equivalence lifted through it (Equivalent).  TLC prints  *)
(* one table row per initial state: the units and, where exactly one unit  *)
(* faults, the outcome the documented handler table gives.                 *)
(***************************************************************************)
EXTENDS Naturals, Sequences, FiniteSets, TLC, Json

CONSTANTS MaxFaults   \* rows with at most this many faulting units

Where == <<"setUp", "test", "tearDown", "cleanup">>
\* what a unit raises / its fired Deferred failed with.  _run_user treats every kind alike (no exception type is
\* special to it) - in particular the exception types the runners themselves use:
\*   fail = failureException, err = another Exception, skip = SkipTest,
\*   dnf = testtools' own DeferredNotFired (e.g. the test called extract_result() on a Deferred nobody fired),
\*   dnfsub = a subclass of it, spin = the Spinner's TimeoutError, nores = its NoResultError,
\*   xfail = _ExpectedFailure, uxs = _UnexpectedSuccess, multi = MultipleExceptions(err, fail),
\*   ki = KeyboardInterrupt, exit = SystemExit,
\*   first_fail / first_skip / first_err = twisted's FirstError (what gatherResults / DeferredList(fireOnOneErrback)
\*   fail with) wrapping a failureException / SkipTest / another Exception: an ordinary error, NOT its inner exception
Core    == {"fail", "err", "skip", "dnf"}            \* combined pairwise
Special == {"dnfsub", "spin", "nores", "xfail", "uxs", "multi", "ki", "exit",
            "first_fail", "first_skip", "first_err"}                             \* one at a time
Faults == Core \cup Special
Beh   == {"ret", "retv"} \cup Faults                 \* return None / a value, or fault

VARIABLES row,   \* 1..4 -> Beh
          via,   \* under the sync runner the units return fired Deferreds ("deferred") or behave plainly ("plain")
          pc, effD, effS, hist
vars == <<row, via, pc, effD, effS, hist>>

NFaults(r) == Cardinality({i \in 1..4 : r[i] \in Faults})

Init == /\ row \in {r \in [1..4 -> Beh] : /\ NFaults(r) <= MaxFaults /\ r[1] # "retv" /\ r[3] # "retv" /\ r[4] # "retv"
                                          /\ (NFaults(r) > 1 => \A i \in 1..4 : r[i] \in Faults => r[i] \in Core)}
        /\ via \in {"deferred", "plain"}
        /\ pc = "start" /\ effD = <<>> /\ effS = <<>> /\ hist = <<>>

\* RunTest._run_user: the unit's effect as RunTest sees it
DirectUnit(b) == IF b \in Faults THEN <<"caught", b>> ELSE <<"returned", b>>

\* SynchronousDeferredRunTest._run_user
MaybeDeferred(b) == IF b \in Faults THEN [fired |-> "err", val |-> <<"exc", b>>]
                    ELSE [fired |-> "ok", val |-> <<"returned", b>>]
   \* fn returned defer.succeed/defer.fail, or returned/raised plainly: the same fired Deferred either way
Errback(dd)  == IF dd.fired = "err" THEN [fired |-> "ok", val |-> <<"caught", dd.val[2]>>] ELSE dd   \* _got_user_failure
ExtractR(dd) == IF dd.fired = "ok" THEN dd.val ELSE <<"raised", dd.val[2]>>
SyncUnit(b) == ExtractR(Errback(MaybeDeferred(b)))

\* RunTest._run_core: setUp; the test method and tearDown only when setUp did not fault; cleanups always
Ran(r) == IF r[1] \in Faults THEN <<1, 4>> ELSE <<1, 2, 3, 4>>

Direct == /\ pc = "start" /\ pc' = "direct"
          /\ effD' = [i \in 1..Len(Ran(row)) |-> DirectUnit(row[Ran(row)[i]])]
          /\ UNCHANGED <<row, via, effS, hist>>
Sync   == /\ pc = "direct" /\ pc' = "done"
          /\ effS' = [i \in 1..Len(Ran(row)) |-> SyncUnit(row[Ran(row)[i]])]
          /\ hist' = <<[row |-> [i \in 1..4 |-> [w |-> Where[i], b |-> row[i]]], via |-> via,
                        expect |-> LET fs == {i \in 1..Len(Ran(row)) : row[Ran(row)[i]] \in Faults} IN
                                   IF fs = {} THEN "addSuccess"
                                   ELSE IF Cardinality(fs) > 1 THEN "same-as-direct"
                                   ELSE LET k == row[Ran(row)[CHOOSE i \in fs : TRUE]] IN
                                        CASE k = "fail" -> "addFailure" [] k = "skip" -> "addSkip"
                                          [] k \in {"err", "dnf", "dnfsub", "spin", "nores", "first_fail", "first_skip", "first_err"} -> "addError"
                                          [] k = "xfail" -> "addExpectedFailure" [] k = "uxs" -> "addUnexpectedSuccess"
                                          [] OTHER -> "same-as-direct"]>>
          /\ UNCHANGED <<row, via, effD>>
Next == Direct \/ Sync
Spec == Init /\ [][Next]_vars

Equivalent == pc = "done" => effS = effD
ExportC == pc = "done" => PrintT(<<"EXPORT", ToJson(hist)>>)
=============================================================================
