------------------------------ MODULE Spinner ------------------------------
(***************************************************************************)
(* testtools.twistedsupport._spinner.Spinner on a virtual-time reactor     *)
(* (property C15).                                                         *)
(*                                                                         *)
(* MECHANISM: the code of Spinner.run (_spinner.py:275-329) as one action  *)
(* per statement group - Enter (not_reentrant + stale junk guard),         *)
(* SaveSignals, ScheduleTimeout, PatchStop, Start (reactor.run), RunFunction*)
(* (callWhenRunning -> maybeDeferred(f) + callbacks), Tick / FireNext (the  *)
(* reactor advances to the earliest delayed call and fires everything due   *)
(* at that instant in insertion order, exactly like task.Clock.advance and  *)
(* ReactorBase.runUntilCurrent), LoopExit, Exit (the `finally`: restore     *)
(* stop and signals), GetResult, Clean, ClearJunk - over the reactor state  *)
(* (clock, delayed calls, running, readers, stop attribute, signal table)   *)
(* and the Spinner fields (_success, _failure, _spinning, _junk,            *)
(* _timeout_call, _saved_signals, the not_reentrant flag).                  *)
(*                                                                         *)
(* MEANING: written independently from the scenario alone (operator         *)
(* Allowed): which of "f's own result", "timeout", "stop request" comes     *)
(* first in time decides the outcome class; at exact ties either neighbour  *)
(* is allowed.  The invariants relate the two whenever run() has returned.  *)
(*                                                                         *)
(* A scenario (one or two run() calls on one Spinner) is chosen in Init;    *)
(* everything after that is deterministic, so every initial state is one    *)
(* behaviour.  `hist` collects one record per run() call for the replay     *)
(* against the real Spinner.                                                *)
(***************************************************************************)
EXTENDS Naturals, Sequences, FiniteSets, TLC, Json

CONSTANTS
    Scen1,         \* scenarios of the first run() call (set of records, see MCSpinner)
    ScenBusy,      \* further single-run scenarios (the busy-reactor ones; kept apart from Scen1 because TLC
                   \* builds the union of two large sets of records in quadratic time)
    Scen2,         \* scenarios of a second run() on the same Spinner; {NoScen} = single run
    ClearChoices,  \* subset of BOOLEAN: is clear_junk() called between the two runs
    Installs,      \* subset of BOOLEAN: does reactor.run() install its own signal handlers
    ResetsResult,  \* TRUE = "asRequired": run() starts from unset result fields;
                   \* FALSE = the code before 52cf306: _success/_failure survive from the previous run
    RunBound,      \* TRUE = "asRequired": the callbacks run() puts on f's Deferred belong to that run() call - when the
                   \* Deferred of an EARLIER run fires during a later run of the same Spinner nothing happens;
                   \* FALSE = "asCoded": they act on whatever run is in progress (its result becomes that run's)
    LateIgnored    \* TRUE = "asRequired": once the run is over (timed out or reactor stopped) nothing that
                   \* still fires in the same reactor iteration changes its result;
                   \* FALSE = "asCoded": a stop request does not end the run for _got_success /
                   \* _got_failure / _timed_out, which still record what arrives later in the batch

NoStop == 99       \* stopAt value meaning "no stop request"; also plays infinity
MaxAt  == 8

\* scenario fields:
\*   k      what f does: "ret" (returns v) "raise" (raises v) "dnowok"/"dnowerr" (returns an already
\*          fired Deferred) "dfire"/"dfail" (returns a Deferred that fires / fails d units later)
\*          "never" (returns a Deferred that never fires)
\*   d, v   delay and (symbolic) value / exception
\*   T      the timeout passed to run()
\*   extra  set of delays of further no-op delayed calls f leaves in the reactor
\*   sel    number of selectables f registers (0..1)
\*   stopAt delay after which somebody calls reactor.stop() (NoStop: nobody does)
\*   reenter  f calls spinner.run() itself (and records what that raised)
\*   busyAt, busyDt  a slow callback: a delayed call due busyAt after the start that keeps the reactor thread
\*          busy for busyDt time units (NoStop: none), so that everything due meanwhile is fired back to back,
\*          in time order, in ONE reactor iteration - also what is due after the call that crashed the reactor
\*   early  reactor.stop() is called by a startup trigger registered on the reactor BEFORE run() was called: it
\*          runs when the reactor starts, strictly before run()'s own trigger that calls f
\*   fireOld  (second run) f also fires, after this delay, the Deferred that the FIRST run's f returned and
\*          that is still pending (NoStop: does not)
\*   newSp  (second run) the run is made with a NEW Spinner on the same reactor
NoScen == [k |-> "none", d |-> 0, v |-> "-", T |-> 0, extra |-> {}, sel |-> 0, stopAt |-> NoStop, reenter |-> FALSE,
           busyAt |-> NoStop, busyDt |-> 0, early |-> FALSE, fireOld |-> NoStop, newSp |-> FALSE]

Sig == {"INT", "TERM", "CHLD"}

R(c, v)  == [cls |-> c, val |-> v]
UnsetR   == R("unset", "-")
TimeoutR == R("TimeoutError", "-")
NoResR   == R("NoResultError", "-")
StaleR   == R("StaleJunkError", "-")
ReentryR == R("ReentryError", "-")

VARIABLES
    scn,        \* <<s1>> or <<s1, s2>>                                  (scenario, constant)
    clr,        \* clear_junk() between the runs                          (scenario, constant)
    inst,       \* reactor.run() installs its own signal handlers         (scenario, constant)
    run,        \* index of the current run() call
    pc,         \* control point inside / between run() calls
    now,        \* reactor clock
    calls,      \* pending delayed calls, insertion order: [run, lab, at, what]
    batch,      \* calls due at `now` that the reactor is firing right now
    running,    \* reactor.running
    readers,    \* registered selectables: set of <<run, "sel">>
    stopIs,     \* what reactor.stop is: "orig" or "fake" (Spinner._fake_stop)
    sigs,       \* Sig -> "orig" (what was installed before) or "reactor"
    success,    \* Spinner._success   (UnsetR or a result record)
    failure,    \* Spinner._failure
    spinning,   \* Spinner._spinning
    junk,       \* Spinner._junk: set of <<run, lab>>
    toCall,     \* state of Spinner._timeout_call: "none","pending","called","cancelled"
    inRun,      \* the not_reentrant flag of Spinner.run
    saved,      \* Spinner._saved_signals and the local real_stop: [sigs, stop] or NoSaved
    out,        \* what _get_result produced for the current run
    inner,      \* what the re-entrant call from inside f raised ("-" if f made none)
    fired,      \* labels of the delayed calls fired during the current run
    left,       \* history: what was pending in the reactor when reactor.run() came back
    oldD,       \* the Deferred an earlier run's f returned: "none" or "pending" (never fired; it still carries the
                \* callbacks that run() put on it) or "fired"
    oldSpin,    \* _spinning of the Spinner object used before, when the current run uses a new one
    entry,      \* history: per run, [junk0, sigs0, stop0] when run() was called
    hist        \* history: per finished run() call, the observation record (see Obs); exported

vars == <<scn, clr, inst, run, pc, now, calls, batch, running, readers, stopIs, sigs, success, failure,
          spinning, junk, toCall, inRun, saved, out, inner, fired, left, oldD, oldSpin, entry, hist>>

NoSaved == [sigs |-> [s \in Sig |-> "none"], stop |-> "none"]

Min(S) == CHOOSE x \in S : \A y \in S : x <= y
Cur == scn[run]

-----------------------------------------------------------------------------
(* MEANING: the outcome classes the property allows for a scenario: decided    *)
(* by which of "f's result", "timeout", "stop request" is due FIRST, whatever  *)
(* else the reactor fires later in the same iteration (busy reactor)           *)

FnTime(s) == CASE s.k \in {"ret", "raise", "dnowok", "dnowerr"} -> 0
               [] s.k \in {"dfire", "dfail"} -> s.d
               [] OTHER -> NoStop
FnOut(s) == IF s.k \in {"ret", "dnowok", "dfire"} THEN R("value", s.v) ELSE R("exception", s.v)
First(s) == Min({FnTime(s), s.T, s.stopAt})
AllowedRun(s) ==
    IF s.early THEN {NoResR} ELSE    \* stopped before f was even called: strictly first, not a tie
    {FnOut(s) : x \in IF FnTime(s) = First(s) THEN {1} ELSE {}}
    \cup {TimeoutR : x \in IF s.T = First(s) THEN {1} ELSE {}}
    \cup {NoResR : x \in IF s.stopAt = First(s) /\ s.stopAt # NoStop THEN {1} ELSE {}}
Allowed(s, junk0) == IF junk0 # {} THEN {StaleR} ELSE AllowedRun(s)

-----------------------------------------------------------------------------
Init ==
    /\ \/ \E s1 \in Scen1, s2 \in Scen2 : scn = IF s2 = NoScen THEN <<s1>> ELSE <<s1, s2>>
       \/ \E s1 \in ScenBusy : scn = <<s1>>
    /\ clr \in (IF Len(scn) = 1 THEN {FALSE} ELSE ClearChoices)
    /\ inst \in Installs
    /\ run = 1 /\ pc = "idle" /\ now = 0 /\ calls = <<>> /\ batch = <<>>
    /\ running = FALSE /\ readers = {} /\ stopIs = "orig" /\ sigs = [s \in Sig |-> "orig"]
    /\ success = UnsetR /\ failure = UnsetR /\ spinning = FALSE /\ junk = {} /\ toCall = "none"
    /\ inRun = FALSE /\ saved = NoSaved /\ out = UnsetR /\ inner = "-" /\ fired = {} /\ left = {}
    /\ oldD = "none" /\ oldSpin = FALSE
    /\ entry = <<>> /\ hist = <<>>

\* the two guards at the top of run(): the not_reentrant decorator, then the stale junk test
Guard(flag, j) == IF flag THEN "ReentryError" ELSE IF j # {} THEN "StaleJunkError" ELSE "enter"

\* the observation record of a finished run() call
Obs(o, junk0, lft, jnk, inn, frd) ==
    [run |-> run, s |-> Cur, clr |-> (run = 2 /\ clr), inst |-> inst,
     out |-> o, allowed |-> Allowed(Cur, junk0), allowedRun |-> AllowedRun(Cur), inner |-> inn,
     left |-> lft, fired |-> frd, junk |-> jnk]

Enter ==
    /\ pc = "idle"
    /\ entry' = Append(entry, [junk0 |-> junk, sigs0 |-> sigs, stop0 |-> stopIs])
    /\ LET g == Guard(inRun, junk) IN
       IF g = "enter"
       THEN /\ inRun' = TRUE /\ pc' = "entered"
            /\ success' = IF ResetsResult THEN UnsetR ELSE success
            /\ failure' = IF ResetsResult THEN UnsetR ELSE failure
            /\ out' = UnsetR /\ inner' = "-" /\ fired' = {} /\ left' = {}
            /\ UNCHANGED hist
       ELSE /\ pc' = "returned"      \* raised before touching anything
            /\ out' = R(g, "-") /\ inner' = "-" /\ fired' = {} /\ left' = {}
            /\ hist' = Append(hist, Obs(R(g, "-"), junk, {}, junk, "-", {}))
            /\ UNCHANGED <<inRun, success, failure>>
    /\ UNCHANGED <<oldD, oldSpin, scn, clr, inst, run, now, calls, batch, running, readers, stopIs, sigs, spinning, junk,
                   toCall, saved>>

SaveSignals ==
    /\ pc = "entered" /\ pc' = "saved"
    /\ saved' = [saved EXCEPT !.sigs = sigs]
    /\ UNCHANGED <<oldD, oldSpin, scn, clr, inst, run, now, calls, batch, running, readers, stopIs, sigs, success, failure,
                   spinning, junk, toCall, inRun, out, inner, fired, left, entry, hist>>

ScheduleTimeout ==
    /\ pc = "saved" /\ pc' = "scheduled"
    /\ calls' = Append(calls, [run |-> run, lab |-> "timeout", at |-> now + Cur.T, what |-> "timeout"])
    /\ toCall' = "pending"
    /\ UNCHANGED <<oldD, oldSpin, scn, clr, inst, run, now, batch, running, readers, stopIs, sigs, success, failure,
                   spinning, junk, inRun, saved, out, inner, fired, left, entry, hist>>

PatchStop ==
    /\ pc = "scheduled" /\ pc' = "patched"
    /\ saved' = [saved EXCEPT !.stop = stopIs]
    /\ stopIs' = "fake"
    /\ UNCHANGED <<oldD, oldSpin, scn, clr, inst, run, now, calls, batch, running, readers, sigs, success, failure,
                   spinning, junk, toCall, inRun, out, inner, fired, left, entry, hist>>

\* callWhenRunning(run_function); _spinning = True; reactor.run() starts (and installs its handlers)
Start ==
    /\ pc = "patched" /\ pc' = IF Cur.early THEN "trigger" ELSE "starting"
    /\ spinning' = TRUE /\ running' = TRUE
    /\ sigs' = IF inst THEN [s \in Sig |-> "reactor"] ELSE sigs
    /\ UNCHANGED <<oldD, oldSpin, scn, clr, inst, run, now, calls, batch, readers, stopIs, success, failure,
                   junk, toCall, inRun, saved, out, inner, fired, left, entry, hist>>

\* a startup trigger registered before run(): reactor.stop() - the patched one, i.e. _fake_stop
EarlyStop ==
    /\ pc = "trigger" /\ pc' = "starting"
    /\ running' = FALSE
    /\ spinning' = IF LateIgnored THEN FALSE ELSE spinning
    /\ UNCHANGED <<oldD, oldSpin, scn, clr, inst, run, now, calls, batch, readers, stopIs, sigs, success, failure,
                   junk, toCall, inRun, saved, out, inner, fired, left, entry, hist>>

DropTimeout(q) == SelectSeq(q, LAMBDA c : c.lab # "timeout")

\* run_function: f runs (leaves its extra calls, selectables, the stop request, tries to re-enter),
\* maybeDeferred + addCallbacks(_got_success, _got_failure) + addBoth(_stop_reactor)
RunFunction ==
    /\ pc = "starting" /\ pc' = "spin"
    /\ LET s  == Cur
           xs == SelectSeq([i \in 1..MaxAt |-> i], LAMBDA i : i \in s.extra)
           c1 == calls \o [i \in 1..Len(xs) |-> [run |-> run, lab |-> "x" \o ToString(xs[i]),
                                                  at |-> now + xs[i], what |-> "noop"]]
           c1b == IF s.busyAt = NoStop THEN c1
                  ELSE Append(c1, [run |-> run, lab |-> "busy", at |-> now + s.busyAt, what |-> "busy"])
           c2 == IF s.stopAt = NoStop THEN c1b
                 ELSE Append(c1b, [run |-> run, lab |-> "stop", at |-> now + s.stopAt, what |-> "stop"])
           c2o == IF s.fireOld # NoStop /\ oldD = "pending"
                  THEN Append(c2, [run |-> run, lab |-> "fireold", at |-> now + s.fireOld, what |-> "old"]) ELSE c2
           sync == s.k \in {"ret", "raise", "dnowok", "dnowerr"}
           over == LateIgnored /\ ~spinning      \* the run was stopped before f was called: its result is ignored
           can  == toCall = "pending" /\ ~over
       IN /\ readers' = readers \cup {<<run, "sel">> : x \in 1..s.sel}
          /\ inner' = IF s.reenter THEN (LET g == Guard(inRun, junk) IN IF g = "enter" THEN "entered" ELSE g)
                      ELSE "-"
          /\ IF sync
             THEN \* the Deferred has a result at once: _got_success/_got_failure cancel the timeout and
                  \* store it, _stop_reactor crashes the reactor
                  /\ toCall' = IF can THEN "cancelled" ELSE toCall
                  /\ calls' = IF can THEN DropTimeout(c2o) ELSE c2o
                  /\ success' = IF can /\ FnOut(s).cls = "value" THEN FnOut(s) ELSE success
                  /\ failure' = IF can /\ FnOut(s).cls = "exception" THEN FnOut(s) ELSE failure
                  /\ running' = IF spinning THEN FALSE ELSE running
                  /\ spinning' = FALSE
             ELSE /\ calls' = IF s.k = "never" THEN c2o
                              ELSE Append(c2o, [run |-> run, lab |-> "fire", at |-> now + s.d,
                                               what |-> IF s.k = "dfire" THEN "ok" ELSE "err"])
                  /\ UNCHANGED <<toCall, success, failure, running, spinning>>
    /\ UNCHANGED <<oldD, oldSpin, scn, clr, inst, run, now, batch, stopIs, sigs, junk, inRun, saved, out, fired, left,
                   entry, hist>>

\* the reactor sleeps until the earliest delayed call and collects everything due at that instant
Tick ==
    /\ pc = "spin" /\ batch = <<>> /\ running /\ calls # <<>>
    /\ LET t == Min({calls[i].at : i \in DOMAIN calls}) IN
       /\ now' = t
       /\ batch' = SelectSeq(calls, LAMBDA c : c.at = t)
       /\ calls' = SelectSeq(calls, LAMBDA c : c.at # t)
    /\ UNCHANGED <<oldD, oldSpin, scn, clr, inst, run, pc, running, readers, stopIs, sigs, success, failure, spinning, junk,
                   toCall, inRun, saved, out, inner, fired, left, entry, hist>>

\* calls of q due in lo..hi, in firing order (time, then insertion)
RECURSIVE DueIn(_, _, _)
DueIn(q, lo, hi) == IF lo > hi THEN <<>> ELSE SelectSeq(q, LAMBDA c : c.at = lo) \o DueIn(q, lo + 1, hi)

\* fire the next due call (also after a crash: everything due in the same iteration still fires)
FireNext ==
    /\ pc = "spin" /\ batch # <<>>
    /\ LET c == Head(batch)
           rest == Tail(batch)
           over == LateIgnored /\ ~spinning      \* asRequired: the run is over, late events are ignored
       IN /\ fired' = fired \cup {c.lab}
          /\ CASE c.what = "timeout" ->       \* _timed_out
                    /\ failure' = IF over THEN failure ELSE TimeoutR
                    /\ toCall' = "called"
                    /\ running' = IF spinning THEN FALSE ELSE running
                    /\ spinning' = FALSE
                    /\ batch' = rest
                    /\ UNCHANGED <<calls, success, now>>
               [] c.what \in {"ok", "err"} -> \* the Deferred fires: _got_success/_got_failure, _stop_reactor
                    LET can == toCall = "pending" /\ ~over IN  \* else cancel() raises inside the callback / ignored
                    /\ toCall' = IF can THEN "cancelled" ELSE toCall
                    /\ success' = IF can /\ c.what = "ok" THEN FnOut(Cur) ELSE success
                    /\ failure' = IF can /\ c.what = "err" THEN FnOut(Cur) ELSE failure
                    /\ calls' = IF can THEN DropTimeout(calls) ELSE calls
                    /\ batch' = IF can THEN DropTimeout(rest) ELSE rest
                    /\ running' = IF spinning THEN FALSE ELSE running
                    /\ spinning' = FALSE
                    /\ UNCHANGED now
               [] c.what = "stop" ->          \* reactor.stop(): the patched one crashes the reactor
                    /\ running' = FALSE
                    /\ spinning' = IF LateIgnored THEN FALSE ELSE spinning
                    /\ batch' = rest
                    /\ UNCHANGED <<calls, success, failure, toCall, now>>
               [] c.what = "old" ->           \* the Deferred of the previous run fires: the callbacks put on it then
                    IF Cur.newSp
                    THEN \* ... belong to the previous Spinner object: its _stop_reactor crashes only if it still spins
                         /\ running' = IF oldSpin THEN FALSE ELSE running
                         /\ batch' = rest
                         /\ UNCHANGED <<calls, success, failure, spinning, toCall, now>>
                    ELSE IF RunBound
                    THEN /\ batch' = rest
                         /\ UNCHANGED <<calls, success, failure, spinning, toCall, running, now>>
                    ELSE LET can == toCall = "pending" /\ ~over IN   \* asCoded: taken for this run's result
                         /\ toCall' = IF can THEN "cancelled" ELSE toCall
                         /\ success' = IF can THEN R("value", "vold") ELSE success
                         /\ calls' = IF can THEN DropTimeout(calls) ELSE calls
                         /\ batch' = IF can THEN DropTimeout(rest) ELSE rest
                         /\ running' = IF spinning THEN FALSE ELSE running
                         /\ spinning' = FALSE
                         /\ UNCHANGED <<failure, now>>
               [] c.what = "busy" ->          \* a slow callback: time passes, more calls fall due in this iteration
                    /\ now' = now + Cur.busyDt
                    /\ batch' = rest \o DueIn(calls, now + 1, now + Cur.busyDt)
                    /\ calls' = SelectSeq(calls, LAMBDA x : x.at > now + Cur.busyDt)
                    /\ UNCHANGED <<success, failure, spinning, toCall, running>>
               [] OTHER ->
                    /\ batch' = rest
                    /\ UNCHANGED <<calls, success, failure, spinning, toCall, running, now>>
    /\ oldD' = IF Head(batch).what = "old" THEN "fired" ELSE oldD
    /\ oldSpin' = IF Head(batch).what = "old" THEN FALSE ELSE oldSpin
    /\ UNCHANGED <<scn, clr, inst, run, pc, readers, stopIs, sigs, junk, inRun, saved, out, inner, left,
                   entry, hist>>

\* reactor.run() returns
LoopExit ==
    /\ pc = "spin" /\ batch = <<>> /\ ~running
    /\ pc' = "ranout"
    /\ left' = {<<calls[i].run, calls[i].lab>> : i \in DOMAIN calls} \cup readers
    /\ UNCHANGED <<oldD, oldSpin, scn, clr, inst, run, now, calls, batch, running, readers, stopIs, sigs, success, failure,
                   spinning, junk, toCall, inRun, saved, out, inner, fired, entry, hist>>

\* nothing left to fire and nobody stopped the reactor: a real reactor would block for ever
Hang ==
    /\ pc = "spin" /\ batch = <<>> /\ running /\ calls = <<>>
    /\ pc' = "stuck"
    /\ UNCHANGED <<oldD, oldSpin, scn, clr, inst, run, now, calls, batch, running, readers, stopIs, sigs, success, failure,
                   spinning, junk, toCall, inRun, saved, out, inner, fired, left, entry, hist>>

\* finally: reactor.stop = real_stop; _restore_signals()
Exit ==
    /\ pc = "ranout" /\ pc' = "exited"
    /\ stopIs' = saved.stop
    /\ sigs' = saved.sigs
    /\ saved' = NoSaved
    /\ UNCHANGED <<oldD, oldSpin, scn, clr, inst, run, now, calls, batch, running, readers, success, failure,
                   spinning, junk, toCall, inRun, out, inner, fired, left, entry, hist>>

GetResult ==
    /\ pc = "exited" /\ pc' = "gotresult"
    /\ out' = IF failure # UnsetR THEN failure ELSE IF success # UnsetR THEN success ELSE NoResR
    /\ UNCHANGED <<oldD, oldSpin, scn, clr, inst, run, now, calls, batch, running, readers, stopIs, sigs, success, failure,
                   spinning, junk, toCall, inRun, saved, inner, fired, left, entry, hist>>

\* finally: _clean() - cancel every delayed call, removeAll(), remember them as junk; then the
\* not_reentrant decorator clears its flag
Clean ==
    /\ pc = "gotresult" /\ pc' = "returned"
    /\ LET j == junk \cup {<<calls[i].run, calls[i].lab>> : i \in DOMAIN calls} \cup readers IN
       /\ junk' = j
       /\ hist' = Append(hist, Obs(out, entry[run].junk0, left, j, inner, fired))
    /\ calls' = <<>> /\ readers' = {}
    /\ inRun' = FALSE
    /\ UNCHANGED <<oldD, oldSpin, scn, clr, inst, run, now, batch, running, stopIs, sigs, success, failure,
                   spinning, toCall, saved, out, inner, fired, left, entry>>

ClearJunk ==
    /\ pc = "returned" /\ run < Len(scn) /\ clr
    /\ pc' = "between"
    /\ junk' = {}
    /\ UNCHANGED <<oldD, oldSpin, scn, clr, inst, run, now, calls, batch, running, readers, stopIs, sigs, success, failure,
                   spinning, toCall, inRun, saved, out, inner, fired, left, entry, hist>>

\* between the runs; a new Spinner object starts from its constructor's state (the not_reentrant flag and the
\* reactor are shared)
NextRun ==
    /\ run < Len(scn)
    /\ (pc = "between" \/ (pc = "returned" /\ ~clr))
    /\ pc' = "idle" /\ run' = run + 1
    /\ oldD' = IF Cur.k \in {"dfire", "dfail", "never"} /\ "fire" \notin fired /\ hist[run].out \notin {StaleR, ReentryR}
              THEN "pending" ELSE "none"
    /\ oldSpin' = spinning
    /\ IF scn[run + 1].newSp
       THEN /\ success' = UnsetR /\ failure' = UnsetR /\ spinning' = FALSE /\ junk' = {} /\ toCall' = "none"
            /\ saved' = NoSaved
       ELSE UNCHANGED <<success, failure, spinning, junk, toCall, saved>>
    /\ UNCHANGED <<scn, clr, inst, now, calls, batch, running, readers, stopIs, sigs,
                   inRun, out, inner, fired, left, entry, hist>>

Finish ==
    /\ pc = "returned" /\ run = Len(scn)
    /\ pc' = "done"
    /\ UNCHANGED <<oldD, oldSpin, scn, clr, inst, run, now, calls, batch, running, readers, stopIs, sigs, success, failure,
                   spinning, junk, toCall, inRun, saved, out, inner, fired, left, entry, hist>>

Next == Enter \/ SaveSignals \/ ScheduleTimeout \/ PatchStop \/ Start \/ EarlyStop \/ RunFunction \/ Tick \/ FireNext
        \/ LoopExit \/ Hang \/ Exit \/ GetResult \/ Clean \/ ClearJunk \/ NextRun \/ Finish

Spec == Init /\ [][Next]_vars

-----------------------------------------------------------------------------
(* C15 invariants.  `Returned`: run() has returned or raised and nothing has happened since.  *)

Returned == pc \in {"returned", "between", "done"}

\* value / exception / TimeoutError / NoResultError according to which comes first (ties: either);
\* StaleJunkError iff junk was left uncleared
ResultRight == \A r \in DOMAIN hist : hist[r].out \in Allowed(scn[r], entry[r].junk0)

\* refuses re-entrant use, refuses to run with stale junk (and only then)
Guards ==
    /\ \A r \in DOMAIN hist : (entry[r].junk0 # {}) <=> (hist[r].out = StaleR)
    /\ \A r \in DOMAIN hist : (scn[r].reenter /\ hist[r].out # StaleR) => hist[r].inner = "ReentryError"
    /\ \A r \in DOMAIN hist : hist[r].out # ReentryR

\* reactor stopped and empty; whatever was left in it is reported as junk
ReactorClean ==
    Returned => /\ ~running /\ calls = <<>> /\ batch = <<>> /\ readers = {}
                /\ hist[run].left \subseteq hist[run].junk
                /\ (pc = "returned" => hist[run].left \subseteq junk)

\* reactor.stop and the three signal handlers are what they were before the call
Restored ==
    Returned => /\ stopIs = entry[run].stop0
                /\ sigs = entry[run].sigs0

\* the result of a second run depends only on the second scenario
SecondRun ==
    (Len(hist) >= 2 /\ entry[2].junk0 = {}) => hist[2].out \in AllowedRun(scn[2])

\* run() always comes back
NeverStuck == pc # "stuck"

\* ... and leaves the Spinner not spinning (whatever fires later cannot stop somebody else's reactor run)
SpinnerIdle == Returned => ~spinning

-----------------------------------------------------------------------------
Terminal == pc = "done"
ExportC == Terminal => PrintT(<<"EXPORT", ToJson(hist)>>)
=============================================================================
