SPECIFICATION Spec
CONSTANTS
  Values <- ValuesF
  Excs <- ExcsF
  CbKinds <- CbAll
  SuccInner <- SuccF
  FailInner <- FailF
  WithNoResult = TRUE
  WithExtract = TRUE
  MaxPause = 2
  MaxChain = 2
  InnerValues <- InnerVP
  InnerExcs <- InnerEP
  MaxLen = 8
CONSTRAINT ExportC
INVARIANT Trichotomy
INVARIANT InnerApplied
INVARIANT ExtractRight
INVARIANT CapsTransparent
INVARIANT HandledIffNotErr
PROPERTY NeverFires
PROPERTY Preserved
PROPERTY HandledAfter
CHECK_DEADLOCK FALSE
