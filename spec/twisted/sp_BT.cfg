SPECIFICATION Spec
CONSTANTS
  Scen1 <- ScenB1T
  ScenBusy <- NoBusy
  Scen2 <- ScenB2T
  ClearChoices = {TRUE, FALSE}
  Installs = {TRUE, FALSE}
  ResetsResult = TRUE
  RunBound = TRUE
  LateIgnored = TRUE
CONSTRAINT ExportC
INVARIANT ResultRight
INVARIANT Guards
INVARIANT ReactorClean
INVARIANT Restored
INVARIANT SecondRun
INVARIANT NeverStuck
INVARIANT SpinnerIdle
CHECK_DEADLOCK FALSE
