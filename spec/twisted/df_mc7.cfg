SPECIFICATION Spec
CONSTANTS
  Values <- ValuesF
  Excs <- ExcsFT
  CbKinds <- CbF
  SuccInner <- SuccF
  FailInner <- FailF
  WithNoResult = TRUE
  WithExtract = TRUE
  MaxPause = 0
  MaxChain = 0
  InnerValues <- NoInner
  InnerExcs <- NoInner
  MaxLen = 7
VIEW ViewNoHist
INVARIANT Trichotomy
INVARIANT InnerApplied
INVARIANT ExtractRight
INVARIANT CapsTransparent
INVARIANT HandledIffNotErr
PROPERTY NeverFires
PROPERTY Preserved
PROPERTY HandledAfter
CHECK_DEADLOCK FALSE
