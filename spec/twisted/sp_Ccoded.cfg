SPECIFICATION Spec
CONSTANTS
  Scen1 <- ScenRC
  ScenBusy <- NoBusy
  Scen2 <- JustNo
  ClearChoices = {FALSE}
  Installs = {TRUE}
  ResetsResult = TRUE
  RunBound = TRUE
  LateIgnored = FALSE
INVARIANT ResultRight
CHECK_DEADLOCK FALSE
