SPECIFICATION Spec
CONSTANTS
  Values <- ValuesP
  Excs <- ExcsP
  CbKinds <- CbP
  SuccInner <- SuccP
  FailInner <- FailP
  WithNoResult = TRUE
  WithExtract = TRUE
  MaxPause = 1
  MaxChain = 1
  InnerValues <- InnerVP
  InnerExcs <- InnerEP
  MaxLen = 5
CONSTRAINT ExportC
INVARIANT Trichotomy
INVARIANT InnerApplied
INVARIANT ExtractRight
INVARIANT CapsTransparent
INVARIANT HandledIffNotErr
PROPERTY NeverFires
PROPERTY Preserved
PROPERTY HandledAfter
CHECK_DEADLOCK FALSE
