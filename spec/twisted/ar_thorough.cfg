SPECIFICATION Spec
CONSTANTS
  Delays = {0, 2, 4}
  Timeouts = {3, 5, 9}
  Interrupts <- IntrAll
  Faults <- FaultsAll
  SideChoices <- SidesAll
  MaxFaulty = 2
  CleanupCounts = {0, 1, 2}
  Variants = {"plain", "broken"}
INVARIANT OneOutcome
INVARIANT Sequenced
INVARIANT SuccessIff
INVARIANT TimeoutIsError
INVARIANT InterruptIsError
INVARIANT AfterRun
INVARIANT BaseSurvives
CHECK_DEADLOCK FALSE
