SPECIFICATION Spec
CONSTANTS
  Scen1 <- ScenAT
  ScenBusy <- ScenCT
  Scen2 <- JustNo
  ClearChoices = {FALSE}
  Installs = {TRUE, FALSE}
  ResetsResult = TRUE
  RunBound = TRUE
  LateIgnored = TRUE
CONSTRAINT ExportC
INVARIANT ResultRight
INVARIANT Guards
INVARIANT ReactorClean
INVARIANT Restored
INVARIANT SecondRun
INVARIANT NeverStuck
INVARIANT SpinnerIdle
CHECK_DEADLOCK FALSE
