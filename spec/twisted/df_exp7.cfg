SPECIFICATION Spec
CONSTANTS
  Values <- ValuesS
  Excs <- ExcsS
  CbKinds <- CbS
  SuccInner <- SuccS
  FailInner <- FailS
  WithNoResult = TRUE
  WithExtract = TRUE
  MaxLen = 7
CONSTRAINT ExportC
INVARIANT Trichotomy
INVARIANT InnerApplied
INVARIANT ExtractRight
INVARIANT CapsTransparent
INVARIANT HandledIffNotErr
PROPERTY NeverFires
PROPERTY Preserved
PROPERTY HandledAfter
CHECK_DEADLOCK FALSE
