SPECIFICATION Spec
CONSTANTS
  Values <- ValuesM
  Excs <- ExcsM
  CbKinds <- CbQ
  SuccInner <- SuccQ
  FailInner <- FailQ
  WithNoResult = TRUE
  WithExtract = TRUE
  MaxPause = 0
  MaxChain = 0
  InnerValues <- NoInner
  InnerExcs <- NoInner
  MaxLen = 5
CONSTRAINT ExportC
INVARIANT Trichotomy
INVARIANT InnerApplied
INVARIANT ExtractRight
INVARIANT CapsTransparent
INVARIANT HandledIffNotErr
PROPERTY NeverFires
PROPERTY Preserved
PROPERTY HandledAfter
CHECK_DEADLOCK FALSE
