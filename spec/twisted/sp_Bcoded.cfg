SPECIFICATION Spec
CONSTANTS
  Scen1 <- ScenC1
  ScenBusy <- NoBusy
  Scen2 <- ScenC2
  ClearChoices = {TRUE, FALSE}
  Installs = {TRUE}
  ResetsResult = FALSE
  RunBound = TRUE
  LateIgnored = TRUE
INVARIANT SecondRun
CHECK_DEADLOCK FALSE
