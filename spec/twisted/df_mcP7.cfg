SPECIFICATION Spec
CONSTANTS
  Values <- ValuesM
  Excs <- ExcsM
  CbKinds <- CbAll
  SuccInner <- SuccM
  FailInner <- FailM
  WithNoResult = TRUE
  WithExtract = TRUE
  MaxPause = 2
  MaxChain = 2
  InnerValues <- InnerVP
  InnerExcs <- InnerEP
  MaxLen = 7
VIEW ViewNoHist
INVARIANT Trichotomy
INVARIANT InnerApplied
INVARIANT ExtractRight
INVARIANT CapsTransparent
INVARIANT HandledIffNotErr
PROPERTY NeverFires
PROPERTY Preserved
PROPERTY HandledAfter
CHECK_DEADLOCK FALSE
