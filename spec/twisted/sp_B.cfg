SPECIFICATION Spec
CONSTANTS
  Scen1 <- ScenB1
  ScenBusy <- NoBusy
  Scen2 <- ScenB2
  ClearChoices = {TRUE, FALSE}
  Installs = {TRUE}
  ResetsResult = TRUE
  RunBound = TRUE
  LateIgnored = TRUE
CONSTRAINT ExportC
INVARIANT ResultRight
INVARIANT Guards
INVARIANT ReactorClean
INVARIANT Restored
INVARIANT SecondRun
INVARIANT NeverStuck
INVARIANT SpinnerIdle
CHECK_DEADLOCK FALSE
