---------------------------- MODULE MCDeferredM ----------------------------
(* Model-checking instances of DeferredM: alphabets and bounds.             *)
EXTENDS DeferredM

V(x) == <<x>>
\* full alphabet
ValuesF == {V("None"), V("zero"), V("one"), V("nest")}
\* e1, e2: Exceptions; b1: SystemExit, b2: a user BaseException subclass - failures that are NOT Exceptions
ExcsF   == {V("e1"), V("e2"), V("b1")}
ExcsFT  == {V("e1"), V("e2"), V("b1"), V("b2")}
CbF     == {"pass", "trans", "rec"}
SuccF   == {"always", "never", "eqNone", "eqOne", "eqNest"}
FailF   == {"always", "never", "isE1", "isE2"}
\* medium alphabet (length 5)
ValuesM == {V("None"), V("one")}
ExcsM   == {V("e1")}
SuccM   == {"always", "eqOne"}
FailM   == {"always", "isE1"}
\* quick length-4 alphabet
ValuesQ4 == {V("None"), V("one"), V("nest")}
SuccQ4   == {"always", "never", "eqOne"}
FailQ4   == {"always", "isE1"}
\* quick length-5 alphabet
CbQ     == {"pass", "rec"}
SuccQ   == {"eqOne"}
FailQ   == {"always"}
\* small alphabet (length 7)
ValuesS == {V("one")}
ExcsS   == {V("e2")}
CbS     == {"pass", "rec"}
SuccS   == {"eqOne"}
FailS   == {"always"}
\* no pause / chain
NoInner == {}
\* pause + chained inner Deferreds: small alphabets, "fired but no result available yet"
ValuesP == {V("one")}
ExcsP   == {V("e1")}
CbP     == {"pass", "chain"}
CbAll   == {"pass", "trans", "rec", "chain"}
CbPT    == {"pass", "rec", "chain"}
SuccP   == {"always"}
SuccPT  == {"always", "eqOne"}
FailP   == {"always"}
InnerVP == {V("two")}
InnerEP == {V("e2")}
=============================================================================
