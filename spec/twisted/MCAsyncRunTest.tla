--------------------------- MODULE MCAsyncRunTest ---------------------------
EXTENDS AsyncRunTest
IntrQuick == {NoIntr, 1, 5}
IntrAll == {NoIntr, 1, 3, 5, 7}
IntrFew == {NoIntr, 5}
FaultsQuick == {Beh("raise", "fail", 0), Beh("raise", "skip", 0), Beh("dfire", None, 2), Beh("dfire", None, 4),
                Beh("dfail", "err", 2), Beh("never", None, Never)}
FaultsAll == Behaviours \ {Ret}
Sd(u, w) == [unit |-> u, what |-> w]
SidesQuick == {Sd("body", "leave"), Sd("body", "logerr"), Sd("tearDown", "drop"), Sd("tearDown", "chain0")}
SidesAll == {Sd(u, w) : u \in AllUnits, w \in {"leave", "logerr", "drop", "chain0"}}
\* failed expectations (C07: "makes the test fail once it has finished") and the user-side flush of logged errors
SidesUser == {Sd(u, w) : u \in AllUnits, w \in {"expect", "logflush", "flushall"}}
SidesExpect == {Sd(u, "expect") : u \in AllUnits}
FaultsKi == {Beh("raise", "ki", 0), Beh("dfail", "ki", 2), Beh("dpause", None, 2), Beh("raise", "fail", 0), Beh("dfire", None, 2), Beh("never", None, Never)}
FaultsFew == {Beh("raise", "fail", 0), Beh("raise", "skip", 0), Beh("dfire", None, 2), Beh("dfail", "err", 2), Beh("never", None, Never)}
=============================================================================
