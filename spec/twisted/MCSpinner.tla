----------------------------- MODULE MCSpinner -----------------------------
(* Model-checking instances of Spinner: scenario alphabets and bounds.      *)
EXTENDS Spinner

Fn(k, d, v) == [k |-> k, d |-> d, v |-> v]
Mk(f, T, ex, sel, st, re) ==
    [k |-> f.k, d |-> f.d, v |-> f.v, T |-> T, extra |-> ex, sel |-> sel, stopAt |-> st, reenter |-> re,
     busyAt |-> NoStop, busyDt |-> 0, early |-> FALSE, fireOld |-> NoStop, newSp |-> FALSE]
Busy(s, b, dt) == [s EXCEPT !.busyAt = b, !.busyDt = dt]
Early(s, e) == [s EXCEPT !.early = e]
Later(s, k, n) == [s EXCEPT !.fireOld = k, !.newSp = n]

UpTo2(S) == {e \in SUBSET S : Cardinality(e) <= 2}

\* exception symbols: e1/e2 are Exceptions; b1 (SystemExit), b2 (a user BaseException subclass) and b3
\* (KeyboardInterrupt) are BaseExceptions that are NOT Exceptions - raised by f or failing its Deferred
FnsBase == {Fn("raise", 0, "b1"), Fn("raise", 0, "b3"), Fn("dnowerr", 0, "b2"), Fn("dfail", 1, "b1"), Fn("dfail", 2, "b2"),
            Fn("dfail", 3, "b3")}

\* ---- A: one run() call, every relative order of "fires at d", "timeout T", "stop at k" -------------
FnsA == {Fn("ret", 0, x) : x \in {"None", "zero", "v1"}}
        \cup {Fn("raise", 0, "e1"), Fn("dnowok", 0, "None"), Fn("dnowerr", 0, "e1"), Fn("never", 0, "-"),
              Fn("dfire", 1, "None")}
        \cup {Fn("dfire", d, "v1") : d \in 0..4}
        \cup {Fn("dfail", d, "e1") : d \in 0..4} \cup FnsBase
ScenA == {s \in {Mk(f, T, ex, sel, st, re) : f \in FnsA, T \in 1..3, ex \in UpTo2({1, 2, 3, 5}), sel \in 0..1,
                                             st \in {NoStop} \cup 0..4, re \in BOOLEAN} : s.reenter => s.sel = 0}

\* thorough: one more time unit everywhere
FnsAT == {Fn("ret", 0, x) : x \in {"None", "zero", "v1"}}
        \cup {Fn("raise", 0, "e1"), Fn("dnowok", 0, "None"), Fn("dnowerr", 0, "e1"), Fn("never", 0, "-"),
              Fn("dfire", 1, "None"), Fn("dfire", 2, "zero")}
        \cup {Fn("dfire", d, "v1") : d \in 0..5}
        \cup {Fn("dfail", d, "e1") : d \in 0..5} \cup FnsBase \cup {Fn("raise", 0, "b2"), Fn("dnowerr", 0, "b1")}
ScenAT == {Mk(f, T, ex, sel, st, re) : f \in FnsAT, T \in 1..4, ex \in UpTo2(1..6), sel \in 0..1,
                                       st \in {NoStop} \cup 0..5, re \in BOOLEAN}

\* ---- B: two run() calls on one Spinner (results v1/e1 then v2/e2), with/without clear_junk() ------
FnsB1 == {Fn("ret", 0, "v1"), Fn("ret", 0, "None"), Fn("raise", 0, "e1"), Fn("raise", 0, "b1"), Fn("dfire", 1, "v1"),
          Fn("dfail", 1, "e1"), Fn("dfire", 3, "v1"), Fn("never", 0, "-")}
FnsB2 == {Fn("ret", 0, "v2"), Fn("ret", 0, "None"), Fn("raise", 0, "e2"), Fn("dfire", 1, "v2"),
          Fn("dfail", 1, "e2"), Fn("dfire", 3, "v2"), Fn("never", 0, "-")}
ScenB1 == {Mk(f, 2, ex, 0, st, FALSE) : f \in FnsB1, ex \in {{}, {5}}, st \in {NoStop, 0, 1}}
          \cup {Mk(f, 2, {}, 1, NoStop, TRUE) : f \in FnsB1}
ScenB2 == {Mk(f, 2, {}, 0, st, re) : f \in FnsB2, st \in {NoStop, 0, 1}, re \in BOOLEAN}
          \cup {Mk(f, 2, {5}, 1, NoStop, FALSE) : f \in FnsB2}

\* the two smallest reuse shapes, for the asCoded counterexample
ScenC1 == {Mk(Fn("ret", 0, "v1"), 2, {}, 0, NoStop, FALSE), Mk(Fn("never", 0, "-"), 2, {}, 0, NoStop, FALSE)}
ScenC2 == {Mk(Fn("ret", 0, "v2"), 2, {}, 0, NoStop, FALSE), Mk(Fn("never", 0, "-"), 2, {}, 0, 1, FALSE)}

\* thorough: the second run over three timeouts and four stop instants
ScenB1T == {Mk(f, 2, ex, sel, st, FALSE) : f \in FnsB1, ex \in {{}, {5}}, sel \in 0..1, st \in {NoStop, 0, 1}}
           \cup {Mk(f, 2, {}, 0, NoStop, TRUE) : f \in FnsB1}
ScenB2T == {Mk(f, T, {}, 0, st, re) : f \in FnsB2, T \in 1..3, st \in {NoStop, 0, 1, 2}, re \in BOOLEAN}
           \cup {Mk(f, 2, {5}, 1, NoStop, FALSE) : f \in FnsB2}

\* ---- C: busy reactor - a slow callback at b lasting dt makes everything due in (b, b+dt] fire in one
\*      reactor iteration, in time order, also after the call that ended the run
FnsC == {Fn("ret", 0, "v1"), Fn("never", 0, "-")} \cup {Fn("dfire", d, "v1") : d \in 0..4} \cup {Fn("dfail", d, "e1") : d \in 0..4}
ScenC == {Busy(Mk(f, T, ex, 0, st, FALSE), b, dt) : f \in FnsC, T \in 1..3, ex \in {{}, {2}}, st \in {NoStop} \cup 0..4,
                                                    b \in 0..2, dt \in 1..3}
FnsCT == {Fn("ret", 0, "v1"), Fn("raise", 0, "e1"), Fn("never", 0, "-"), Fn("dfire", 2, "None")}
         \cup {Fn("dfire", d, "v1") : d \in 0..5} \cup {Fn("dfail", d, "e1") : d \in 0..5}
ScenCT == {Busy(Mk(f, T, ex, sel, st, FALSE), b, dt) : f \in FnsCT, T \in 1..4, ex \in {{}, {2}, {3, 5}}, sel \in 0..1,
                                                       st \in {NoStop} \cup 0..5, b \in 0..3, dt \in 1..4}

NoBusy == {}

\* ---- D: a stop issued by a startup trigger registered before run() (strictly before f is called), for every
\*      behaviour of f; then a second run - same Spinner or a new one on the same reactor - during which the
\*      first run's still pending Deferred fires
FnsD1 == {Fn("ret", 0, "v1"), Fn("ret", 0, "None"), Fn("raise", 0, "e1"), Fn("dnowok", 0, "v1"), Fn("dnowerr", 0, "e1"),
          Fn("dfire", 1, "v1"), Fn("dfail", 1, "e1"), Fn("dfire", 3, "v1"), Fn("never", 0, "-")}
ScenD1 == {Early(Mk(f, 2, ex, 0, NoStop, FALSE), e) : f \in FnsD1, ex \in {{}, {5}}, e \in BOOLEAN}
          \cup {Early(Mk(f, 2, {}, 1, 1, re), TRUE) : f \in FnsD1, re \in BOOLEAN}
FnsD2 == {Fn("ret", 0, "v2"), Fn("dfire", 2, "v2"), Fn("dfail", 2, "e2"), Fn("never", 0, "-")}
ScenD2 == {Early(Later(Mk(f, 3, {}, 0, NoStop, FALSE), k, n), e) : f \in FnsD2, k \in {NoStop, 1, 2, 4}, n \in BOOLEAN,
                                                                  e \in BOOLEAN}
\* thorough
ScenD1T == {Early(Mk(f, T, ex, 0, st, FALSE), e) : f \in FnsD1, T \in {1, 2}, ex \in {{}, {5}},
                                                 st \in {NoStop, 0, 1}, e \in BOOLEAN}
ScenD2T == {Early(Later(Mk(f, T, {}, 0, st, FALSE), k, n), e) : f \in FnsD2 \cup {Fn("dfire", 1, "v2"), Fn("raise", 0, "e2")},
                                                   T \in {2, 3}, st \in {NoStop, 1}, k \in {NoStop, 0, 1, 2, 4}, n \in BOOLEAN,
                                                   e \in BOOLEAN}
\* smallest shapes for the asCoded (RunBound=FALSE) counterexample
ScenDC1 == {Mk(Fn("never", 0, "-"), 1, {}, 0, NoStop, FALSE)}
ScenDC2 == {Later(Mk(Fn("never", 0, "-"), 3, {}, 0, NoStop, FALSE), 1, FALSE)}

\* ---- R: scenarios for the real-reactor tier: all event times pairwise distinct, >= 1 unit apart ---
Wide(s) == LET ts == <<FnTime(s), s.T, s.stopAt>> IN
           /\ \A i, j \in 1..3 : i # j /\ ts[i] # NoStop => ts[i] # ts[j]
           /\ \A x \in s.extra : \A i \in 1..3 : ts[i] # x
           /\ (s.k \in {"ret", "raise", "dnowok", "dnowerr"} => s.stopAt # 0)
ScenR == {s \in {Mk(f, T, ex, sel, st, FALSE) :
                    f \in {Fn("ret", 0, "None"), Fn("raise", 0, "e1"), Fn("raise", 0, "b1"), Fn("dfail", 1, "b2"),
                           Fn("dfire", 1, "v1"), Fn("dfail", 1, "e1"),
                           Fn("dfire", 3, "v1"), Fn("never", 0, "-")},
                    T \in {2}, ex \in {{}, {5}}, sel \in 0..1, st \in {NoStop, 1}} : Wide(s) /\ (s.sel = 1 => s.extra = {5})}
\* busy real reactor (time.sleep in a callback): late failure / late success after the timeout
ScenRB == {Busy(Mk(Fn("dfail", 3, "e1"), 2, {}, 0, NoStop, FALSE), 1, 3), Busy(Mk(Fn("dfire", 3, "v1"), 2, {}, 0, NoStop, FALSE), 1, 3),
           Busy(Mk(Fn("dfire", 2, "v1"), 3, {5}, 0, NoStop, FALSE), 1, 3)}
ScenR2 == {Mk(Fn("ret", 0, "v2"), 2, {}, 0, NoStop, FALSE), Mk(Fn("never", 0, "-"), 1, {}, 0, NoStop, FALSE)}

\* smallest shapes for the asCoded (LateIgnored=FALSE) counterexample
ScenRC == {Busy(Mk(Fn("dfire", 3, "v1"), 4, {}, 0, 2, FALSE), 1, 3), Busy(Mk(Fn("never", 0, "-"), 3, {}, 0, 2, FALSE), 1, 3)}
ScenRall == ScenR \cup ScenRB
JustNo == {NoScen}
=============================================================================
