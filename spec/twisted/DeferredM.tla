----------------------------- MODULE DeferredM -----------------------------
(***************************************************************************)
(* testtools.twistedsupport Deferred matchers (property C20):              *)
(*   has_no_result(), succeeded(m), failed(m)      (_matchers.py)          *)
(*   on_deferred_result, extract_result            (_deferred.py)          *)
(* over one twisted Deferred.                                              *)
(*                                                                         *)
(* The Deferred is modelled as Twisted defines it (Deferred._runCallbacks):*)
(* whether callback()/errback() has been called (`d.fired` # "no"), the    *)
(* stored result (`d.fired`, `d.val`), the callbacks not yet run (`cbs`),  *)
(* the user's pause() count (`paused`), whether the chain is waiting on an *)
(* inner, still unfired Deferred that an earlier callback returned         *)
(* (`wait`), and the `handled` flag (Twisted logs "Unhandled error in      *)
(* Deferred" at garbage collection iff the last time the chain ran to its  *)
(* end the result was a Failure).  Callbacks run only while the Deferred   *)
(* is neither paused nor waiting; a Deferred can therefore have been FIRED *)
(* and still have NO RESULT AVAILABLE.                                     *)
(*                                                                         *)
(* MECHANISM: Match(m) follows the code - on_deferred_result attaches a    *)
(* pair of capture callbacks ("cap") that return their argument and looks  *)
(* at what they captured (nothing, if they have not run), then dispatches  *)
(* to the matcher class's on_success / on_failure / on_no_result handler;  *)
(* _Succeeded._got_failure and _Failed._got_failure attach an errback that *)
(* swallows the failure ("eat").  MEANING: `Means(m, v)` says from the     *)
(* result currently AVAILABLE (`View`: not from whether callback() was     *)
(* called) when a matcher must match.  The invariants relate the two in    *)
(* every reachable state and across every Match step.                      *)
(*                                                                         *)
(* After a failure has been swallowed the Deferred's value is whatever the *)
(* implementation's errback returned: the property does not say, so the    *)
(* model uses the wildcard value AnyV (and verdict "either" where a matcher*)
(* would look at it).  extract_result replaces the result (its callbacks   *)
(* return None): the property says nothing about the Deferred afterwards,  *)
(* so Extract ends the behaviour.                                          *)
(***************************************************************************)
EXTENDS Naturals, Sequences, FiniteSets, TLC, Json

CONSTANTS
    Values,      \* values a Deferred may fire with (set of 1-tuples of strings, e.g. <<"None">>)
    Excs,        \* exceptions it may fail with          (e.g. <<"e1">>)
    CbKinds,     \* user callbacks: subset of {"pass", "trans", "rec", "chain"}
    SuccInner,   \* inner matchers for succeeded(): subset of {"always","never","eqNone","eqOne","eqNest"}
    FailInner,   \* inner matchers for failed():    subset of {"always","never","isE1","isE2"}
    WithNoResult,\* BOOLEAN: include has_no_result()
    WithExtract, \* BOOLEAN: include extract_result()
    MaxPause,    \* bound on nested d.pause() calls (0: no Pause/Unpause actions)
    MaxChain,    \* bound on "chain" callbacks added per behaviour
    InnerValues, \* what an inner Deferred (returned by a "chain" callback) may fire with
    InnerExcs,   \* ... or fail with
    MaxLen       \* number of actions per behaviour

AnyV  == <<"any">>
NoneV == <<"None">>

St(f, v, h) == [fired |-> f, val |-> v, handled |-> h]
Unfired == St("no", <<"-">>, TRUE)

Matcher(k, i) == [k |-> k, i |-> i]
Matchers == (IF WithNoResult THEN {Matcher("noresult", "-")} ELSE {})
            \cup {Matcher("succ", i) : i \in SuccInner} \cup {Matcher("failed", i) : i \in FailInner}

VARIABLES
    d,      \* the Deferred: [fired (has callback/errback been called, and with which kind of result), val, handled]
    cbs,    \* callbacks not yet run (sequence of kinds)
    paused, \* d.pause() calls not yet undone
    wait,   \* the chain waits for the inner Deferred a "chain" callback returned
    nchain, \* "chain" callbacks added so far
    seen,   \* what the recording user callbacks have been called with, in order
    n,      \* actions so far
    done,   \* extract_result was called: behaviour over
    last,   \* the last action: [a, arg, res, pre] (pre = what was available before it)
    hist    \* observation log for export

vars == <<d, cbs, paused, wait, nchain, seen, n, done, last, hist>>

-----------------------------------------------------------------------------
(* Twisted: Deferred._runCallbacks                                           *)

See(by, st) == [by |-> by, fired |-> st.fired, val |-> st.val]

\* one callback applied to the current result; cap = what on_deferred_result's capture lists hold
Apply(cb, st, sn, cap) ==
    CASE cb = "pass"  -> [st |-> st, seen |-> Append(sn, See("pass", st)), cap |-> cap]            \* addBoth: record, return it
      [] cb = "trans" -> IF st.fired = "ok"                                                        \* addCallback: record, wrap
                         THEN [st |-> St("ok", <<"t">> \o st.val, st.handled), seen |-> Append(sn, See("trans", st)), cap |-> cap]
                         ELSE [st |-> st, seen |-> sn, cap |-> cap]
      [] cb = "rec"   -> [st |-> St("ok", NoneV, st.handled), seen |-> Append(sn, See("rec", st)), cap |-> cap] \* addBoth: record, return None
      [] cb = "cap"   -> [st |-> st, seen |-> sn, cap |-> Append(cap, st)]                         \* capture: values.append(value); return value
      [] cb = "eat"   -> [st |-> IF st.fired = "err" THEN St("ok", AnyV, st.handled) ELSE st, seen |-> sn, cap |-> cap]  \* addErrback(lambda _: None)
      [] cb = "ext"   -> [st |-> St("ok", NoneV, st.handled), seen |-> sn, cap |-> cap]            \* extract_result's list.append pair
      [] cb = "chain" -> [st |-> st, seen |-> sn, cap |-> cap]                                    \* addCallback: a failure passes by

\* run the queued callbacks; stop where a "chain" callback (addCallback) returns an unfired inner Deferred.
\* When the chain runs to its end Twisted notes whether a Failure is left over (handled).
RECURSIVE Run(_, _, _, _)
Run(q, st, sn, cap) ==
    IF q = <<>> THEN [st |-> [st EXCEPT !.handled = (st.fired # "err")], seen |-> sn, cbs |-> <<>>, wait |-> FALSE, cap |-> cap]
    ELSE IF Head(q) = "chain" /\ st.fired = "ok"
         THEN \* the result is now the inner Deferred, not a Failure: Twisted clears the unhandled-error marker
              [st |-> [st EXCEPT !.handled = TRUE], seen |-> Append(sn, See("chain", st)), cbs |-> Tail(q), wait |-> TRUE, cap |-> cap]
         ELSE LET r == Apply(Head(q), st, sn, cap) IN Run(Tail(q), r.st, r.seen, r.cap)

Blocked(st, p, w) == st.fired = "no" \/ p > 0 \/ w

\* Deferred.addCallbacks / callback() / unpause() / the inner Deferred firing all end in _runCallbacks:
\* nothing happens while blocked, else the queue is run
Pump(q, st, p, w, sn) ==
    IF Blocked(st, p, w) THEN [st |-> st, seen |-> sn, cbs |-> q, wait |-> w, cap |-> <<>>]
    ELSE Run(q, st, sn, <<>>)

-----------------------------------------------------------------------------
(* Inner matchers: "match" / "mismatch" / "either" (value not constrained)   *)

EqOf(i) == CASE i = "eqNone" -> <<"None">> [] i = "eqOne" -> <<"one">> [] i = "eqNest" -> <<"nest">>
IsOf(i) == CASE i = "isE1" -> <<"e1">> [] i = "isE2" -> <<"e2">>
B(x) == IF x THEN "match" ELSE "mismatch"
InnerS(i, v) == CASE i = "always" -> "match" [] i = "never" -> "mismatch"
                  [] OTHER -> IF v = AnyV THEN "either" ELSE B(v = EqOf(i))
InnerF(i, v) == CASE i = "always" -> "match" [] i = "never" -> "mismatch" [] OTHER -> B(v = IsOf(i))

(* MECHANISM of match(): on_deferred_result looks at its capture lists, then the handler of the matcher class *)
Branch(cap) == IF cap = <<>> THEN "on_no_result"
               ELSE IF cap[1].fired = "err" THEN "on_failure" ELSE "on_success"

MechVerdict(m, cap) ==
    LET b == Branch(cap) IN
    CASE m.k = "noresult" -> (CASE b = "on_no_result" -> "match"                       \* lambda _: None
                                [] OTHER -> "mismatch")                                 \* _NoResult._got_result
      [] m.k = "succ"     -> (CASE b = "on_success" -> InnerS(m.i, cap[1].val)          \* self._matcher.match(value)
                                [] b = "on_failure" -> "mismatch"                       \* _got_failure (+ eat)
                                [] OTHER -> "mismatch")                                 \* _got_no_result
      [] m.k = "failed"   -> (CASE b = "on_failure" -> InnerF(m.i, cap[1].val)          \* self._matcher.match(failure) (+ eat)
                                [] b = "on_success" -> "mismatch"
                                [] OTHER -> "mismatch")
MechEats(m, cap) == Branch(cap) = "on_failure" /\ m.k \in {"succ", "failed"}

(* MEANING: the result currently available, and when m must match it *)
Available == ~Blocked(d, paused, wait)
View == IF Available THEN [fired |-> d.fired, val |-> d.val] ELSE [fired |-> "no", val |-> <<"-">>]
Means(m, v) ==
    CASE m.k = "noresult" -> B(v.fired = "no")
      [] m.k = "succ"     -> IF v.fired # "ok" THEN "mismatch" ELSE InnerS(m.i, v.val)
      [] m.k = "failed"   -> IF v.fired # "err" THEN "mismatch" ELSE InnerF(m.i, v.val)

\* what match() would see and answer in the current state (the capture pair is attached, nothing else)
CapNow == Pump(Append(cbs, "cap"), d, paused, wait, seen).cap
-----------------------------------------------------------------------------
Init == /\ d = Unfired /\ cbs = <<>> /\ paused = 0 /\ wait = FALSE /\ nchain = 0
        /\ seen = <<>> /\ n = 0 /\ done = FALSE /\ hist = <<>>
        /\ last = [a |-> "init", arg |-> "-", res |-> "-", pre |-> [fired |-> "no", val |-> <<"-">>]]

Log(a, arg, res, pre) ==
    /\ last' = [a |-> a, arg |-> arg, res |-> res, pre |-> pre]
    /\ hist' = Append(hist, [a |-> a, arg |-> arg, res |-> res, st |-> d', blocked |-> (paused' > 0 \/ wait'),
                             new |-> SubSeq(seen', Len(seen) + 1, Len(seen'))])

Live == ~done /\ n < MaxLen

Set(r) == d' = r.st /\ cbs' = r.cbs /\ wait' = r.wait /\ seen' = r.seen

Fire(v) ==
    /\ Live /\ d.fired = "no"
    /\ Set(Pump(cbs, St("ok", v, d.handled), paused, wait, seen))
    /\ n' = n + 1 /\ UNCHANGED <<done, paused, nchain>>
    /\ Log("fire", v, "-", View)

Fail(e) ==
    /\ Live /\ d.fired = "no"
    /\ Set(Pump(cbs, St("err", e, d.handled), paused, wait, seen))
    /\ n' = n + 1 /\ UNCHANGED <<done, paused, nchain>>
    /\ Log("fail", e, "-", View)

AddCallback(k) ==
    /\ Live /\ (k = "chain" => nchain < MaxChain)
    /\ Set(Pump(Append(cbs, k), d, paused, wait, seen))
    /\ nchain' = IF k = "chain" THEN nchain + 1 ELSE nchain
    /\ n' = n + 1 /\ UNCHANGED <<done, paused>>
    /\ Log("add", k, "-", View)

Pause ==
    /\ Live /\ paused < MaxPause
    /\ paused' = paused + 1
    /\ n' = n + 1 /\ UNCHANGED <<d, cbs, wait, seen, done, nchain>>
    /\ Log("pause", "-", "-", View)

Unpause ==
    /\ Live /\ paused > 0
    /\ paused' = paused - 1
    /\ Set(Pump(cbs, d, paused - 1, wait, seen))
    /\ n' = n + 1 /\ UNCHANGED <<done, nchain>>
    /\ Log("unpause", "-", "-", View)

\* the inner Deferred fires: its result becomes the waiting Deferred's, which goes on with its chain
InnerFires(v) ==
    /\ Live /\ wait
    /\ Set(Pump(cbs, St("ok", v, d.handled), paused, FALSE, seen))
    /\ n' = n + 1 /\ UNCHANGED <<done, paused, nchain>>
    /\ Log("fireinner", v, "-", View)

InnerFails(e) ==
    /\ Live /\ wait
    /\ Set(Pump(cbs, St("err", e, d.handled), paused, FALSE, seen))
    /\ n' = n + 1 /\ UNCHANGED <<done, paused, nchain>>
    /\ Log("failinner", e, "-", View)

Match(m) ==
    /\ Live
    /\ n' = n + 1 /\ UNCHANGED <<done, paused, nchain>>
    /\ LET r1 == Pump(Append(cbs, "cap"), d, paused, wait, seen)  \* on_deferred_result: deferred.addCallbacks(capture, capture)
           r2 == IF MechEats(m, r1.cap) THEN Pump(Append(r1.cbs, "eat"), r1.st, paused, r1.wait, r1.seen) ELSE r1
       IN /\ Set(r2)
          /\ Log("match", m, MechVerdict(m, r1.cap), View)

\* extract_result: addCallbacks(successes.append, failures.append), then look at the lists
Extract ==
    /\ Live /\ WithExtract
    /\ n' = n + 1 /\ done' = TRUE /\ UNCHANGED <<paused, nchain>>
    /\ LET r0 == Pump(Append(cbs, "cap"), d, paused, wait, seen)   \* what the two lists hold afterwards
           r  == Pump(Append(cbs, "ext"), d, paused, wait, seen)
       IN /\ Set(r)
          /\ Log("extract", "-",
                 CASE r0.cap = <<>> -> [r |-> "raises", val |-> <<"DeferredNotFired">>]
                   [] r0.cap[1].fired = "ok" -> [r |-> "returns", val |-> r0.cap[1].val]     \* len(successes) == 1
                   [] OTHER -> [r |-> "raises", val |-> r0.cap[1].val],                       \* failures[0].raiseException()
                 View)

Next == (\E v \in Values : Fire(v)) \/ (\E e \in Excs : Fail(e)) \/ (\E k \in CbKinds : AddCallback(k))
        \/ (\E m \in Matchers : Match(m)) \/ Extract \/ Pause \/ Unpause
        \/ (\E v \in InnerValues : InnerFires(v)) \/ (\E e \in InnerExcs : InnerFails(e))

Spec == Init /\ [][Next]_vars

-----------------------------------------------------------------------------
(* C20 properties *)

NoRes == Matcher("noresult", "-")
SuccAlways == Matcher("succ", "always")
FailedAlways == Matcher("failed", "always")

\* exactly one of has_no_result(), succeeded(Always()), failed(Always()) matches, selected by what is AVAILABLE
Trichotomy ==
    LET v == [m \in {NoRes, SuccAlways, FailedAlways} |-> MechVerdict(m, CapNow)] IN
    /\ Cardinality({m \in DOMAIN v : v[m] = "match"}) = 1
    /\ v[NoRes] = "match" <=> View.fired = "no"
    /\ v[SuccAlways] = "match" <=> View.fired = "ok"
    /\ v[FailedAlways] = "match" <=> View.fired = "err"

\* succeeded(m) / failed(m) match iff in addition m matches the value / Failure
AllMatchers == {NoRes} \cup {Matcher("succ", i) : i \in {"always", "never", "eqNone", "eqOne", "eqNest"}}
               \cup {Matcher("failed", i) : i \in {"always", "never", "isE1", "isE2"}}
InnerApplied == \A m \in AllMatchers : MechVerdict(m, CapNow) = Means(m, View)

Stepped(a) == n' = n + 1 /\ last'.a = a

\* extract_result returns the value / raises the failure's exception / raises DeferredNotFired
ExtractRight ==
    (last.a = "extract") =>
        last.res = (CASE last.pre.fired = "ok" -> [r |-> "returns", val |-> last.pre.val]
                      [] last.pre.fired = "err" -> [r |-> "raises", val |-> last.pre.val]
                      [] OTHER -> [r |-> "raises", val |-> <<"DeferredNotFired">>])

\* matching never fires a Deferred (nor makes a result available that was not)
NeverFires == [][Stepped("match") => /\ (d.fired = "no" => d'.fired = "no")
                                     /\ paused' = paused /\ wait' = wait]_vars

\* a Deferred without an available result stays as it was for whoever fires / unpauses it later (the capture
\* callbacks are transparent: CapsTransparent), a successful result is intact for later callbacks
Strip(q) == SelectSeq(q, LAMBDA c : c # "cap")
CapsTransparent ==
    \A v \in Values \cup Excs :
        LET st0 == IF v \in Values THEN St("ok", v, TRUE) ELSE St("err", v, TRUE)
            a == Run(cbs, st0, <<>>, <<>>)
            b == Run(Strip(cbs), st0, <<>>, <<>>)
        IN a.st = b.st /\ a.seen = b.seen /\ a.wait = b.wait /\ Strip(a.cbs) = b.cbs
Preserved ==
    [][Stepped("match") => /\ (~Available => d' = d /\ seen' = seen /\ Strip(cbs') = Strip(cbs))
                           /\ (Available /\ d.fired = "ok" => d' = d /\ seen' = seen /\ cbs' = cbs)]_vars

\* a failure inspected by succeeded() or failed() is marked handled (so it is not logged as unhandled)
HandledAfter ==
    [][(Stepped("match") /\ Available /\ d.fired = "err" /\ last'.arg.k \in {"succ", "failed"}) => d'.handled]_vars

\* Twisted's definition of the flag, where the chain has run to its end (sanity of the model)
HandledIffNotErr == Available => (cbs = <<>> /\ (d.handled <=> d.fired # "err"))

-----------------------------------------------------------------------------
ExportC == (n >= 1) => PrintT(<<"EXPORT", ToJson(hist)>>)
ViewNoHist == <<d, cbs, paused, wait, nchain, seen, n, done, last>>
=============================================================================
