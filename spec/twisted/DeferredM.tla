----------------------------- MODULE DeferredM -----------------------------
(***************************************************************************)
(* testtools.twistedsupport Deferred matchers (property C20):              *)
(*   has_no_result(), succeeded(m), failed(m)      (_matchers.py)          *)
(*   on_deferred_result, extract_result            (_deferred.py)          *)
(* over one twisted Deferred.                                              *)
(*                                                                         *)
(* The Deferred is modelled as Twisted defines it: a current result        *)
(* (`fired` in no/ok/err, `val`), a chain of callbacks waiting while it is *)
(* unfired (`cbs`) and run at once when it has fired, and the `handled`    *)
(* flag (Twisted logs "Unhandled error in Deferred" at garbage collection  *)
(* iff the current result is still a Failure).                             *)
(*                                                                         *)
(* MECHANISM: Match(m) follows the code - on_deferred_result attaches a    *)
(* pair of capture callbacks ("cap") that return their argument, then      *)
(* dispatches on what they captured to the matcher class's on_success /    *)
(* on_failure / on_no_result handler; _Succeeded._got_failure and          *)
(* _Failed._got_failure attach an errback that swallows the failure        *)
(* ("eat").  MEANING: `Means(m, st)` says directly from the Deferred's     *)
(* state when a matcher must match.  The invariants relate the two in      *)
(* every reachable state and across every Match step.                      *)
(*                                                                         *)
(* After a failure has been swallowed the Deferred's value is whatever the *)
(* implementation's errback returned: the property does not say, so the    *)
(* model uses the wildcard value AnyV (and verdict "either" where a matcher *)
(* would look at it).  extract_result replaces the result (its callbacks   *)
(* return None): the property says nothing about the Deferred afterwards,  *)
(* so Extract ends the behaviour.                                          *)
(***************************************************************************)
EXTENDS Naturals, Sequences, FiniteSets, TLC, Json

CONSTANTS
    Values,      \* values a Deferred may fire with (set of 1-tuples of strings, e.g. <<"None">>)
    Excs,        \* exceptions it may fail with          (e.g. <<"e1">>)
    CbKinds,     \* user callbacks: subset of {"pass", "trans", "rec"}
    SuccInner,   \* inner matchers for succeeded(): subset of {"always","never","eqNone","eqOne","eqNest"}
    FailInner,   \* inner matchers for failed():    subset of {"always","never","isE1","isE2"}
    WithNoResult,\* BOOLEAN: include has_no_result()
    WithExtract, \* BOOLEAN: include extract_result()
    MaxLen       \* number of actions per behaviour

AnyV   == <<"any">>
NoneV == <<"None">>

St(f, v, h) == [fired |-> f, val |-> v, handled |-> h]
Unfired == St("no", <<"-">>, TRUE)

Matcher(k, i) == [k |-> k, i |-> i]
Matchers == (IF WithNoResult THEN {Matcher("noresult", "-")} ELSE {})
            \cup {Matcher("succ", i) : i \in SuccInner} \cup {Matcher("failed", i) : i \in FailInner}

VARIABLES
    d,      \* the Deferred's current result: [fired, val, handled]
    cbs,    \* callbacks waiting for it to fire (sequence of kinds), empty once fired
    seen,   \* what the recording user callbacks have been called with, in order
    n,      \* actions so far
    done,   \* extract_result was called: behaviour over
    last,   \* the last action: [a, arg, res, pre] (pre = the Deferred before it)
    hist    \* observation log for export

vars == <<d, cbs, seen, n, done, last, hist>>

-----------------------------------------------------------------------------
(* Twisted: one callback applied to the current result                      *)

See(by, st) == [by |-> by, fired |-> st.fired, val |-> st.val]

Apply(cb, st, sn) ==
    CASE cb = "pass"  -> [st |-> st, seen |-> Append(sn, See("pass", st))]            \* addBoth: record, return it
      [] cb = "trans" -> IF st.fired = "ok"                                             \* addCallback: record, wrap
                         THEN [st |-> St("ok", <<"t">> \o st.val, TRUE), seen |-> Append(sn, See("trans", st))]
                         ELSE [st |-> st, seen |-> sn]
      [] cb = "rec"   -> [st |-> St("ok", NoneV, TRUE), seen |-> Append(sn, See("rec", st))] \* addBoth: record, return None
      [] cb = "cap"   -> [st |-> st, seen |-> sn]                                       \* on_deferred_result's capture pair
      [] cb = "eat"   -> [st |-> IF st.fired = "err" THEN St("ok", AnyV, TRUE) ELSE st, seen |-> sn]  \* addErrback(lambda _: None)
      [] cb = "ext"   -> [st |-> St("ok", NoneV, TRUE), seen |-> sn]                    \* extract_result's list.append pair

RECURSIVE Run(_, _, _)
Run(q, st, sn) == IF q = <<>> THEN [st |-> st, seen |-> sn]
                  ELSE LET r == Apply(Head(q), st, sn) IN Run(Tail(q), r.st, r.seen)

\* Deferred.addCallbacks: queue while unfired, run at once otherwise
AddCb(cb, st, q, sn) ==
    IF st.fired = "no" THEN [st |-> st, cbs |-> Append(q, cb), seen |-> sn]
    ELSE LET r == Apply(cb, st, sn) IN [st |-> r.st, cbs |-> q, seen |-> r.seen]

-----------------------------------------------------------------------------
(* Inner matchers: "match" / "mismatch" / "either" (value not constrained)   *)

EqOf(i) == CASE i = "eqNone" -> <<"None">> [] i = "eqOne" -> <<"one">> [] i = "eqNest" -> <<"nest">>
IsOf(i) == CASE i = "isE1" -> <<"e1">> [] i = "isE2" -> <<"e2">>
B(x) == IF x THEN "match" ELSE "mismatch"
InnerS(i, v) == CASE i = "always" -> "match" [] i = "never" -> "mismatch"
                  [] OTHER -> IF v = AnyV THEN "either" ELSE B(v = EqOf(i))
InnerF(i, v) == CASE i = "always" -> "match" [] i = "never" -> "mismatch" [] OTHER -> B(v = IsOf(i))

(* MECHANISM of match(): dispatch of on_deferred_result, then the handler of the matcher class *)
Branch(st) == CASE st.fired = "err" -> "on_failure" [] st.fired = "ok" -> "on_success" [] OTHER -> "on_no_result"

MechVerdict(m, st) ==
    LET b == Branch(st) IN
    CASE m.k = "noresult" -> (CASE b = "on_no_result" -> "match"                       \* lambda _: None
                                [] OTHER -> "mismatch")                                 \* _NoResult._got_result
      [] m.k = "succ"     -> (CASE b = "on_success" -> InnerS(m.i, st.val)              \* self._matcher.match(value)
                                [] b = "on_failure" -> "mismatch"                       \* _got_failure (+ eat)
                                [] OTHER -> "mismatch")                                 \* _got_no_result
      [] m.k = "failed"   -> (CASE b = "on_failure" -> InnerF(m.i, st.val)              \* self._matcher.match(failure) (+ eat)
                                [] b = "on_success" -> "mismatch"
                                [] OTHER -> "mismatch")
MechEats(m, st) == Branch(st) = "on_failure" /\ m.k \in {"succ", "failed"}

(* MEANING: when must m match a Deferred in state st *)
Means(m, st) ==
    CASE m.k = "noresult" -> B(st.fired = "no")
      [] m.k = "succ"     -> IF st.fired # "ok" THEN "mismatch" ELSE InnerS(m.i, st.val)
      [] m.k = "failed"   -> IF st.fired # "err" THEN "mismatch" ELSE InnerF(m.i, st.val)

-----------------------------------------------------------------------------
Init == /\ d = Unfired /\ cbs = <<>> /\ seen = <<>> /\ n = 0 /\ done = FALSE /\ hist = <<>>
        /\ last = [a |-> "init", arg |-> "-", res |-> "-", pre |-> Unfired]

Log(a, arg, res, pre) ==
    /\ last' = [a |-> a, arg |-> arg, res |-> res, pre |-> pre]
    /\ hist' = Append(hist, [a |-> a, arg |-> arg, res |-> res, st |-> d',
                          new |-> SubSeq(seen', Len(seen) + 1, Len(seen'))])

Live == ~done /\ n < MaxLen

Fire(v) ==
    /\ Live /\ d.fired = "no"
    /\ LET r == Run(cbs, St("ok", v, TRUE), seen) IN d' = r.st /\ seen' = r.seen
    /\ cbs' = <<>> /\ n' = n + 1 /\ UNCHANGED done
    /\ Log("fire", v, "-", d)

Fail(e) ==
    /\ Live /\ d.fired = "no"
    /\ LET r == Run(cbs, St("err", e, FALSE), seen) IN d' = r.st /\ seen' = r.seen
    /\ cbs' = <<>> /\ n' = n + 1 /\ UNCHANGED done
    /\ Log("fail", e, "-", d)

AddCallback(k) ==
    /\ Live
    /\ LET r == AddCb(k, d, cbs, seen) IN d' = r.st /\ cbs' = r.cbs /\ seen' = r.seen
    /\ n' = n + 1 /\ UNCHANGED done
    /\ Log("add", k, "-", d)

Match(m) ==
    /\ Live
    /\ LET r1 == AddCb("cap", d, cbs, seen)                     \* on_deferred_result: deferred.addCallbacks(capture, capture)
           r2 == IF MechEats(m, d) THEN AddCb("eat", r1.st, r1.cbs, r1.seen) ELSE r1
       IN d' = r2.st /\ cbs' = r2.cbs /\ seen' = r2.seen
    /\ n' = n + 1 /\ UNCHANGED done
    /\ Log("match", m, MechVerdict(m, d), d)

\* extract_result: addCallbacks(successes.append, failures.append), then look at the lists
Extract ==
    /\ Live /\ WithExtract
    /\ LET r == AddCb("ext", d, cbs, seen) IN d' = r.st /\ cbs' = r.cbs /\ seen' = r.seen
    /\ n' = n + 1 /\ done' = TRUE
    /\ Log("extract", "-",
           CASE d.fired = "ok" -> [r |-> "returns", val |-> d.val]          \* len(successes) == 1
             [] d.fired = "err" -> [r |-> "raises", val |-> d.val]          \* failures[0].raiseException()
             [] OTHER -> [r |-> "raises", val |-> <<"DeferredNotFired">>],
           d)

Next == (\E v \in Values : Fire(v)) \/ (\E e \in Excs : Fail(e)) \/ (\E k \in CbKinds : AddCallback(k))
        \/ (\E m \in Matchers : Match(m)) \/ Extract

Spec == Init /\ [][Next]_vars

-----------------------------------------------------------------------------
(* C20 properties *)

NoRes == Matcher("noresult", "-")
SuccAlways == Matcher("succ", "always")
FailedAlways == Matcher("failed", "always")

\* exactly one of has_no_result(), succeeded(Always()), failed(Always()) matches, selected by the state
Trichotomy ==
    LET v == [m \in {NoRes, SuccAlways, FailedAlways} |-> MechVerdict(m, d)] IN
    /\ Cardinality({m \in DOMAIN v : v[m] = "match"}) = 1
    /\ v[NoRes] = "match" <=> d.fired = "no"
    /\ v[SuccAlways] = "match" <=> d.fired = "ok"
    /\ v[FailedAlways] = "match" <=> d.fired = "err"

\* succeeded(m) / failed(m) match iff in addition m matches the value / Failure
AllMatchers == {NoRes} \cup {Matcher("succ", i) : i \in {"always", "never", "eqNone", "eqOne", "eqNest"}}
               \cup {Matcher("failed", i) : i \in {"always", "never", "isE1", "isE2"}}
InnerApplied == \A m \in AllMatchers : MechVerdict(m, d) = Means(m, d)

Stepped(a) == n' = n + 1 /\ last'.a = a

\* extract_result returns the value / raises the failure's exception / raises DeferredNotFired
ExtractRight ==
    (last.a = "extract") =>
        last.res = (CASE last.pre.fired = "ok" -> [r |-> "returns", val |-> last.pre.val]
                      [] last.pre.fired = "err" -> [r |-> "raises", val |-> last.pre.val]
                      [] OTHER -> [r |-> "raises", val |-> <<"DeferredNotFired">>])

\* matching never fires a Deferred
NeverFires == [][Stepped("match") => (d.fired = "no" => d'.fired = "no")]_vars

\* an unfired Deferred stays as it was for whoever fires it later (the capture callbacks are transparent:
\* CapsTransparent), a successful result is intact for later callbacks
CapsTransparent ==
    \A v \in Values \cup Excs :
        LET st0 == IF v \in Values THEN St("ok", v, TRUE) ELSE St("err", v, FALSE)
            plain == SelectSeq(cbs, LAMBDA c : c # "cap")
        IN Run(cbs, st0, <<>>) = Run(plain, st0, <<>>)
Preserved ==
    [][Stepped("match") => /\ (d.fired = "no" => d' = d /\ seen' = seen)
                           /\ (d.fired = "ok" => d' = d /\ seen' = seen)]_vars

\* a failure inspected by succeeded() or failed() is marked handled (so it is not logged as unhandled)
HandledAfter ==
    [][(Stepped("match") /\ d.fired = "err" /\ last'.arg.k \in {"succ", "failed"}) => d'.handled]_vars

\* Twisted's definition of the flag (sanity of the model)
HandledIffNotErr == d.handled <=> d.fired # "err"

-----------------------------------------------------------------------------
ExportC == (n >= 1) => PrintT(<<"EXPORT", ToJson(hist)>>)
ViewNoHist == <<d, cbs, seen, n, done, last>>
=============================================================================
