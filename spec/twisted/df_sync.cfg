SPECIFICATION Spec
CONSTANTS
  MaxFaults = 2
CONSTRAINT ExportC
INVARIANT Equivalent
CHECK_DEADLOCK FALSE
