SPECIFICATION Spec
CONSTANTS
  Delays = {0, 2, 4}
  Timeouts = {7}
  Interrupts <- IntrFew
  Faults <- FaultsFew
  SideChoices <- SidesExpect
  MaxFaulty = 1
  CleanupCounts = {0, 2}
  Variants = {"plain", "broken"}
INVARIANT OneOutcome
INVARIANT Sequenced
INVARIANT SuccessIff
INVARIANT TimeoutIsError
INVARIANT InterruptIsError
INVARIANT AfterRun
INVARIANT BaseSurvives
CONSTRAINT ExportC
CHECK_DEADLOCK FALSE
