SPECIFICATION Spec
CONSTANTS
  Scen1 <- ScenDC1
  ScenBusy <- NoBusy
  Scen2 <- ScenDC2
  ClearChoices = {TRUE}
  Installs = {TRUE}
  ResetsResult = TRUE
  RunBound = FALSE
  LateIgnored = TRUE
INVARIANT SecondRun
CHECK_DEADLOCK FALSE
