SPECIFICATION Spec
CONSTANTS
  Scen1 <- ScenRall
  ScenBusy <- NoBusy
  Scen2 <- ScenR2
  ClearChoices = {TRUE}
  Installs = {TRUE}
  ResetsResult = TRUE
  RunBound = TRUE
  LateIgnored = TRUE
CONSTRAINT ExportC
INVARIANT ResultRight
INVARIANT Guards
INVARIANT ReactorClean
INVARIANT Restored
INVARIANT SecondRun
INVARIANT NeverStuck
INVARIANT SpinnerIdle
CHECK_DEADLOCK FALSE
