------------------------------- MODULE Content -------------------------------
(***************************************************************************)
(* testtools.content / content_type (property C16).  Six small machines,   *)
(* selected by the constant Machine; the variables of the others idle.     *)
(*                                                                         *)
(*  "read"   content_from_stream / content_from_file: the _iter_chunks     *)
(*           read loop (content.py:34-48) as actions Create, IterBytes,    *)
(*           Enter, Open, Seek, Read, Yield, Stop, IterBuffered, Mutate;   *)
(*           the source logs every open/seek/read/close (`calls`).         *)
(*  "decode" Content._iter_text: an incremental decoder fed chunk by       *)
(*           chunk (Feed) and flushed (Flush), over UTF-8 shaped units     *)
(*           A | L2 C | L3 C C | L4 C C C, or one char per unit when no    *)
(*           charset is declared (ISO-8859-1).                             *)
(*  "ctype"  ContentType.__repr__ (Render) and _make_content_type (Parse)  *)
(*           over class-alphabet parameter values.                         *)
(*  "snap"   _copy_content / gather_details: Gather copies, Mutate changes *)
(*           the source afterwards.                                        *)
(*  "eq"     Content.__eq__ rows;  "text" text_content/json_content rows.  *)
(*  "dechist" HISTORIES of iter_text()/as_text() calls over two contents   *)
(*           of one charset: StartIter, NextChunk, Abandon, DecodeAll;     *)
(*           contents may be truncated (their decode raises).              *)
(*                                                                         *)
(* In each machine the MECHANISM follows the code and the MEANING is       *)
(* written independently (by positions / history), related by invariants.  *)
(***************************************************************************)
EXTENDS Integers, Sequences, FiniteSets, TLC, Json, SequencesExt

CONSTANTS
    Machine,      \* "read" | "decode" | "ctype" | "snap" | "eq" | "text"
    MaxN,         \* read / eq: data lengths 0..MaxN
    MaxK,         \* read: chunk sizes 1..MaxK
    MaxU,         \* decode: unit strings up to MaxU units;  text: strings up to MaxU characters
    MaxChunks,    \* decode / eq: 0..MaxChunks chunks (empty chunks included)
    CtShape,      \* ctype: which parameter sets are enumerated (see CtParamSets)
    MaxSteps,     \* snap: number of Gather/Mutate steps
    Escaping,     \* ctype: "asRequired" (Render escapes a backslash) | "asCoded" (it does not: known finding)
    CopyVariant,  \* snap: "copy" (as required and as coded) | "lazyRef" (negative control: keeps a reference)
    Catalogue,    \* dechist: the text contents (units, cuts, valid) two of which share a charset in a history
    MaxHist,      \* dechist: number of calls in a history
    EqKinds,      \* eq: kinds of operand: subset of {"plain", "subclass", "snapshot", "subsnapshot"}
    DecoderScope  \* dechist: "perIteration" (as required and as coded) | "sharedCached" (negative control: one
                  \*          decoder per charset, reset only when an iteration ran to completion)

Off == "off"
VARIABLES rd, dc, ct, sn, row, dh, hist
vars == <<rd, dc, ct, sn, row, dh, hist>>

MinOf(a, b) == IF a < b THEN a ELSE b
Concat(chunks) == FlattenSeq(chunks)
Log(e) == hist' = Append(hist, e)
OnlyRd == UNCHANGED <<dc, ct, sn, row, dh>>
OnlyDc == UNCHANGED <<rd, ct, sn, row, dh>>
OnlyCt == UNCHANGED <<rd, dc, sn, row, dh>>
OnlySn == UNCHANGED <<rd, dc, ct, row, dh>>
OnlyDh == UNCHANGED <<rd, dc, ct, sn, row>>

-----------------------------------------------------------------------------
(* READ LOOP                                                                *)
(* data[i] are abstract bytes (distinct integers); pos is the position of   *)
(* the stream (kind "stream": the caller's stream, it persists) or of the   *)
(* handle opened for this iteration (kind "file").  cap < k models a source *)
(* whose read(k) returns fewer than k bytes before EOF (short reads).       *)

Data(n, base) == [i \in 1..n |-> base + i]
NoSeek == [on |-> FALSE, off |-> 0, wh |-> 0]
\* offsets before / at / after EOF for both origins; resulting positions 0..n+2
Seeks(n) == {NoSeek} \cup {[on |-> TRUE, off |-> o, wh |-> 0] : o \in 0..(n + 2)}
                     \cup {[on |-> TRUE, off |-> o - n, wh |-> 2] : o \in 0..(n + 2)}
\* "mutate": the source changes between creation and the first serialisation;
\* "remutate": between two COMPLETE serialisations of the same content
Scenarios == {"once", "twice", "mutate", "remutate"}
NIter(sc) == IF sc \in {"twice", "remutate"} THEN 2 ELSE 1
MutKinds == {"append", "truncate", "rewrite"}
Changes(sc) == sc \in {"mutate", "remutate"}

InitRead ==
    \E n \in 0..MaxN, k \in 1..MaxK, bnow \in BOOLEAN, kind \in {"stream", "file"}, sc \in Scenarios :
    \E seek \in Seeks(n), cap \in {k, IF kind = "stream" /\ k > 1 THEN k - 1 ELSE k},
       pos0 \in {0, IF kind = "stream" /\ n > 0 THEN 1 ELSE 0} :
        /\ (pos0 > 0 => ~seek.on)       \* a pre-positioned stream only matters when no seek is requested
        /\ \E mk \in MutKinds :
           /\ (~Changes(sc) => mk = "append")                          \* irrelevant then: one representative
           /\ (Changes(sc) /\ mk # "append" => n >= 1)                 \* something to truncate / rewrite
           /\ (Changes(sc) /\ mk = "truncate" /\ seek.on /\ seek.wh = 2 => (n - 1) + seek.off >= 0)   \* target stays >= 0
           /\ rd = [mk |-> mk, data |-> Data(n, 0), k |-> k, seek |-> seek, bnow |-> bnow, kind |-> kind, cap |-> cap,
                 sc |-> sc, pos |-> pos0, pc |-> "new", sink |-> "none", calls |-> <<>>, chunk |-> <<>>,
                 out |-> <<>>, buf |-> <<>>, outs |-> <<>>, iters |-> 0, mutated |-> FALSE,
                 d0 |-> <<>>, p0 |-> 0, cdone |-> 0, n0 |-> n, pos0 |-> pos0]

IsRead == Machine = "read"

\* content_from_stream(...) / content_from_file(...): with buffer_now the reader runs now into `buf`
Create ==
    /\ OnlyRd
    /\ IsRead /\ rd.pc = "new"
    /\ rd' = IF rd.bnow THEN [rd EXCEPT !.pc = "start", !.sink = "buf"] ELSE [rd EXCEPT !.pc = "created"]
    /\ Log([a |-> "Create"])

\* the source changes (a byte appended / the last byte cut off / every byte rewritten)
Mutate ==
    /\ OnlyRd
    /\ IsRead /\ ~rd.mutated
    /\ \/ rd.sc = "mutate" /\ rd.pc = "created"
       \/ rd.sc = "remutate" /\ rd.pc = "itdone" /\ rd.iters = 1
    /\ rd' = [rd EXCEPT !.mutated = TRUE,
                        !.data = CASE rd.mk = "append"   -> rd.data \o <<91>>
                                   [] rd.mk = "truncate" -> SubSeq(rd.data, 1, Len(rd.data) - 1)
                                   [] OTHER              -> Data(Len(rd.data), 50)]
    /\ Log([a |-> "Mutate", how |-> rd.mk, data |-> rd'.data])

\* content.iter_bytes() on a lazy content: a generator is made, nothing runs yet
IterBytes ==
    /\ OnlyRd
    /\ IsRead /\ ~rd.bnow /\ rd.pc \in {"created", "itdone"} /\ rd.iters < NIter(rd.sc)
    /\ rd.sc = "mutate" => rd.mutated
    /\ rd.sc = "remutate" /\ rd.iters = 1 => rd.mutated
    /\ rd' = [rd EXCEPT !.pc = "start", !.sink = "out", !.out = <<>>]
    /\ Log([a |-> "IterBytes"])

\* content.iter_bytes() on a buffered content: the list made at creation, no source access
IterBuffered ==
    /\ OnlyRd
    /\ IsRead /\ rd.bnow /\ rd.pc \in {"created", "itdone"} /\ rd.iters < NIter(rd.sc)
    /\ rd.sc = "mutate" => rd.mutated
    /\ rd.sc = "remutate" /\ rd.iters = 1 => rd.mutated
    /\ rd' = [rd EXCEPT !.pc = "itdone", !.outs = Append(@, rd.buf), !.iters = @ + 1]
    /\ Log([a |-> "IterBuffered", chunks |-> rd.buf, bytes |-> Concat(rd.buf)])

\* first next(): the reader starts (d0, p0 remember what the source looked like: used by the meaning only)
Enter ==
    /\ OnlyRd
    /\ IsRead /\ rd.pc = "start"
    /\ rd' = [rd EXCEPT !.d0 = rd.data, !.p0 = IF rd.kind = "file" THEN 0 ELSE rd.pos,
                        !.pc = IF rd.kind = "file" THEN "open" ELSE IF rd.seek.on THEN "seek" ELSE "read"]
    /\ Log([a |-> "Enter", sink |-> rd.sink])

Open ==
    /\ OnlyRd
    /\ IsRead /\ rd.pc = "open"
    /\ rd' = [rd EXCEPT !.pos = 0, !.calls = Append(@, [op |-> "open", a |-> 0, b |-> 0]),
                        !.pc = IF rd.seek.on THEN "seek" ELSE "read"]
    /\ Log([a |-> "Open", sink |-> rd.sink])

Seek ==
    /\ OnlyRd
    /\ IsRead /\ rd.pc = "seek"
    /\ rd' = [rd EXCEPT !.pos = IF rd.seek.wh = 0 THEN rd.seek.off ELSE Len(rd.data) + rd.seek.off,
                        !.calls = Append(@, [op |-> "seek", a |-> rd.seek.off, b |-> rd.seek.wh]),
                        !.pc = "read"]
    /\ Log([a |-> "Seek", sink |-> rd.sink])

Read ==
    /\ OnlyRd
    /\ IsRead /\ rd.pc = "read"
    /\ LET left == IF rd.pos < Len(rd.data) THEN Len(rd.data) - rd.pos ELSE 0
           r    == MinOf(MinOf(rd.k, rd.cap), left)
       IN rd' = [rd EXCEPT !.chunk = SubSeq(rd.data, rd.pos + 1, rd.pos + r), !.pos = @ + r,
                           !.calls = Append(@, [op |-> "read", a |-> rd.k, b |-> r]), !.pc = "got"]
    /\ Log([a |-> "Read", sink |-> rd.sink])

\* `while chunk: yield chunk`
Yield ==
    /\ OnlyRd
    /\ IsRead /\ rd.pc = "got" /\ rd.chunk # <<>>
    /\ rd' = IF rd.sink = "buf" THEN [rd EXCEPT !.buf = Append(@, rd.chunk), !.pc = "read"]
             ELSE [rd EXCEPT !.out = Append(@, rd.chunk), !.pc = "read"]
    /\ Log([a |-> "Yield", sink |-> rd.sink, chunk |-> rd.chunk])

Stop ==
    /\ OnlyRd
    /\ IsRead /\ rd.pc = "got" /\ rd.chunk = <<>>
    /\ LET calls2 == IF rd.kind = "file" THEN Append(rd.calls, [op |-> "close", a |-> 0, b |-> 0]) ELSE rd.calls
       IN rd' = IF rd.sink = "buf"
                THEN [rd EXCEPT !.calls = calls2, !.pc = "created", !.cdone = Len(calls2)]
                ELSE [rd EXCEPT !.calls = calls2, !.pc = "itdone", !.outs = Append(@, rd.out), !.iters = @ + 1]
    /\ Log([a |-> "Stop", sink |-> rd.sink, calls |-> rd'.calls,
            chunks |-> IF rd.sink = "buf" THEN rd.buf ELSE rd.out,
            bytes |-> Concat(IF rd.sink = "buf" THEN rd.buf ELSE rd.out)])

NextRead == Create \/ Mutate \/ IterBytes \/ IterBuffered \/ Enter \/ Open \/ Seek \/ Read \/ Yield \/ Stop
ReadTerminal == rd.pc \in {"created", "itdone"} /\ rd.iters = NIter(rd.sc)

(* MEANING: the bytes from the requested offset to EOF, of the source as it was when reading started *)
StartM == IF rd.seek.on THEN (IF rd.seek.wh = 0 THEN rd.seek.off ELSE Len(rd.d0) + rd.seek.off) ELSE rd.p0
ExpectedM == IF StartM >= Len(rd.d0) THEN <<>> ELSE SubSeq(rd.d0, StartM + 1, Len(rd.d0))

ReadAll ==
    IsRead =>
        /\ (rd.pc = "itdone" => Concat(rd.outs[Len(rd.outs)]) = ExpectedM)
        /\ (rd.bnow /\ rd.pc \in {"created", "itdone"} => Concat(rd.buf) = ExpectedM)
ChunkBounds ==
    IsRead => \A cs \in {rd.out, rd.buf} \cup {rd.outs[i] : i \in DOMAIN rd.outs} :
                 \A j \in DOMAIN cs : Len(cs[j]) >= 1 /\ Len(cs[j]) <= rd.k
\* nothing touches the source before the first next() of a lazy content ...
Lazy == IsRead /\ ~rd.bnow /\ rd.iters = 0 /\ rd.pc \in {"new", "created", "start"} => rd.calls = <<>>
\* ... and nothing touches it after the creation of a buffered one, whose bytes are those of creation time
Buffered == IsRead /\ rd.bnow /\ rd.pc \in {"created", "itdone"} =>
                /\ Len(rd.calls) = rd.cdone
                /\ \A i \in DOMAIN rd.outs : rd.outs[i] = rd.buf
                /\ (rd.mutated => rd.d0 # rd.data)

-----------------------------------------------------------------------------
(* INCREMENTAL DECODER                                                      *)

CharUnits == { <<"A">>, <<"L2", "C">>, <<"L3", "C", "C">>, <<"L4", "C", "C", "C">> }
RECURSIVE CharSeqs(_)        \* all sequences of characters whose units number at most n
CharSeqs(n) == {<<>>} \cup UNION { { <<c>> \o s : s \in CharSeqs(n - Len(c)) } : c \in {x \in CharUnits : Len(x) <= n} }
RECURSIVE CutsExact(_, _)    \* all ways to cut n units into exactly c chunks (empty chunks allowed)
CutsExact(n, c) == IF c = 0 THEN (IF n = 0 THEN {<<>>} ELSE {})
                   ELSE UNION { { <<a>> \o r : r \in CutsExact(n - a, c - 1) } : a \in 0..n }
Cuts(n, m) == UNION { CutsExact(n, c) : c \in 0..m }

InitDecode ==
    \E s \in CharSeqs(MaxU), mode \in {"utf8", "latin1"} :
    \E cuts \in Cuts(Len(Concat(s)), MaxChunks) :
        dc = [units |-> Concat(s), cuts |-> cuts, mode |-> mode, fed |-> 0, pos |-> 0,
              pending |-> <<>>, out |-> <<>>, pc |-> "feeding"]

IsDecode == Machine = "decode"
Need(u) == CASE u = "A" -> 1 [] u = "L2" -> 2 [] u = "L3" -> 3 [] u = "L4" -> 4 [] OTHER -> 1

\* MECHANISM: decoder.decode(chunk): complete characters come out, an incomplete tail is kept
RECURSIVE Take(_)
Take(b) == IF b = <<>> THEN [chars |-> <<>>, rest |-> <<>>]
           ELSE IF Len(b) < Need(b[1]) THEN [chars |-> <<>>, rest |-> b]
           ELSE LET r == Take(SubSeq(b, Need(b[1]) + 1, Len(b)))
                IN [chars |-> <<SubSeq(b, 1, Need(b[1]))>> \o r.chars, rest |-> r.rest]

Feed ==
    /\ OnlyDc
    /\ IsDecode /\ dc.pc = "feeding" /\ dc.fed < Len(dc.cuts)
    /\ LET chunk == SubSeq(dc.units, dc.pos + 1, dc.pos + dc.cuts[dc.fed + 1])
           t == IF dc.mode = "latin1" THEN [chars |-> [i \in DOMAIN chunk |-> <<chunk[i]>>], rest |-> <<>>]
                ELSE Take(dc.pending \o chunk)
       IN /\ dc' = [dc EXCEPT !.fed = @ + 1, !.pos = @ + Len(chunk), !.pending = t.rest, !.out = @ \o t.chars]
          /\ Log([a |-> "Feed", chunk |-> chunk, piece |-> t.chars])

\* decoder.decode(b"", True)
Flush ==
    /\ OnlyDc
    /\ IsDecode /\ dc.pc = "feeding" /\ dc.fed = Len(dc.cuts)
    /\ dc' = [dc EXCEPT !.pc = IF dc.pending = <<>> THEN "done" ELSE "error"]
    /\ Log([a |-> "Flush", text |-> dc.out, ok |-> dc.pending = <<>>])

NextDecode == Feed \/ Flush
DecodeTerminal == dc.pc \in {"done", "error"}

\* MEANING: a character starts wherever a unit is not a continuation
StartsM(u) == {i \in DOMAIN u : u[i] # "C"}
CharsM(u) == LET st == SetToSortSeq(StartsM(u), LAMBDA a, b : a < b)
             IN [j \in DOMAIN st |-> SubSeq(u, st[j], IF j = Len(st) THEN Len(u) ELSE st[j + 1] - 1)]
WholeM == IF dc.mode = "latin1" THEN [i \in DOMAIN dc.units |-> <<dc.units[i]>>] ELSE CharsM(dc.units)

DecodeWhole  == IsDecode /\ DecodeTerminal => dc.pc = "done" /\ dc.out = WholeM
\* at every cut: what came out plus what is held back is exactly what went in
DecodeConserves == IsDecode => Concat(dc.out) \o dc.pending = SubSeq(dc.units, 1, dc.pos)

-----------------------------------------------------------------------------
(* DECODER HISTORIES: several iterations over two contents of one charset   *)
(* Each iter_text() generator owns its decoder (content.py: the decoder is  *)
(* made inside _iter_text).  NextChunk is one next() on a generator: it     *)
(* feeds one chunk, or - after the last chunk - flushes (StopIteration, or  *)
(* UnicodeDecodeError when bytes are still pending).  Abandon drops a       *)
(* generator wherever it stands.  DecodeAll is as_text(): a fresh iteration *)
(* run to its end.  A decode error leaves the decoder's buffer as it was.   *)

IsDh == Machine = "dechist"
NoGen == [live |-> FALSE, fed |-> 0, pos |-> 0, pending |-> <<>>, out |-> <<>>]
Shared == DecoderScope = "sharedCached"

AllC(s) == \A i \in DOMAIN s : s[i] = "C"
\* MECHANISM: decode that notices invalid sequences (needed once foreign bytes can be pending)
RECURSIVE TakeV(_)
TakeV(b) ==
    IF b = <<>> THEN [chars |-> <<>>, rest |-> <<>>, err |-> FALSE]
    ELSE IF b[1] = "C" THEN [chars |-> <<>>, rest |-> b, err |-> TRUE]
    ELSE LET need == Need(b[1])
             have == MinOf(Len(b), need)
         IN IF ~AllC(SubSeq(b, 2, have)) THEN [chars |-> <<>>, rest |-> b, err |-> TRUE]
            ELSE IF Len(b) < need THEN [chars |-> <<>>, rest |-> b, err |-> FALSE]
            ELSE LET r == TakeV(SubSeq(b, need + 1, Len(b)))
                 IN [chars |-> <<SubSeq(b, 1, need)>> \o r.chars, rest |-> r.rest, err |-> r.err]

\* a whole iteration: chunks i.. of content cn, starting with `pend` pending
RECURSIVE RunAll(_, _, _, _, _)
RunAll(cn, i, pos, pend, out) ==
    IF i > Len(cn.cuts)
    THEN (IF pend = <<>> THEN [ok |-> TRUE, text |-> out, pend |-> <<>>] ELSE [ok |-> FALSE, text |-> out, pend |-> pend])
    ELSE LET t == TakeV(pend \o SubSeq(cn.units, pos + 1, pos + cn.cuts[i]))
         IN IF t.err THEN [ok |-> FALSE, text |-> out, pend |-> pend]
            ELSE RunAll(cn, i + 1, pos + cn.cuts[i], t.rest, out \o t.chars)

InitDh == \E c1, c2 \in Catalogue :
             dh = [cont |-> <<c1, c2>>, gen |-> <<NoGen, NoGen>>, shared |-> <<>>, results |-> <<>>, n |-> 0]

Step(d) == [d EXCEPT !.n = @ + 1]

\* g = content.iter_text(): nothing runs yet
StartIter(c) ==
    /\ OnlyDh
    /\ IsDh /\ dh.n < MaxHist /\ ~dh.gen[c].live
    /\ dh' = Step([dh EXCEPT !.gen[c] = [NoGen EXCEPT !.live = TRUE]])
    /\ Log([a |-> "StartIter", c |-> c])

\* next(g)
NextChunk(c) ==
    /\ OnlyDh
    /\ IsDh /\ dh.n < MaxHist /\ dh.gen[c].live
    /\ LET g    == dh.gen[c]
           cn   == dh.cont[c]
           pend == IF Shared THEN dh.shared ELSE g.pending
       IN IF g.fed < Len(cn.cuts)
          THEN LET len == cn.cuts[g.fed + 1]
                   t   == TakeV(pend \o SubSeq(cn.units, g.pos + 1, g.pos + len))
               IN IF t.err
                  THEN /\ dh' = Step([dh EXCEPT !.gen[c] = NoGen, !.results = Append(@, [c |-> c, ok |-> FALSE, text |-> g.out])])
                       /\ Log([a |-> "NextChunk", c |-> c, res |-> "raise", piece |-> <<>>])
                  ELSE /\ dh' = Step([dh EXCEPT !.gen[c] = [g EXCEPT !.fed = @ + 1, !.pos = @ + len, !.out = @ \o t.chars,
                                                                      !.pending = IF Shared THEN <<>> ELSE t.rest],
                                                !.shared = IF Shared THEN t.rest ELSE @])
                       /\ Log([a |-> "NextChunk", c |-> c, res |-> "piece", piece |-> t.chars])
          ELSE IF pend = <<>>
               THEN /\ dh' = Step([dh EXCEPT !.gen[c] = NoGen, !.shared = <<>>,
                                             !.results = Append(@, [c |-> c, ok |-> TRUE, text |-> g.out])])
                    /\ Log([a |-> "NextChunk", c |-> c, res |-> "stop", piece |-> g.out])
               ELSE /\ dh' = Step([dh EXCEPT !.gen[c] = NoGen, !.results = Append(@, [c |-> c, ok |-> FALSE, text |-> g.out])])
                    /\ Log([a |-> "NextChunk", c |-> c, res |-> "raise", piece |-> <<>>])

\* del g / g.close() before it finished
Abandon(c) ==
    /\ OnlyDh
    /\ IsDh /\ dh.n < MaxHist /\ dh.gen[c].live
    /\ dh' = Step([dh EXCEPT !.gen[c] = NoGen])
    /\ Log([a |-> "Abandon", c |-> c])

\* content.as_text()
DecodeAll(c) ==
    /\ OnlyDh
    /\ IsDh /\ dh.n < MaxHist
    /\ LET r == RunAll(dh.cont[c], 1, 0, IF Shared THEN dh.shared ELSE <<>>, <<>>)
       IN /\ dh' = Step([dh EXCEPT !.shared = IF Shared THEN r.pend ELSE @,
                                   !.results = Append(@, [c |-> c, ok |-> r.ok, text |-> r.text])])
          /\ Log([a |-> "DecodeAll", c |-> c, res |-> IF r.ok THEN "text" ELSE "raise", piece |-> r.text])

DhTerminal == dh.n = MaxHist

\* MEANING: every completed as_text() / full iteration of a VALID content is Decode(whole bytes of THAT content),
\* whatever happened to other iterations before or in between
PerIterationDecode ==
    IsDh => \A i \in DOMAIN dh.results :
               LET r == dh.results[i] cn == dh.cont[r.c]
               IN cn.valid => r.ok /\ r.text = CharsM(cn.units)
\* sanity of the catalogue: a truncated content never decodes
TruncatedRaises ==
    IsDh /\ ~Shared => \A i \in DOMAIN dh.results : ~dh.cont[dh.results[i].c].valid => ~dh.results[i].ok

-----------------------------------------------------------------------------
(* CONTENT TYPE RENDER / PARSE                                              *)
(* A parameter value is a sequence of character classes; Render produces a  *)
(* token sequence in which ; = / and space INSIDE a value are the same      *)
(* tokens as the separators, so Parse has to honour the quotes.             *)

Classes   == {"alnum", "space", "semi", "eq", "slash", "comma", "bslash", "nonascii"}   \* no quote characters
Names     == <<"a", "charset", "k">>                                                  \* in sort order
Types     == {"text", "application", "x-v"}
Subtypes  == {"plain", "x-traceback", "vnd.a-b_c+d.1"}
Values(n) == UNION {[1..l -> Classes] : l \in 0..n}

Sep(s)  == [t |-> "sep", v |-> s]
Word(s) == [t |-> "word", v |-> s]
Ch(c)   == [t |-> "ch", v |-> c]
DQ      == Sep("dq")

TokOf(c) == CASE c = "space" -> <<Sep(" ")>> [] c = "semi" -> <<Sep(";")>> [] c = "eq" -> <<Sep("=")>>
              [] c = "slash" -> <<Sep("/")>>
              [] c = "bslash" -> (IF Escaping = "asRequired" THEN <<Ch("bslash"), Ch("bslash")>> ELSE <<Ch("bslash")>>)
              [] OTHER -> <<Ch(c)>>
ClassOf(tok) == IF tok.t = "ch" THEN tok.v
                ELSE CASE tok.v = " " -> "space" [] tok.v = ";" -> "semi" [] tok.v = "=" -> "eq"
                       [] tok.v = "/" -> "slash" [] OTHER -> "dq"

\* MECHANISM: ContentType.__repr__ : type/subtype then '; '.join(sorted('k="v"'))
RenderParam(n, v) == <<Word(n), Sep("="), DQ>> \o FlattenSeq([i \in DOMAIN v |-> TokOf(v[i])]) \o <<DQ>>
Render(c) == <<Word(c.type), Sep("/"), Word(c.subtype)>>
             \o FlattenSeq([i \in DOMAIN Names |->
                   IF Names[i] \in DOMAIN c.params
                   THEN <<Sep(";"), Sep(" ")>> \o RenderParam(Names[i], c.params[Names[i]]) ELSE <<>>])

\* MECHANISM: the header parser behind _make_content_type: quoted-string with quoted-pair (backslash escapes)
RECURSIVE ScanValue(_, _, _)
ScanValue(w, i, acc) ==
    IF i > Len(w) THEN [val |-> acc, next |-> i]                        \* unterminated: take what is there
    ELSE IF w[i] = DQ THEN [val |-> acc, next |-> i + 1]
    ELSE IF w[i] = Ch("bslash") /\ i < Len(w) THEN ScanValue(w, i + 2, Append(acc, ClassOf(w[i + 1])))
    ELSE ScanValue(w, i + 1, Append(acc, ClassOf(w[i])))
RECURSIVE ScanParams(_, _, _)
ScanParams(w, i, acc) ==
    IF i + 4 > Len(w) \/ w[i] # Sep(";") THEN acc
    ELSE LET sv == ScanValue(w, i + 5, <<>>)            \* ; SP name = " ....
         IN ScanParams(w, sv.next, acc @@ (w[i + 2].v :> sv.val))
\* _make_content_type keeps a charset only up to its first comma (documented work-around for old emitters)
RECURSIVE UpToComma(_)
UpToComma(v) == IF v = <<>> \/ v[1] = "comma" THEN <<>> ELSE <<v[1]>> \o UpToComma(Tail(v))
Parse(w) == LET ps == ScanParams(w, 4, <<>>)
            IN [type |-> w[1].v, subtype |-> w[3].v,
                params |-> [n \in DOMAIN ps |-> IF n = "charset" THEN UpToComma(ps[n]) ELSE ps[n]]]

\* the property's domain: lower-case token type/subtype (by construction), parameters free of quote characters (by
\* construction); a charset is the name of a codec: values containing a comma are kept OUT of the verdict (DRIFT only)
InDomain(c) == "charset" \in DOMAIN c.params => \A i \in DOMAIN c.params["charset"] : c.params["charset"][i] # "comma"

\* parameter sets per CtShape: "one" = a single parameter with every value up to 2 (a, k) / 3 classes (a);
\* "pairs"/"triple" = several parameters with values up to 1 class / a few chosen values
Picked == {<<>>, <<"alnum">>, <<"semi", "space">>, <<"nonascii", "eq">>, <<"bslash">>, <<"comma", "slash">>}
CtParamSets ==
    CASE CtShape = "one"   -> {<<>>} \cup UNION { {(Names[i] :> v) : v \in Values(2)} : i \in 1..3 }
      [] CtShape = "one3"  -> {("a" :> v) : v \in Values(3)}
      [] CtShape = "pairs" -> UNION { {(Names[ij[1]] :> v1) @@ (Names[ij[2]] :> v2) : v1, v2 \in Values(1)} :
                                       ij \in {<<1, 2>>, <<1, 3>>, <<2, 3>>} }
      [] CtShape = "triple" -> {("a" :> v1) @@ ("charset" :> v2) @@ ("k" :> v3) : v1, v2, v3 \in Picked}
      [] OTHER -> {<<>>}

InitCtype ==
    \E t \in Types, s \in Subtypes, ps \in CtParamSets :
        /\ (CtShape # "one" => t = "text" /\ s = "x-traceback")
        /\ ct = [c |-> [type |-> t, subtype |-> s, params |-> ps], wire |-> <<>>, parsed |-> <<>>, pc |-> "new"]

IsCtype == Machine = "ctype"
DoRender ==
    /\ OnlyCt
    /\ IsCtype /\ ct.pc = "new"
    /\ ct' = [ct EXCEPT !.wire = Render(ct.c), !.pc = "rendered"]
    /\ Log([a |-> "Render", type |-> ct.c.type, subtype |-> ct.c.subtype,
            params |-> [i \in DOMAIN Names |-> [name |-> Names[i], has |-> Names[i] \in DOMAIN ct.c.params,
                            val |-> IF Names[i] \in DOMAIN ct.c.params THEN ct.c.params[Names[i]] ELSE <<>>]],
            indomain |-> InDomain(ct.c)])
DoParse ==
    /\ OnlyCt
    /\ IsCtype /\ ct.pc = "rendered"
    /\ ct' = [ct EXCEPT !.parsed = Parse(ct.wire), !.pc = "parsed"]
    /\ Log([a |-> "Parse", equal |-> ct'.parsed = ct.c,
            params |-> [i \in DOMAIN Names |-> [name |-> Names[i], has |-> Names[i] \in DOMAIN ct'.parsed.params,
                            val |-> IF Names[i] \in DOMAIN ct'.parsed.params THEN ct'.parsed.params[Names[i]] ELSE <<>>]]])
NextCtype == DoRender \/ DoParse
CtypeTerminal == ct.pc = "parsed"

RoundTrip == IsCtype /\ ct.pc = "parsed" /\ InDomain(ct.c) => ct.parsed = ct.c

-----------------------------------------------------------------------------
(* SNAPSHOT: copies made when details are gathered                          *)

SrcInits == { <<>>, << <<1>> >>, << <<1, 2>>, <<3>> >>, << <<>>, <<1>> >> }
InitSnap == \E s \in SrcInits : sn = [src |-> s, copies |-> <<>>, step |-> 0, log |-> <<Concat(s)>>]
IsSnap == Machine = "snap"
Vias == {"copy_content", "gather_details", "fixture"}

\* MECHANISM: _copy_content: content_bytes = list(content_object.iter_bytes()), served from then on
BytesOfCopy(c) == IF CopyVariant = "lazyRef" THEN Concat(sn.src) ELSE c.bytes
Gather(via) ==
    /\ OnlySn
    /\ IsSnap /\ sn.step < MaxSteps
    /\ sn' = [sn EXCEPT !.copies = Append(@, [at |-> sn.step, bytes |-> Concat(sn.src), via |-> via]),
                        !.step = @ + 1, !.log = Append(@, Concat(sn.src))]
    /\ Log([a |-> "Gather", via |-> via, src |-> sn.src,
            copies |-> [i \in DOMAIN sn'.copies |-> sn'.copies[i].bytes]])
MutateSrc(m) ==
    /\ OnlySn
    /\ IsSnap /\ sn.step < MaxSteps /\ sn.copies # <<>>
    /\ LET new == CASE m = "append"  -> Append(sn.src, <<7, 8>>)
                    [] m = "replace" -> << <<9>> >>
                    [] OTHER         -> <<>>
       IN /\ new # sn.src
          /\ sn' = [sn EXCEPT !.src = new, !.step = @ + 1, !.log = Append(@, Concat(new))]
          /\ Log([a |-> "Mutate", how |-> m, src |-> new,
                  copies |-> [i \in DOMAIN sn.copies |-> sn.copies[i].bytes]])
NextSnap == (\E via \in Vias : Gather(via)) \/ (\E m \in {"append", "replace", "clear"} : MutateSrc(m))
SnapTerminal == sn.step = MaxSteps

\* MEANING: a copy shows the bytes the source had at the step it was gathered (log is the source's history)
Snapshot == IsSnap => \A i \in DOMAIN sn.copies : BytesOfCopy(sn.copies[i]) = sn.log[sn.copies[i].at + 1]

-----------------------------------------------------------------------------
(* EQUALITY rows and TEXT / JSON rows (one state per row)                   *)

\* 1: text/plain; charset=utf8   2: text/plain (no parameter)   3: application/octet-stream   4: text/x-other
EqTypes == 1..4
RECURSIVE SumTo(_, _)
SumTo(cs, i) == IF i = 0 THEN 0 ELSE cs[i] + SumTo(cs, i - 1)
SumBefore(cs, i) == SumTo(cs, i - 1)
Chunkings(d) == { [i \in DOMAIN cs |-> SubSeq(d, 1 + SumBefore(cs, i), SumBefore(cs, i) + cs[i])] : cs \in Cuts(Len(d), MaxChunks) }
EqData == UNION {[1..l -> {1, 2}] : l \in 0..MaxN}

\* MECHANISM: Content.__eq__: content_type == content_type and join(iter_bytes) == join(iter_bytes)
EqMech(r) == r.t1 = r.t2 /\ Concat(r.c1) = Concat(r.c2)
\* operand kinds: a plain Content, an instance of a subclass of Content, and the _copy_content snapshot of either;
\* the kind is NOT part of equality (the mechanism never looks at it)
InitEq == \E t1, t2 \in EqTypes, d1, d2 \in EqData, k1, k2 \in EqKinds :
          \E c1 \in Chunkings(d1), c2 \in Chunkings(d2) :
             row = [t1 |-> t1, t2 |-> t2, d1 |-> d1, d2 |-> d2, c1 |-> c1, c2 |-> c2, k1 |-> k1, k2 |-> k2]
\* MEANING: equality of type and bytes, whatever the chunking
EqByTypeAndBytes == Machine = "eq" => (EqMech(row) <=> (row.t1 = row.t2 /\ row.d1 = row.d2))

\* text classes -> UTF-8 unit shape;  JSON escaping of the classes json.dumps must escape
TextClasses == {"ascii", "nul", "latin", "combining", "bmp", "astral", "quote", "bslash", "newline"}
UnitsOf(c) == CASE c \in {"latin", "combining"} -> <<"L2", "C">> [] c = "bmp" -> <<"L3", "C", "C">>
                [] c = "astral" -> <<"L4", "C", "C", "C">> [] OTHER -> <<"A">>
Encode(s) == FlattenSeq([i \in DOMAIN s |-> UnitsOf(s[i])])
InitText == \E l \in 0..MaxU : \E s \in [1..l -> TextClasses] : row = [s |-> s]
\* MEANING: decoding the encoding gives the characters back, one per class, in order
TextRoundTrip == Machine = "text" => CharsM(Encode(row.s)) = [i \in DOMAIN row.s |-> UnitsOf(row.s[i])]

-----------------------------------------------------------------------------
Idle(v) == v = Off
Init ==
    /\ hist = <<>>
    /\ IF Machine = "read"   THEN InitRead   ELSE Idle(rd)
    /\ IF Machine = "decode" THEN InitDecode ELSE Idle(dc)
    /\ IF Machine = "ctype"  THEN InitCtype  ELSE Idle(ct)
    /\ IF Machine = "snap"   THEN InitSnap   ELSE Idle(sn)
    /\ IF Machine = "eq" THEN InitEq ELSE IF Machine = "text" THEN InitText ELSE Idle(row)
    /\ IF Machine = "dechist" THEN InitDh ELSE Idle(dh)

Next ==
    \/ Create \/ Mutate \/ IterBytes \/ IterBuffered \/ Enter \/ Open \/ Seek \/ Read \/ Yield \/ Stop
    \/ Feed \/ Flush
    \/ DoRender \/ DoParse
    \/ \E via \in Vias : Gather(via)
    \/ \E m \in {"append", "replace", "clear"} : MutateSrc(m)
    \/ \E c \in {1, 2} : StartIter(c)
    \/ \E c \in {1, 2} : NextChunk(c)
    \/ \E c \in {1, 2} : Abandon(c)
    \/ \E c \in {1, 2} : DecodeAll(c)

Spec == Init /\ [][Next]_vars

-----------------------------------------------------------------------------
(* Export                                                                   *)
Terminal == CASE Machine = "read" -> ReadTerminal [] Machine = "decode" -> DecodeTerminal
              [] Machine = "ctype" -> CtypeTerminal [] Machine = "snap" -> SnapTerminal [] Machine = "dechist" -> DhTerminal [] OTHER -> FALSE
Scenario == CASE Machine = "read" -> [n |-> rd.n0, k |-> rd.k, seek |-> rd.seek, bnow |-> rd.bnow, kind |-> rd.kind,
                                      cap |-> rd.cap, sc |-> rd.sc, mk |-> rd.mk, pos0 |-> rd.pos0]
              [] Machine = "decode" -> [units |-> dc.units, cuts |-> dc.cuts, mode |-> dc.mode]
              [] Machine = "dechist" -> [cont |-> dh.cont]
              [] OTHER -> [m |-> Machine]
\* behaviours: the scenario is what Init chose (those fields never change), hist the actions with their observations
ExportC == Terminal => PrintT(<<"EXPORT", ToJson([init |-> Scenario, hist |-> hist])>>)
\* rows (an INVARIANT is evaluated once per distinct state)
ExportRow == PrintT(<<"EXPORT", ToJson(IF Machine = "eq" THEN [row |-> row, equal |-> EqMech(row)]
                                       ELSE [row |-> row, units |-> Encode(row.s), nbytes |-> Len(Encode(row.s))])>>)
ViewNoHist == <<rd, dc, ct, sn, row, dh>>
=============================================================================
