------------------------------ MODULE MCContent ------------------------------
(* Model-checking instances of Content: all bounds are plain constants set in the ct_*.cfg files. *)
EXTENDS Content
=============================================================================
