------------------------------ MODULE MCContent ------------------------------
(* Model-checking instances of Content: all bounds are plain constants set in the ct_*.cfg files. *)
EXTENDS Content

Cont(u, c, v) == [units |-> u, cuts |-> c, valid |-> v]
KindsPlain == {"plain"}
KindsAll == {"plain", "subclass", "snapshot", "subsnapshot"}
CatNone == {}
\* valid contents cut inside a character / with an empty chunk, and truncated ones (their flush raises)
CatQuick == { Cont(<<"L2", "C">>, <<1, 1>>, TRUE),
              Cont(<<"A">>, <<1>>, TRUE),
              Cont(<<"L3", "C", "C", "A">>, <<2, 2>>, TRUE),
              Cont(<<"A", "L2">>, <<2>>, FALSE),
              Cont(<<"L3", "C">>, <<1, 1>>, FALSE) }
CatBig == CatQuick \cup { Cont(<<"A", "L2", "C">>, <<2, 0, 1>>, TRUE),
                          Cont(<<"L4", "C", "C", "C">>, <<1, 2, 1>>, TRUE),
                          Cont(<<"L4", "C", "C">>, <<3>>, FALSE),
                          Cont(<<>>, <<>>, TRUE) }
=============================================================================
