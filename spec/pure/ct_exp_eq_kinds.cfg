SPECIFICATION Spec
CONSTANTS
  Machine = "eq"
  MaxN = 1
  MaxK = 0
  MaxU = 0
  MaxChunks = 2
  CtShape = "none"
  MaxSteps = 0
  Escaping = "asRequired"
  Catalogue <- CatNone
  MaxHist = 0
  DecoderScope = "perIteration"
  EqKinds <- KindsAll
  CopyVariant = "copy"
INVARIANT EqByTypeAndBytes
INVARIANT ExportRow
CHECK_DEADLOCK FALSE
