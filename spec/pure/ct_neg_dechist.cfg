SPECIFICATION Spec
CONSTANTS
  Machine = "dechist"
  MaxN = 0
  MaxK = 0
  MaxU = 0
  MaxChunks = 0
  CtShape = "none"
  MaxSteps = 0
  Escaping = "asRequired"
  Catalogue <- CatQuick
  MaxHist = 3
  DecoderScope = "sharedCached"
  EqKinds <- KindsPlain
  CopyVariant = "copy"
INVARIANT PerIterationDecode
CHECK_DEADLOCK FALSE
