SPECIFICATION Spec
CONSTANTS
  Machine = "ctype"
  MaxN = 0
  MaxK = 0
  MaxU = 0
  MaxChunks = 0
  CtShape = "one"
  MaxSteps = 0
  Escaping = "asCoded"
  Catalogue <- CatNone
  MaxHist = 0
  DecoderScope = "perIteration"
  EqKinds <- KindsPlain
  CopyVariant = "copy"
INVARIANT RoundTrip
CHECK_DEADLOCK FALSE
