SPECIFICATION Spec
CONSTANTS
  Machine = "decode"
  MaxN = 0
  MaxK = 0
  MaxU = 7
  MaxChunks = 4
  CtShape = "none"
  MaxSteps = 0
  Escaping = "asRequired"
  Catalogue <- CatNone
  MaxHist = 0
  DecoderScope = "perIteration"
  EqKinds <- KindsPlain
  CopyVariant = "copy"
VIEW ViewNoHist
INVARIANT DecodeWhole
INVARIANT DecodeConserves
CHECK_DEADLOCK FALSE
