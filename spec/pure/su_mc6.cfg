SPECIFICATION Spec
CONSTANTS
  MaxNodes = 6
  MaxDepth = 4
  MaxFan = 4
  NIds = 2
  LeafKinds <- OneLeafKind
  SuiteKinds <- AllSuiteKinds
  MaxOps = 0
  SortVariant = "asRequired"
VIEW ViewNoHist
INVARIANT IterateOnce
INVARIANT FilterExact
INVARIANT SortPermutes
INVARIANT DupIffValueError
INVARIANT SortNoTypeError
CHECK_DEADLOCK FALSE
