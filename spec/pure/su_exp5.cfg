SPECIFICATION Spec
CONSTANTS
  MaxNodes = 5
  MaxDepth = 4
  MaxFan = 4
  NIds = 3
  LeafKinds <- OneLeafKind
  SuiteKinds <- AllSuiteKinds
  MaxOps = 0
  SortVariant = "asRequired"
INVARIANT IterateOnce
INVARIANT FilterExact
INVARIANT SortPermutes
INVARIANT DupIffValueError
INVARIANT SortNoTypeError
INVARIANT ExportRow
CHECK_DEADLOCK FALSE
