SPECIFICATION Spec
CONSTANTS
  Machine = "snap"
  MaxN = 0
  MaxK = 0
  MaxU = 0
  MaxChunks = 0
  CtShape = "none"
  MaxSteps = 4
  Escaping = "asRequired"
  Catalogue <- CatNone
  MaxHist = 0
  DecoderScope = "perIteration"
  EqKinds <- KindsPlain
  CopyVariant = "copy"
CONSTRAINT ExportC
INVARIANT Snapshot
CHECK_DEADLOCK FALSE
