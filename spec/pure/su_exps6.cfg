SPECIFICATION Spec
CONSTANTS
  MaxNodes = 6
  MaxDepth = 4
  MaxFan = 4
  NIds = 3
  LeafKinds <- OneLeafKind
  SuiteKinds <- SortSuiteKinds
  MaxOps = 0
  SortVariant = "asRequired"
INVARIANT IterateOnce
INVARIANT SortPermutes
INVARIANT DupIffValueError
INVARIANT SortNoTypeError
INVARIANT ExportSortRow
CHECK_DEADLOCK FALSE
