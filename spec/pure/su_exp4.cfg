SPECIFICATION Spec
CONSTANTS
  MaxNodes = 4
  MaxDepth = 4
  MaxFan = 4
  NIds = 3
  LeafKinds <- AllLeafKinds
  SuiteKinds <- AllSuiteKinds
  MaxOps = 0
  SortVariant = "asRequired"
INVARIANT IterateOnce
INVARIANT FilterExact
INVARIANT SortPermutes
INVARIANT DupIffValueError
INVARIANT SortNoTypeError
INVARIANT ExportRow
CHECK_DEADLOCK FALSE
