SPECIFICATION Spec
CONSTANTS
  MaxNodes = 3
  MaxDepth = 4
  MaxFan = 4
  NIds = 2
  LeafKinds <- AllLeafKinds
  SuiteKinds <- AllSuiteKinds
  MaxOps = 1
  SortVariant = "asRequired"
VIEW ViewNoHist
INVARIANT IterateOnce
INVARIANT DupIffValueError
INVARIANT SortNoTypeError
CHECK_DEADLOCK FALSE
