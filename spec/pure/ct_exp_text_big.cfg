SPECIFICATION Spec
CONSTANTS
  Machine = "text"
  MaxN = 0
  MaxK = 0
  MaxU = 4
  MaxChunks = 0
  CtShape = "none"
  MaxSteps = 0
  Escaping = "asRequired"
  Catalogue <- CatNone
  MaxHist = 0
  DecoderScope = "perIteration"
  EqKinds <- KindsPlain
  CopyVariant = "copy"
INVARIANT TextRoundTrip
INVARIANT ExportRow
CHECK_DEADLOCK FALSE
