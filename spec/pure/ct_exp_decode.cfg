SPECIFICATION Spec
CONSTANTS
  Machine = "decode"
  MaxN = 0
  MaxK = 0
  MaxU = 5
  MaxChunks = 3
  CtShape = "none"
  MaxSteps = 0
  Escaping = "asRequired"
  Catalogue <- CatNone
  MaxHist = 0
  DecoderScope = "perIteration"
  EqKinds <- KindsPlain
  CopyVariant = "copy"
CONSTRAINT ExportC
INVARIANT DecodeWhole
INVARIANT DecodeConserves
CHECK_DEADLOCK FALSE
