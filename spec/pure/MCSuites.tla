------------------------------ MODULE MCSuites ------------------------------
(* Model-checking instances of Suites: kind alphabets.                      *)
EXTENDS Suites

AllLeafKinds  == {"case", "holder"}
AllSuiteKinds == {"plain", "custom", "customsort", "customfilter"}
\* PlaceHolder and TestCase are indistinguishable to the three utilities (both have id(), neither iterates):
\* the larger instances keep one leaf kind
OneLeafKind   == {"case"}
\* sorted_tests does not look at filter_by_ids methods: the sort-only instance leaves that kind out
SortSuiteKinds == {"plain", "custom", "customsort"}
=============================================================================
