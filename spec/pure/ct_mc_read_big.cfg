SPECIFICATION Spec
CONSTANTS
  Machine = "read"
  MaxN = 10
  MaxK = 5
  MaxU = 0
  MaxChunks = 0
  CtShape = "none"
  MaxSteps = 0
  Escaping = "asRequired"
  Catalogue <- CatNone
  MaxHist = 0
  DecoderScope = "perIteration"
  EqKinds <- KindsPlain
  CopyVariant = "copy"
VIEW ViewNoHist
INVARIANT ReadAll
INVARIANT ChunkBounds
INVARIANT Lazy
INVARIANT Buffered
CHECK_DEADLOCK FALSE
