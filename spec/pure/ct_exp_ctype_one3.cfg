SPECIFICATION Spec
CONSTANTS
  Machine = "ctype"
  MaxN = 0
  MaxK = 0
  MaxU = 0
  MaxChunks = 0
  CtShape = "one3"
  MaxSteps = 0
  Escaping = "asRequired"
  Catalogue <- CatNone
  MaxHist = 0
  DecoderScope = "perIteration"
  EqKinds <- KindsPlain
  CopyVariant = "copy"
CONSTRAINT ExportC
INVARIANT RoundTrip
CHECK_DEADLOCK FALSE
