SPECIFICATION Spec
CONSTANTS
  MaxNodes = 9
  MaxDepth = 4
  MaxFan = 4
  NIds = 4
  LeafKinds <- AllLeafKinds
  SuiteKinds <- AllSuiteKinds
  MaxOps = 2
  SortVariant = "asRequired"
CONSTRAINT ExportC
INVARIANT IterateOnce
INVARIANT FilterExact
INVARIANT SortPermutes
INVARIANT DupIffValueError
INVARIANT SortNoTypeError
CHECK_DEADLOCK FALSE
