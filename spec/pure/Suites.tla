------------------------------- MODULE Suites -------------------------------
(***************************************************************************)
(* Suite utilities of testtools.testsuite (property C19):                  *)
(*   iterate_tests, filter_by_ids, sorted_tests (+ _flatten_tests)         *)
(*                                                                         *)
(* A suite tree is a function from PATHS (sequences of child indices, the  *)
(* root is <<>>) to node labels [k, id].  Trees are grown by AddChild in   *)
(* preorder, so every tree has exactly one derivation.                     *)
(*                                                                         *)
(* MECHANISM: the recursions of the code (Iter, FilterAt, Flat + sort).    *)
(* MEANING:   written without recursion over the path order (LexLess):     *)
(*   the leaves of a tree are the leaf paths in preorder; filtering keeps  *)
(*   exactly the selected leaf paths (a path names all enclosing suites,   *)
(*   so equal paths = same relative order AND same grouping); sorting      *)
(*   yields the maximal non-plain nodes as units, in key order.            *)
(* The invariants relate the two on every reachable tree.                  *)
(***************************************************************************)
EXTENDS Naturals, Sequences, FiniteSets, TLC, Json, SequencesExt

CONSTANTS
    MaxNodes,     \* bound on the number of nodes of a tree
    MaxDepth,     \* bound on the depth (root = depth 0)
    MaxFan,       \* bound on the number of children of a suite
    NIds,         \* test ids are 1..NIds (their order is the id order); NIds+1 is an id no test has
    LeafKinds,    \* subset of {"case", "holder"}
    SuiteKinds,   \* subset of {"plain", "custom", "customsort", "customfilter"}
    MaxOps,       \* number of filter_by_ids calls applied in place after growing (0: rows only)
    SortVariant   \* "asRequired": a leafless custom suite sorts first, no exception
                  \* "asCoded":    its key is None and comparing None with an id raises TypeError

Ids    == 1..NIds
Absent == NIds + 1
IdSets == SUBSET (Ids \cup {Absent})
Filler == [k |-> "plain", id |-> 0]     \* filter_by_ids puts an empty unittest.TestSuite() where a test was

VARIABLES
    tree,     \* the suite tree (after the in-place filters applied so far)
    phase,    \* "grow" | "ops" | "done"
    nops,     \* filters applied
    hist      \* observation: the operations applied with their expected results (behaviour export)

vars == <<tree, phase, nops, hist>>

-----------------------------------------------------------------------------
(* Trees                                                                    *)

IsLeaf(t, p)  == t[p].k \in {"case", "holder"}
IsPlain(t, p) == t[p].k = "plain"
Kids(t, p)    == {q \in DOMAIN t : Len(q) = Len(p) + 1 /\ IsPrefix(p, q)}
NKids(t, p)   == Cardinality(Kids(t, p))
Under(t, p)   == {q \in DOMAIN t : IsPrefix(p, q)}

MinOf(a, b) == IF a < b THEN a ELSE b
\* preorder = lexicographic order on paths, a prefix first
LexLess(p, q) ==
    \/ IsStrictPrefix(p, q)
    \/ \E i \in 1..MinOf(Len(p), Len(q)) : (\A j \in 1..(i - 1) : p[j] = q[j]) /\ p[i] < q[i]

Rightmost(t) == CHOOSE p \in DOMAIN t : \A q \in DOMAIN t : q = p \/ LexLess(q, p)

\* nodes in preorder, for export
Nodes(t) == LET ps == SetToSortSeq(DOMAIN t, LexLess)
            IN [i \in DOMAIN ps |-> [p |-> ps[i], k |-> t[ps[i]].k, id |-> t[ps[i]].id]]

-----------------------------------------------------------------------------
(* MEANING                                                                  *)

LeafPathsM(t)     == SetToSortSeq({p \in DOMAIN t : IsLeaf(t, p)}, LexLess)
LeafPathsUnderM(t, r) == SetToSortSeq({p \in Under(t, r) : IsLeaf(t, p)}, LexLess)
IdsAt(t, ps)      == [i \in DOMAIN ps |-> t[ps[i]].id]
HasDupM(t)        == Cardinality({t[p].id : p \in {q \in DOMAIN t : IsLeaf(t, q)}})
                       < Cardinality({q \in DOMAIN t : IsLeaf(t, q)})
\* the units of sorted_tests: leaves and non-plain suites all of whose proper ancestors are plain
UnitPathsM(t) == {p \in DOMAIN t : ~IsPlain(t, p) /\ \A q \in DOMAIN t : IsStrictPrefix(q, p) => IsPlain(t, q)}

-----------------------------------------------------------------------------
(* MECHANISM: iterate_tests (testsuite.py:23-31)                            *)

RECURSIVE Iter(_, _)
Iter(t, p) ==
    IF IsLeaf(t, p) THEN <<p>>                       \* iter() raises TypeError: yield the case
    ELSE FlattenSeq([i \in 1..NKids(t, p) |-> Iter(t, Append(p, i))])

Leaves(t) == IdsAt(t, Iter(t, <<>>))

(* MECHANISM: filter_by_ids (testsuite.py:240-297)                          *)
(* A suite with its own filter_by_ids is delegated to; the method of the    *)
(* harness class answers with an equivalent suite of its own class whose    *)
(* children went through filter_by_ids again.  Other suites are mutated in  *)
(* place, child by child; a case that is not selected becomes an empty      *)
(* plain suite.  Either way the result keeps the shape.                     *)

RECURSIVE FilterAt(_, _, _)
FilterAt(t, p, ids) ==
    IF IsLeaf(t, p)
    THEN p :> (IF t[p].id \in ids THEN t[p] ELSE Filler)
    ELSE FoldLeft(LAMBDA acc, f : acc @@ f, p :> t[p],
                  [i \in 1..NKids(t, p) |-> FilterAt(t, Append(p, i), ids)])

Filter(t, ids) == FilterAt(t, <<>>, ids)

(* MECHANISM: sorted_tests / _flatten_tests (testsuite.py:214-237,300-311)  *)

HasDup(t) == LET l == Leaves(t) IN \E i, j \in DOMAIN l : i < j /\ l[i] = l[j]

\* list.sort() on (key, test) pairs; keys are distinct unless 0 (= no key); stable
SortUnits(us) ==
    LET idx == SetToSortSeq(DOMAIN us, LAMBDA i, j : us[i].key < us[j].key \/ (us[i].key = us[j].key /\ i < j))
    IN [n \in DOMAIN idx |-> us[idx[n]]]

\* sufficient condition for Python to raise TypeError in list.sort(): None compared with a str
NoneVsStr(us) == \E i, j \in DOMAIN us : us[i].key = 0 /\ us[j].key # 0

\* keyMode "pre": a custom suite is keyed by its first test before its own sort_tests ran (the code);
\* "post": by its first test afterwards.  The property says "placed by their first test": both readings pass.
RECURSIVE Flat(_, _, _, _)
Flat(t, p, unpack, keyMode) ==
    IF IsLeaf(t, p) THEN << [key |-> t[p].id, p |-> p, ids |-> <<t[p].id>>, bad |-> FALSE] >>
    ELSE IF IsPlain(t, p) \/ unpack
    THEN FlattenSeq([i \in 1..NKids(t, p) |-> Flat(t, Append(p, i), FALSE, keyMode)])
    ELSE LET lv    == IdsAt(t, Iter(t, p))
             own   == t[p].k = "customsort"        \* has sort_tests: self._tests = sorted_tests(self, True)
             inner == IF own THEN Flat(t, p, TRUE, keyMode) ELSE <<>>
             srt   == SortUnits(inner)
             ids   == IF own THEN FlattenSeq([j \in DOMAIN srt |-> srt[j].ids]) ELSE lv
             key   == IF lv = <<>> THEN 0 ELSE IF keyMode = "post" THEN ids[1] ELSE lv[1]
             bad   == own /\ (NoneVsStr(inner) \/ \E j \in DOMAIN inner : inner[j].bad)
         IN << [key |-> key, p |-> p, ids |-> ids, bad |-> bad] >>

Sorted(t, keyMode) ==
    IF HasDup(t) THEN [exc |-> "ValueError", units |-> <<>>]
    ELSE LET us == Flat(t, <<>>, FALSE, keyMode)
             s  == SortUnits(us)
         IN IF SortVariant = "asCoded" /\ (NoneVsStr(us) \/ \E j \in DOMAIN us : us[j].bad)
            THEN [exc |-> "TypeError", units |-> <<>>]
            ELSE [exc |-> "none",
                  units |-> [j \in DOMAIN s |-> [p |-> s[j].p, key |-> s[j].key, ids |-> s[j].ids]]]

-----------------------------------------------------------------------------
(* Expected observations, shared by rows and behaviours                     *)

\* kept leaves with their paths: the path names every enclosing suite
LeafObs(t) == LET ps == Iter(t, <<>>) IN [i \in DOMAIN ps |-> [p |-> ps[i], id |-> t[ps[i]].id]]

SetSeq(S) == SetToSortSeq(S, LAMBDA a, b : a < b)
IdSetSeq  == SetToSortSeq(IdSets, LAMBDA A, B :
                 \/ Cardinality(A) < Cardinality(B)
                 \/ Cardinality(A) = Cardinality(B) /\ A # B /\
                    LET d == (A \ B) \cup (B \ A) m == CHOOSE x \in d : \A y \in d : x <= y IN m \in A)

Row(t) == [nodes  |-> Nodes(t),
           leaves |-> LeafObs(t),
           filt   |-> [n \in DOMAIN IdSetSeq |->
                          [ids |-> SetSeq(IdSetSeq[n]), kept |-> LeafObs(Filter(t, IdSetSeq[n]))]],
           sorted |-> Sorted(t, "pre"),
           sortedPost |-> Sorted(t, "post")]

-----------------------------------------------------------------------------
Init ==
    /\ \E k \in LeafKinds \cup SuiteKinds :
          IF k \in LeafKinds THEN \E i \in Ids : tree = (<<>> :> [k |-> k, id |-> i])
          ELSE tree = (<<>> :> [k |-> k, id |-> 0])
    /\ phase = "grow" /\ nops = 0 /\ hist = <<>>

\* suite.addTest(...) as the next node in preorder: the parent lies on the rightmost branch
AddChild(p, k, i) ==
    /\ phase = "grow"
    /\ Cardinality(DOMAIN tree) < MaxNodes
    /\ p \in DOMAIN tree /\ ~IsLeaf(tree, p) /\ IsPrefix(p, Rightmost(tree))
    /\ Len(p) < MaxDepth /\ NKids(tree, p) < MaxFan
    /\ tree' = tree @@ (Append(p, NKids(tree, p) + 1) :> [k |-> k, id |-> i])
    /\ UNCHANGED <<phase, nops, hist>>

\* filter_by_ids(suite, ids), in place; observed through iterate_tests on what it returned
DoFilter(S) ==
    /\ phase \in {"grow", "ops"} /\ nops < MaxOps
    /\ tree' = Filter(tree, S)
    /\ phase' = "ops" /\ nops' = nops + 1
    /\ hist' = Append(hist, [a |-> "filter", ids |-> SetSeq(S),
                             before |-> IF hist = <<>> THEN Nodes(tree) ELSE <<>>,
                             kept |-> LeafObs(tree')])

\* sorted_tests(suite) with the result dropped, at most once per behaviour, before / between the filters: the same
\* objects are filtered and sorted again afterwards.  It reorders the inside of suites with sort_tests only, which
\* the model tree does not record: later observations are compared up to that order (see SeqRows).
NPre == Cardinality({i \in DOMAIN hist : hist[i].a = "presort"})
DoPreSort ==
    /\ phase \in {"grow", "ops"} /\ MaxOps > 0 /\ NPre = 0
    /\ phase' = "ops"
    /\ hist' = Append(hist, [a |-> "presort", before |-> IF hist = <<>> THEN Nodes(tree) ELSE <<>>,
                             sorted |-> Sorted(tree, "pre"), sortedPost |-> Sorted(tree, "post")])
    /\ UNCHANGED <<tree, nops>>

\* sorted_tests(suite) on what the filters left; ends the behaviour
DoSort ==
    /\ phase = "ops"
    /\ phase' = "done"
    /\ hist' = Append(hist, [a |-> "sort", sorted |-> Sorted(tree, "pre"), sortedPost |-> Sorted(tree, "post")])
    /\ UNCHANGED <<tree, nops>>

AddLeaf(p, k, i) == AddChild(p, k, i)      \* suite.addTest(Case(id)) / suite.addTest(PlaceHolder(id))
AddSuite(p, k)   == AddChild(p, k, 0)      \* suite.addTest(<empty suite of class k>)

\* constant quantifier bound, so that TLC reports AddLeaf/AddSuite as actions of their own (coverage)
ParentPaths == UNION {[1..d -> 1..MaxFan] : d \in 0..(MaxDepth - 1)}

Next ==
    \/ \E p \in ParentPaths : \E k \in LeafKinds : \E i \in Ids : AddLeaf(p, k, i)
    \/ \E p \in ParentPaths : \E k \in SuiteKinds : AddSuite(p, k)
    \/ \E S \in IdSets : DoFilter(S)
    \/ DoPreSort
    \/ DoSort

Spec == Init /\ [][Next]_vars

-----------------------------------------------------------------------------
(* C19 invariants                                                           *)

\* every leaf exactly once, in suite order
IterateOnce == Iter(tree, <<>>) = LeafPathsM(tree)

\* exactly the tests whose id is selected, same relative order, same enclosing suites, suites untouched
FilterExact ==
    \A S \in IdSets :
        LET ft == Filter(tree, S) IN
        /\ DOMAIN ft = DOMAIN tree
        /\ LeafPathsM(ft) = SelectSeq(LeafPathsM(tree), LAMBDA p : tree[p].id \in S)
        /\ \A p \in DOMAIN tree : (~IsLeaf(tree, p) \/ tree[p].id \in S) => ft[p] = tree[p]
        /\ Iter(ft, <<>>) = LeafPathsM(ft)

\* same tests; units are exactly the maximal non-plain nodes (plain suites flattened, custom suites whole);
\* keys ascend; a custom suite without sort_tests keeps its inner order, one with sort_tests permutes it
SortPermutesFor(keyMode) ==
    LET s == Sorted(tree, keyMode) u == s.units IN
    s.exc = "none" =>
        /\ {u[j].p : j \in DOMAIN u} = UnitPathsM(tree)
        /\ Len(u) = Cardinality(UnitPathsM(tree))
        /\ \A j \in DOMAIN u :
              LET own == IdsAt(tree, LeafPathsUnderM(tree, u[j].p)) IN
              /\ IF tree[u[j].p].k = "customsort"
                 THEN Len(u[j].ids) = Len(own) /\ ToSet(u[j].ids) = ToSet(own)
                 ELSE u[j].ids = own
              /\ u[j].key = (IF own = <<>> THEN 0 ELSE IF keyMode = "post" THEN u[j].ids[1] ELSE own[1])
        /\ \A j1, j2 \in DOMAIN u : j1 < j2 => u[j1].key <= u[j2].key
        /\ LET all == FlattenSeq([j \in DOMAIN u |-> u[j].ids]) IN
              Len(all) = Len(LeafPathsM(tree)) /\ ToSet(all) = ToSet(IdsAt(tree, LeafPathsM(tree)))
SortPermutes == SortPermutesFor("pre") /\ SortPermutesFor("post")

DupIffValueError == (Sorted(tree, "pre").exc = "ValueError") <=> HasDupM(tree)

\* no other exception: violated under SortVariant = "asCoded" (known finding, see findings.d/C19.json)
SortNoTypeError == Sorted(tree, "pre").exc # "TypeError"

-----------------------------------------------------------------------------
(* Export                                                                   *)
\* rows: one per distinct tree (an INVARIANT is evaluated once per distinct state)
ExportRow == phase = "grow" => PrintT(<<"EXPORT", ToJson(Row(tree))>>)
\* rows for sorted_tests alone (bigger trees, no filter table)
\* SEQUENCES on the same suite objects: sorted_tests; filter_by_ids(S) in place; sorted_tests again.  The meaning of
\* the last call is a function of the CURRENT content alone (history independence): Sorted(Filter(t, S)).  Sorting
\* reorders the inside of suites that have sort_tests, so afterwards their first test is their smallest one (keyMode
\* "post"); nothing else of an earlier call may survive.  Enumerated for S = all ids but one, on trees in which a
\* non-plain suite holds at least two tests (so that its first test can be filtered away).
HasBigCustom(t) == \E p \in DOMAIN t : ~IsLeaf(t, p) /\ ~IsPlain(t, p) /\ Len(LeafPathsUnderM(t, p)) >= 2
SeqSets == SelectSeq(IdSetSeq, LAMBDA S : \E i \in Ids : S = Ids \ {i})
SeqRows(t) == IF HasBigCustom(t) /\ ~HasDup(t)
              THEN [n \in DOMAIN SeqSets |->
                       LET ft == Filter(t, SeqSets[n])
                       IN [ids |-> SetSeq(SeqSets[n]), kept |-> LeafObs(ft),
                           sorted |-> Sorted(ft, "pre"), sortedPost |-> Sorted(ft, "post")]]
              ELSE <<>>
SortRow(t) == [nodes |-> Nodes(t), leaves |-> LeafObs(t), filt |-> <<>>, seqs |-> SeqRows(t),
               sorted |-> Sorted(t, "pre"), sortedPost |-> Sorted(t, "post")]
ExportSortRow == phase = "grow" => PrintT(<<"EXPORT", ToJson(SortRow(tree))>>)
\* behaviours (simulation): grow, filter in place MaxOps times, sort
ExportC == phase = "done" => PrintT(<<"EXPORT", ToJson(hist)>>)
ViewNoHist == <<tree, phase, nops>>
=============================================================================
