SPECIFICATION Spec
CONSTANTS
  MaxNodes = 4
  MaxDepth = 4
  MaxFan = 4
  NIds = 3
  LeafKinds <- AllLeafKinds
  SuiteKinds <- AllSuiteKinds
  MaxOps = 1
  SortVariant = "asRequired"
VIEW ViewNoHist
INVARIANT IterateOnce
INVARIANT FilterExact
INVARIANT SortPermutes
INVARIANT DupIffValueError
INVARIANT SortNoTypeError
CHECK_DEADLOCK FALSE
