SPECIFICATION Spec
CONSTANTS
  Machine = "snap"
  MaxN = 0
  MaxK = 0
  MaxU = 0
  MaxChunks = 0
  CtShape = "none"
  MaxSteps = 3
  Escaping = "asRequired"
  Catalogue <- CatNone
  MaxHist = 0
  DecoderScope = "perIteration"
  EqKinds <- KindsPlain
  CopyVariant = "lazyRef"
INVARIANT Snapshot
CHECK_DEADLOCK FALSE
