SPECIFICATION Spec
CONSTANTS
  Machine = "dechist"
  MaxN = 0
  MaxK = 0
  MaxU = 0
  MaxChunks = 0
  CtShape = "none"
  MaxSteps = 0
  Escaping = "asRequired"
  Catalogue <- CatQuick
  MaxHist = 5
  DecoderScope = "perIteration"
  EqKinds <- KindsPlain
  CopyVariant = "copy"
CONSTRAINT ExportC
INVARIANT PerIterationDecode
INVARIANT TruncatedRaises
CHECK_DEADLOCK FALSE
