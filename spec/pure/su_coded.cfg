SPECIFICATION Spec
CONSTANTS
  MaxNodes = 3
  MaxDepth = 4
  MaxFan = 4
  NIds = 2
  LeafKinds <- OneLeafKind
  SuiteKinds <- AllSuiteKinds
  MaxOps = 0
  SortVariant = "asCoded"
INVARIANT SortNoTypeError
CHECK_DEADLOCK FALSE
