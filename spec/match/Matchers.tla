------------------------------ MODULE Matchers ------------------------------
(***************************************************************************)
(* C06/C07: typed enumeration of matcher expressions over the semantics of *)
(* MatcherSem.tla.                                                         *)
(*                                                                         *)
(* The state is a stack of typed expressions under construction (postfix   *)
(* construction of the tree, one action per node): PushLeaf pushes a leaf  *)
(* matcher, Wrap replaces the top by a unary combinator over it, Combine / *)
(* Combine3 replace the two / three top entries by an n-ary combinator.    *)
(* Every state whose stack holds exactly one expression is a complete      *)
(* expression e of sort s; ExportC prints e together with the verdict      *)
(* Verdict(e, v) for every value v of the universe Vals[s] (binding B3:    *)
(* the driver builds the real matcher and matchee and compares).           *)
(* TLC explores all trees up to MaxDepth / MaxNodes exhaustively and deeper *)
(* random ones with -simulate.                                             *)
(*                                                                         *)
(* The invariants are algebraic laws the oracle itself must satisfy; they  *)
(* relate independently written clauses of Sem (e.g. MatchesSetwise by     *)
(* permutations vs. Hall's marriage condition) so TLC checks something     *)
(* that is not true by construction.  Under SetwiseMode = "greedy" (the    *)
(* mechanism of the code) SetwisePermutationInvariant is violated.         *)
(***************************************************************************)
EXTENDS MatcherSem, Json, SequencesExt

CONSTANTS
    Leaf,       \* function: sort -> set of leaf expressions accepted at that sort
    Vals,       \* function: sort -> sequence of values (the universe of that sort)
    Roots,      \* sorts at which leaves may be pushed
    Wraps,      \* enabled unary constructions
    Combos,     \* enabled binary constructions
    Combos3,    \* enabled ternary constructions
    MaxDepth,   \* bound on the height of an expression
    MaxNodes,   \* bound on the number of nodes of an expression
    MaxStack    \* bound on the stack (2: binary trees, 3: ternary nodes too)

VARIABLE stack  \* sequence of [srt, e, dep, nn]

AllSorts == {"int", "str", "num", "lint", "lstr", "llint", "lnum", "dict", "obj", "exc", "call", "path"}
\* sorts whose values can be the elements of a list sort: lists of ints, of texts, and of lists of ints (so that
\* AllMatch(AnyMatch(m)), MatchesListwise([AnyMatch(m), ...]) etc. are typable)
\* "num" is the mixed numeric sort (ints, bools, floats: equal and hash-equal across types, yet distinguishable)
ListOf(s) == IF s = "int" THEN "lint" ELSE IF s = "str" THEN "lstr" ELSE IF s = "num" THEN "lnum" ELSE "llint"
Elems == {"int", "str", "lint", "num"}

\* number of Wrap steps needed to turn a matcher of sort s into one of sort t (99: impossible); used to prune
\* stacks that could never be combined within the depth bound
Dist(s, t) ==
    IF s = t THEN 0
    ELSE IF s = "int" /\ t \in {"lint", "dict", "obj", "exc", "str"} THEN 1
    ELSE IF s = "int" /\ t \in {"call", "lstr", "path", "llint"} THEN 2
    ELSE IF s = "lint" /\ t = "llint" THEN 1
    ELSE IF s = "num" /\ t = "lnum" THEN 1
    ELSE IF s = "str" /\ t \in {"lstr", "path"} THEN 1
    ELSE IF s = "lstr" /\ t = "path" THEN 1
    ELSE IF s = "exc" /\ t = "call" THEN 1
    ELSE 99
\* an entry of sort s and height dep can still become an operand of a Combine with an entry of sort t
CanJoin(s, dep, t) == dep + Dist(s, t) < MaxDepth

Top == stack[Len(stack)]
Below == stack[Len(stack) - 1]
Ent(s, e, dep, nn) == [srt |-> s, e |-> e, dep |-> dep, nn |-> nn]
Max2(a, b) == IF a >= b THEN a ELSE b

Init == stack = <<>>

PushLeaf(s, m) ==
    /\ Len(stack) < MaxStack
    /\ stack # <<>> => (Top.dep < MaxDepth /\ CanJoin(s, 1, Top.srt))   \* otherwise the two could never be combined
    /\ stack' = Append(stack, Ent(s, m, 1, 1))

\* <<result sort, expression>> of wrapping entry t with w, or <<>> when w does not apply to t
Wrapped(w, t) ==
    LET s == t.srt
        e == t.e
    IN CASE w = "Not"       -> <<s, NotE(e)>>
         [] w = "Annotate"  -> <<s, AnnE("note", e)>>
         [] w = "AllMatch"  -> IF s \in Elems THEN <<ListOf(s), AllMatchE(e)>> ELSE <<>>
         [] w = "AnyMatch"  -> IF s \in Elems THEN <<ListOf(s), AnyMatchE(e)>> ELSE <<>>
         [] w = "Listwise1" -> IF s \in Elems THEN <<ListOf(s), ListwiseE(<<e>>, FALSE)>> ELSE <<>>
         [] w = "Setwise1"  -> IF s \in Elems THEN <<ListOf(s), SetwiseE(<<e>>)>> ELSE <<>>
         [] w = "LenStr"    -> IF s = "int" THEN <<"str", PreE("len", e)>> ELSE <<>>
         [] w = "LenList"   -> IF s = "int" THEN <<"lint", PreE("len", e)>> ELSE <<>>
         [] w = "LenDict"   -> IF s = "int" THEN <<"dict", PreE("len", e)>> ELSE <<>>
         [] w = "Sum"       -> IF s = "int" THEN <<"lint", PreE("sum", e)>> ELSE <<>>
         [] w = "Rev"       -> IF s \in {"str", "lint", "lstr", "llint", "lnum"} THEN <<s, PreE("rev", e)>> ELSE <<>>
         [] w = "ExcM"      -> IF s = "int" THEN <<"exc", ExcME(<<"BX">>, e)>> ELSE <<>>
         [] w = "Raises"    -> IF s = "exc" THEN <<"call", RaisesE(e)>> ELSE <<>>
         [] w = "Struct1"   -> IF s = "int" THEN <<"obj", StructE(<< <<"y", e>> >>)>> ELSE <<>>
         [] w = "Dict1M"    -> IF s = "int" THEN <<"dict", DictE("MatchesDict", << <<"k1", e>> >>)>> ELSE <<>>
         [] w = "Dict1C"    -> IF s = "int" THEN <<"dict", DictE("ContainsDict", << <<"k2", e>> >>)>> ELSE <<>>
         [] w = "Dict1B"    -> IF s = "int" THEN <<"dict", DictE("ContainedByDict", << <<"k1", e>> >>)>> ELSE <<>>
         [] w = "FileM"     -> IF s = "str" THEN <<"path", FileME(e)>> ELSE <<>>
         [] w = "DirM"      -> IF s = "lstr" THEN <<"path", DirME(e)>> ELSE <<>>

Wrap(w) ==
    /\ stack # <<>>
    /\ Top.dep < MaxDepth /\ Top.nn < MaxNodes
    /\ LET r == Wrapped(w, Top) IN
       /\ r # <<>>
       /\ Len(stack) >= 2 => CanJoin(r[1], Top.dep + 1, Below.srt)
       /\ stack' = [stack EXCEPT ![Len(stack)] = Ent(r[1], r[2], Top.dep + 1, Top.nn + 1)]

Combined(c, s, ms) ==
    CASE c = "AllF"      -> <<s, AllE(ms, FALSE)>>
      [] c = "AllT"      -> <<s, AllE(ms, TRUE)>>
      [] c = "Any"       -> <<s, AnyE(ms)>>
      [] c = "ListwiseF" -> IF s \in Elems THEN <<ListOf(s), ListwiseE(ms, FALSE)>> ELSE <<>>
      [] c = "ListwiseT" -> IF s \in Elems THEN <<ListOf(s), ListwiseE(ms, TRUE)>> ELSE <<>>
      [] c = "Setwise"   -> IF s \in Elems THEN <<ListOf(s), SetwiseE(ms)>> ELSE <<>>
      [] c = "DictM"     -> IF s = "int" /\ Len(ms) = 2
                            THEN <<"dict", DictE("MatchesDict", << <<"k1", ms[1]>>, <<"k2", ms[2]>> >>)>> ELSE <<>>
      [] c = "DictC"     -> IF s = "int" /\ Len(ms) = 2
                            THEN <<"dict", DictE("ContainsDict", << <<"k1", ms[1]>>, <<"k2", ms[2]>> >>)>> ELSE <<>>
      [] c = "DictB"     -> IF s = "int" /\ Len(ms) = 2
                            THEN <<"dict", DictE("ContainedByDict", << <<"k1", ms[1]>>, <<"k2", ms[2]>> >>)>> ELSE <<>>
      [] c = "Struct"    -> IF s = "int" /\ Len(ms) = 2
                            THEN <<"obj", StructE(<< <<"x", ms[1]>>, <<"y", ms[2]>> >>)>> ELSE <<>>

Combine(c) ==
    /\ Len(stack) >= 2
    /\ Top.srt = Below.srt
    /\ Max2(Top.dep, Below.dep) < MaxDepth
    /\ Top.nn + Below.nn < MaxNodes
    /\ LET r == Combined(c, Top.srt, <<Below.e, Top.e>>) IN
       /\ r # <<>>
       /\ Len(stack) >= 3 => CanJoin(r[1], Max2(Top.dep, Below.dep) + 1, stack[Len(stack) - 2].srt)
       /\ stack' = Append(SubSeq(stack, 1, Len(stack) - 2),
                          Ent(r[1], r[2], Max2(Top.dep, Below.dep) + 1, Top.nn + Below.nn + 1))

Combine3(c) ==
    /\ Len(stack) = 3
    /\ stack[1].srt = stack[2].srt /\ stack[2].srt = stack[3].srt
    /\ Max2(stack[1].dep, Max2(stack[2].dep, stack[3].dep)) < MaxDepth
    /\ stack[1].nn + stack[2].nn + stack[3].nn < MaxNodes
    /\ LET r == Combined(c, stack[1].srt, <<stack[1].e, stack[2].e, stack[3].e>>) IN
       /\ r # <<>>
       /\ stack' = << Ent(r[1], r[2], Max2(stack[1].dep, Max2(stack[2].dep, stack[3].dep)) + 1,
                          stack[1].nn + stack[2].nn + stack[3].nn + 1) >>

Next ==
    \/ \E s \in Roots : \E m \in Leaf[s] : PushLeaf(s, m)
    \/ \E w \in Wraps : Wrap(w)
    \/ \E c \in Combos : Combine(c)
    \/ \E c \in Combos3 : Combine3(c)

Spec == Init /\ [][Next]_stack

-----------------------------------------------------------------------------
(* Algebraic laws of the oracle, checked on every reachable stack.          *)

ValSet(s) == { Vals[s][j] : j \in DOMAIN Vals[s] }
Dom(e, s) == { v \in ValSet(s) : InDomain(e, v) }

\* every verdict is one of T/F/P; P only for callables; values outside the domain only for paths
TotalInvariant ==
    stack # <<>> =>
        \A v \in ValSet(Top.srt) :
            LET r == Verdict(Top.e, v) IN
            /\ r \in {T, F, P, "X"}
            /\ r = P => Top.srt = "call"
            /\ r = "X" => Top.srt = "path"

\* Not(Not(m)) = m; Annotate keeps the verdict
DoubleNegationInvariant ==
    stack # <<>> =>
        \A v \in Dom(Top.e, Top.srt) :
            /\ Sem(NotE(NotE(Top.e)), v) = Sem(Top.e, v)
            /\ Sem(AnnE("x", Top.e), v) = Sem(Top.e, v)
            /\ Sem(AllE(<<Top.e>>, FALSE), v) = Sem(Top.e, v)
            /\ Sem(AnyE(<<Top.e>>), v) = Sem(Top.e, v)

\* De Morgan between MatchesAll and MatchesAny (where nothing propagates), first_only does not change the verdict
DeMorganInvariant ==
    (Len(stack) >= 2 /\ Top.srt = Below.srt) =>
        LET a == Below.e
            b == Top.e
        IN \A v \in Dom(a, Top.srt) \cap Dom(b, Top.srt) :
            (Sem(a, v) # P /\ Sem(b, v) # P) =>
                /\ Sem(NotE(AllE(<<a, b>>, FALSE)), v) = Sem(AnyE(<<NotE(a), NotE(b)>>), v)
                /\ Sem(NotE(AnyE(<<a, b>>)), v) = Sem(AllE(<<NotE(a), NotE(b)>>, FALSE), v)
                /\ Sem(AllE(<<a, b>>, TRUE), v) = Sem(AllE(<<a, b>>, FALSE), v)
                /\ Sem(AllE(<<a, b>>, FALSE), v) = Sem(AllE(<<b, a>>, FALSE), v)
                /\ Sem(AnyE(<<a, b>>), v) = Sem(AnyE(<<b, a>>), v)

\* AllMatch m = Not(AnyMatch(Not m)) and the dual, over every list of the element universe
QuantifierInvariant ==
    (stack # <<>> /\ Top.srt \in Elems) =>
        \A l \in Dom(AllMatchE(Top.e), ListOf(Top.srt)) :
            /\ Sem(AllMatchE(Top.e), l) = Sem(NotE(AnyMatchE(NotE(Top.e))), l)
            /\ Sem(AnyMatchE(Top.e), l) = Sem(NotE(AllMatchE(NotE(Top.e))), l)

\* Hall's marriage condition: an independent characterisation of "a one-to-one assignment exists"
Hall(ms, l) ==
    /\ Len(ms) = Len(l)
    /\ \A S \in SUBSET (DOMAIN ms) :
           Cardinality({ q \in DOMAIN l : \E j \in S : Sem(ms[j], l[q]) = T }) >= Cardinality(S)

PermuteSeq(s, pm) == [j \in DOMAIN s |-> s[pm[j]]]

\* MatchesSetwise does not depend on the order of its matchers or of the observed values, agrees with Hall's
\* condition, and is implied by MatchesListwise
SetwisePermutationInvariant ==
    (Len(stack) >= 2 /\ \A j \in DOMAIN stack : stack[j].srt = Top.srt /\ Top.srt \in Elems) =>
        LET ms == [j \in DOMAIN stack |-> stack[j].e] IN
        \A lv \in Dom(SetwiseE(ms), ListOf(Top.srt)) :
            LET r == Sem(SetwiseE(ms), lv) IN
            /\ \A pm \in Permutations(DOMAIN ms) : Sem(SetwiseE(PermuteSeq(ms, pm)), lv) = r
            /\ \A pm \in Permutations(DOMAIN lv.l) : Sem(SetwiseE(ms), ListV(PermuteSeq(lv.l, pm))) = r
            /\ r = B(Hall(ms, lv.l))
            /\ Sem(ListwiseE(ms, FALSE), lv) = T => r = T

\* MatchesAny() never matches and MatchesAll() always matches: they are the units of MatchesAny / MatchesAll and
\* each other's negation (the empty cases of the De Morgan laws); a combinator over them behaves as over Never / Always
NoneE == AnyE(<<>>)
EveryE == AllE(<<>>, FALSE)
UnitInvariant ==
    stack # <<>> =>
        \A v \in Dom(Top.e, Top.srt) :
            /\ Sem(NoneE, v) = F /\ Sem(EveryE, v) = T /\ Sem(AllE(<<>>, TRUE), v) = T
            /\ Sem(NotE(NoneE), v) = Sem(EveryE, v) /\ Sem(NotE(EveryE), v) = Sem(NoneE, v)
            /\ Sem(AnyE(<<Top.e, NoneE>>), v) = Sem(Top.e, v)
            /\ Sem(AnyE(<<NoneE, Top.e>>), v) = Sem(Top.e, v)
            /\ Sem(AllE(<<Top.e, EveryE>>, FALSE), v) = Sem(Top.e, v)
            /\ Sem(AllE(<<EveryE, Top.e>>, TRUE), v) = Sem(Top.e, v)
            /\ Top.srt \in Elems =>
                   \A lv \in ValSet(ListOf(Top.srt)) :
                       /\ Sem(AllMatchE(NoneE), lv) = B(lv.l = <<>>)
                       /\ Sem(AnyMatchE(NoneE), lv) = F
                       /\ Sem(AllMatchE(EveryE), lv) = T
                       /\ Sem(ListwiseE(<<NoneE>>, FALSE), lv) = F

\* MatchesDict = ContainsDict /\ ContainedByDict
DictSplitInvariant ==
    (Len(stack) >= 2 /\ Top.srt = "int" /\ Below.srt = "int") =>
        \A kms \in { << <<"k1", Below.e>>, <<"k2", Top.e>> >>, << <<"k2", Top.e>> >>, <<>> } :
            \A dv \in Dom(DictE("MatchesDict", kms), "dict") :
                Sem(DictE("MatchesDict", kms), dv) =
                    B(Sem(DictE("ContainsDict", kms), dv) = T /\ Sem(DictE("ContainedByDict", kms), dv) = T)

-----------------------------------------------------------------------------
(* Export of oracle rows: one per complete expression *)
Row == [srt |-> Top.srt, e |-> Top.e, dep |-> Top.dep,
        r |-> [j \in DOMAIN Vals[Top.srt] |-> Verdict(Top.e, Vals[Top.srt][j])]]
ExportC == Len(stack) = 1 => PrintT(<<"EXPORT", ToJson(Row)>>)
=============================================================================
