\* Non-vacuity: without the pass that escapes runs of three quotes the literal does not read back:
\* TLC must report RoundTrip violated under this configuration.
SPECIFICATION Spec
CONSTANTS
  MaxLen = 3
  EscapeTriple = FALSE

INVARIANT RoundTrip
INVARIANT ModeInvariant
CHECK_DEADLOCK FALSE
