SPECIFICATION Spec
CONSTANTS
  SetwiseMode = "matching"
  Leaf <- LeafS
  Vals <- ValsQ
  Roots <- D3Roots
  Wraps <- AllWraps
  Combos <- AllCombos
  Combos3 <- NoCombos
  MaxDepth = 3
  MaxNodes = 5
  MaxStack = 2
CONSTRAINT ExportC
INVARIANT TotalInvariant
INVARIANT DoubleNegationInvariant
INVARIANT DeMorganInvariant
INVARIANT QuantifierInvariant
INVARIANT SetwisePermutationInvariant
INVARIANT DictSplitInvariant
INVARIANT UnitInvariant
CHECK_DEADLOCK FALSE
