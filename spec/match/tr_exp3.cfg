SPECIFICATION Spec
CONSTANTS
  MaxLen = 3
  EscapeTriple = TRUE
CONSTRAINT ExportC
INVARIANT RoundTrip
INVARIANT ModeInvariant
CHECK_DEADLOCK FALSE
