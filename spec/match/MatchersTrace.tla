--------------------------- MODULE MatchersTrace ---------------------------
(***************************************************************************)
(* Code -> spec direction for C06: rows (expression AST, value, verdict    *)
(* observed from the real matcher) recorded by the harness as JSON are     *)
(* decided by the same Sem as the enumeration.  One state per row; a row   *)
(* whose recorded verdict differs from Verdict(e, v) is reported as        *)
(*   <<"BAD", index, verdict of the spec>>                                 *)
(* (printing keeps TLC going so that every row of the batch is decided).   *)
(***************************************************************************)
EXTENDS MatcherSem, Json, IOUtils

Rows == JsonDeserialize(IOEnv.TRACE_FILE)   \* sequence of [e, v, r]

VARIABLE i

Init == i = 0
Next == i < Len(Rows) /\ i' = i + 1
Spec == Init /\ [][Next]_i

Agrees(j) == LET sv == Verdict(Rows[j].e, Rows[j].v)
             IN sv = Rows[j].r \/ PrintT(<<"BAD", j, sv>>)

\* evaluated once per state, i.e. once per row; always TRUE (disagreements are printed, the driver turns them
\* into verdicts about the code)
RowDecided == i > 0 => Agrees(i)
Done == i = Len(Rows) => PrintT(<<"CHECKED", i>>)
=============================================================================
