SPECIFICATION Spec
CONSTANTS
  MaxLen = 6
  EscapeTriple = TRUE

INVARIANT RoundTrip
INVARIANT ModeInvariant
CHECK_DEADLOCK FALSE
