----------------------------- MODULE MCMatchers -----------------------------
(* Model-checking instances of Matchers: value universes and leaf alphabets. *)
EXTENDS Matchers

sA == <<1>>
sB == <<2>>
sAB == <<1, 2>>
sBA == <<2, 1>>
sE == <<>>

SeqsUpTo(S, n) == UNION { [1..m -> S] : m \in 0..n }

\* objects: 1 and 2 are equal but distinct, 3 and 4 differ from them in one attribute each
Obj(id) == CASE id = 1 -> ObjV(1, 0, 1) [] id = 2 -> ObjV(2, 0, 1) [] id = 3 -> ObjV(3, 1, 1) [] id = 4 -> ObjV(4, 0, 2)

ExcTypes == {"VE", "KE", "BE"}
KeyOrder == <<"k1", "k2", "k3">>
DictOf(f) == LET ks == SelectSeq(KeyOrder, LAMBDA key : key \in DOMAIN f)
             IN [j \in DOMAIN ks |-> <<ks[j], IntV(f[ks[j]])>>]
DictsOver(keys, vals) == { DictOf(f) : f \in UNION { [K -> vals] : K \in SUBSET keys } }   \* in key order

PathVals == << PathV("missing", sE, <<>>), PathV("file", sE, <<>>), PathV("file", sA, <<>>), PathV("file", sAB, <<>>),
               PathV("dir", sE, <<>>), PathV("dir", sE, <<StrV(sA)>>), PathV("dir", sE, <<StrV(sA), StrV(sB)>>) >>

\* inner lists of the list-of-lists sort (the empty one matters: AnyMatch on it is an empty mismatch)
InnerLists == { ListV(<<>>), ListV(<<IntV(0)>>), ListV(<<IntV(1)>>), ListV(<<IntV(0), IntV(1)>>) }

\* mixed numerics: 0 == False == 0.0 and 1 == True == 1.0, six distinguishable values
NumVals == << IntV(0), IntV(1), BoolV(0), BoolV(1), FloatV(0), FloatV(1) >>

\* ---- quick universe -------------------------------------------------------------------------
ValsQ == [s \in AllSorts |->
    CASE s = "int"  -> << IntV(0), IntV(1), IntV(2) >>
      [] s = "str"  -> << StrV(sE), StrV(sA), StrV(sB), StrV(sAB), StrV(<<1, 3>>), StrV(<<1, 3, 2>>) >>
      [] s = "num"  -> NumVals
      [] s = "lnum" -> SetToSeq({ ListV(l) : l \in SeqsUpTo({ NumVals[j] : j \in DOMAIN NumVals } \ {FloatV(0)}, 2) })
      [] s = "lint" -> SetToSeq({ ListV(l) : l \in SeqsUpTo({IntV(0), IntV(1), IntV(2)}, 2) })
      [] s = "lstr" -> SetToSeq({ ListV(l) : l \in SeqsUpTo({StrV(sA), StrV(sB)}, 2) })
      [] s = "llint" -> SetToSeq({ ListV(l) : l \in SeqsUpTo(InnerLists, 2) })
      [] s = "dict" -> SetToSeq({ DictV(d) : d \in DictsOver({"k1", "k2"}, {0, 1}) })
      [] s = "obj"  -> << Obj(1), Obj(2), Obj(3), Obj(4) >>
      [] s = "exc"  -> SetToSeq({ ExcV(ty, n) : ty \in ExcTypes, n \in {0, 1} })
      [] s = "call" -> SetToSeq({ CallV("ret", "-", n) : n \in {0, 1} }
                                \cup { CallV("raise", ty, n) : ty \in ExcTypes, n \in {0, 1} })
      [] s = "path" -> PathVals ]

\* ---- larger universe (thorough tier, ternary nodes) -----------------------------------------
ValsF == [s \in AllSorts |->
    CASE s = "int"  -> << IntV(0), IntV(1), IntV(2), IntV(3) >>
      [] s = "str"  -> << StrV(sE), StrV(sA), StrV(sB), StrV(sAB), StrV(sBA), StrV(<<1, 1>>), StrV(<<1, 2, 1>>),
                          StrV(<<3>>), StrV(<<1, 3>>), StrV(<<1, 3, 2>>), StrV(<<2, 3, 3>>) >>
      [] s = "lint" -> SetToSeq({ ListV(l) : l \in SeqsUpTo({IntV(0), IntV(1), IntV(2)}, 3) })
      [] s = "lstr" -> SetToSeq({ ListV(l) : l \in SeqsUpTo({StrV(sA), StrV(sB), StrV(sAB)}, 2) })
      [] s = "dict" -> SetToSeq({ DictV(d) : d \in DictsOver({"k1", "k2", "k3"}, {0, 1}) })
      [] OTHER -> ValsQ[s] ]

-----------------------------------------------------------------------------
Eq(v)   == [op |-> "Equals", ref |-> v]
Ne(v)   == [op |-> "NotEquals", ref |-> v]
IsE(v)  == [op |-> "Is", ref |-> v]
Lt(v)   == [op |-> "LessThan", ref |-> v]
Gt(v)   == [op |-> "GreaterThan", ref |-> v]
Inst(t) == [op |-> "IsInstance", tys |-> t]
Has(v)  == [op |-> "Contains", ref |-> v]
HasAll(vs) == [op |-> "ContainsAll", refs |-> vs]
Starts(s) == [op |-> "StartsWith", ref |-> StrV(s)]
Ends(s) == [op |-> "EndsWith", ref |-> StrV(s)]
Len_(n) == [op |-> "HasLength", n |-> n]
Same(l) == [op |-> "SameMembers", ref |-> ListV(l)]
Keys(ks) == [op |-> "KeysEqual", keys |-> ks]
Always == [op |-> "Always"]
Never == [op |-> "Never"]
Pred(p) == [op |-> "MatchesPredicate", pred |-> p]
ExcI(ty, n) == [op |-> "MatchesException", form |-> "inst", ty |-> ty, arg |-> n]
ExcT(tys) == [op |-> "MatchesException", form |-> "type", tys |-> tys, vk |-> "none"]
ExcR(tys, n) == [op |-> "MatchesException", form |-> "type", tys |-> tys, vk |-> "re", n |-> n]
At(c, star) == [c |-> c, star |-> star]
ReF(atoms, anch, fl) == [op |-> "MatchesRegex", pat |-> [atoms |-> atoms, anch |-> anch, fl |-> fl]]
Re(atoms, anch) == ReF(atoms, anch, "")
\* zero-arity combinators: MatchesAny() never matches, MatchesAll() always matches; usable at every sort
NoAlt == [op |-> "MatchesAny", ms |-> <<>>]
NoReq == [op |-> "MatchesAll", ms |-> <<>>, fo |-> FALSE]
FileC(s) == [op |-> "FileContains", ref |-> StrV(s)]
DirC(ns) == [op |-> "DirContains", refs |-> ns]

I(n) == IntV(n)
IL(l) == ListV([j \in DOMAIN l |-> IntV(l[j])])
SL(l) == ListV([j \in DOMAIN l |-> StrV(l[j])])

LeafQ0 == [s \in AllSorts |->
    CASE s = "int" ->
           { Eq(I(0)), Eq(I(1)), Eq(I(2)), Ne(I(1)), IsE(I(1)), Lt(I(1)), Lt(I(2)), Gt(I(0)), Gt(I(1)),
             Inst(<<"int">>), Inst(<<"text">>), Inst(<<"text", "int">>), Always, Never, Pred("even"),
             Has(I(0)), Eq(StrV(sA)), ExcT(<<"VE">>) }
      [] s = "str" ->
           { Eq(StrV(sA)), Eq(StrV(sAB)), Ne(StrV(sA)), Starts(sA), Starts(sE), Ends(sB), Has(StrV(sA)), Has(StrV(sBA)),
             HasAll(<<StrV(sA), StrV(sB)>>),
             Re(<<At(1, FALSE)>>, FALSE), Re(<<At(1, TRUE), At(2, FALSE)>>, FALSE), Re(<<At(0, FALSE)>>, TRUE),
             Re(<<At(0, TRUE), At(2, FALSE)>>, TRUE),
             \* the same patterns with other flags (the verdict may depend on pattern, flags and value only)
             ReF(<<At(0, FALSE)>>, TRUE, "M"), ReF(<<At(0, TRUE), At(2, FALSE)>>, TRUE, "S"),
             ReF(<<At(1, FALSE)>>, FALSE, "S"), Re(<<At(1, FALSE), At(3, FALSE)>>, TRUE),
             Len_(1), Lt(StrV(sAB)), Gt(StrV(sA)), Inst(<<"text">>), Inst(<<"int", "list">>), Pred("nonempty"),
             Always, Never }
      [] s = "lint" ->
           { Eq(IL(<<0, 1>>)), Eq(IL(<<>>)), Ne(IL(<<0>>)), Len_(2), Len_(0), Same(<<I(0), I(1)>>), Same(<<I(1), I(1)>>),
             Same(<<>>), Has(I(1)), HasAll(<<I(0), I(1)>>), HasAll(<<>>), Inst(<<"list">>), Pred("nonempty"),
             Always, Never }
      [] s = "lstr" ->
           { Eq(SL(<<sA>>)), Same(<<StrV(sB), StrV(sA)>>), Len_(1), Has(StrV(sA)), Always, Never }
      [] s = "dict" ->
           { Keys(<<"k1">>), Keys(<<"k2", "k1">>), Keys(<<>>), Eq(DictV(<< <<"k1", I(0)>> >>)),
             Eq(DictV(<< <<"k1", I(1)>>, <<"k2", I(0)>> >>)), Has(KeyV("k1")), HasAll(<<KeyV("k1"), KeyV("k2")>>),
             Len_(1), Inst(<<"dict">>), Always, Never }
      [] s = "obj" ->
           { IsE(Obj(1)), IsE(Obj(3)), Eq(Obj(2)), Ne(Obj(1)), Eq(I(0)), Inst(<<"obj">>), Inst(<<"object">>), Always, Never }
      [] s = "exc" ->
           { ExcI("VE", 0), ExcI("KE", 1), ExcI("LE", 0), ExcI("BE", 1),
             ExcT(<<"VE">>), ExcT(<<"LE">>), ExcT(<<"EX">>), ExcT(<<"BX">>), ExcT(<<"BE">>), ExcT(<<"VE", "KE">>),
             ExcR(<<"VE">>, 0), ExcR(<<"EX">>, 1), ExcR(<<"BX">>, 1), Inst(<<"tuple">>), Always, Never }
      [] s = "num" ->
           { Inst(<<"int">>), Inst(<<"bool">>), Inst(<<"float">>), Inst(<<"float", "bool">>),
             IsE(IntV(1)), IsE(BoolV(1)), IsE(BoolV(0)), Eq(IntV(1)), Ne(FloatV(0)), Lt(BoolV(1)), Always, Never }
      [] s = "lnum" ->
           { Has(IntV(1)), Has(BoolV(0)), Same(<<IntV(1), FloatV(0)>>), Eq(ListV(<<BoolV(1), IntV(0)>>)), Len_(2), Never }
      [] s = "num" ->
           { Inst(<<"int">>), Inst(<<"bool">>), Inst(<<"float">>), Inst(<<"float", "bool">>),
             IsE(IntV(1)), IsE(BoolV(1)), IsE(BoolV(0)), Eq(IntV(1)), Ne(FloatV(0)), Lt(BoolV(1)), Always, Never }
      [] s = "lnum" ->
           { Has(IntV(1)), Has(BoolV(0)), Same(<<IntV(1), FloatV(0)>>), Eq(ListV(<<BoolV(1), IntV(0)>>)), Len_(2), Never }
      [] s = "llint" ->
           { Eq(ListV(<<IL(<<0>>)>>)), Len_(1), Has(IL(<<>>)), Always, Never }
      [] s = "call" -> { [op |-> "RaisesAny"], Always, Never }
      [] s = "path" ->
           { [op |-> "PathExists"], [op |-> "DirExists"], [op |-> "FileExists"],
             FileC(sA), FileC(sE), DirC(<<StrV(sA)>>), DirC(<<StrV(sB), StrV(sA)>>), DirC(<<>>), DirC(<<StrV(sA), StrV(sA)>>),
             Always, Never } ]

LeafQ == [s \in AllSorts |-> LeafQ0[s] \cup {NoAlt, NoReq}]

\* small alphabet for depth 3 / ternary nodes: the leaves are chosen so that assignments are ambiguous
LeafS == [s \in AllSorts |->
    CASE s = "int"  -> { Eq(I(0)), Lt(I(2)), Gt(I(0)), NoAlt }
      [] s = "str"  -> { Eq(StrV(sA)), Starts(sA), Ends(sB) }
      [] s = "num"  -> { Inst(<<"int">>), Inst(<<"bool">>), IsE(IntV(1)) }
      [] s = "exc"  -> { ExcT(<<"LE">>), ExcI("BE", 1), NoAlt }
      [] s = "call" -> { [op |-> "RaisesAny"] }
      [] s = "path" -> { [op |-> "PathExists"] }
      [] OTHER -> {} ]

\* leaves for random deep trees
LeafSim == [s \in AllSorts |-> LeafQ[s]]

AllWraps == {"Not", "Annotate", "AllMatch", "AnyMatch", "Listwise1", "Setwise1", "LenStr", "LenList", "LenDict", "Sum",
             "Rev", "ExcM", "Raises", "Struct1", "Dict1M", "Dict1C", "Dict1B", "FileM", "DirM"}
AllCombos == {"AllF", "AllT", "Any", "ListwiseF", "ListwiseT", "Setwise", "DictM", "DictC", "DictB", "Struct"}
\* first_only never changes a verdict: the quick exhaustive config leaves the first_only twins to the height-3 config
QuickCombos == AllCombos \ {"AllT", "ListwiseT"}
Combos3S == {"AllF", "Any", "ListwiseF", "Setwise"}
NoCombos == {}
SetwiseOnly == {"Setwise"}
NoWraps == {}
IntOnly == {"int"}
IntStr == {"int", "str"}
D3Roots == {"int", "str", "exc", "num"}
IntStrNum == {"int", "str", "num"}

ASSUME PrintT(<<"UNIVERSE", ToJson(Vals)>>)
=============================================================================
