----------------------------- MODULE MatcherSem -----------------------------
(***************************************************************************)
(* Denotational semantics of the testtools matcher language (property C06).*)
(*                                                                         *)
(* VALUES are tagged records (one payload field name per kind, so that any *)
(* two values / expressions are comparable in TLC and survive a JSON round *)
(* trip: only records, sequences, strings, ints and booleans are used):    *)
(*   [k:"int",  i]            small integer                                *)
(*   [k:"bool", bi]           False / True (bi = 0 / 1)                    *)
(*   [k:"float", fi]          the float with integral value fi             *)
(*                            ints, bools and floats are == (and hash      *)
(*                            alike) when their numeric values agree, but  *)
(*                            differ in type and identity                  *)
(*   [k:"str",  s]            text: a sequence over the symbols 1,2 ("a",  *)
(*                            "b": the driver concretises them as str or   *)
(*                            bytes, ASCII / non-ASCII / control chars,    *)
(*                            always with newline < a < b) and 3 (newline) *)
(*   [k:"list", l]            list of values                               *)
(*   [k:"dict", d]            sequence of <<key, value>> pairs (distinct   *)
(*                            keys; the order is the insertion order)      *)
(*   [k:"key",  name]         a dict key                                   *)
(*   [k:"obj",  id, x, y]     object with attributes x, y; `id` is its     *)
(*                            identity, == is structural on (x, y)         *)
(*   [k:"exc",  ty, arg]      exc_info tuple of an exception ty(arg)       *)
(*   [k:"call", beh, ty, arg] callable: beh="ret" returns arg,             *)
(*                            beh="raise" raises ty(arg)                   *)
(*   [k:"path", st, content, names]  filesystem path: st in                *)
(*                            {"missing","file","dir"}; file content (a    *)
(*                            text), sorted directory listing (texts)      *)
(*                                                                         *)
(* EXPRESSIONS are records [op |-> ..., ...]; Sem(e, v) is the documented  *)
(* verdict: "T" match() returns None, "F" match() returns a Mismatch,      *)
(* "P" the exception raised by the matchee propagates out of match()       *)
(* (Raises only: a non-Exception error that was not matched).              *)
(* InDomain(e, v) says whether v is in the (documented) domain of e.       *)
(***************************************************************************)
EXTENDS Integers, Sequences, FiniteSets, TLC

CONSTANT SetwiseMode    \* "matching": the property (a one-to-one assignment exists)
                        \* "greedy":   the mechanism of the code (first matcher, in iteration order, that matches)

T == "T"
F == "F"
P == "P"
B(b) == IF b THEN T ELSE F
Neg(r) == IF r = T THEN F ELSE IF r = F THEN T ELSE r

-----------------------------------------------------------------------------
(* value constructors *)
IntV(n)  == [k |-> "int", i |-> n]
BoolV(n) == [k |-> "bool", bi |-> n]
FloatV(n) == [k |-> "float", fi |-> n]
NumK == {"int", "bool", "float"}
NumOf(v) == CASE v.k = "int" -> v.i [] v.k = "bool" -> v.bi [] v.k = "float" -> v.fi
StrV(s)  == [k |-> "str", s |-> s]
ListV(l) == [k |-> "list", l |-> l]
DictV(d) == [k |-> "dict", d |-> d]
KeyV(n)  == [k |-> "key", name |-> n]
ObjV(id, x, y) == [k |-> "obj", id |-> id, x |-> x, y |-> y]
ExcV(ty, arg) == [k |-> "exc", ty |-> ty, arg |-> arg]
CallV(beh, ty, arg) == [k |-> "call", beh |-> beh, ty |-> ty, arg |-> arg]
PathV(st, content, names) == [k |-> "path", st |-> st, content |-> content, names |-> names]

(* exception classes: VE ValueError, KE KeyError, LE LookupError, EX Exception,            *)
(* BE a direct subclass of BaseException (like KeyboardInterrupt), BX BaseException        *)
SubPairs == { <<"KE","LE">>, <<"VE","EX">>, <<"KE","EX">>, <<"LE","EX">>,
              <<"VE","BX">>, <<"KE","BX">>, <<"LE","BX">>, <<"EX","BX">>, <<"BE","BX">> }
Sub(a, b) == a = b \/ <<a, b>> \in SubPairs
IsUserExc(ty) == Sub(ty, "EX")

-----------------------------------------------------------------------------
(* helpers on payloads *)
DKeys(d) == { d[j][1] : j \in DOMAIN d }
DGet(d, key) == d[CHOOSE j \in DOMAIN d : d[j][1] = key][2]

\* code-unit order of the text symbols: newline (3) < "a" (1) < "b" (2)
Rank(c) == IF c = 3 THEN 0 ELSE c
RECURSIVE SeqLt(_, _)
SeqLt(a, b) == IF b = <<>> THEN FALSE
               ELSE IF a = <<>> THEN TRUE
               ELSE IF Rank(a[1]) < Rank(b[1]) THEN TRUE
               ELSE IF Rank(a[1]) > Rank(b[1]) THEN FALSE
               ELSE SeqLt(Tail(a), Tail(b))

PrefixOf(p, s) == Len(p) <= Len(s) /\ SubSeq(s, 1, Len(p)) = p
SuffixOf(p, s) == Len(p) <= Len(s) /\ SubSeq(s, Len(s) - Len(p) + 1, Len(s)) = p
InfixOf(p, s)  == \E j \in 0..(Len(s) - Len(p)) : Len(p) <= Len(s) /\ SubSeq(s, j + 1, j + Len(p)) = p
Rev(s) == [j \in 1..Len(s) |-> s[Len(s) + 1 - j]]

RECURSIVE SumV(_)
SumV(l) == IF l = <<>> THEN 0 ELSE Head(l).i + SumV(Tail(l))

(* == of the concrete values: structural; numbers compare by value whatever their type (1 == True == 1.0), *)
(* objects compare by (x, y), dicts ignore order                                                            *)
RECURSIVE VEq(_, _)
VEq(a, b) ==
    IF a.k \in NumK /\ b.k \in NumK THEN NumOf(a) = NumOf(b)
    ELSE IF a.k # b.k THEN FALSE
    ELSE CASE a.k = "obj"  -> a.x = b.x /\ a.y = b.y
           [] a.k = "dict" -> /\ DKeys(a.d) = DKeys(b.d)
                              /\ \A key \in DKeys(a.d) : VEq(DGet(a.d, key), DGet(b.d, key))
           [] a.k = "list" -> /\ Len(a.l) = Len(b.l)
                              /\ \A j \in DOMAIN a.l : VEq(a.l[j], b.l[j])
           [] OTHER -> a = b

Count(l, x) == Cardinality({ j \in DOMAIN l : VEq(l[j], x) })
SameBag(l1, l2) == /\ Len(l1) = Len(l2)
                   /\ \A j \in DOMAIN l1 : Count(l1, l1[j]) = Count(l2, l1[j])

VLt(a, b) == IF a.k \in NumK THEN NumOf(a) < NumOf(b) ELSE SeqLt(a.s, b.s)

LenOf(v) == CASE v.k = "str" -> Len(v.s) [] v.k = "list" -> Len(v.l) [] v.k = "dict" -> Len(v.d)

(* Python type names: "int", "text" (str or bytes, whichever the concretisation uses), *)
(* "list", "dict", "obj" (the test class), "tuple", "function", "object"                 *)
TypeOf(v) == CASE v.k = "int" -> "int" [] v.k = "bool" -> "bool" [] v.k = "float" -> "float"
               [] v.k = "str" -> "text" [] v.k = "list" -> "list"
               [] v.k = "dict" -> "dict" [] v.k = "obj" -> "obj" [] v.k = "exc" -> "tuple"
               [] v.k = "call" -> "function" [] v.k = "path" -> "pathstr" [] v.k = "key" -> "keystr"
IsA(v, ty) == ty = "object" \/ TypeOf(v) = ty \/ (ty = "int" /\ v.k = "bool")     \* bool is a subclass of int

(* a small regular-expression language: pat = [atoms |-> <<[c, star]...>>, anch |-> BOOLEAN, fl |-> flags]   *)
(* c = 0 is '.', c in {1,2,3} the literal symbol (3 = newline); star = Kleene star on the atom; anch = '$';   *)
(* fl = "" | "S" (re.DOTALL: '.' also matches a newline) | "M" (re.MULTILINE: '$' also matches before any     *)
(* newline).  Without "M", '$' matches at the end and before a newline that ends the text.                     *)
(* re.match semantics: the pattern must match a prefix of the text.                                            *)
AtEnd(pat, s, j) ==
    \/ j = Len(s) + 1
    \/ j = Len(s) /\ s[j] = 3
    \/ pat.fl = "M" /\ j <= Len(s) /\ s[j] = 3
RECURSIVE RM(_, _, _, _)
RM(pat, a, s, j) ==
    IF a > Len(pat.atoms) THEN (~pat.anch \/ AtEnd(pat, s, j))
    ELSE LET at  == pat.atoms[a]
             hit == j <= Len(s) /\ (IF at.c = 0 THEN (s[j] # 3 \/ pat.fl = "S") ELSE s[j] = at.c)
         IN IF at.star THEN RM(pat, a + 1, s, j) \/ (hit /\ RM(pat, a, s, j + 1))
            ELSE hit /\ RM(pat, a + 1, s, j + 1)
ReMatch(pat, s) == RM(pat, 1, s, 1)

Apply(f, v) == CASE f = "len" -> IntV(LenOf(v))
                 [] f = "sum" -> IntV(SumV(v.l))
                 [] f = "rev" -> IF v.k = "str" THEN StrV(Rev(v.s)) ELSE ListV(Rev(v.l))

ContainsSem(ref, v) ==
    CASE v.k = "str"  -> ref.k = "str" /\ InfixOf(ref.s, v.s)
      [] v.k = "list" -> \E j \in DOMAIN v.l : VEq(v.l[j], ref)
      [] v.k = "dict" -> ref.k = "key" /\ ref.name \in DKeys(v.d)
      [] OTHER -> FALSE         \* `x in 5` raises TypeError: documented as a mismatch

DropAt(s, q) == [j \in 1..(Len(s) - 1) |-> IF j < q THEN s[j] ELSE s[j + 1]]
MinOf(S) == CHOOSE x \in S : \A y \in S : x <= y

-----------------------------------------------------------------------------
(* ordered evaluation of verdict sequences ("P" = an exception leaves match() at that point) *)
RECURSIVE FirstNot(_, _, _)
\* the first verdict of rs different from `skip`, or `dflt` when there is none
FirstNot(rs, skip, dflt) == IF rs = <<>> THEN dflt
                            ELSE IF Head(rs) # skip THEN Head(rs)
                            ELSE FirstNot(Tail(rs), skip, dflt)
AllOf(rs) == IF \E j \in DOMAIN rs : rs[j] = P THEN P ELSE B(\A j \in DOMAIN rs : rs[j] = T)

-----------------------------------------------------------------------------
RECURSIVE Sem(_, _)
RECURSIVE Greedy(_, _, _)

\* the mechanism of MatchesSetwise.match: values in order, each takes the first remaining matcher that matches
Greedy(ms, rem, vs) ==
    IF vs = <<>> THEN rem = <<>>
    ELSE LET hits == { q \in DOMAIN rem : Sem(ms[rem[q]], Head(vs)) = T }
         IN IF hits = {} THEN FALSE
            ELSE Greedy(ms, DropAt(rem, MinOf(hits)), Tail(vs))

ExcMatch(e, v) ==      \* MatchesException against an exc_info value
    IF e.form = "inst"
    THEN B(Sub(v.ty, e.ty) /\ v.arg = e.arg)
    ELSE IF ~\E j \in DOMAIN e.tys : Sub(v.ty, e.tys[j]) THEN F
    ELSE CASE e.vk = "none" -> T
           [] e.vk = "re"   -> B(v.arg = e.n)             \* regex str(n) against str(exception) = str(arg), one digit
           [] e.vk = "m"    -> Sem(e.m, IntV(v.arg))      \* a matcher on the exception object (driver: on its args[0])

Sem(e, v) ==
    LET op == e.op IN
    CASE op = "Equals"      -> B(VEq(v, e.ref))
      [] op = "NotEquals"   -> B(~VEq(v, e.ref))
      [] op = "Is"          -> IF v.k # e.ref.k THEN F                \* 1 is not True is not 1.0
                               ELSE IF v.k = "obj" THEN B(v.id = e.ref.id) ELSE B(v = e.ref)
      [] op = "LessThan"    -> B(VLt(v, e.ref))
      [] op = "GreaterThan" -> B(VLt(e.ref, v))
      [] op = "IsInstance"  -> B(\E j \in DOMAIN e.tys : IsA(v, e.tys[j]))
      [] op = "Contains"    -> B(ContainsSem(e.ref, v))
      [] op = "ContainsAll" -> B(\A j \in DOMAIN e.refs : ContainsSem(e.refs[j], v))
      [] op = "StartsWith"  -> B(PrefixOf(e.ref.s, v.s))
      [] op = "EndsWith"    -> B(SuffixOf(e.ref.s, v.s))
      [] op = "MatchesRegex" -> B(ReMatch(e.pat, v.s))
      [] op = "HasLength"   -> B(LenOf(v) = e.n)
      [] op = "SameMembers" -> B(SameBag(e.ref.l, v.l))
      [] op = "KeysEqual"   -> B(/\ Len(e.keys) = Len(v.d)
                                 /\ { e.keys[j] : j \in DOMAIN e.keys } = DKeys(v.d))
      [] op = "Always"      -> T
      [] op = "Never"       -> F
      [] op = "MatchesPredicate" ->
             (CASE e.pred = "even"     -> B(v.i % 2 = 0)
                [] e.pred = "nonempty" -> B(LenOf(v) > 0))
      [] op = "MatchesException" -> IF v.k # "exc" THEN F ELSE ExcMatch(e, v)
      [] op = "RaisesAny"   -> IF v.beh = "ret" THEN F ELSE IF IsUserExc(v.ty) THEN T ELSE P
      [] op = "Raises"      -> IF v.beh = "ret" THEN F
                               ELSE IF Sem(e.m, ExcV(v.ty, v.arg)) = T THEN T
                               ELSE IF IsUserExc(v.ty) THEN F ELSE P
      [] op = "PathExists"  -> B(v.st # "missing")
      [] op = "DirExists"   -> B(v.st = "dir")
      [] op = "FileExists"  -> B(v.st = "file")
      [] op = "FileContains"  -> B(v.st = "file" /\ v.content = e.ref.s)
      [] op = "FileContainsM" -> IF v.st = "file" THEN Sem(e.m, StrV(v.content)) ELSE F
      [] op = "DirContains"   -> B(v.st = "dir" /\ SameBag(e.refs, v.names))
      [] op = "DirContainsM"  -> IF v.st = "dir" THEN Sem(e.m, ListV(v.names)) ELSE F
      \* ---- combinators ----
      [] op = "Not"         -> Neg(Sem(e.m, v))
      [] op = "Annotate"    -> Sem(e.m, v)
      [] op = "AfterPreprocessing" -> Sem(e.m, Apply(e.f, v))
      [] op = "MatchesAll"  -> LET rs == [j \in DOMAIN e.ms |-> Sem(e.ms[j], v)]
                               IN IF e.fo THEN FirstNot(rs, T, T) ELSE AllOf(rs)
      [] op = "MatchesAny"  -> FirstNot([j \in DOMAIN e.ms |-> Sem(e.ms[j], v)], F, F)
      [] op = "AllMatch"    -> B(\A j \in DOMAIN v.l : Sem(e.m, v.l[j]) = T)
      [] op = "AnyMatch"    -> B(\E j \in DOMAIN v.l : Sem(e.m, v.l[j]) = T)
      [] op = "MatchesListwise" ->
             B(/\ Len(e.ms) = Len(v.l)
               /\ \A j \in DOMAIN e.ms : Sem(e.ms[j], v.l[j]) = T)
      [] op = "MatchesSetwise" ->
             IF Len(e.ms) # Len(v.l) THEN F
             ELSE IF SetwiseMode = "greedy"
             THEN B(Greedy(e.ms, [j \in DOMAIN e.ms |-> j], v.l))
             ELSE B(\E pm \in Permutations(DOMAIN v.l) :
                        \A j \in DOMAIN v.l : Sem(e.ms[j], v.l[pm[j]]) = T)
      [] op = "MatchesStructure" ->
             B(\A j \in DOMAIN e.attrs :
                   Sem(e.attrs[j][2], IntV(IF e.attrs[j][1] = "x" THEN v.x ELSE v.y)) = T)
      [] op = "MatchesDict" ->
             B(/\ DKeys(e.kms) = DKeys(v.d)
               /\ \A key \in DKeys(v.d) : Sem(DGet(e.kms, key), DGet(v.d, key)) = T)
      [] op = "ContainsDict" ->
             B(/\ DKeys(e.kms) \subseteq DKeys(v.d)
               /\ \A key \in DKeys(e.kms) : Sem(DGet(e.kms, key), DGet(v.d, key)) = T)
      [] op = "ContainedByDict" ->
             B(/\ DKeys(v.d) \subseteq DKeys(e.kms)
               /\ \A key \in DKeys(v.d) : Sem(DGet(e.kms, key), DGet(v.d, key)) = T)

-----------------------------------------------------------------------------
(* Domain: which values a matcher is documented to accept (typed enumeration stays inside;   *)
(* rows recorded from the code that fall outside are reported as harness errors, not verdicts) *)
RECURSIVE InDomain(_, _)
InDomain(e, v) ==
    LET op == e.op IN
    CASE op \in {"Equals", "NotEquals", "IsInstance", "Always", "Never", "MatchesException"} -> TRUE
      [] op = "Is" -> v.k # e.ref.k \/ v.k \in {"int", "bool", "obj"}
      [] op \in {"LessThan", "GreaterThan"} -> (v.k \in NumK /\ e.ref.k \in NumK) \/ (v.k = "str" /\ e.ref.k = "str")
      [] op = "Contains" -> ~(v.k = "str" /\ e.ref.k # "str")
      [] op = "ContainsAll" -> \A j \in DOMAIN e.refs : ~(v.k = "str" /\ e.refs[j].k # "str")
      [] op \in {"StartsWith", "EndsWith", "MatchesRegex"} -> v.k = "str"
      [] op = "HasLength" -> v.k \in {"str", "list", "dict"}
      [] op = "SameMembers" -> v.k = "list"
      [] op = "KeysEqual" -> v.k = "dict"
      [] op = "MatchesPredicate" -> IF e.pred = "even" THEN v.k = "int" ELSE v.k \in {"str", "list", "dict"}
      [] op = "RaisesAny" -> v.k = "call"
      [] op = "Raises" -> v.k = "call" /\ (v.beh = "raise" => InDomain(e.m, ExcV(v.ty, v.arg)))
      [] op \in {"PathExists", "DirExists", "FileExists", "DirContains"} -> v.k = "path"
      \* FileContains opens whatever exists at the path: a directory is outside its documented domain
      [] op = "FileContains" -> v.k = "path" /\ v.st # "dir"
      [] op = "FileContainsM" -> v.k = "path" /\ v.st # "dir" /\ (v.st = "file" => InDomain(e.m, StrV(v.content)))
      [] op = "DirContainsM" -> v.k = "path" /\ (v.st = "dir" => InDomain(e.m, ListV(v.names)))
      [] op \in {"Not", "Annotate"} -> InDomain(e.m, v)
      [] op = "AfterPreprocessing" ->
             /\ CASE e.f = "len" -> v.k \in {"str", "list", "dict"}
                  [] e.f = "sum" -> v.k = "list" /\ \A j \in DOMAIN v.l : v.l[j].k = "int"
                  [] e.f = "rev" -> v.k \in {"str", "list"}
                  [] OTHER -> FALSE
             /\ InDomain(e.m, Apply(e.f, v))
      [] op \in {"MatchesAll", "MatchesAny"} -> \A j \in DOMAIN e.ms : InDomain(e.ms[j], v)
      [] op \in {"AllMatch", "AnyMatch"} -> v.k = "list" /\ \A j \in DOMAIN v.l : InDomain(e.m, v.l[j])
      [] op = "MatchesListwise" ->
             v.k = "list" /\ \A j \in DOMAIN e.ms : j \in DOMAIN v.l => InDomain(e.ms[j], v.l[j])
      [] op = "MatchesSetwise" ->
             v.k = "list" /\ \A j \in DOMAIN e.ms : \A q \in DOMAIN v.l : InDomain(e.ms[j], v.l[q])
      [] op = "MatchesStructure" ->
             v.k = "obj" /\ \A j \in DOMAIN e.attrs :
                 InDomain(e.attrs[j][2], IntV(IF e.attrs[j][1] = "x" THEN v.x ELSE v.y))
      [] op \in {"MatchesDict", "ContainsDict", "ContainedByDict"} ->
             v.k = "dict" /\ \A key \in DKeys(e.kms) \cap DKeys(v.d) :
                 InDomain(DGet(e.kms, key), DGet(v.d, key))
      [] OTHER -> FALSE

\* verdict exported / compared: "X" marks a pair outside the documented domain
Verdict(e, v) == IF InDomain(e, v) THEN Sem(e, v) ELSE "X"

-----------------------------------------------------------------------------
(* expression constructors (used by the enumeration and by the algebraic invariants) *)
NotE(m)         == [op |-> "Not", m |-> m]
AnnE(msg, m)    == [op |-> "Annotate", msg |-> msg, m |-> m]
PreE(f, m)      == [op |-> "AfterPreprocessing", f |-> f, m |-> m]
AllE(ms, fo)    == [op |-> "MatchesAll", ms |-> ms, fo |-> fo]
AnyE(ms)        == [op |-> "MatchesAny", ms |-> ms]
AllMatchE(m)    == [op |-> "AllMatch", m |-> m]
AnyMatchE(m)    == [op |-> "AnyMatch", m |-> m]
ListwiseE(ms, fo) == [op |-> "MatchesListwise", ms |-> ms, fo |-> fo]
SetwiseE(ms)    == [op |-> "MatchesSetwise", ms |-> ms]
StructE(attrs)  == [op |-> "MatchesStructure", attrs |-> attrs]
DictE(o, kms)   == [op |-> o, kms |-> kms]
RaisesE(m)      == [op |-> "Raises", m |-> m]
ExcME(tys, m)   == [op |-> "MatchesException", form |-> "type", tys |-> tys, vk |-> "m", m |-> m]
FileME(m)       == [op |-> "FileContainsM", m |-> m]
DirME(m)        == [op |-> "DirContainsM", m |-> m]
=============================================================================
