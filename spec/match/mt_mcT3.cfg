SPECIFICATION Spec
CONSTANTS
  SetwiseMode = "matching"
  Leaf <- LeafS
  Vals <- ValsF
  Roots <- IntStr
  Wraps <- NoWraps
  Combos <- AllCombos
  Combos3 <- Combos3S
  MaxDepth = 2
  MaxNodes = 4
  MaxStack = 3
CONSTRAINT ExportC
INVARIANT TotalInvariant
INVARIANT DoubleNegationInvariant
INVARIANT DeMorganInvariant
INVARIANT QuantifierInvariant
INVARIANT SetwisePermutationInvariant
INVARIANT DictSplitInvariant
INVARIANT UnitInvariant
CHECK_DEADLOCK FALSE
