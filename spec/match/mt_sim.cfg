SPECIFICATION Spec
CONSTANTS
  SetwiseMode = "matching"
  Leaf <- LeafSim
  Vals <- ValsQ
  Roots <- AllSorts
  Wraps <- AllWraps
  Combos <- AllCombos
  Combos3 <- Combos3S
  MaxDepth = 5
  MaxNodes = 12
  MaxStack = 3
CONSTRAINT ExportC
INVARIANT TotalInvariant
INVARIANT DoubleNegationInvariant
INVARIANT DeMorganInvariant
INVARIANT QuantifierInvariant
INVARIANT SetwisePermutationInvariant
INVARIANT DictSplitInvariant
INVARIANT UnitInvariant
CHECK_DEADLOCK FALSE
