SPECIFICATION Spec
CONSTANTS
  MaxLen = 4
  EscapeTriple = TRUE
CONSTRAINT ExportC
INVARIANT RoundTrip
INVARIANT ModeInvariant
CHECK_DEADLOCK FALSE
