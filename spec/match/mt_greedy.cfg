\* Non-vacuity: the mechanism of the code (greedy assignment in iteration order) is NOT the property.
\* TLC must report SetwisePermutationInvariant violated under this configuration.
SPECIFICATION Spec
CONSTANTS
  SetwiseMode = "greedy"
  Leaf <- LeafS
  Vals <- ValsQ
  Roots <- IntOnly
  Wraps <- NoWraps
  Combos <- SetwiseOnly
  Combos3 <- NoCombos
  MaxDepth = 2
  MaxNodes = 3
  MaxStack = 2
INVARIANT TotalInvariant
INVARIANT SetwisePermutationInvariant
CHECK_DEADLOCK FALSE
