SPECIFICATION Spec
CONSTANTS
  MaxLen = 7
  EscapeTriple = TRUE

INVARIANT RoundTrip
INVARIANT ModeInvariant
CHECK_DEADLOCK FALSE
