SPECIFICATION Spec
CONSTANTS
  SetwiseMode = "matching"
  Leaf <- LeafQ
  Vals <- ValsQ
  Roots <- AllSorts
  Wraps <- AllWraps
  Combos <- QuickCombos
  Combos3 <- NoCombos
  MaxDepth = 2
  MaxNodes = 3
  MaxStack = 2
CONSTRAINT ExportC
INVARIANT TotalInvariant
INVARIANT DoubleNegationInvariant
INVARIANT DeMorganInvariant
INVARIANT QuantifierInvariant
INVARIANT SetwisePermutationInvariant
INVARIANT DictSplitInvariant
INVARIANT UnitInvariant
CHECK_DEADLOCK FALSE
