------------------------------ MODULE TextRepr ------------------------------
(***************************************************************************)
(* C07 (text_repr clause): testtools.compat.text_repr(text, multiline)     *)
(* produces a Python literal that evaluates back to `text`.                *)
(*                                                                         *)
(* Input texts are sequences over a CLASS alphabet                         *)
(*   sq '   dq "   bs \   nl newline   pa printable ASCII   cc control     *)
(*   nap non-ASCII printable   npu non-printable Unicode   as astral       *)
(*   hb byte >= 0x80 (bytes only)                                          *)
(* of kind "str" or "bytes", with multiline in {"none", "true", "false"}.  *)
(*                                                                         *)
(* MECHANISM (code-shaped, compat.py:62-110): TextReprOut follows the code *)
(* line by line on sequences of OUTPUT symbols: Repr (the built-in repr:   *)
(* quote choice and per-class escapes), split at newlines, strip the       *)
(* quotes of each line's repr, un-escape its quote, join with raw          *)
(* newlines, append two quotes, escape every run of three quotes, wrap.    *)
(* MEANING (independent): Parse is an abstract reader of Python string     *)
(* literals (prefix, single/triple quoting, backslash escapes, line        *)
(* continuation, where the literal ends).  RoundTrip: Parse(TextReprOut)   *)
(* gives back the kind and the text, for every input.                      *)
(*                                                                         *)
(* Output symbols: "Q1" ' "Q2" " "BS" backslash "NL" raw newline, "b" the  *)
(* bytes prefix, literals "PA" "NAP" "AS", and escape bodies "n" "CC"      *)
(* "NPU" "HB" (the characters after a backslash that denote a newline, a   *)
(* control character, a non-printable code point, a high byte).            *)
(***************************************************************************)
EXTENDS Integers, Sequences, FiniteSets, TLC, Json

CONSTANTS
    MaxLen,        \* bound on the length of the input text
    EscapeTriple   \* TRUE: the code's pass that escapes runs of three quotes; FALSE: a mutation (must break RoundTrip)

VARIABLES kind, ml, text

StrClasses   == {"sq", "dq", "bs", "nl", "pa", "cc", "nap", "npu", "as"}
BytesClasses == {"sq", "dq", "bs", "nl", "pa", "cc", "hb"}
Classes(kd) == IF kd = "str" THEN StrClasses ELSE BytesClasses

Init == /\ kind \in {"str", "bytes"}
        /\ ml \in {"none", "true", "false"}
        /\ text = <<>>

AddChar(c) == /\ Len(text) < MaxLen
             /\ c \in Classes(kind)
             /\ text' = Append(text, c)
             /\ UNCHANGED <<kind, ml>>

Next == \E c \in StrClasses \cup BytesClasses : AddChar(c)
Spec == Init /\ [][Next]_<<kind, ml, text>>

-----------------------------------------------------------------------------
(* MECHANISM *)
Has(s, c) == \E j \in DOMAIN s : s[j] = c
Prefix(kd) == IF kd = "bytes" THEN <<"b">> ELSE <<>>

RECURSIVE Flat(_)
Flat(ss) == IF ss = <<>> THEN <<>> ELSE Head(ss) \o Flat(Tail(ss))

\* repr(): quote choice and escapes
QuoteFor(s) == IF Has(s, "sq") /\ ~Has(s, "dq") THEN "Q2" ELSE "Q1"
EscChar(c, q) ==
    CASE c = "sq"  -> IF q = "Q1" THEN <<"BS", "Q1">> ELSE <<"Q1">>
      [] c = "dq"  -> IF q = "Q2" THEN <<"BS", "Q2">> ELSE <<"Q2">>
      [] c = "bs"  -> <<"BS", "BS">>
      [] c = "nl"  -> <<"BS", "n">>
      [] c = "pa"  -> <<"PA">>
      [] c = "cc"  -> <<"BS", "CC">>
      [] c = "nap" -> <<"NAP">>
      [] c = "npu" -> <<"BS", "NPU">>
      [] c = "as"  -> <<"AS">>
      [] c = "hb"  -> <<"BS", "HB">>
Repr(s, kd) == LET q == QuoteFor(s)
               IN Prefix(kd) \o <<q>> \o Flat([j \in DOMAIN s |-> EscChar(s[j], q)]) \o <<q>>

\* text.split(nl): sequence of lines
RECURSIVE SplitNl(_, _)
SplitNl(s, cur) == IF s = <<>> THEN <<cur>>
                   ELSE IF Head(s) = "nl" THEN <<cur>> \o SplitNl(Tail(s), <<>>)
                   ELSE SplitNl(Tail(s), Append(cur, Head(s)))

\* r.replace("\\" + q, q): leftmost, non-overlapping
RECURSIVE Unquote(_, _)
Unquote(r, q) == IF Len(r) < 2 THEN r
                 ELSE IF r[1] = "BS" /\ r[2] = q THEN <<q>> \o Unquote(SubSeq(r, 3, Len(r)), q)
                 ELSE <<r[1]>> \o Unquote(Tail(r), q)

RECURSIVE JoinNl(_)
JoinNl(ls) == IF Len(ls) = 1 THEN ls[1] ELSE ls[1] \o <<"NL">> \o JoinNl(Tail(ls))

\* index >= p of the first run of three quotes, or 0
FindTriple(s, p) ==
    LET hits == { j \in p..(Len(s) - 2) : s[j] = "Q1" /\ s[j + 1] = "Q1" /\ s[j + 2] = "Q1" }
    IN IF hits = {} THEN 0 ELSE CHOOSE j \in hits : \A j2 \in hits : j <= j2

\* while True: p = find("'''", p); insert a backslash at p; p += 2      (1-based here)
RECURSIVE EscTriples(_, _)
EscTriples(s, p) ==
    LET f == FindTriple(s, p) IN
    IF f = 0 THEN s
    ELSE EscTriples(SubSeq(s, 1, f - 1) \o <<"BS">> \o SubSeq(s, f, Len(s)), f + 2)

LineBody(line, kd) ==
    LET r   == Repr(line, kd)
        q   == r[Len(r)]
        off == Len(Prefix(kd)) + 1
    IN Unquote(SubSeq(r, off + 1, Len(r) - 1), q)

IsMultiline == IF ml = "none" THEN Has(text, "nl") ELSE ml = "true"

TextReprOut ==
    IF ~IsMultiline THEN Repr(text, kind)
    ELSE LET lines == SplitNl(text, <<>>)
             semi  == JoinNl([j \in DOMAIN lines |-> LineBody(lines[j], kind)]) \o <<"Q1", "Q1">>
             done  == IF EscapeTriple THEN EscTriples(semi, 1) ELSE semi
         IN Prefix(kind) \o <<"Q1", "Q1", "Q1", "BS", "NL">> \o done \o <<"Q1">>

-----------------------------------------------------------------------------
(* MEANING: an abstract reader of Python string literals *)
Err == <<"error">>

\* the character class denoted by the symbol after a backslash (or "skip" for a line continuation, "bad")
EscapeOf(sym, kd) ==
    CASE sym = "BS"  -> "bs"
      [] sym = "Q1"  -> "sq"
      [] sym = "Q2"  -> "dq"
      [] sym = "n"   -> "nl"
      [] sym = "CC"  -> "cc"
      [] sym = "NPU" -> IF kd = "str" THEN "npu" ELSE "bad"      \* \u.... is not an escape in a bytes literal
      [] sym = "HB"  -> IF kd = "bytes" THEN "hb" ELSE "bad"
      [] sym = "NL"  -> "skip"                                    \* backslash-newline: line continuation
      [] OTHER       -> "bad"                                     \* backslash before an ordinary character

\* the character class denoted by a symbol standing for itself
LiteralOf(sym, kd) ==
    CASE sym = "PA"  -> "pa"
      [] sym = "Q1"  -> "sq"
      [] sym = "Q2"  -> "dq"
      [] sym = "NAP" -> IF kd = "str" THEN "nap" ELSE "bad"       \* bytes literals are ASCII only
      [] sym = "AS"  -> IF kd = "str" THEN "as" ELSE "bad"
      [] OTHER       -> "bad"                                     \* an escape body without its backslash

\* body of a literal opened with quote q (triple or not), from position j; acc = characters read so far
RECURSIVE Body(_, _, _, _, _, _)
Body(s, j, q, triple, kd, acc) ==
    IF j > Len(s) THEN Err                                        \* unterminated
    ELSE LET c == s[j] IN
    IF c = "BS" THEN
        IF j = Len(s) THEN Err
        ELSE LET cls == EscapeOf(s[j + 1], kd) IN
             IF cls = "bad" THEN Err
             ELSE Body(s, j + 2, q, triple, kd, IF cls = "skip" THEN acc ELSE Append(acc, cls))
    ELSE IF c = "NL" THEN
        IF triple THEN Body(s, j + 1, q, triple, kd, Append(acc, "nl")) ELSE Err
    ELSE IF c = q /\ ~triple THEN
        IF j = Len(s) THEN acc ELSE Err                           \* the literal ends here: nothing may follow
    ELSE IF c = q /\ triple /\ j + 2 <= Len(s) /\ s[j + 1] = q /\ s[j + 2] = q THEN
        IF j + 2 = Len(s) THEN acc ELSE Err
    ELSE LET cls == LiteralOf(c, kd) IN
         IF cls = "bad" THEN Err ELSE Body(s, j + 1, q, triple, kd, Append(acc, cls))

Parse(out) ==
    LET kd == IF out # <<>> /\ out[1] = "b" THEN "bytes" ELSE "str"
        s  == IF kd = "bytes" THEN Tail(out) ELSE out
    IN IF s = <<>> \/ s[1] \notin {"Q1", "Q2"} THEN Err
       ELSE LET q == s[1]
                triple == Len(s) >= 3 /\ s[2] = q /\ s[3] = q      \* the tokenizer: q q q opens a triple-quoted literal
                b == Body(s, IF triple THEN 4 ELSE 2, q, triple, kd, <<>>)
            IN IF b = Err THEN Err ELSE [kind |-> kd, text |-> b]

-----------------------------------------------------------------------------
RoundTrip == Parse(TextReprOut) = [kind |-> kind, text |-> text]

\* the documented shape: triple-quoted exactly when multiline is requested / the text has a newline
ModeInvariant ==
    LET out == TextReprOut
        s   == IF kind = "bytes" THEN Tail(out) ELSE out
    IN IsMultiline <=> (Len(s) >= 6 /\ s[1] = "Q1" /\ s[2] = "Q1" /\ s[3] = "Q1" /\ s[4] = "BS" /\ s[5] = "NL")

Row == [kind |-> kind, ml |-> ml, text |-> text, out |-> TextReprOut, triple |-> IsMultiline]
ExportC == PrintT(<<"EXPORT", ToJson(Row)>>)
=============================================================================
