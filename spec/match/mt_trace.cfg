SPECIFICATION Spec
CONSTANTS
  SetwiseMode = "matching"
INVARIANT RowDecided
INVARIANT Done
CHECK_DEADLOCK FALSE
