SPECIFICATION Spec
CONSTANTS
  MaxLen = 5
  EscapeTriple = TRUE
CONSTRAINT ExportC
INVARIANT RoundTrip
INVARIANT ModeInvariant
CHECK_DEADLOCK FALSE
