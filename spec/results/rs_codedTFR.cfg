SPECIFICATION Spec
CONSTANTS
  Stacks <- StTFR
  Outcomes <- Out1
  TagOps <- TagOps2
  Times = {"1", "2"}
  MaxCalls = 8
  MaxTests = 1
  MaxRuns = 2
  MaxTagOps = 1
  MaxTimes = 0
  MaxIds = 9
  AllowStop = FALSE
  AllowSetFF = FALSE
  AllowSkipNoStart = FALSE
  AllowDone = FALSE
  AllowProgress = FALSE
  PreFF = {FALSE}
  Coded = {"tfrKeepsGlobalTags"}
  SubErrs = {}
  DetIds = {"fresh"}
VIEW ViewNoHist
INVARIANT Verdict
INVARIANT TagsScoped
INVARIANT TagsObserved
INVARIANT ExactlyOnce
INVARIANT NoUpgrade
PROPERTY FailFastStops
PROPERTY FailFastNotEarlier
PROPERTY StopReaches
PROPERTY DeliveredStable
CHECK_DEADLOCK FALSE
