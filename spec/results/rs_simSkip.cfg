SPECIFICATION Spec
CONSTANTS
  Stacks <- StacksAll
  Outcomes <- Out2
  TagOps <- TagOpsAll
  Times = {"1", "2"}
  MaxCalls = 20
  MaxTests = 4
  MaxRuns = 2
  MaxTagOps = 6
  MaxTimes = 0
  MaxIds = 9
  AllowStop = FALSE
  AllowSetFF = FALSE
  AllowSkipNoStart = TRUE
  AllowDone = FALSE
  AllowProgress = FALSE
  PreFF = {FALSE}
  Coded = {}
  SubErrs = {}
  DetIds = {"fresh"}
CONSTRAINT ExportC
INVARIANT Verdict
INVARIANT TagsScoped
INVARIANT TagsObserved
INVARIANT ExactlyOnce
INVARIANT NoUpgrade
PROPERTY FailFastStops
PROPERTY FailFastNotEarlier
PROPERTY StopReaches
PROPERTY DeliveredStable
CHECK_DEADLOCK FALSE
