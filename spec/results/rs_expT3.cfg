SPECIFICATION Spec
CONSTANTS
  Stacks <- StacksTags
  Outcomes <- Out1
  TagOps <- TagOps2
  Times = {"1", "2"}
  MaxCalls = 10
  MaxTests = 1
  MaxRuns = 2
  MaxTagOps = 2
  MaxTimes = 0
  MaxIds = 9
  AllowStop = FALSE
  AllowSetFF = FALSE
  AllowSkipNoStart = FALSE
  AllowDone = FALSE
  AllowProgress = FALSE
  PreFF = {FALSE}
  Coded = {}
  SubErrs = {}
  DetIds = {"fresh"}
CONSTRAINT ExportC
INVARIANT Verdict
INVARIANT TagsScoped
INVARIANT TagsObserved
INVARIANT ExactlyOnce
INVARIANT NoUpgrade
PROPERTY FailFastStops
PROPERTY FailFastNotEarlier
PROPERTY StopReaches
PROPERTY DeliveredStable
CHECK_DEADLOCK FALSE
