SPECIFICATION Spec
CONSTANTS
  Stacks <- StacksTags
  Outcomes <- Out1
  TagOps <- TagOps4
  Times = {"1", "2"}
  MaxCalls = 10
  MaxTests = 2
  MaxRuns = 1
  MaxTagOps = 2
  MaxTimes = 0
  MaxIds = 9
  AllowStop = FALSE
  AllowSetFF = FALSE
  AllowSkipNoStart = TRUE
  AllowDone = FALSE
  AllowProgress = FALSE
  PreFF = {FALSE}
  Coded = {}
  SubErrs = {}
  DetIds = {"fresh"}
CONSTRAINT ExportC
INVARIANT Verdict
INVARIANT TagsScoped
INVARIANT TagsObserved
INVARIANT ExactlyOnce
INVARIANT NoUpgrade
PROPERTY FailFastStops
PROPERTY FailFastNotEarlier
PROPERTY StopReaches
PROPERTY DeliveredStable
CHECK_DEADLOCK FALSE
