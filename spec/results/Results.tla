------------------------------- MODULE Results -------------------------------
(***************************************************************************)
(* Result objects, adapters and tags of testtools (testresult/real.py,     *)
(* tags.py, testcase.PlaceHolder).  Serves C04, C08 and C17.               *)
(*                                                                         *)
(* A behaviour = one STACK of result objects (a finite tree chosen in Init *)
(* from the template set Stacks) + a history of TestResult API calls made  *)
(* by a reporter on the top node.                                          *)
(*                                                                         *)
(* MECHANISM: every call is the composition of per-node transfer functions *)
(* D(ns, i, c), one case analysis per class, mirroring real.py: probing    *)
(* for missing methods, the details= / exc_info fallback, dispatch to all  *)
(* children, buffering in ThreadsafeForwardingResult, one callback per     *)
(* test in TestByTestResult, the TagContext parent chain.                  *)
(*                                                                         *)
(* MEANING: folds over the reporter history `rh` that never look at the    *)
(* tree mechanics: BadSince, FFEffective (C04); Expected with the fixed    *)
(* table Degrade (C08); SpecTags - a run-level set plus a test-level       *)
(* overlay dropped at stopTest (C17).  The invariants relate the two.      *)
(***************************************************************************)
EXTENDS Naturals, Sequences, FiniteSets, TLC, Json, SequencesExt

CONSTANTS
    Stacks,          \* set of templates [name, nodes]; nodes = flat sequence of [k, ch, new, gone, imp]
    Outcomes,        \* set of <<kind, form>> the reporter may report
    TagOps,          \* set of <<new, gone>> (disjoint) the reporter may pass to tags()
    Times,           \* explicit values for time()
    MaxCalls, MaxTests, MaxRuns, MaxTagOps, MaxTimes,
    MaxIds,          \* distinct test objects the reporter has: test k is object ((k-1) % MaxIds)+1, so with MaxIds = 1 the
                     \* same test is listed again and again (one test id then accounts for several problems)
    AllowStop, AllowSetFF, AllowSkipNoStart, AllowDone, AllowProgress,   \* BOOLEAN switches of the call alphabet
    PreFF,           \* subset of BOOLEAN: failfast set on the underlying results before wrapping
    Coded,           \* known deviations of the code switched ON in the mechanism (empty = as required)
    SubErrs,         \* kinds of err the reporter may pass to addSubTest(test, subtest, err) on one of testtools' own results:
                     \* subset of {"failure", "error", "none"} ("none": err is None, a passing subtest); {} = no such calls
    DetIds           \* how the reporter makes its details dicts: subset of {"fresh", "reuse"} ("reuse": ONE dict object for all
                     \* outcomes, cleared and refilled before each call)

None == "none"
NoTags == {"~"}          \* "no value" marker for tag sets (TLC cannot compare a set with a string)
Raises == {"!"}          \* current_tags would raise
Clock == "clock"         \* a wall-clock reading (no time() was supplied)
Unset == "unset"         \* ThreadsafeForwardingResult._test_start is None

Kinds == {"success", "error", "failure", "skip", "xfail", "uxsuccess"}
Bad == {"error", "failure", "uxsuccess"}

TTLike == {"TT", "Text", "ByTest"}                    \* testtools.TestResult and leaf subclasses
Doubles == {"Py26", "Py27", "Ext", "Tw"}
LeafKinds == TTLike \cup Doubles \cup {"E2S"}
OldStyle == {"Py26", "Py27", "Tw"}                    \* neither details= nor tags/time

VARIABLES
    stack,    \* the template chosen in Init (constant along a behaviour)
    preff,    \* failfast was set on the underlying results before they were wrapped
    ns,       \* node states (mechanism)
    phase,    \* "idle" | "run" | "test" | "outcome" : well-formedness of the reporter
    runs, ntests, ncalls, ntagops, ntimes, nff, stopped, curtest,
    rh,       \* the reporter's history of calls (for the MEANING)
    hist      \* export: call + expected observation after it

vars == <<stack, preff, ns, phase, runs, ntests, ncalls, ntagops, ntimes, nff, stopped, curtest, rh, hist>>

Nodes == stack.nodes
N == Len(Nodes)
K(i) == Nodes[i].k
Kids(i) == Nodes[i].ch
Kid(i) == Nodes[i].ch[1]

-----------------------------------------------------------------------------
(* Capability tables: what getattr()/hasattr() probes and a details= call  *)
(* find on an object of each class.                                         *)
Has(k, m) ==
    CASE m \in {"startTestRun", "stopTestRun"} -> k \notin {"Py26", "Tw"}
      [] m \in {"tags", "time"} -> k \notin OldStyle
      [] m = "stop" -> k # "Tw"
      [] m = "done" -> k \in TTLike \cup {"Multi", "TFR", "E2O", "Tw"}
      [] m \in {"addSkip", "addExpectedFailure", "addUnexpectedSuccess"} -> k # "Py26"
      [] m = "progress" -> k \in {"E2O", "Ext", "TFR", "Decor", "Tagger"}
HasAttr(k, a) ==
    CASE a = "shouldStop" -> k # "Tw"
      [] a = "failfast" -> k \in TTLike \cup {"Multi", "TFR", "E2O", "E2S", "Py27", "Ext"}
      [] a = "current_tags" -> k \notin OldStyle /\ k # "S2E"
AcceptsDetails(k) == k \notin OldStyle

-----------------------------------------------------------------------------
(* Calls and log events (uniform records so that TLC can compare them)      *)
\* id: "fresh" | "reuse" - the details dict of an outcome is a new object / THE one dict object the reporter keeps, cleared and
\* refilled for this call; x: the token that makes the detail texts of this call its own (None: no detail text)
Call(op) == [op |-> op, t |-> None, kind |-> None, form |-> None, n |-> {}, g |-> {}, v |-> None, b |-> FALSE, id |-> None, x |-> None]
CStart(t) == [Call("startTest") EXCEPT !.t = t]
CStopT(t) == [Call("stopTest") EXCEPT !.t = t]
CAdd(t, kind, form) == [Call("add") EXCEPT !.t = t, !.kind = kind, !.form = form]
TextForms == {"det", "detr", "synexc", "synreason"}     \* payload classes that carry the detail text of the call
CAddD(t, kind, form, id, x) == [CAdd(t, kind, form) EXCEPT !.id = id, !.x = IF form \in TextForms THEN x ELSE None]
CTags(n, g) == [Call("tags") EXCEPT !.n = n, !.g = g]
CTime(v) == [Call("time") EXCEPT !.v = v]
CSetFF(b) == [Call("setff") EXCEPT !.b = b]
\* unittest.TestResult.addSubTest(test, subtest, err), inherited by testtools.TestResult: kind = class of err
CSub(t, kind) == [Call("subtest") EXCEPT !.t = t, !.kind = kind]
\* stream event handed to a StreamToExtendedDecorator
CStatus(t, st, p, tg, v) == [Call("status") EXCEPT !.t = t, !.kind = st, !.form = p, !.n = tg, !.v = v]

\* e: event name; t: test; k: outcome kind / status word; p: payload class; tg: tags current at that moment
\* (NoTags when the object has none); n, g: arguments of tags(); v, w: time values
\* ref: <<>> when tg is a value of its own (a copy); <<d>> when the consumer was handed the LIVE set of the tag context at
\* depth d of the node that logged the event (deviation "liveTagSets": get_current_tags() returning its internal set)
Ev(e, t, k, p, tg, n, g, v, w) == [e |-> e, t |-> t, k |-> k, p |-> p, tg |-> tg, n |-> n, g |-> g, v |-> v, w |-> w, ref |-> <<>>]
\* what the holder of a delivered event sees in it NOW
View(s, ev) == IF ev.ref = <<>> \/ ev.ref[1] > Len(s.ctx) THEN ev.tg ELSE s.ctx[ev.ref[1]]
\* a context object that goes out of use keeps the content it had: events referring to depth >= d get that value for good
Freeze(s, d) == [s EXCEPT !.log = [y \in DOMAIN s.log |->
                                        LET ev == s.log[y] IN
                                        IF ev.ref # <<>> /\ ev.ref[1] >= d THEN [ev EXCEPT !.tg = View(s, ev), !.ref = <<>>] ELSE ev]]
EvPlain(e, t) == Ev(e, t, None, None, NoTags, {}, {}, None, None)

-----------------------------------------------------------------------------
(* TagContext (tags.py): a parent chain; <<>> stands for None.              *)
Root == <<{}>>
Push(ctx) == IF ctx = <<>> THEN Root ELSE Append(ctx, Last(ctx))
\* stopTest: `if self._tags is not None: self._tags = self._tags.parent` - the parent of the root is None
Pop(ctx) == IF "stopTestNullsTags" \in Coded
            THEN (IF ctx = <<>> THEN <<>> ELSE Front(ctx))
            ELSE (IF Len(ctx) <= 1 THEN ctx ELSE Front(ctx))
Change(ctx, n, g) == IF ctx = <<>> THEN <<>> ELSE [ctx EXCEPT ![Len(ctx)] = (@ \cup n) \ g]
Cur(ctx) == IF ctx = <<>> THEN Raises ELSE Last(ctx)

\* _merge_tags(existing, changed)
Merge(ex, n, g) == <<(ex[1] \cup n) \ g, (ex[2] \cup g) \ n>>
NoPair == <<{}, {}>>

InitNode(k, ff) ==
    [errs |-> 0, fails |-> 0, uxs |-> 0, run |-> 0, ok |-> TRUE, stop |-> FALSE,
     ff |-> (ff /\ k \in TTLike \cup {"Py27", "E2S"}),
     ctx |-> Root, now |-> None, log |-> <<>>,
     ts |-> Unset, gt |-> NoPair, tt |-> NoPair,        \* TFR: _test_start, _global_tags, _test_tags; S2E: first timestamp
     bstart |-> None, bstatus |-> None, bdet |-> None]  \* TestByTestResult accumulators

NowOf(s) == IF s.now = None THEN Clock ELSE s.now
AddLog(s, ev) == [s EXCEPT !.log = Append(@, ev)]

-----------------------------------------------------------------------------
(* testtools.TestResult itself (real.py:82-266); also the super() part of   *)
(* MultiTestResult, ThreadsafeForwardingResult and TestByTestResult.        *)
TTStep(s, c) ==
    CASE c.op = "startTestRun" ->
            [s EXCEPT !.errs = 0, !.fails = 0, !.uxs = 0, !.run = 0, !.stop = FALSE, !.ctx = Root, !.now = None]
      [] c.op = "startTest" -> [s EXCEPT !.run = @ + 1, !.ctx = Push(@)]
      [] c.op = "stopTest" -> [s EXCEPT !.ctx = Pop(@)]
      [] c.op = "add" ->
            LET s1 == CASE c.kind = "error" -> [s EXCEPT !.errs = @ + 1]
                        [] c.kind = "failure" -> [s EXCEPT !.fails = @ + 1]
                        [] c.kind = "uxsuccess" -> [s EXCEPT !.uxs = @ + 1]
                        [] OTHER -> s
            IN IF c.kind \in Bad /\ s.ff THEN [s1 EXCEPT !.stop = TRUE] ELSE s1
      [] c.op = "tags" -> [s EXCEPT !.ctx = Change(@, c.n, c.g)]
      [] c.op = "time" -> [s EXCEPT !.now = c.v]
      [] c.op = "stop" -> [s EXCEPT !.stop = TRUE]
      [] c.op = "setff" -> [s EXCEPT !.ff = c.b]
      \* inherited unittest.TestResult.addSubTest (unittest/result.py): err None -> nothing; else `if failfast: self.stop()`,
      \* then append to self.failures (err is a test.failureException) or self.errors - NOT through addFailure/addError
      [] c.op = "subtest" ->
            IF c.kind = None THEN s
            ELSE LET s1 == IF c.kind = "failure" THEN [s EXCEPT !.fails = @ + 1] ELSE [s EXCEPT !.errs = @ + 1]
                 IN IF s.ff THEN [s1 EXCEPT !.stop = TRUE] ELSE s1
      [] OTHER -> s

\* what a recording leaf writes down for a call it received (before the state change)
LeafEv(s, c, withTags) ==
    CASE c.op \in {"startTestRun", "stopTestRun", "progress"} -> EvPlain(c.op, None)
      [] c.op \in {"startTest", "stopTest"} -> EvPlain(c.op, c.t)
      \* w: the text found in the payload received (whatever the adapters made of the details current at the call)
      [] c.op = "add" -> Ev("add", c.t, c.kind, c.form, IF withTags THEN Cur(s.ctx) ELSE NoTags, {}, {}, None,
                            IF c.form \in TextForms THEN c.x ELSE None)
      [] c.op = "tags" -> Ev("tags", None, None, None, NoTags, c.n, c.g, None, None)
      [] c.op = "time" -> Ev("time", None, None, None, NoTags, {}, {}, c.v, None)

\* a testtools.TestResult at the bottom of a stack (the driver uses a subclass that records the calls)
TTLeaf(s, c) ==
    IF c.op \in {"startTestRun", "stopTestRun", "startTest", "stopTest", "add", "tags", "time"}
    THEN TTStep(AddLog(s, LeafEv(s, c, TRUE)), c) ELSE TTStep(s, c)

\* testresult.doubles
Py26Leaf(s, c) ==
    CASE c.op = "startTest" -> [AddLog(s, LeafEv(s, c, FALSE)) EXCEPT !.run = @ + 1]
      [] c.op = "stopTest" -> AddLog(s, LeafEv(s, c, FALSE))
      [] c.op = "add" -> [AddLog(s, LeafEv(s, c, FALSE)) EXCEPT !.ok = @ /\ c.kind \notin {"error", "failure"}]
      [] c.op = "stop" -> [s EXCEPT !.stop = TRUE]
      [] OTHER -> s
Py27Leaf(s, c) ==
    CASE c.op \in {"startTestRun", "stopTestRun"} -> AddLog(s, LeafEv(s, c, FALSE))
      [] c.op = "add" -> LET s1 == Py26Leaf(s, c) IN IF c.kind \in Bad /\ s.ff THEN [s1 EXCEPT !.stop = TRUE] ELSE s1
      [] c.op = "setff" -> [s EXCEPT !.ff = c.b]
      [] OTHER -> Py26Leaf(s, c)
\* what the extended double writes down: `reason or details`, `err or details`, `if details:` - a supplied-but-falsy
\* reason / an empty details dict given to addSuccess are logged as "nothing" (a quirk of the recorder, not of the adapters)
ExtLogged(kind, form) == IF form = "reason0" \/ (kind = "success" /\ form = "det0") THEN "none" ELSE form
\* ExtendedTestResult overrides the outcome methods without the failfast check; its stopTest pops unguarded
ExtLeaf(s, c) ==
    CASE c.op = "startTestRun" -> [AddLog(s, LeafEv(s, c, TRUE)) EXCEPT !.ok = TRUE, !.ctx = Root]
      [] c.op = "stopTestRun" -> AddLog(s, LeafEv(s, c, TRUE))
      [] c.op = "startTest" -> [AddLog(s, LeafEv(s, c, TRUE)) EXCEPT !.run = @ + 1, !.ctx = Push(@)]
      [] c.op = "stopTest" -> [AddLog(s, LeafEv(s, c, TRUE)) EXCEPT !.ctx = Pop(@)]
      [] c.op = "add" -> [AddLog(s, LeafEv(s, [c EXCEPT !.form = ExtLogged(c.kind, c.form)], TRUE)) EXCEPT !.ok = @ /\ c.kind \notin Bad]
      [] c.op = "tags" -> [AddLog(s, LeafEv(s, c, TRUE)) EXCEPT !.ctx = Change(@, c.n, c.g)]
      [] c.op \in {"time", "progress"} -> AddLog(s, LeafEv(s, c, TRUE))
      [] c.op = "stop" -> [s EXCEPT !.stop = TRUE]
      [] c.op = "setff" -> [s EXCEPT !.ff = c.b]
      [] OTHER -> s
TwLeaf(s, c) ==
    CASE c.op = "startTest" -> [AddLog(s, LeafEv(s, c, FALSE)) EXCEPT !.run = @ + 1]
      [] c.op = "stopTest" -> AddLog(s, LeafEv(s, c, FALSE))
      [] c.op = "add" -> [AddLog(s, LeafEv(s, c, FALSE)) EXCEPT !.ok = @ /\ c.kind \notin {"error", "failure"}]
      [] OTHER -> s

\* TestByTestResult (real.py:2047-2122): TestResult + accumulate + one on_test() at stopTest
StatusWord(kind) == CASE kind = "success" -> "success" [] kind = "uxsuccess" -> "success"
                      [] kind = "failure" -> "failure" [] kind = "error" -> "error"
                      [] kind = "skip" -> "skip" [] kind = "xfail" -> "xfail"
\* details handed to the callback: the given dict, or one made from the exc_info / reason
ByTestDetails(kind, form) ==
    CASE form \in {"det", "detr"} -> "details"
      [] form = "det0" -> "details0"
      [] form = "exc" -> "tb"
      [] form = "reason" -> "reasondict"
      [] form = "reason0" -> "reasondict0"
      [] OTHER -> None
ByTestLeaf(s, c) ==
    CASE c.op = "startTest" ->
            [TTStep(s, c) EXCEPT !.bstart = NowOf(s), !.bstatus = None, !.bdet = None]
      [] c.op = "add" ->
            [TTStep(s, c) EXCEPT !.bstatus = StatusWord(c.kind), !.bdet = ByTestDetails(c.kind, c.form)]
      [] c.op = "stopTest" ->
            AddLog(TTStep(s, c), Ev("ontest", c.t, s.bstatus, s.bdet, Cur(s.ctx), {}, {}, s.bstart, NowOf(s)))
      [] OTHER -> TTStep(s, c)

\* ExtendedToStreamDecorator over a recording StreamResult (log = what the sink received, projected)
StreamWord(kind) == CASE kind \in {"error", "failure"} -> "fail" [] kind = "xfail" -> "xfail"
                      [] kind = "skip" -> "skip" [] kind = "uxsuccess" -> "uxsuccess" [] kind = "success" -> "success"
StreamPayload(form) == CASE form \in {"det", "detr"} -> "details" [] form = "exc" -> "tb"
                         [] form \in {"reason", "reason0"} -> "reason" [] OTHER -> None

-----------------------------------------------------------------------------
(* Getters (properties of the real classes), evaluated over the tree        *)
RECURSIVE FFGet(_, _), StopGet(_, _), OkGet(_, _), TagsGet(_, _), RunGet(_, _)
FFGet(m, i) ==
    CASE K(i) = "E2O" -> IF HasAttr(K(Kid(i)), "failfast") THEN FFGet(m, Kid(i)) ELSE m[i].ff
      [] K(i) = "Multi" -> FFGet(m, Kid(i))
      [] OTHER -> m[i].ff
StopGet(m, i) ==
    CASE K(i) = "E2O" -> IF HasAttr(K(Kid(i)), "shouldStop") THEN StopGet(m, Kid(i)) ELSE m[i].stop
      [] K(i) = "Multi" -> \E j \in Range(Kids(i)) : StopGet(m, j)
      [] K(i) \in {"TFR", "Decor", "Tagger"} -> StopGet(m, Kid(i))
      [] OTHER -> m[i].stop
OkGet(m, i) ==
    CASE K(i) \in {"E2O", "TFR", "Decor", "Tagger"} -> OkGet(m, Kid(i))
      [] K(i) = "Multi" -> \A j \in Range(Kids(i)) : OkGet(m, j)
      [] K(i) \in TTLike -> m[i].errs + m[i].fails + m[i].uxs = 0
      [] OTHER -> m[i].ok
\* E2O: getattr(self.decorated, "current_tags", self._tags.get_current_tags()) - the default is evaluated eagerly
TagsGet(m, i) ==
    CASE K(i) = "E2O" -> IF m[i].ctx = <<>> THEN Raises
                         ELSE IF HasAttr(K(Kid(i)), "current_tags") THEN TagsGet(m, Kid(i)) ELSE Cur(m[i].ctx)
      [] K(i) \in {"Decor", "Tagger"} -> TagsGet(m, Kid(i))
      [] OTHER -> Cur(m[i].ctx)
RunGet(m, i) ==
    CASE K(i) \in {"E2O", "Decor", "Tagger"} -> RunGet(m, Kid(i))
      [] OTHER -> m[i].run

-----------------------------------------------------------------------------
(* The transfer functions                                                    *)
RECURSIVE D(_, _, _), Dispatch(_, _, _), DSeq(_, _, _)

\* MultiTestResult._dispatch: every wrapped result, in order
Dispatch(m, kids, c) == IF kids = <<>> THEN m ELSE Dispatch(D(m, Head(kids), c), Tail(kids), c)
\* several calls to one node
DSeq(m, i, cs) == IF cs = <<>> THEN m ELSE DSeq(D(m, i, Head(cs)), i, Tail(cs))

\* ExtendedToOriginalDecorator.stop (real.py:1590-1594)
E2OStop(m, i) == IF Has(K(Kid(i)), "stop") THEN D(m, Kid(i), Call("stop")) ELSE [m EXCEPT ![i].stop = TRUE]
\* `finally: if self.failfast: self.stop()`
E2OFinally(m, i) == IF FFGet(m, i) THEN E2OStop(m, i) ELSE m

\* the details= attempt and its TypeError fallback
\* forms: "exc" exc_info, "reason" / "reason0" a reason string (non-empty / the EMPTY string), "det" / "detr" / "det0" a details
\* dict (without / with a 'reason' entry / EMPTY), "none" nothing.  Supplied-but-falsy arguments are still supplied.
DetForms == {"det", "detr", "det0"}
ExcForm(k, form) == IF form \in DetForms /\ ~AcceptsDetails(k) THEN "synexc" ELSE form
\* the reason text made from an empty details dict is the empty string
ReasonForm(k, form) == IF form \in {"det", "detr"} /\ ~AcceptsDetails(k) THEN "synreason"
                       ELSE IF form = "det0" /\ ~AcceptsDetails(k) THEN "reason0" ELSE form
PlainForm(k, form) == IF form \in DetForms /\ ~AcceptsDetails(k) THEN "none" ELSE form

E2OAdd(m, i, c) ==
    LET j == Kid(i)
        kj == K(j) IN
    CASE c.kind \in {"error", "failure"} ->
            E2OFinally(D(m, j, [c EXCEPT !.form = ExcForm(kj, c.form)]), i)
      [] c.kind = "xfail" ->
            IF ~Has(kj, "addExpectedFailure") THEN D(m, j, CAdd(c.t, "success", "none"))
            ELSE D(m, j, [c EXCEPT !.form = ExcForm(kj, c.form)])
      [] c.kind = "skip" ->
            IF ~Has(kj, "addSkip") THEN D(m, j, CAdd(c.t, "success", "none"))
            ELSE D(m, j, [c EXCEPT !.form = ReasonForm(kj, c.form)])
      [] c.kind = "uxsuccess" ->
            IF ~Has(kj, "addUnexpectedSuccess")
            \* test.fail("") -> self.addFailure(test, sys.exc_info()) (with its own finally), then the outer finally
            THEN E2OFinally(E2OFinally(D(m, j, CAdd(c.t, "failure", "exc")), i), i)
            ELSE E2OFinally(D(m, j, [c EXCEPT !.form = PlainForm(kj, c.form)]), i)
      [] c.kind = "success" -> D(m, j, [c EXCEPT !.form = PlainForm(kj, c.form)])

E2ONode(m, i, c) ==
    LET j == Kid(i)
        kj == K(j) IN
    CASE c.op = "startTestRun" -> LET m1 == [m EXCEPT ![i].ctx = Root] IN
                                  IF Has(kj, "startTestRun") THEN D(m1, j, c) ELSE m1
      [] c.op = "stopTestRun" -> IF Has(kj, "stopTestRun") THEN D(m, j, c) ELSE m
      [] c.op = "startTest" -> D([m EXCEPT ![i].ctx = Push(@)], j, c)
      [] c.op = "stopTest" -> D([m EXCEPT ![i].ctx = Pop(@)], j, c)
      [] c.op = "tags" -> IF Has(kj, "tags") THEN D(m, j, c) ELSE [m EXCEPT ![i].ctx = Change(@, c.n, c.g)]
      [] c.op = "time" -> IF Has(kj, "time") THEN D(m, j, c) ELSE m
      [] c.op = "done" -> IF Has(kj, "done") THEN D(m, j, c) ELSE m
      [] c.op = "progress" -> IF Has(kj, "progress") THEN D(m, j, c) ELSE m
      [] c.op = "stop" -> E2OStop(m, i)
      [] c.op = "setff" -> IF HasAttr(kj, "failfast") THEN D(m, j, c) ELSE [m EXCEPT ![i].ff = c.b]
      [] c.op = "add" -> E2OAdd(m, i, c)
      [] OTHER -> m

\* MultiTestResult (real.py:1087-1173)
MultiNode(m, i, c) ==
    CASE c.op = "startTestRun" ->
            \* TestResult.startTestRun saves self.failfast (= first result's), unittest's __init__ assigns False,
            \* then the saved value is assigned back: every wrapped result ends up with the FIRST one's failfast
            LET first == FFGet(m, Kid(i))
                m1 == [m EXCEPT ![i] = TTStep(@, c)]
                m2 == IF "multiClearsFF" \in Coded THEN Dispatch(m1, Kids(i), CSetFF(first)) ELSE m1
            IN Dispatch(m2, Kids(i), c)
      [] c.op \in {"startTest", "stopTest", "tags"} -> Dispatch([m EXCEPT ![i] = TTStep(@, c)], Kids(i), c)
      [] c.op \in {"add", "time", "done", "stop", "stopTestRun", "setff"} -> Dispatch(m, Kids(i), c)
      [] OTHER -> m

\* ThreadsafeForwardingResult (real.py:1250-1412), used from one thread
TFRNode(m, i, c) ==
    LET j == Kid(i)
        s == m[i] IN
    CASE c.op = "startTestRun" ->
            LET s1 == TTStep(s, c)
                s2 == IF "tfrKeepsGlobalTags" \in Coded THEN s1 ELSE [s1 EXCEPT !.gt = NoPair]
            IN D([m EXCEPT ![i] = s2], j, c)
      [] c.op = "startTest" -> [m EXCEPT ![i] = [TTStep(s, c) EXCEPT !.ts = NowOf(s)]]
      \* as required: tags() made while a test is current (also between its outcome and stopTest) are test-local and
      \* gone with the test.  As coded ("tfrPostOutcomeTagsGlobal"): test-local means `_test_start is not None`, which
      \* the outcome resets - a later tags() of the same test lands in the run-level buffer and is sent with every later test
      [] c.op = "stopTest" ->
            [m EXCEPT ![i] = IF "tfrPostOutcomeTagsGlobal" \in Coded THEN TTStep(s, c) ELSE [TTStep(s, c) EXCEPT !.tt = NoPair]]
      [] c.op = "time" -> [m EXCEPT ![i] = TTStep(s, c)]
      [] c.op = "tags" ->
            LET s1 == TTStep(s, c)
                local == IF "tfrPostOutcomeTagsGlobal" \in Coded THEN s.ts # Unset ELSE Len(s.ctx) > 1 IN
            [m EXCEPT ![i] = IF local THEN [s1 EXCEPT !.tt = Merge(@, c.n, c.g)]
                                      ELSE [s1 EXCEPT !.gt = Merge(@, c.n, c.g)]]
      [] c.op = "add" ->
            \* _add_result_with_semaphore: one complete block per outcome
            LET any(p) == p[1] # {} \/ p[2] # {}
                blk == <<CTime(IF s.ts = Unset THEN None ELSE s.ts), CStart(c.t), CTime(NowOf(s))>>
                       \o (IF any(s.gt) THEN <<CTags(s.gt[1], s.gt[2])>> ELSE <<>>)
                       \o (IF any(s.tt) THEN <<CTags(s.tt[1], s.tt[2])>> ELSE <<>>)
                       \o <<c, CStopT(c.t)>>
            IN DSeq([m EXCEPT ![i].tt = NoPair, ![i].ts = Unset], j, blk)
      [] c.op \in {"stop", "done", "stopTestRun"} -> D(m, j, c)
      [] c.op = "setff" -> [m EXCEPT ![i].ff = c.b]
      [] OTHER -> m   \* progress: pass

\* ExtendedToStreamDecorator (real.py:1625-1782); a child, if any, is a StreamToExtendedDecorator
E2SNode(m, i, c) ==
    LET s == m[i]
        sink(mm, ev, sc) == LET m1 == [mm EXCEPT ![i].log = Append(@, ev)] IN
                            IF Kids(i) = <<>> THEN m1 ELSE D(m1, Kid(i), sc)
    IN
    CASE c.op = "startTestRun" ->
            sink([m EXCEPT ![i] = [Freeze(@, 1) EXCEPT !.ctx = Root, !.stop = FALSE, !.now = None]], EvPlain("startTestRun", None), c)
      [] c.op = "stopTestRun" -> sink(m, EvPlain("stopTestRun", None), c)
      [] c.op = "startTest" ->
            LET m1 == sink(m, Ev("status", c.t, "inprogress", None, NoTags, {}, {}, NowOf(s), None),
                           CStatus(c.t, "inprogress", None, NoTags, NowOf(s)))
            IN [m1 EXCEPT ![i].ctx = Push(@)]
      [] c.op = "stopTest" ->
            [m EXCEPT ![i] = IF Len(Pop(s.ctx)) < Len(s.ctx) THEN [Freeze(s, Len(s.ctx)) EXCEPT !.ctx = Pop(@)] ELSE s]
      [] c.op = "add" ->
            LET w == StreamWord(c.kind)
                live == IF "liveTagSets" \in Coded /\ s.ctx # <<>> THEN <<Len(s.ctx)>> ELSE <<>>
                m1 == sink(m, [Ev("status", c.t, w, StreamPayload(c.form), Cur(s.ctx), {}, {}, NowOf(s), None) EXCEPT !.ref = live],
                           CStatus(c.t, w, StreamPayload(c.form), Cur(s.ctx), NowOf(s)))
            \* StreamFailFast as second target
            IN IF s.ff /\ w \in {"fail", "uxsuccess"} THEN [m1 EXCEPT ![i].stop = TRUE] ELSE m1
      [] c.op = "tags" -> [m EXCEPT ![i].ctx = Change(@, c.n, c.g)]
      [] c.op = "time" -> [m EXCEPT ![i].now = c.v]
      [] c.op = "stop" -> [m EXCEPT ![i].stop = TRUE]
      [] c.op = "setff" -> [m EXCEPT ![i].ff = c.b]
      [] OTHER -> m

\* StreamToExtendedDecorator: buffer one test, replay it with PlaceHolder.run (testcase.py:855-866) into
\* its ExtendedToOriginalDecorator (the child node)
S2EKind(w) == CASE w = "fail" -> "failure" [] w = "xfail" -> "xfail" [] w = "skip" -> "skip"
                [] w = "uxsuccess" -> "uxsuccess" [] w = "success" -> "success"
S2ENode(m, i, c) ==
    LET j == Kid(i)
        s == m[i] IN
    CASE c.op \in {"startTestRun", "stopTestRun"} -> D(m, j, c)
      [] c.op = "status" /\ c.kind = "inprogress" -> [m EXCEPT ![i].ts = c.v]
      [] c.op = "status" ->
            LET first == IF s.ts = Unset THEN c.v ELSE s.ts
                T == IF c.n = NoTags THEN {} ELSE c.n
                blk == <<CTime(first), CTags(T, {}), CStart(c.t), CTime(c.v),
                         CAdd(c.t, S2EKind(c.kind), "det"), CStopT(c.t), CTags({}, T)>>
            IN DSeq([m EXCEPT ![i].ts = Unset], j, blk)
      [] OTHER -> m

D(m, i, c) ==
    CASE K(i) = "E2O" -> E2ONode(m, i, c)
      [] K(i) = "Multi" -> MultiNode(m, i, c)
      [] K(i) = "TFR" -> TFRNode(m, i, c)
      [] K(i) = "Decor" -> D(m, Kid(i), c)
      [] K(i) = "Tagger" ->
            \* Tagger.startTest: super().startTest(test); self.tags(new, gone)
            IF c.op = "startTest" THEN D(D(m, Kid(i), c), Kid(i), CTags(Nodes[i].new, Nodes[i].gone))
            ELSE D(m, Kid(i), c)
      [] K(i) = "E2S" -> E2SNode(m, i, c)
      [] K(i) = "S2E" -> S2ENode(m, i, c)
      [] K(i) \in {"TT", "Text"} -> [m EXCEPT ![i] = TTLeaf(@, c)]
      [] K(i) = "ByTest" -> [m EXCEPT ![i] = ByTestLeaf(@, c)]
      [] K(i) = "Py26" -> [m EXCEPT ![i] = Py26Leaf(@, c)]
      [] K(i) = "Py27" -> [m EXCEPT ![i] = Py27Leaf(@, c)]
      [] K(i) = "Ext" -> [m EXCEPT ![i] = ExtLeaf(@, c)]
      [] K(i) = "Tw" -> [m EXCEPT ![i] = TwLeaf(@, c)]

-----------------------------------------------------------------------------
(* Tree navigation.  Everything that depends on the template only is       *)
(* computed once per template (Derived, stored in the template record).     *)
ParentIn(nd, i) == IF i = 1 THEN 0 ELSE CHOOSE p \in 1..Len(nd) : i \in Range(nd[p].ch)
RECURSIVE PathIn(_, _), StoreIn(_, _)
PathIn(nd, i) == IF i = 1 THEN <<1>> ELSE Append(PathIn(nd, ParentIn(nd, i)), i)
AboveIn(nd, i) == LET p == PathIn(nd, i) IN {p[x] : x \in 1..(Len(p) - 1)}          \* strict ancestors
\* the node whose TagContext answers current_tags of node i
StoreIn(nd, i) == CASE nd[i].k \in {"Decor", "Tagger"} -> StoreIn(nd, nd[i].ch[1])
                    [] nd[i].k = "E2O" /\ HasAttr(nd[nd[i].ch[1]].k, "current_tags") -> StoreIn(nd, nd[i].ch[1])
                    [] OTHER -> i
\* Tagger arguments on a path, innermost first
TaggersOnIn(nd, path) ==
    LET idx == SelectSeq(path, LAMBDA x : nd[x].k = "Tagger")
    IN [y \in 1..Len(idx) |-> <<nd[idx[Len(idx) + 1 - y]].new, nd[idx[Len(idx) + 1 - y]].gone>>]
Derived(nd) == [i \in 1..Len(nd) |->
    [par  |-> ParentIn(nd, i),
     buf  |-> \E a \in AboveIn(nd, i) : nd[a].k \in {"TFR", "E2S", "S2E"},
     bstr |-> \E a \in AboveIn(nd, i) : nd[a].k \in {"E2S", "S2E"},
     prog |-> \A a \in AboveIn(nd, i) : nd[a].k \in {"E2O", "Decor", "Tagger"},
     tgl  |-> TaggersOnIn(nd, PathIn(nd, i)),
     tgs  |-> TaggersOnIn(nd, PathIn(nd, StoreIn(nd, i)))]]
Parent(i) == stack.d[i].par
BelowBuffer(i) == stack.d[i].buf
BelowStream(i) == stack.d[i].bstr
ProgressPasses(i) == stack.d[i].prog
TaggersTo(i) == stack.d[i].tgl
TaggersFor(i) == stack.d[i].tgs
RECURSIVE LeavesBelow(_)
LeavesBelow(i) == IF Kids(i) = <<>> THEN {i} ELSE UNION {LeavesBelow(j) : j \in Range(Kids(i))}
Leaves == {i \in 1..N : Kids(i) = <<>>}
BaseLeaves == {i \in 1..N : (Kids(i) = <<>> /\ ~BelowStream(i)) \/ K(i) = "E2S"}
LoggedNodes == Leaves \cup {i \in 1..N : K(i) = "E2S"}

\* which tops can take which call
RECURSIVE CanDone(_), CanProgress(_)
CanDone(i) == CASE K(i) \in {"Decor", "Tagger", "E2S"} -> FALSE [] OTHER -> TRUE
\* ExtendedToOriginalDecorator probes one level only; testtools.TestResult itself has no progress()
CanProgress(i) == CASE K(i) = "E2O" -> (IF Has(K(Kid(i)), "progress") THEN CanProgress(Kid(i)) ELSE TRUE)
                    [] K(i) = "TFR" -> TRUE [] K(i) = "Ext" -> TRUE
                    [] K(i) \in {"Decor", "Tagger"} -> CanProgress(Kid(i)) [] OTHER -> FALSE
CanSetFFKind(k) == k \in {"E2O", "Multi", "E2S"} \cup TTLike
CanSetFF(i) == CanSetFFKind(K(i))

-----------------------------------------------------------------------------
(* Observation exported with every call                                     *)
B2S(b) == IF b THEN "T" ELSE "F"
\* wasSuccessful()/testsRun answered by the StreamSummary inside ExtendedToStreamDecorator belong to C10
RECURSIVE SummaryNA(_)
SummaryNA(i) == CASE K(i) \in {"E2S", "S2E"} -> TRUE
                  [] K(i) \in {"E2O", "TFR", "Decor", "Tagger"} -> SummaryNA(Kid(i))
                  [] K(i) = "Multi" -> \E j \in Range(Kids(i)) : SummaryNA(j)
                  [] OTHER -> FALSE
RunNA(i) == CASE K(i) \in {"E2S", "S2E"} -> TRUE
              [] K(i) \in {"E2O", "Decor", "Tagger"} -> SummaryNA(Kid(i))
              [] OTHER -> FALSE
Obs(m) == [i \in 1..N |->
             [ok   |-> IF SummaryNA(i) THEN "na" ELSE B2S(OkGet(m, i)),
              stop |-> IF K(i) \in {"Tw", "S2E"} THEN "na" ELSE B2S(StopGet(m, i)),
              tags |-> IF HasAttr(K(i), "current_tags") THEN TagsGet(m, i) ELSE NoTags,
              run  |-> IF RunNA(i) THEN 99 ELSE RunGet(m, i),
              cnt  |-> IF K(i) \in TTLike THEN <<m[i].errs, m[i].fails, m[i].uxs>> ELSE <<>>]]
NewLogs(m0, m1) == [i \in 1..N |-> SubSeq(m1[i].log, Len(m0[i].log) + 1, Len(m1[i].log))]

-----------------------------------------------------------------------------
(* The reporter                                                              *)
Terminal == ncalls >= MaxCalls \/ (phase = "idle" /\ runs >= MaxRuns)

Do(c) ==
    /\ ~Terminal
    /\ ns' = D(ns, 1, c)
    /\ rh' = Append(rh, c)
    /\ hist' = Append(hist, [c |-> c, obs |-> Obs(ns'), new |-> NewLogs(ns, ns')])
    /\ ncalls' = ncalls + 1
    /\ UNCHANGED <<stack, preff>>

TestId(k) == "t" \o ToString(((k - 1) % MaxIds) + 1)

StartTestRun ==
    /\ phase = "idle" /\ runs < MaxRuns
    /\ Do(Call("startTestRun"))
    /\ phase' = "run" /\ runs' = runs + 1
    /\ UNCHANGED <<ntests, ntagops, ntimes, nff, stopped, curtest>>
StopTestRun ==
    /\ phase = "run"
    /\ Do(Call("stopTestRun"))
    /\ phase' = "idle"
    /\ UNCHANGED <<runs, ntests, ntagops, ntimes, nff, stopped, curtest>>
Tags ==
    /\ phase \in {"run", "test", "outcome"} /\ ntagops < MaxTagOps
    /\ \E p \in TagOps : Do(CTags(p[1], p[2]))
    /\ ntagops' = ntagops + 1
    /\ UNCHANGED <<phase, runs, ntests, ntimes, nff, stopped, curtest>>
Time ==
    /\ phase \in {"run", "test", "outcome"} /\ ntimes < MaxTimes
    /\ (rh # <<>> => Last(rh).op # "time")
    /\ \E v \in Times : Do(CTime(v))
    /\ ntimes' = ntimes + 1
    /\ UNCHANGED <<phase, runs, ntests, ntagops, nff, stopped, curtest>>
StartTest ==
    /\ phase = "run" /\ ntests < MaxTests
    /\ Do(CStart(TestId(ntests + 1)))
    /\ phase' = "test" /\ ntests' = ntests + 1 /\ curtest' = TestId(ntests + 1)
    /\ UNCHANGED <<runs, ntagops, ntimes, nff, stopped>>
Outcome ==
    /\ phase = "test"
    /\ \E o \in Outcomes, d \in DetIds :
          /\ (o[2] \notin {"det", "detr"} => d = "fresh")
          /\ Do(CAddD(curtest, o[1], o[2], d, "x" \o ToString(ntests)))
    /\ phase' = "outcome"
    /\ UNCHANGED <<runs, ntests, ntagops, ntimes, nff, stopped, curtest>>
StopTest ==
    /\ phase = "outcome"
    /\ Do(CStopT(curtest))
    /\ phase' = "run"
    /\ UNCHANGED <<runs, ntests, ntagops, ntimes, nff, stopped, curtest>>
\* what unittest 3.12.1 emits for a skipped stdlib test: addSkip + stopTest, no startTest
SkipAdd ==
    /\ AllowSkipNoStart /\ phase = "run" /\ ntests < MaxTests
    /\ Do(CAdd(TestId(ntests + 1), "skip", "reason"))
    /\ phase' = "skipped" /\ ntests' = ntests + 1 /\ curtest' = TestId(ntests + 1)
    /\ UNCHANGED <<runs, ntagops, ntimes, nff, stopped>>
SkipStop ==
    /\ phase = "skipped"
    /\ Do(CStopT(curtest))
    /\ phase' = "run"
    /\ UNCHANGED <<runs, ntests, ntagops, ntimes, nff, stopped, curtest>>
Stop ==
    /\ AllowStop /\ phase \in {"run", "test"} /\ ~stopped
    /\ Do(Call("stop"))
    /\ stopped' = TRUE
    /\ UNCHANGED <<phase, runs, ntests, ntagops, ntimes, nff, curtest>>
Done ==
    /\ AllowDone /\ phase = "idle" /\ runs > 0 /\ CanDone(1) /\ Last(rh).op # "done"
    /\ Do(Call("done"))
    /\ UNCHANGED <<phase, runs, ntests, ntagops, ntimes, nff, stopped, curtest>>
Progress ==
    /\ AllowProgress /\ phase = "run" /\ CanProgress(1) /\ Last(rh).op # "progress"
    /\ Do(Call("progress"))
    /\ UNCHANGED <<phase, runs, ntests, ntagops, ntimes, nff, stopped, curtest>>
\* result.failfast = b on an adapter that has the property ("set after wrapping")
SetFailfast ==
    /\ AllowSetFF /\ ~preff /\ CanSetFF(1) /\ nff < 2
    /\ (phase = "run" \/ (phase = "idle" /\ runs = 0))
    /\ \E b \in BOOLEAN : (nff = 0 => b) /\ Do(CSetFF(b))
    /\ nff' = nff + 1
    /\ UNCHANGED <<phase, runs, ntests, ntagops, ntimes, stopped, curtest>>

\* a subtest of the test in progress ends (what unittest.TestCase.subTest reports): up to two per test, right after
\* startTest; only on testtools' own result classes called directly - no adapter of testtools forwards addSubTest
SubTest ==
    /\ SubErrs # {} /\ phase = "test" /\ K(1) \in TTLike
    /\ (Last(rh).op = "startTest" \/ (Last(rh).op = "subtest" /\ rh[Len(rh) - 1].op = "startTest"))
    /\ \E e \in SubErrs : Do(CSub(curtest, e))
    /\ UNCHANGED <<phase, runs, ntests, ntagops, ntimes, nff, stopped, curtest>>

Next == StartTestRun \/ StopTestRun \/ Tags \/ Time \/ StartTest \/ Outcome \/ StopTest
        \/ SkipAdd \/ SkipStop \/ Stop \/ Done \/ Progress \/ SetFailfast \/ SubTest

\* construction: MultiTestResult.__init__ -> TestResult.__init__ assigns self.failfast = False, which the
\* failfast property of MultiTestResult dispatches to every wrapped result (deviation "multiClearsFF")
RECURSIVE ClearUnderMulti(_, _, _)
ClearUnderMulti(nodes, m, i) ==
    IF i = 0 THEN m
    ELSE ClearUnderMulti(nodes, IF nodes[i].k = "Multi" THEN D(m, i, CSetFF(FALSE)) ELSE m, i - 1)

Init ==
    /\ stack \in Stacks
    /\ preff \in PreFF
    /\ phase = "idle" /\ runs = 0 /\ ntests = 0 /\ ncalls = 0 /\ ntagops = 0 /\ ntimes = 0 /\ nff = 0
    /\ stopped = FALSE /\ curtest = None
    /\ rh = <<>> /\ hist = <<>>
    /\ ns = LET m0 == [i \in 1..Len(stack.nodes) |-> InitNode(stack.nodes[i].k, preff)]
            IN IF "multiClearsFF" \in Coded THEN ClearUnderMulti(stack.nodes, m0, Len(stack.nodes)) ELSE m0

Spec == Init /\ [][Next]_vars

-----------------------------------------------------------------------------
(* MEANING, as folds over the reporter history                              *)
MaxOf(S) == CHOOSE x \in S : \A y \in S : y <= x
RunStartIn(h) == LET s == {j \in DOMAIN h : h[j].op = "startTestRun"} IN IF s = {} THEN 0 ELSE MaxOf(s)

\* C04 ---------------------------------------------------------------------
\* a problem reported: a bad outcome, or a subtest that ended with an error / a failure
BadCall(c) == (c.op = "add" /\ c.kind \in Bad) \/ (c.op = "subtest" /\ c.kind \in {"error", "failure"})
BadSince(h) == \E j \in DOMAIN h : j > RunStartIn(h) /\ BadCall(h[j])
OwnTree(i) == K(i) \notin {"E2S", "S2E"} /\ ~BelowStream(i) /\ \A l \in LeavesBelow(i) : K(l) \in TTLike
Verdict == \A i \in 1..N : OwnTree(i) => (OkGet(ns, i) <=> ~BadSince(rh))

FFCapableBase == \E l \in BaseLeaves : K(l) \in TTLike \cup {"Py27", "E2S"}
FFEffective(h) == LET s == {j \in DOMAIN h : h[j].op = "setff"} IN
                  IF s # {} THEN h[MaxOf(s)].b ELSE preff /\ FFCapableBase
\* with failfast set, shouldStop becomes true at the first bad outcome ...
FailFastStops == [][(Len(rh') = Len(rh) + 1 /\ BadCall(Last(rh')) /\ FFEffective(rh')) => StopGet(ns', 1)]_vars
\* ... and not earlier: shouldStop only ever turns true by stop() or by such an outcome
FailFastNotEarlier == [][(~StopGet(ns, 1) /\ StopGet(ns', 1)) =>
                            (Last(rh').op = "stop" \/ (BadCall(Last(rh')) /\ FFEffective(rh')))]_vars
\* stop() on the top reaches every underlying result
StopVisible(m, l) == IF K(l) = "Tw" THEN m[Parent(l)].stop ELSE m[l].stop
StopReaches == [][(Len(rh') = Len(rh) + 1 /\ Last(rh').op = "stop") =>
                     (StopGet(ns', 1) /\ \A l \in BaseLeaves : StopVisible(ns', l))]_vars

\* C17 ---------------------------------------------------------------------
RECURSIVE ApplyTaggers(_, _)
ApplyTaggers(S, tg) == IF tg = <<>> THEN S ELSE ApplyTaggers((S \cup Head(tg)[1]) \ Head(tg)[2], Tail(tg))
\* R: run-level tags; T: overlay of the test in progress (dropped at stopTest)
RECURSIVE TagState(_, _)
TagState(k, tg) ==
    IF k = 0 THEN [R |-> {}, T |-> {}, in |-> FALSE]
    ELSE LET p == TagState(k - 1, tg)
             c == rh[k] IN
         CASE c.op = "startTestRun" -> [R |-> {}, T |-> {}, in |-> FALSE]
           [] c.op = "startTest" -> [p EXCEPT !.T = ApplyTaggers(p.R, tg), !.in = TRUE]
           [] c.op = "stopTest" -> [p EXCEPT !.in = FALSE]
           [] c.op = "tags" -> IF p.in THEN [p EXCEPT !.T = (@ \cup c.n) \ c.g] ELSE [p EXCEPT !.R = (@ \cup c.n) \ c.g]
           [] OTHER -> p
SpecTagsAt(k, tg) == LET p == TagState(k, tg) IN IF p.in THEN p.T ELSE p.R

TagsScoped == \A i \in 1..N : (HasAttr(K(i), "current_tags") /\ ~BelowBuffer(i)) =>
                  TagsGet(ns, i) = SpecTagsAt(Len(rh), TaggersFor(i))

\* tags observed for each test by a wrapped result / stream consumer = the reporter's at the outcome
SeqOfSet(S) == SetToSortSeq(S, LAMBDA a, b : a < b)
ObservedAt(l) == IF K(l) = "ByTest" /\ ~BelowBuffer(l) THEN {j \in DOMAIN rh : rh[j].op = "stopTest"}
                 ELSE {j \in DOMAIN rh : rh[j].op = "add"}
ExpectedTagSeq(l) == LET idx == SeqOfSet(ObservedAt(l))
                         tg == TaggersTo(l)
                     IN [y \in DOMAIN idx |-> SpecTagsAt(idx[y] - 1, tg)]
ObservedTagSeq(l) ==
    LET evs == SelectSeq(ns[l].log, LAMBDA e : e.e \in {"add", "ontest"} \/ (e.e = "status" /\ e.k # "inprogress"))
    IN [y \in DOMAIN evs |-> View(ns[l], evs[y])]
TagObservers == {l \in LoggedNodes : K(l) \in TTLike \cup {"Ext", "E2S"}}
TagsObserved == \A l \in TagObservers : ObservedTagSeq(l) = ExpectedTagSeq(l)

\* ... and keeps observing: no later call changes what was delivered for a test that already has its outcome
DeliveredStable == [][\A l \in LoggedNodes : \A y \in DOMAIN ns[l].log :
                          View(ns'[l], ns'[l].log[y]) = View(ns[l], ns[l].log[y])]_vars

\* C08 ---------------------------------------------------------------------
\* the documented fixed degradation, by target flavour
Degrade(f, kind, form) ==
    LET exc == IF form \in DetForms THEN "synexc" ELSE form
        rsn == IF form \in {"det", "detr"} THEN "synreason" ELSE IF form = "det0" THEN "reason0" ELSE form IN
    CASE f \in {"TT", "Text"} -> <<kind, form>>
      [] f = "Ext" -> <<kind, ExtLogged(kind, form)>>
      [] kind = "success" -> <<"success", "none">>
      [] kind \in {"error", "failure"} -> <<kind, exc>>
      [] f = "Py26" /\ kind \in {"skip", "xfail"} -> <<"success", "none">>
      [] f = "Py26" /\ kind = "uxsuccess" -> <<"failure", "exc">>
      [] kind = "skip" -> <<"skip", rsn>>
      [] kind = "xfail" -> <<"xfail", exc>>
      [] kind = "uxsuccess" -> <<"uxsuccess", "none">>

Core(e, t, k, p, v, w) == [e |-> e, t |-> t, k |-> k, p |-> p, v |-> v, w |-> w]
\* a test reported without startTest has no start time to speak of
HasStart(t) == \E j \in DOMAIN rh : rh[j].op = "startTest" /\ rh[j].t = t
CoreOf(l, ev) == IF ev.e = "ontest" THEN Core(ev.e, ev.t, ev.k, ev.p, IF HasStart(ev.t) THEN ev.v ELSE None, ev.w)
                 ELSE Core(ev.e, ev.t, ev.k, IF BelowStream(l) THEN None ELSE ev.p, None,
                           IF ev.e = "add" /\ ~BelowStream(l) THEN ev.w ELSE None)
ObservedCore(l) ==
    LET evs == SelectSeq(ns[l].log, LAMBDA e : e.e \notin {"tags", "time"})
    IN [y \in DOMAIN evs |-> CoreOf(l, evs[y])]

\* the reporter's clock after k calls
RECURSIVE TimeAt(_)
TimeAt(k) == IF k = 0 THEN Clock
             ELSE CASE rh[k].op = "time" -> (IF rh[k].v = None THEN Clock ELSE rh[k].v)   \* time(None): back to the system clock
                    [] rh[k].op = "startTestRun" -> Clock
                    [] OTHER -> TimeAt(k - 1)
LastStartBefore(k) == LET s == {j \in 1..(k - 1) : rh[j].op = "startTest"} IN IF s = {} THEN 0 ELSE MaxOf(s)
LastAddBefore(k) == LET s == {j \in 1..(k - 1) : rh[j].op = "add"} IN IF s = {} THEN 0 ELSE MaxOf(s)

ExpCall(k, l) ==
    LET c == rh[k]
        f == K(l)
        buffered == BelowBuffer(l)
        ev(e, t) == Core(e, t, None, None, None, None)
    IN
    CASE f = "ByTest" /\ buffered ->
            \* below a ThreadsafeForwardingResult the whole test arrives with the outcome
            IF c.op # "add" THEN <<>>
            ELSE <<Core("ontest", c.t, StatusWord(c.kind), ByTestDetails(c.kind, c.form),
                        IF HasStart(c.t) THEN TimeAt(LastStartBefore(k)) ELSE None, TimeAt(k - 1))>>
      [] f = "ByTest" ->
            IF c.op # "stopTest" THEN <<>>
            ELSE LET a == rh[LastAddBefore(k)] IN
                 <<Core("ontest", c.t, StatusWord(a.kind), ByTestDetails(a.kind, a.form),
                        IF HasStart(c.t) THEN TimeAt(LastStartBefore(k)) ELSE None, TimeAt(k - 1))>>
      [] f = "E2S" ->
            CASE c.op \in {"startTestRun", "stopTestRun"} -> <<ev(c.op, None)>>
              [] c.op = "startTest" /\ ~buffered -> <<Core("status", c.t, "inprogress", None, None, None)>>
              [] c.op = "add" ->
                    (IF buffered THEN <<Core("status", c.t, "inprogress", None, None, None)>> ELSE <<>>)
                    \o <<Core("status", c.t, StreamWord(c.kind), StreamPayload(c.form), None, None)>>
              [] OTHER -> <<>>
      [] OTHER ->
            CASE c.op \in {"startTestRun", "stopTestRun"} -> IF Has(f, c.op) THEN <<ev(c.op, None)>> ELSE <<>>
              [] c.op \in {"startTest", "stopTest"} -> IF buffered THEN <<>> ELSE <<ev(c.op, c.t)>>
              [] c.op = "add" ->
                    LET d == IF BelowStream(l) THEN <<S2EKind(StreamWord(c.kind)), None>>
                             ELSE Degrade(f, c.kind, c.form)
                        \* the synthetic exception / reason (or the details passed on) carry the detail text CURRENT AT THE CALL
                        a == Core("add", c.t, d[1], d[2], None, IF ~BelowStream(l) /\ d[2] \in TextForms THEN c.x ELSE None)
                    IN IF buffered THEN <<ev("startTest", c.t), a, ev("stopTest", c.t)>> ELSE <<a>>
              [] c.op = "progress" -> IF f = "Ext" /\ ProgressPasses(l) THEN <<ev("progress", None)>> ELSE <<>>
              [] OTHER -> <<>>

RECURSIVE ExpUpTo(_, _)
ExpUpTo(k, l) == IF k = 0 THEN <<>> ELSE ExpUpTo(k - 1, l) \o ExpCall(k, l)
Expected(l) == ExpUpTo(Len(rh), l)

ExactlyOnce == \A l \in LoggedNodes : ObservedCore(l) = Expected(l)

\* through the adapters a failing outcome never becomes a passing one
RhAdds == SelectSeq(rh, LAMBDA c : c.op = "add")
NoUpgrade == \A l \in LoggedNodes : K(l) # "ByTest" =>
    LET adds == SelectSeq(ns[l].log, LAMBDA e : e.e = "add" \/ (e.e = "status" /\ e.k # "inprogress"))
    IN /\ Len(adds) = Len(RhAdds)
       /\ \A y \in DOMAIN adds : RhAdds[y].kind \in Bad => adds[y].k \in Bad \cup {"fail"}

-----------------------------------------------------------------------------
(* Export                                                                   *)
ExportC == Terminal => PrintT(<<"EXPORT", ToJson([stack |-> [name |-> stack.name, nodes |-> stack.nodes], preff |-> preff, hist |-> hist])>>)
ViewNoHist == <<stack, preff, ns, phase, runs, ntests, ncalls, ntagops, ntimes, nff, stopped, curtest, rh>>
=============================================================================
