SPECIFICATION Spec
CONSTANTS
  Stacks <- StacksCore
  Outcomes <- Out4
  TagOps <- TagOps2
  Times = {"1", "2"}
  MaxCalls = 11
  MaxTests = 2
  MaxRuns = 2
  MaxTagOps = 0
  MaxTimes = 0
  MaxIds = 9
  AllowStop = TRUE
  AllowSetFF = TRUE
  AllowSkipNoStart = FALSE
  AllowDone = FALSE
  AllowProgress = FALSE
  PreFF = {FALSE, TRUE}
  Coded = {}
  SubErrs = {}
  DetIds = {"fresh"}
VIEW ViewNoHist
INVARIANT Verdict
INVARIANT TagsScoped
INVARIANT TagsObserved
INVARIANT ExactlyOnce
INVARIANT NoUpgrade
PROPERTY FailFastStops
PROPERTY FailFastNotEarlier
PROPERTY StopReaches
PROPERTY DeliveredStable
CHECK_DEADLOCK FALSE
