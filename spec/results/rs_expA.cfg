SPECIFICATION Spec
CONSTANTS
  Stacks <- StacksAll
  Outcomes <- Out13
  TagOps <- TagOps2
  Times = {"1", "2"}
  MaxCalls = 8
  MaxTests = 2
  MaxRuns = 1
  MaxTagOps = 0
  MaxTimes = 0
  MaxIds = 9
  AllowStop = FALSE
  AllowSetFF = FALSE
  AllowSkipNoStart = FALSE
  AllowDone = FALSE
  AllowProgress = FALSE
  PreFF = {FALSE}
  Coded = {}
  SubErrs = {}
  DetIds = {"fresh"}
CONSTRAINT ExportC
INVARIANT Verdict
INVARIANT TagsScoped
INVARIANT TagsObserved
INVARIANT ExactlyOnce
INVARIANT NoUpgrade
PROPERTY FailFastStops
PROPERTY FailFastNotEarlier
PROPERTY StopReaches
PROPERTY DeliveredStable
CHECK_DEADLOCK FALSE
