SPECIFICATION Spec
CONSTANTS
  Stacks <- StacksTimes
  Outcomes <- Out2
  TagOps <- TagOps2
  Times = {"1", "none"}
  MaxCalls = 10
  MaxTests = 2
  MaxRuns = 1
  MaxTagOps = 0
  MaxTimes = 2
  MaxIds = 9
  AllowStop = FALSE
  AllowSetFF = FALSE
  AllowSkipNoStart = FALSE
  AllowDone = TRUE
  AllowProgress = TRUE
  PreFF = {FALSE}
  Coded = {}
  SubErrs = {}
  DetIds = {"fresh"}
CONSTRAINT ExportC
INVARIANT Verdict
INVARIANT TagsScoped
INVARIANT TagsObserved
INVARIANT ExactlyOnce
INVARIANT NoUpgrade
PROPERTY FailFastStops
PROPERTY FailFastNotEarlier
PROPERTY StopReaches
PROPERTY DeliveredStable
CHECK_DEADLOCK FALSE
