------------------------------ MODULE MCResults ------------------------------
(* Model-checking instances of Results: stack templates, call alphabets.    *)
EXTENDS Results

\* --- trees -----------------------------------------------------------------
T(k, kids) == [k |-> k, ch |-> kids, new |-> {}, gone |-> {}, imp |-> FALSE]
L(k) == T(k, <<>>)
E2O(x) == T("E2O", <<x>>)
Imp(x) == [T("E2O", <<x>>) EXCEPT !.imp = TRUE]     \* the decorator a class wraps its target in by itself
Multi(kids) == T("Multi", [j \in DOMAIN kids |-> Imp(kids[j])])
TFR(x) == T("TFR", <<Imp(x)>>)
Decor(x) == T("Decor", <<x>>)
Tagger(n, g, x) == [T("Tagger", <<x>>) EXCEPT !.new = n, !.gone = g]
E2S == L("E2S")
E2SX == T("E2S", <<T("S2E", <<Imp(L("Ext"))>>)>>)   \* ... -> StreamToExtendedDecorator -> extended double

RECURSIVE Flat(_), FlatKids(_, _)
Shift(seq, d) == [j \in DOMAIN seq |-> [seq[j] EXCEPT !.ch = [x \in DOMAIN @ |-> @[x] + d]]]
FlatKids(kids, off) ==
    IF kids = <<>> THEN << <<>>, <<>> >>
    ELSE LET f == Flat(Head(kids))
             rest == FlatKids(Tail(kids), off + Len(f))
         IN << <<off + 1>> \o rest[1], Shift(f, off) \o rest[2] >>
Flat(t) == LET r == FlatKids(t.ch, 1)
           IN <<[k |-> t.k, ch |-> r[1], new |-> t.new, gone |-> t.gone, imp |-> t.imp]>> \o r[2]
S(name, t) == LET nd == Flat(t) IN [name |-> name, nodes |-> nd, d |-> Derived(nd)]

A == {"a"}
Bt == {"b"}

\* --- template families -------------------------------------------------------
Flavours == {"Py26", "Py27", "Ext", "Tw", "TT"}
StE2O == {S("E2O(" \o f \o ")", E2O(L(f))) : f \in Flavours}
StTFR == {S("TFR(" \o f \o ")", TFR(L(f))) : f \in Flavours}
StTop == {S("TT", L("TT")), S("Text", L("Text")), S("ByTest", L("ByTest"))}
StDecor == {S("Decor(" \o f \o ")", Decor(L(f))) : f \in {"TT", "Ext", "ByTest", "Text"}}
          \cup {S("Decor(E2O(" \o f \o "))", Decor(E2O(L(f)))) : f \in {"Py26", "Py27", "Tw"}}
StMulti == {S("Multi(Py26,Ext)", Multi(<<L("Py26"), L("Ext")>>)),
            S("Multi(Py27,Tw)", Multi(<<L("Py27"), L("Tw")>>)),
            S("Multi(TT,Py26)", Multi(<<L("TT"), L("Py26")>>)),
            S("Multi(Py26,TT)", Multi(<<L("Py26"), L("TT")>>)),
            S("Multi(TT,Text)", Multi(<<L("TT"), L("Text")>>)),
            S("Multi(Ext,ByTest)", Multi(<<L("Ext"), L("ByTest")>>)),
            S("Multi(Tw)", Multi(<<L("Tw")>>))}
StTagger == {S("Tagger+a(TT)", Tagger(A, {}, L("TT"))),
             S("Tagger+a-b(Ext)", Tagger(A, Bt, L("Ext"))),
             S("Tagger-a(Ext)", Tagger({}, A, L("Ext"))),
             S("Tagger+a(E2O(Py27))", Tagger(A, {}, E2O(L("Py27")))),
             S("Tagger+b(ByTest)", Tagger(Bt, {}, L("ByTest")))}
StDeep == {S("Tagger+a(Multi(Py26,Ext))", Tagger(A, {}, Multi(<<L("Py26"), L("Ext")>>))),
           S("E2O(Decor(TT))", E2O(Decor(L("TT")))),
           S("E2O(E2O(Py26))", E2O(E2O(L("Py26")))),
           S("E2O(E2O(Tw))", E2O(E2O(L("Tw")))),
           S("Multi(Decor(Ext),Tw)", Multi(<<Decor(L("Ext")), L("Tw")>>)),
           S("TFR(Multi(Py26,Ext))", TFR(Multi(<<L("Py26"), L("Ext")>>))),
           S("Multi(TFR(Ext),Py27)", Multi(<<TFR(L("Ext")), L("Py27")>>)),
           S("Tagger+a(TFR(Ext))", Tagger(A, {}, TFR(L("Ext")))),
           S("Decor(TFR(TT))", Decor(TFR(L("TT")))),
           S("Tagger+a(Tagger-a+b(Ext))", Tagger(A, {}, Tagger(Bt, A, L("Ext")))),
           S("Multi(Tagger+a(Ext),TT)", Multi(<<Tagger(A, {}, L("Ext")), L("TT")>>)),
           S("E2O(Multi(Py27,TT))", E2O(Multi(<<L("Py27"), L("TT")>>))),
           S("Decor(Multi(TT,Py27))", Decor(Multi(<<L("TT"), L("Py27")>>))),
           S("Multi(Multi(Py26),Ext)", Multi(<<Multi(<<L("Py26")>>), L("Ext")>>)),
           S("TFR(ByTest)", TFR(L("ByTest"))),
           S("E2O(ByTest)", E2O(L("ByTest"))),
           S("TFR(Text)", TFR(L("Text")))}
StStream == {S("E2S", E2S), S("Decor(E2S)", Decor(E2S)), S("Tagger+a(E2S)", Tagger(A, {}, E2S)),
             S("Multi(E2S,Ext)", Multi(<<E2S, L("Ext")>>)), S("TFR(E2S)", TFR(E2S)),
             S("E2SX", E2SX), S("Tagger+a(E2SX)", Tagger(A, {}, E2SX))}

StacksAll == StE2O \cup StTFR \cup StTop \cup StDecor \cup StMulti \cup StTagger \cup StDeep \cup StStream
StacksNoStream == StacksAll \ StStream
\* a small cross-section for deeper histories
StacksCore == {s \in StacksAll : s.name \in {"TT", "E2O(Py26)", "E2O(Tw)", "Multi(Py26,Ext)", "TFR(Ext)",
                                            "Tagger+a(Multi(Py26,Ext))", "E2S", "Multi(TFR(Ext),Py27)", "ByTest"}}
StacksTags == {s \in StacksAll : s.name \in {"TT", "Text", "ByTest", "E2O(Py27)", "E2O(Ext)", "E2O(TT)", "TFR(Ext)", "TFR(TT)",
                   "Multi(Py26,Ext)", "Multi(Ext,ByTest)", "Decor(Ext)", "Decor(E2O(Tw))",
                   "Tagger+a(TT)", "Tagger+a-b(Ext)", "Tagger-a(Ext)", "Tagger+a(E2O(Py27))", "Tagger+b(ByTest)", "E2O(ByTest)",
                   "Tagger+a(Multi(Py26,Ext))", "Tagger+a(TFR(Ext))", "Tagger+a(Tagger-a+b(Ext))",
                   "Multi(Tagger+a(Ext),TT)", "Multi(TFR(Ext),Py27)", "TFR(Multi(Py26,Ext))",
                   "E2S", "Tagger+a(E2S)", "Multi(E2S,Ext)", "TFR(E2S)", "E2SX", "Tagger+a(E2SX)"}}

\* every stack with a TestByTestResult at the bottom
\* Taggers that only remove, only add, or do nothing (the only-add ones over Ext/ByTest are in StTagger)
StTaggerX == {S("Tagger-a(ByTest)", Tagger({}, A, L("ByTest"))), S("Tagger0(ByTest)", Tagger({}, {}, L("ByTest"))),
              S("Tagger0(Ext)", Tagger({}, {}, L("Ext"))), S("Tagger+b(Ext)", Tagger(Bt, {}, L("Ext")))}
StacksByTest == {s \in StacksAll : \E i \in DOMAIN s.nodes : s.nodes[i].k = "ByTest"} \cup StTaggerX
StacksText == {s \in StacksAll : \E i \in DOMAIN s.nodes : s.nodes[i].k = "Text"}
StText == {s \in StacksAll : s.name = "Text"}
StacksSetFF == {s \in StacksAll : CanSetFFKind(s.nodes[1].k)}
StacksOld == {s \in StacksAll : \E i \in DOMAIN s.nodes : s.nodes[i].k \in OldStyle}
StacksTimes == {s \in StacksAll : \E i \in DOMAIN s.nodes : s.nodes[i].k \in {"ByTest", "TFR", "Ext", "E2S", "Tw"}}

\* --- call alphabets ------------------------------------------------------------
Out13 == {<<"success", "none">>, <<"success", "det">>, <<"error", "exc">>, <<"error", "det">>,
          <<"failure", "exc">>, <<"failure", "det">>, <<"skip", "reason">>, <<"skip", "det">>, <<"skip", "detr">>,
          <<"xfail", "exc">>, <<"xfail", "det">>, <<"uxsuccess", "none">>, <<"uxsuccess", "det">>}
Out5 == {<<"success", "none">>, <<"error", "exc">>, <<"failure", "det">>, <<"skip", "reason">>, <<"uxsuccess", "none">>}
\* supplied-but-falsy arguments: the empty reason string, the empty details dict (plus one ordinary outcome to mix with)
OutFalsy == {<<"skip", "reason0">>, <<"success", "det0">>, <<"error", "det0">>, <<"failure", "det0">>, <<"skip", "det0">>,
             <<"xfail", "det0">>, <<"uxsuccess", "det0">>, <<"failure", "exc">>}
Out20 == Out13 \cup OutFalsy
Out6 == {<<"success", "none">>, <<"error", "exc">>, <<"failure", "det">>, <<"skip", "reason">>,
         <<"xfail", "det">>, <<"uxsuccess", "none">>}
Out3 == {<<"success", "none">>, <<"failure", "det">>, <<"uxsuccess", "det">>}
Out4 == {<<"success", "none">>, <<"error", "exc">>, <<"failure", "det">>, <<"uxsuccess", "none">>}
Out2 == {<<"success", "det">>, <<"failure", "exc">>}
Out1 == {<<"success", "none">>}
\* the outcomes whose details an old-style target gets as a synthetic exception / reason, plus one without details
OutDet == {<<"error", "det">>, <<"failure", "detr">>, <<"xfail", "det">>, <<"skip", "detr">>, <<"success", "none">>}
TagOps4 == {<<{"a"}, {}>>, <<{"b"}, {}>>, <<{}, {"a"}>>, <<{"b"}, {"a"}>>}
TagOps3 == {<<{"a"}, {}>>, <<{}, {"a"}>>, <<{"b"}, {"a"}>>}
TagOps2 == {<<{"a"}, {}>>, <<{"b"}, {"a"}>>}
TagOps8 == {<<n, g>> : n \in SUBSET {"a", "b"}, g \in SUBSET {"a", "b"}} \ {<<{}, {}>>}
TagOpsAll == {p \in TagOps8 : p[1] \cap p[2] = {}}
=============================================================================
