SPECIFICATION Spec
CONSTANTS
  Stacks <- StTFR
  Outcomes <- Out1
  TagOps <- TagOps2
  Times = {"1", "2"}
  MaxCalls = 9
  MaxTests = 2
  MaxRuns = 1
  MaxTagOps = 1
  MaxTimes = 0
  MaxIds = 9
  AllowStop = FALSE
  AllowSetFF = FALSE
  AllowSkipNoStart = FALSE
  AllowDone = FALSE
  AllowProgress = FALSE
  PreFF = {FALSE}
  Coded = {"tfrPostOutcomeTagsGlobal"}
  SubErrs = {}
  DetIds = {"fresh"}
VIEW ViewNoHist
INVARIANT Verdict
INVARIANT TagsScoped
INVARIANT TagsObserved
INVARIANT ExactlyOnce
INVARIANT NoUpgrade
PROPERTY FailFastStops
PROPERTY FailFastNotEarlier
PROPERTY StopReaches
PROPERTY DeliveredStable
CHECK_DEADLOCK FALSE
