"""Writes the rs_*.cfg files of Results.tla (one source of truth for the constant lists).  Run: python gen_cfgs.py"""
import os

HERE = os.path.dirname(os.path.abspath(__file__))
DEFAULT = dict(Stacks="StacksAll", Outcomes="Out13", TagOps="TagOps2", Times='{"1", "2"}', MaxCalls=8, MaxTests=2, MaxRuns=1, MaxIds=9,
               MaxTagOps=0, MaxTimes=0, AllowStop="FALSE", AllowSetFF="FALSE", AllowSkipNoStart="FALSE", AllowDone="FALSE",
               AllowProgress="FALSE", PreFF="{FALSE}", Coded="{}", SubErrs="{}", DetIds='{"fresh"}')
INVS = ("Verdict", "TagsScoped", "TagsObserved", "ExactlyOnce", "NoUpgrade")
PROPS = ("FailFastStops", "FailFastNotEarlier", "StopReaches", "DeliveredStable")


def cfg(name, mode, **kw):
    """mode: 'exp' (export every behaviour), 'mc' (VIEW without hist), 'sim' (export, for -simulate)"""
    d = dict(DEFAULT)
    d.update(kw)
    lines = ["SPECIFICATION Spec", "CONSTANTS"]
    for k in ("Stacks", "Outcomes", "TagOps"):
        lines.append("  %s <- %s" % (k, d[k]))
    for k in ("Times", "MaxCalls", "MaxTests", "MaxRuns", "MaxTagOps", "MaxTimes", "MaxIds", "AllowStop", "AllowSetFF", "AllowSkipNoStart",
              "AllowDone", "AllowProgress", "PreFF", "Coded", "SubErrs", "DetIds"):
        lines.append("  %s = %s" % (k, d[k]))
    if mode in ("exp", "sim"):
        lines.append("CONSTRAINT ExportC")
    if mode == "mc":
        lines.append("VIEW ViewNoHist")
    for inv in d.get("invs", INVS):
        lines.append("INVARIANT " + inv)
    for pr in d.get("props", PROPS):
        lines.append("PROPERTY " + pr)
    lines.append("CHECK_DEADLOCK FALSE")
    with open(os.path.join(HERE, name), "w") as f:
        f.write("\n".join(lines) + "\n")


BOTH = "{FALSE, TRUE}"
# --- C08: every outcome in every form through every stack -------------------------------------------------
cfg("rs_expA.cfg", "exp")
cfg("rs_expA0.cfg", "exp", Outcomes="OutFalsy")
# tags() inside a test followed by another test, on every stack with a TestByTestResult leaf (the callback carries the test's tags)
cfg("rs_expA1.cfg", "exp", Stacks="StacksByTest", Outcomes="Out1", TagOps="TagOps2", MaxTagOps=2, MaxCalls=10)
cfg("rs_expB.cfg", "exp", Times='{"1", "none"}', Stacks="StacksTimes", Outcomes="Out1", MaxTests=1, MaxTimes=2, MaxCalls=9, AllowDone="TRUE", AllowProgress="TRUE")
cfg("rs_expB3.cfg", "exp", Times='{"1", "2", "none"}', Stacks="StacksTimes", Outcomes="Out1", MaxTests=1, MaxTimes=3, MaxCalls=9, AllowDone="TRUE", AllowProgress="TRUE")
cfg("rs_expB2.cfg", "exp", Times='{"1", "none"}', Stacks="StacksTimes", Outcomes="Out2", MaxTests=2, MaxTimes=2, MaxCalls=10, AllowDone="TRUE", AllowProgress="TRUE")
# details identity: a fresh dict per outcome | ONE dict object re-used (cleared and refilled) for consecutive outcomes
cfg("rs_expD.cfg", "exp", Outcomes="OutDet", DetIds='{"fresh", "reuse"}', MaxTests=2, MaxCalls=8)
cfg("rs_expD3.cfg", "exp", Stacks="StacksOld", Outcomes="OutDet", DetIds='{"fresh", "reuse"}', MaxTests=3, MaxCalls=11)
cfg("rs_mcA3all.cfg", "mc", Outcomes="Out13", MaxTests=3, MaxCalls=11)
cfg("rs_mcAq.cfg", "mc", Stacks="StacksCore", Outcomes="Out6", MaxTests=3, MaxCalls=11)
cfg("rs_mcA3.cfg", "mc", Stacks="StacksCore", Outcomes="Out13", MaxTests=3, MaxCalls=11)
# --- C04: verdict, failfast, stop -----------------------------------------------------------------------------
cfg("rs_expC1.cfg", "exp", Outcomes="Out4", AllowStop="TRUE", PreFF=BOTH, MaxCalls=9)
cfg("rs_expC2.cfg", "exp", Stacks="StacksSetFF", Outcomes="Out3", AllowSetFF="TRUE", MaxCalls=9)
cfg("rs_expC3.cfg", "exp", Outcomes="Out2", MaxRuns=2, PreFF=BOTH, MaxCalls=10)
# the same test listed twice and failing each time: one test id, several problems (summary total = number of problems)
cfg("rs_expP1.cfg", "exp", Stacks="StacksText", Outcomes="Out4", PreFF=BOTH, MaxTests=3, MaxIds=1, MaxCalls=11)
cfg("rs_expP.cfg", "exp", Stacks="StText", Outcomes="Out6", PreFF=BOTH, MaxTests=3, MaxCalls=11)
# addSubTest (inherited from unittest.TestResult) on testtools' own result classes: failing / erroring / passing subtests
cfg("rs_expS.cfg", "exp", Stacks="StTop", Outcomes="Out1", SubErrs='{"failure", "error", "none"}', PreFF=BOTH, MaxTests=2, MaxRuns=2, MaxCalls=12)
cfg("rs_expS2.cfg", "exp", Stacks="StTop", Outcomes="Out3", SubErrs='{"failure", "error", "none"}', PreFF=BOTH, MaxTests=2, MaxRuns=2, MaxCalls=12)
cfg("rs_expC4.cfg", "exp", Outcomes="Out6", AllowStop="TRUE", PreFF=BOTH, MaxTests=2, MaxRuns=2, MaxCalls=10)
cfg("rs_mcC.cfg", "mc", Stacks="StacksCore", Outcomes="Out4", AllowStop="TRUE", AllowSetFF="TRUE", PreFF=BOTH, MaxRuns=2, MaxCalls=11)
# --- C17: tags ----------------------------------------------------------------------------------------------------
cfg("rs_expT1.cfg", "exp", Stacks="StacksTags", Outcomes="Out1", TagOps="TagOps3", MaxTagOps=2, MaxCalls=10)
cfg("rs_expT2.cfg", "exp", Stacks="StacksTags", Outcomes="Out1", TagOps="TagOps2", MaxTagOps=2, MaxCalls=9, AllowSkipNoStart="TRUE")
cfg("rs_expT3.cfg", "exp", Stacks="StacksTags", Outcomes="Out1", TagOps="TagOps2", MaxTagOps=2, MaxTests=1, MaxRuns=2, MaxCalls=10)
cfg("rs_expT4.cfg", "exp", Stacks="StacksTags", Outcomes="Out1", TagOps="TagOps4", MaxTagOps=2, MaxTests=2, MaxRuns=1, MaxCalls=10, AllowSkipNoStart="TRUE")
cfg("rs_expT5.cfg", "exp", Stacks="StacksTags", Outcomes="Out1", TagOps="TagOps2", MaxTagOps=2, MaxTests=2, MaxRuns=2, MaxCalls=11)
cfg("rs_mcT.cfg", "mc", Stacks="StacksCore", Outcomes="Out1", TagOps="TagOps4", MaxTagOps=3, MaxCalls=10, AllowSkipNoStart="TRUE")
# --- deep random behaviours over the full alphabet ---------------------------------------------------------
cfg("rs_sim.cfg", "sim", DetIds='{"fresh", "reuse"}', Times='{"1", "2", "none"}', Outcomes="Out20", TagOps="TagOpsAll", MaxCalls=24, MaxTests=4, MaxRuns=2, MaxTagOps=5, MaxTimes=4,
    AllowStop="TRUE", AllowDone="TRUE", AllowProgress="TRUE", PreFF=BOTH)
cfg("rs_sim13.cfg", "sim", Times='{"1", "2", "none"}', Outcomes="Out13", TagOps="TagOpsAll", MaxCalls=24, MaxTests=4, MaxRuns=2, MaxTagOps=5, MaxTimes=4,
    AllowStop="TRUE", AllowDone="TRUE", AllowProgress="TRUE", PreFF=BOTH)
cfg("rs_simFF.cfg", "sim", SubErrs='{"failure", "error", "none"}', Stacks="StacksSetFF", Outcomes="Out13", TagOps="TagOps4", MaxCalls=20, MaxTests=4, MaxRuns=2, MaxTagOps=2,
    MaxTimes=2, AllowStop="TRUE", AllowSetFF="TRUE")
cfg("rs_simSkip.cfg", "sim", Outcomes="Out2", TagOps="TagOpsAll", MaxCalls=20, MaxTests=4, MaxRuns=2, MaxTagOps=6, AllowSkipNoStart="TRUE")
# --- the known deviations of the code, switched on: TLC must find the counterexample (non-vacuity) ------------
cfg("rs_codedFF.cfg", "mc", Stacks="StMulti", Outcomes="Out2", PreFF="{TRUE}", Coded='{"multiClearsFF"}', MaxTests=1, MaxCalls=5)
cfg("rs_codedTags.cfg", "mc", Stacks="StacksCore", Outcomes="Out1", MaxTagOps=1, AllowSkipNoStart="TRUE", Coded='{"stopTestNullsTags"}', MaxCalls=6)
cfg("rs_codedLive.cfg", "mc", Stacks="StStream", Outcomes="Out1", MaxTagOps=1, MaxTests=1, Coded='{"liveTagSets"}', MaxCalls=6,
    invs=("ExactlyOnce",), props=("DeliveredStable",))
cfg("rs_codedTFR2.cfg", "mc", Stacks="StTFR", Outcomes="Out1", MaxTagOps=1, MaxTests=2, Coded='{"tfrPostOutcomeTagsGlobal"}', MaxCalls=9)
cfg("rs_codedTFR.cfg", "mc", Stacks="StTFR", Outcomes="Out1", MaxTagOps=1, MaxRuns=2, MaxTests=1, Coded='{"tfrKeepsGlobalTags"}', MaxCalls=8)
