SPECIFICATION Spec
CONSTANTS
  Stacks <- StacksSetFF
  Outcomes <- Out13
  TagOps <- TagOps4
  Times = {"1", "2"}
  MaxCalls = 20
  MaxTests = 4
  MaxRuns = 2
  MaxTagOps = 2
  MaxTimes = 2
  MaxIds = 9
  AllowStop = TRUE
  AllowSetFF = TRUE
  AllowSkipNoStart = FALSE
  AllowDone = FALSE
  AllowProgress = FALSE
  PreFF = {FALSE}
  Coded = {}
  SubErrs = {"failure", "error", "none"}
  DetIds = {"fresh"}
CONSTRAINT ExportC
INVARIANT Verdict
INVARIANT TagsScoped
INVARIANT TagsObserved
INVARIANT ExactlyOnce
INVARIANT NoUpgrade
PROPERTY FailFastStops
PROPERTY FailFastNotEarlier
PROPERTY StopReaches
PROPERTY DeliveredStable
CHECK_DEADLOCK FALSE
