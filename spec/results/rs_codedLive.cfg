SPECIFICATION Spec
CONSTANTS
  Stacks <- StStream
  Outcomes <- Out1
  TagOps <- TagOps2
  Times = {"1", "2"}
  MaxCalls = 6
  MaxTests = 1
  MaxRuns = 1
  MaxTagOps = 1
  MaxTimes = 0
  MaxIds = 9
  AllowStop = FALSE
  AllowSetFF = FALSE
  AllowSkipNoStart = FALSE
  AllowDone = FALSE
  AllowProgress = FALSE
  PreFF = {FALSE}
  Coded = {"liveTagSets"}
  SubErrs = {}
  DetIds = {"fresh"}
VIEW ViewNoHist
INVARIANT ExactlyOnce
PROPERTY DeliveredStable
CHECK_DEADLOCK FALSE
