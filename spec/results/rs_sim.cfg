SPECIFICATION Spec
CONSTANTS
  Stacks <- StacksAll
  Outcomes <- Out20
  TagOps <- TagOpsAll
  Times = {"1", "2", "none"}
  MaxCalls = 24
  MaxTests = 4
  MaxRuns = 2
  MaxTagOps = 5
  MaxTimes = 4
  MaxIds = 9
  AllowStop = TRUE
  AllowSetFF = FALSE
  AllowSkipNoStart = FALSE
  AllowDone = TRUE
  AllowProgress = TRUE
  PreFF = {FALSE, TRUE}
  Coded = {}
  SubErrs = {}
  DetIds = {"fresh", "reuse"}
CONSTRAINT ExportC
INVARIANT Verdict
INVARIANT TagsScoped
INVARIANT TagsObserved
INVARIANT ExactlyOnce
INVARIANT NoUpgrade
PROPERTY FailFastStops
PROPERTY FailFastNotEarlier
PROPERTY StopReaches
PROPERTY DeliveredStable
CHECK_DEADLOCK FALSE
