#!/usr/bin/env python3
"""Regenerates MANIFEST.json from the table below (single source of truth for the interface file)."""
import json
import os

HERE = os.path.dirname(os.path.abspath(__file__))
ALL = ["C%02d" % i for i in range(1, 21)]

# pid -> dict(level, text, note, technique, design_ref, engine)
CHECKS = {
    "C10": dict(
        level="model_checking",
        engine="StreamRecord",
        design_ref="5.2 (C10)",
        technique="TLA+ spec StreamRecord.tla model-checked with TLC (table mechanism vs. history-fold meaning); "
        "TLC-exported and TLC-simulated behaviours replayed into the real consumers with per-call comparison",
        text="TLC checks exhaustively (bounded alphabets/lengths, see spec/stream/sr_*.cfg) that the in-progress-table "
        "mechanism reports every (id, route) incarnation exactly once with the last status / latest tags / first+last "
        "timestamps / chunks in arrival order; every behaviour TLC enumerates is replayed into the real StreamToDict, "
        "StreamSummary and StreamToExtendedDecorator and compared after every call, so the code is shown to follow "
        "the model on the same space; random longer behaviours come from tlc -simulate. Events without a test id, with "
        "any payload (file name / bytes / mime type / tags / timestamp / route), report nothing in any consumer, also at "
        "stopTestRun (sr_expXN.cfg, 4423 behaviours for StreamToExtendedDecorator).",
        note="Trusted: TLC, the projection functions in harness/c10.py, the testresult doubles. Bounds: <=2 events "
        "exhaustively over 216-event alphabet, <=3 over a 27-event alphabet with two runs, random to depth 8 per run. "
        "StreamToExtendedDecorator drops 'exists' events by design.",
    ),
}

ENGINES = [
    dict(name="StreamRecord", path="spec/stream/StreamRecord.tla", serves_properties=["C10"],
         kind_free_text="TLA+ spec + TLC (mc, export, simulate) + Python replay driver harness/c10.py"),
]

PENDING_REASON = "check under construction in this session (spec and driver not yet committed); see DESIGN.md section 5"


# fragments written by module builders are only claimed once reviewed and passing on the unchanged tree
APPROVED = {"C%02d" % i for i in range(1, 21)}


def load_fragments():
    import glob
    for f in sorted(glob.glob(os.path.join(HERE, "manifest.d", "X*.json"))):
        x = json.load(open(f))
        ENGINES.append(dict(name=x.get("engine", os.path.basename(f)[:-5]), path=x.get("path", "spec/extra/"),
                            serves_properties=[],
                            kind_free_text="spec growth beyond the listed properties (./check %s): %s"
                            % (os.path.basename(f)[:-5], x.get("technique", ""))[:400]))
    for f in sorted(glob.glob(os.path.join(HERE, "manifest.d", "C*.json"))):
        pid = os.path.basename(f)[:-5]
        if pid not in APPROVED:
            continue
        CHECKS[pid] = json.load(open(f))
        ENGINES.append(dict(name=CHECKS[pid]["engine"], path=CHECKS[pid].get("path", "spec/"),
                            serves_properties=[pid], kind_free_text="TLA+ spec + TLC + conformance driver"))


def main():
    load_fragments()
    checks = []
    for pid in ALL:
        if pid not in CHECKS:
            continue
        c = CHECKS[pid]
        checks.append(
            {
                "property_id": pid,
                "quick_cmd": "./check %s --tier quick" % pid,
                "thorough_cmd": "./check %s --tier thorough" % pid,
                "evidence_file": "/verif/evidence/%s.json" % pid,
                "replay_cmd_template": "./check %s --replay {path}" % pid,
                "engine": c["engine"],
                "level_claimed": {"category": c["level"], "text": c["text"], "design_ref": c["design_ref"]},
                "level_note": c["note"],
                "technique": c["technique"],
            }
        )
    man = {
        "version": 1,
        "setup_cmd": "./setup.sh",
        "hooks": {
            "guard": "TESTTOOLS_VERIF",
            "enable": "no build step: checks import testtools from $VERIF_REPO (default /repo) in a fresh interpreter; "
            "the lifecycle checks (C01-C03) additionally run the repository's own test modules under pytest with "
            "TESTTOOLS_VERIF=1 TESTTOOLS_VERIF_TRACE=<file> and validate the recorded RunTest executions with TLC "
            "(spec/lifecycle/RunTestObs.tla); all other observation is through doubles, generated test bodies, injected "
            "semaphores/reactors",
            "baseline_off_cmd": "cd /repo && env -u TESTTOOLS_VERIF /venv/bin/python -m pytest -ra -q -p no:cacheprovider "
            "--timeout=900 --continue-on-collection-errors",
            "source_commits": ["85cafb7"],
            "add_only": True,
        },
        "engines": ENGINES,
        "checks": checks,
        "notes": "Model-based verification with explicit TLA+ specifications (spec/), TLC, and conformance replay / "
        "trace validation against the real code (harness/). See DESIGN.md.",
        "not_applicable": [{"property_id": p, "reason": PENDING_REASON} for p in ALL if p not in CHECKS],
    }
    with open(os.path.join(HERE, "MANIFEST.json"), "w") as f:
        json.dump(man, f, indent=1)
    print("MANIFEST.json: %d checks, %d not_applicable" % (len(checks), len(man["not_applicable"])))


if __name__ == "__main__":
    main()
