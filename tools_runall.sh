#!/bin/sh
# run every claimed check's quick command on /repo (sequentially) and print one line each
cd /verif
for p in $(python3 -c "import json;print(' '.join(c['property_id'] for c in json.load(open('MANIFEST.json'))['checks']))"); do
  s=$(date +%s); out=$(./check $p --tier ${1:-quick} 2>&1); rc=$?; e=$(date +%s)
  echo "$p rc=$rc $((e-s))s $(echo "$out" | grep -c '^VIOLATION') viol $(echo "$out" | grep -c '^KNOWN-FINDING') known"
done
