#!/usr/bin/env python3
"""tools_seed_sweep.py [-j N] [<seed-name> ...]

Regression sweep: applies every kept independent change under /verif/seeded/ to a scratch copy of the
current /repo tree (outside /repo and /verif, removed afterwards) and runs the registered quick check of
its property against that copy.  Prints one line per change and writes build/sweep.json.  Nothing under
seeded/ is modified.  A patch that no longer applies to the current tree is reported as 'stale'."""
import json
import os
import shutil
import subprocess
import sys
import tempfile
from concurrent.futures import ThreadPoolExecutor

VERIF = os.path.dirname(os.path.abspath(__file__))
# changes that are (also) the business of another property's check
ALSO = {"C14-5": ["C14"], "C13-5": ["C13", "C11"], "C02-7": ["C02", "C14"], "C17-9": ["C17", "C12"], "C04-10": ["C04", "C12"], "C08-9": ["C08", "C17"], "C13-7": ["C13", "C12"], "C12-8": ["C12", "C13"]}


def sh(cmd, cwd=None, env=None, timeout=3600):
    e = dict(os.environ)
    if env:
        e.update(env)
    p = subprocess.run(cmd, shell=True, cwd=cwd, env=e, stdout=subprocess.PIPE, stderr=subprocess.STDOUT, text=True, timeout=timeout)
    return p.returncode, p.stdout


def one(name):
    seed = os.path.join(VERIF, "seeded", name)
    pid = name.split("-")[0]
    work = tempfile.mkdtemp(prefix="seedsweep-")
    try:
        B = os.path.join(work, "b")
        sh("rsync -a --exclude .git --exclude __pycache__ --exclude _seed /repo/ %s/" % B)
        rc, out = sh("patch -p1 -s < %s" % os.path.join(seed, "patch.diff"), cwd=B)
        if rc != 0:
            return name, {"status": "stale", "detail": out[-200:]}
        # does the change still break the property on the current tree?
        base = name
        os.makedirs(os.path.join(B, "_seed", base), exist_ok=True)
        shutil.copy(os.path.join(seed, "demo.py"), os.path.join(B, "_seed", base, "demo.py"))
        drc, dout = sh("/venv/bin/python _seed/%s/demo.py" % base, cwd=B, env={"PYTHONPATH": B}, timeout=600)
        res = {"demo_patched": drc}
        for c in ALSO.get(name, [pid]):
            rc, out = sh("%s/check %s" % (VERIF, c), env={"VERIF_REPO": B, "VERIF_EVIDENCE_DIR": os.path.join(work, "ev")})
            sigs = [l.strip() for l in out.split("\n") if l.startswith("  clause=")]
            res[c] = {"rc": rc, "sigs": sigs[:3], "tail": out[-160:] if rc not in (0, 1) else ""}
        rcs = [v["rc"] for k, v in res.items() if isinstance(v, dict)]
        if drc == 0:
            res["status"] = "harmless-now"
        elif any(r == 1 for r in rcs):
            res["status"] = "detected"
        elif any(r not in (0, 1) for r in rcs):
            res["status"] = "MACHINERY"
        else:
            res["status"] = "MISSED"
        return name, res
    finally:
        shutil.rmtree(work, ignore_errors=True)


def main():
    args = sys.argv[1:]
    j = 4
    if args[:1] == ["-j"]:
        j = int(args[1])
        args = args[2:]
    names = args or sorted(os.listdir(os.path.join(VERIF, "seeded")))
    out = {}
    with ThreadPoolExecutor(j) as ex:
        for name, res in ex.map(one, names):
            out[name] = res
            print(name, res["status"], {k: (v["rc"], v["sigs"][:1]) for k, v in res.items() if isinstance(v, dict)}, flush=True)
    os.makedirs(os.path.join(VERIF, "build"), exist_ok=True)
    json.dump(out, open(os.path.join(VERIF, "build", "sweep.json"), "w"), indent=1)
    bad = [n for n, r in out.items() if r["status"] in ("MISSED", "MACHINERY")]
    print("swept %d, not detected: %s" % (len(out), bad))
    return 1 if bad else 0


if __name__ == "__main__":
    sys.exit(main())
