#!/bin/sh
# usage: tools_mutant.sh <patch-file> <check args...>   -- run a check against a scratch copy of /repo with the patch applied
set -e
P="$1"; shift
D=$(mktemp -d /tmp/mut-XXXXXX)
trap 'rm -rf "$D"' EXIT
rsync -a --exclude .git --exclude __pycache__ /repo/ "$D/"
(cd "$D" && patch -p1 -s < "$P")
VERIF_EVIDENCE_DIR="$D/.evidence" VERIF_REPO="$D" /verif/check "$@"
